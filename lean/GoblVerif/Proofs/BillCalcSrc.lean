/-
  BillCalcSrc (proofs): the regenerated translations of /repo/bill and
  /repo/pay (Generated/BillCalcSrc.lean, Generated/PayCalcSrc.lean) equal the
  hand-written functions of Model/Calc.lean, for all arguments.  Props/C01.lean
  (namespace Src) restates the results as the audited theorems.

  * loop principles for the EFFECT LOOPS of go2lean_effects.go (a loop that
    rebuilds the list it ranges over, possibly threading a state);
  * the conversions between the emitted Go structures (LineDiscount, SubLine,
    Line, Item) and the model's records;
  * one lemma per translated function.
-/
import GoblVerif.Generated.BillCalcSrc
import GoblVerif.Proofs.GoSemList

namespace GoblVerif.Proofs.BillCalcSrc
open GoblVerif GoblVerif.Calc GoblVerif.CalcSrc GoblVerif.GoSem GoblVerif.Generated

/-! ## loop principles -/

/-- an effect loop without other state: the list is mapped -/
theorem forList_map {α β : Type} (body : α → List β → ForInStep (List β)) (f : α → β)
    (hb : ∀ x s, body x s = .yield (s ++ [f x])) (l : List α) (acc : List β) :
    forList body l acc = acc ++ l.map f := by
  induction l generalizing acc with
  | nil => simp [forList]
  | cons a l ih => simp only [forList, hb, ih, List.map_cons, List.append_assoc, List.singleton_append]

/-- the same over `l.zipIdx` when the body ignores the index -/
theorem forList_map_zipIdx {α β : Type} (body : α × Nat → List β → ForInStep (List β)) (f : α → β)
    (hb : ∀ x s, body x s = .yield (s ++ [f x.1])) (l : List α) (k : Nat) (acc : List β) :
    forList body (l.zipIdx k) acc = acc ++ l.map f := by
  induction l generalizing acc k with
  | nil => simp [forList]
  | cons a l ih =>
    simp only [List.zipIdx_cons, forList, hb, ih, List.map_cons, List.append_assoc, List.singleton_append]

/-- an effect loop that threads a state `σ` (state first, rebuilt list second) -/
def effRun {α β σ : Type} (g : σ → α → σ) (h : σ → α → β) : List α → σ → σ × List β
  | [], s => (s, [])
  | x :: xs, s => let r := effRun g h xs (g s x); (r.1, h s x :: r.2)

theorem forList_effect {α β σ : Type} (body : α → σ × List β → ForInStep (σ × List β))
    (g : σ → α → σ) (h : σ → α → β)
    (hb : ∀ x s, body x s = .yield (g s.1 x, s.2 ++ [h s.1 x])) (l : List α) (s : σ) (acc : List β) :
    forList body l (s, acc) = ((effRun g h l s).1, acc ++ (effRun g h l s).2) := by
  induction l generalizing s acc with
  | nil => simp [forList, effRun]
  | cons a l ih => simp only [forList, hb, ih, effRun, List.append_assoc, List.singleton_append]

/-- a loop that folds over the elements that carry a value -/
theorem forList_foldl_filterMap {α β σ : Type} (body : α → σ → ForInStep σ) (p : α → Option β) (g : σ → β → σ)
    (hb : ∀ x s, body x s = .yield (match p x with | some y => g s y | none => s)) (l : List α) (s : σ) :
    forList body l s = (l.filterMap p).foldl g s := by
  induction l generalizing s with
  | nil => simp [forList]
  | cons a l ih =>
    simp only [forList, hb, ih, List.filterMap_cons]
    cases p a <;> simp

@[simp] theorem some_get! {α : Type} [Inhabited α] (x : α) : (some x).get! = x := rfl

theorem matchPrecision_add (o : Ops) (s x : Amount) : add o (matchPrecision s x) x = accum o s x := rfl


/-! ## sums -/

theorem calculateLineSum_eq (o : Ops) (sub : String → Nat) (ls : List BillCalcSrc.Line) (cur : String) :
    BillCalcSrc.calculateLineSum o sub ls cur = (ls.filterMap (·.Total)).foldl (accum o) ⟨0, sub cur⟩ := by
  unfold BillCalcSrc.calculateLineSum
  simp only [forIn_list_id, pure_bind]
  simp only [Id.run, id_pure]
  rw [forList_foldl_filterMap _ (·.Total) (accum o)]
  · rfl
  · intro x s
    cases h : x.Total <;> simp [matchPrecision_add]

theorem forList_accum (o : Ops) {α : Type} (f : α → Amount) (l : List α) (s : Amount) :
    forList (fun x s => ForInStep.yield (add o (matchPrecision s (f x)) (f x))) l s = (l.map f).foldl (accum o) s := by
  induction l generalizing s with
  | nil => rfl
  | cons a l ih => simp only [forList, ih, List.map_cons, List.foldl_cons]; rfl

theorem length_zero_iff {α : Type} (l : List α) : ((l.length : Int) = 0) ↔ l.isEmpty = true := by
  cases l with
  | nil => simp
  | cons a l => simp; omega

theorem calculateDiscountSum_eq (o : Ops) (sub : String → Nat) (ds : List DocAdj) (cur : String) :
    BillCalcSrc.calculateDiscountSum o sub ds cur = adjSum o (sub cur) ds := by
  unfold BillCalcSrc.calculateDiscountSum adjSum
  simp only [forIn_list_id, bind_pure_comp]
  simp only [Id.run, id_pure, length_zero_iff, forList_accum o (fun x : DocAdj => x.amount)]
  rfl

theorem calculateChargeSum_eq (o : Ops) (sub : String → Nat) (ds : List DocAdj) (cur : String) :
    BillCalcSrc.calculateChargeSum o sub ds cur = adjSum o (sub cur) ds := by
  unfold BillCalcSrc.calculateChargeSum adjSum
  simp only [forIn_list_id, bind_pure_comp]
  simp only [Id.run, id_pure, length_zero_iff, forList_accum o (fun x : DocAdj => x.amount)]
  rfl

/-! ## document discounts and charges -/

theorem calculateDiscounts_eq (o : Ops) (sub : String → Nat) (ds : List DocAdj) (cur : String) (sum : Amount) (rr : String) :
    BillCalcSrc.calculateDiscounts o sub ds cur sum rr = ds.map (docAdj o (ruleOf rr) (sub cur) sum) := by
  unfold BillCalcSrc.calculateDiscounts
  simp only [forIn_list_id, pure_bind]
  simp only [Id.run, id_pure, length_zero_iff]
  split
  · rename_i h; cases ds <;> simp_all
  · rw [forList_map_zipIdx _ (docAdj o (ruleOf rr) (sub cur) sum)]
    · simp
    · intro x s
      obtain ⟨⟨pc, b, am, tx⟩, i⟩ := x
      cases pc with
      | none => simp [docAdj, applyRoundingRule]
      | some p =>
        cases hz : pctIsZero p <;> cases b <;> simp [docAdj, applyRoundingRule, hz, E]


theorem calculateCharges_eq (o : Ops) (sub : String → Nat) (ds : List DocAdj) (cur : String) (sum : Amount) (rr : String) :
    BillCalcSrc.calculateCharges o sub ds cur sum rr = ds.map (docAdj o (ruleOf rr) (sub cur) sum) := by
  unfold BillCalcSrc.calculateCharges
  simp only [forIn_list_id, pure_bind]
  simp only [Id.run, id_pure, length_zero_iff]
  split
  · rename_i h; cases ds <;> simp_all
  · rw [forList_map_zipIdx _ (docAdj o (ruleOf rr) (sub cur) sum)]
    · simp
    · intro x s
      obtain ⟨⟨pc, b, am, tx⟩, i⟩ := x
      cases pc with
      | none => simp [docAdj, applyRoundingRule]
      | some p =>
        cases hz : pctIsZero p <;> cases b <;> simp [docAdj, applyRoundingRule, hz, E]


/-! ## line discounts and charges -/

/-- a Go `LineDiscount` as the model's row (a discount has neither rate nor quantity) -/
def toAdj (d : BillCalcSrc.LineDiscount) : LineAdj := ⟨d.Percent, d.Base, d.Amount, none, none⟩
def ofAdj (a : LineAdj) : BillCalcSrc.LineDiscount := ⟨a.base, a.percent, a.amount⟩

theorem ofAdj_toAdj (d : BillCalcSrc.LineDiscount) : ofAdj (toAdj d) = d := rfl

theorem toAdj_ofAdj_step (o : Ops) (r : Rule) (c : Nat) (sum t : Amount) (d : BillCalcSrc.LineDiscount) :
    toAdj (ofAdj (lineDiscountStep o r c sum t (toAdj d)).1) = (lineDiscountStep o r c sum t (toAdj d)).1 := by
  obtain ⟨b, p, a⟩ := d
  simp only [lineDiscountStep, adjUp, adjPct, toAdj, ofAdj]
  cases p with
  | none => rfl
  | some p => cases hz : pctIsZero p <;> cases b <;> simp [hz]

theorem effRun_lineDiscounts (o : Ops) (r : Rule) (c : Nat) (sum : Amount) (ds : List BillCalcSrc.LineDiscount) (t : Amount) :
    let e := effRun (fun s x => (lineDiscountStep o r c sum s (toAdj x)).2)
      (fun s x => ofAdj (lineDiscountStep o r c sum s (toAdj x)).1) ds t
    (e.2.map toAdj, e.1) = lineDiscounts o r c sum (ds.map toAdj) t := by
  induction ds generalizing t with
  | nil => rfl
  | cons d ds ih =>
    simp only [effRun, List.map_cons, lineDiscounts, toAdj_ofAdj_step]
    have := ih (lineDiscountStep o r c sum t (toAdj d)).2
    simp only at this
    rw [← this]

theorem calculateLineDiscounts_eq (o : Ops) (sub : String → Nat) (ds : List BillCalcSrc.LineDiscount)
    (sum total : Amount) (cur rr : String) :
    let r := BillCalcSrc.calculateLineDiscounts o sub ds sum total cur rr
    (r.2.map toAdj, r.1) = lineDiscounts o (ruleOf rr) (sub cur) sum (ds.map toAdj) total := by
  unfold BillCalcSrc.calculateLineDiscounts
  simp only [forIn_list_id, pure_bind, bind_pure_comp]
  simp only [Id.run, id_pure]
  rw [forList_effect _ (fun s x => (lineDiscountStep o (ruleOf rr) (sub cur) sum s (toAdj x)).2)
      (fun s x => ofAdj (lineDiscountStep o (ruleOf rr) (sub cur) sum s (toAdj x)).1)]
  · simpa using effRun_lineDiscounts o (ruleOf rr) (sub cur) sum ds total
  · intro x s
    obtain ⟨b, p, a⟩ := x
    cases p with
    | none => simp [lineDiscountStep, adjUp, adjPct, toAdj, ofAdj]
    | some p =>
      cases hz : pctIsZero p <;> cases b <;>
        simp [lineDiscountStep, adjUp, adjPct, toAdj, ofAdj, hz, applyRoundingRule, E]


theorem effRun_lineCharges (o : Ops) (r : Rule) (c : Nat) (q sum : Amount) (cs : List LineAdj) (t : Amount) :
    let e := effRun (fun s x => (lineChargeStep o r c q sum s x).2) (fun s x => (lineChargeStep o r c q sum s x).1) cs t
    (e.2, e.1) = lineCharges o r c q sum cs t := by
  induction cs generalizing t with
  | nil => rfl
  | cons d ds ih =>
    simp only [effRun, lineCharges]
    have := ih (lineChargeStep o r c q sum t d).2
    simp only at this
    rw [← this]

theorem calculateLineCharges_eq (o : Ops) (sub : String → Nat) (cs : List LineAdj)
    (q sum total : Amount) (cur rr : String) :
    let r := BillCalcSrc.calculateLineCharges o sub cs q sum total cur rr
    (r.2, r.1) = lineCharges o (ruleOf rr) (sub cur) q sum cs total := by
  unfold BillCalcSrc.calculateLineCharges
  simp only [forIn_list_id, pure_bind, bind_pure_comp]
  simp only [Id.run, id_pure]
  rw [forList_effect _ (fun s x => (lineChargeStep o (ruleOf rr) (sub cur) q sum s x).2)
      (fun s x => (lineChargeStep o (ruleOf rr) (sub cur) q sum s x).1)]
  · simpa using effRun_lineCharges o (ruleOf rr) (sub cur) q sum cs total
  · intro x s
    obtain ⟨p, b, a, rt, qt⟩ := x
    cases p with
    | none => cases rt <;> cases qt <;> simp [lineChargeStep, adjUp, adjPct, adjRate]
    | some p =>
      cases hz : pctIsZero p <;> cases b <;> cases rt <;> cases qt <;>
        simp [lineChargeStep, adjUp, adjPct, adjRate, hz, applyRoundingRule, E]


/-! ## totals -/

theorem Totals_round_eq (o : Ops) (sub : String → Nat) (t : Totals) (zero : Amount) :
    BillCalcSrc.Totals_round o sub t zero = roundTotals o zero.exp t := by
  obtain ⟨s, d, c, ti, tot, txs, tx, twt, rd, pay, adv, due⟩ := t
  cases d <;> cases c <;> cases ti <;> cases adv <;> cases due <;>
    simp [BillCalcSrc.Totals_round, roundTotals, Id.run, id_pure]

theorem Totals_reset_eq (o : Ops) (sub : String → Nat) (t : Totals) (zero : Amount) :
    BillCalcSrc.Totals_reset o sub t zero =
      { sum := zero, discount := none, charge := none, taxIncluded := none, total := zero, taxes := none, tax := zero,
        totalWithTax := zero, rounding := t.rounding, payable := zero, advances := none, due := none } := by
  simp [BillCalcSrc.Totals_reset, Id.run, id_pure]

/-! ## document discount / charge presentation -/

theorem Discount_round_eq (o : Ops) (sub : String → Nat) (m : DocAdj) (cur : String) :
    BillCalcSrc.Discount_round o sub m cur = roundDocAdj o (sub cur) m := by
  obtain ⟨p, b, a, tx⟩ := m
  cases b with
  | none => simp [BillCalcSrc.Discount_round, roundDocAdj, Id.run, id_pure]
  | some b =>
    by_cases h : b.exp > sub cur <;> simp [BillCalcSrc.Discount_round, roundDocAdj, Id.run, id_pure, h]

theorem Charge_round_eq (o : Ops) (sub : String → Nat) (m : DocAdj) (cur : String) :
    BillCalcSrc.Charge_round o sub m cur = roundDocAdj o (sub cur) m := by
  obtain ⟨p, b, a, tx⟩ := m
  cases b with
  | none => simp [BillCalcSrc.Charge_round, roundDocAdj, Id.run, id_pure]
  | some b =>
    by_cases h : b.exp > sub cur <;> simp [BillCalcSrc.Charge_round, roundDocAdj, Id.run, id_pure, h]

theorem roundDiscounts_eq (o : Ops) (sub : String → Nat) (ds : List DocAdj) (cur : String) :
    BillCalcSrc.roundDiscounts o sub ds cur = ds.map (roundDocAdj o (sub cur)) := by
  unfold BillCalcSrc.roundDiscounts
  simp only [forIn_list_id, pure_bind]
  simp only [Id.run, id_pure]
  rw [forList_map _ (roundDocAdj o (sub cur))]
  · simp
  · intro x s; simp [Discount_round_eq]

theorem roundCharges_eq (o : Ops) (sub : String → Nat) (ds : List DocAdj) (cur : String) :
    BillCalcSrc.roundCharges o sub ds cur = ds.map (roundDocAdj o (sub cur)) := by
  unfold BillCalcSrc.roundCharges
  simp only [forIn_list_id, pure_bind]
  simp only [Id.run, id_pure]
  rw [forList_map _ (roundDocAdj o (sub cur))]
  · simp
  · intro x s; simp [Charge_round_eq]

/-! ## advances and due dates -/

theorem Advance_CalculateFrom_eq (o : Ops) (sub : String → Nat) (a : Advance) (twt : Amount) :
    PayCalcSrc.Advance_CalculateFrom o sub a twt =
      (match a.percent with | some p => { a with amount := pctOf o p twt } | none => a) := by
  obtain ⟨p, am⟩ := a
  cases p <;> simp [PayCalcSrc.Advance_CalculateFrom, Id.run, id_pure]

theorem calculateAdvances_eq (o : Ops) (sub : String → Nat) (p : BillCalcSrc.PaymentDetails) (zero twt : Amount) :
    BillCalcSrc.PaymentDetails_calculateAdvances o sub p zero twt =
      { p with Advances := p.Advances.map (calcAdvance o zero.exp twt) } := by
  unfold BillCalcSrc.PaymentDetails_calculateAdvances
  simp only [forIn_list_id, pure_bind]
  simp only [Id.run, id_pure]
  rw [forList_map _ (calcAdvance o zero.exp twt)]
  · simp
  · intro x s
    obtain ⟨pc, am⟩ := x
    cases pc <;> simp [Advance_CalculateFrom_eq, calcAdvance, matchPrecision]

theorem effRun_indep {α β σ : Type} (g : σ → α → σ) (f : α → β) (l : List α) (s : σ) :
    effRun g (fun _ x => f x) l s = (l.foldl g s, l.map f) := by
  induction l generalizing s with
  | nil => rfl
  | cons a l ih => simp [effRun, ih]

theorem totalAdvance_eq (o : Ops) (sub : String → Nat) (p : BillCalcSrc.PaymentDetails) (zero : Amount) :
    BillCalcSrc.PaymentDetails_totalAdvance o sub (some p) zero =
      (if p.Advances.isEmpty then (none, some p) else
        (some ((p.Advances.map (·.amount)).foldl (accum o) zero),
         some { p with Advances := p.Advances.map (fun a => { a with amount := o.rescale a.amount zero.exp }) })) := by
  unfold BillCalcSrc.PaymentDetails_totalAdvance
  simp only [forIn_list_id, pure_bind, bind_pure_comp]
  simp only [Id.run, id_pure, length_zero_iff]
  rw [forList_effect _ (fun s (x : Advance) => accum o s x.amount)
      (fun _ (x : Advance) => ({ x with amount := o.rescale x.amount zero.exp } : Advance))]
  · rw [effRun_indep]
    simp only [List.foldl_map, some_get!, Option.isNone_some, Bool.false_eq_true, false_or, List.nil_append]
    by_cases h : p.Advances.isEmpty = true
    · simp only [h, if_true]
    · simp only [h, if_false]; rfl
  · intro x s; rfl

theorem totalAdvance_none (o : Ops) (sub : String → Nat) (zero : Amount) :
    BillCalcSrc.PaymentDetails_totalAdvance o sub none zero = (none, none) := by
  simp [BillCalcSrc.PaymentDetails_totalAdvance, Id.run, id_pure]


theorem CalculateDues_eq (o : Ops) (sub : String → Nat) (t : PayCalcSrc.Terms) (zero sum : Amount) :
    PayCalcSrc.Terms_CalculateDues o sub (some t) zero sum =
      some { t with DueDates := t.DueDates.map (calcDue o zero.exp sum) } := by
  unfold PayCalcSrc.Terms_CalculateDues
  simp only [forIn_list_id, pure_bind]
  simp only [Id.run, id_pure]
  rw [forList_map _ (calcDue o zero.exp sum)]
  · simp
  · intro x s
    obtain ⟨pc, am⟩ := x
    cases pc with
    | none => simp [calcDue]
    | some p => cases hz : pctIsZero p <;> simp [calcDue, hz]

theorem CalculateDues_none (o : Ops) (sub : String → Nat) (zero sum : Amount) :
    PayCalcSrc.Terms_CalculateDues o sub none zero sum = none := by
  simp [PayCalcSrc.Terms_CalculateDues, Id.run, id_pure]

/-- the price exponent `determineSubLinePrecision` looks at -/
def priceOf (sl : BillCalcSrc.SubLine) : Option Amount := sl.Item.bind (·.Price)

theorem determineSubLinePrecision_eq (o : Ops) (sub : String → Nat) (sls : List BillCalcSrc.SubLine) :
    BillCalcSrc.determineSubLinePrecision o sub sls =
      sls.foldl (fun e sl => match priceOf sl with | some p => if p.exp > e then p.exp else e | none => e) 0 := by
  unfold BillCalcSrc.determineSubLinePrecision
  simp only [forIn_list_id, pure_bind]
  simp only [Id.run, id_pure]
  rw [← forList_fold]
  congr 1
  funext sl e
  obtain ⟨q, it, sm, ds, cs, tt⟩ := sl
  cases it with
  | none => simp [priceOf]
  | some it =>
    obtain ⟨cur, pr, alts⟩ := it
    cases pr with
    | none => simp [priceOf]
    | some p => by_cases h : p.exp > e <;> simp [priceOf, h]


/-! ## presentation rounding of lines -/

/-- a Go sub-line as the model's record; `fI` converts the item (the model's item also carries the subunits of its currency) -/
def toSubLine (fI : BillCalcSrc.Item → Item) (sl : BillCalcSrc.SubLine) : SubLine :=
  { qty := sl.Quantity, item := sl.Item.map fI, discounts := sl.Discounts.map toAdj, charges := sl.Charges,
    sum := sl.Sum, total := sl.Total }

/-- a Go line as the model's record (`Substituted` has no counterpart in the model: no effect on any total) -/
def toLine (fI : BillCalcSrc.Item → Item) (l : BillCalcSrc.Line) : Line :=
  { qty := l.Quantity, item := l.Item.map fI, discounts := l.Discounts.map toAdj, charges := l.Charges,
    breakdown := l.Breakdown.map (toSubLine fI), taxes := l.Taxes, sum := l.Sum, total := l.Total }

theorem LineDiscount_round_eq (o : Ops) (sub : String → Nat) (d : BillCalcSrc.LineDiscount) (e : Nat) :
    toAdj (BillCalcSrc.LineDiscount_round o sub d e) = roundAdj o e (toAdj d) := by
  simp [BillCalcSrc.LineDiscount_round, Id.run, id_pure, toAdj, roundAdj]

theorem LineCharge_round_eq (o : Ops) (sub : String → Nat) (c : LineAdj) (e : Nat) :
    BillCalcSrc.LineCharge_round o sub c e = roundAdj o e c := by
  simp [BillCalcSrc.LineCharge_round, Id.run, id_pure, roundAdj]

theorem SubLine_round_eq' (o : Ops) (sub : String → Nat) (sl : BillCalcSrc.SubLine) (e : Nat) :
    BillCalcSrc.SubLine_round o sub sl e = { sl with Sum := sl.Sum.map (down o · e), Total := sl.Total.map (down o · e) } := by
  obtain ⟨q, it, sm, ds, cs, tt⟩ := sl
  cases sm <;> cases tt <;> simp [BillCalcSrc.SubLine_round, Id.run, id_pure]

theorem SubLine_round_eq (o : Ops) (sub : String → Nat) (fI : BillCalcSrc.Item → Item) (sl : BillCalcSrc.SubLine) (e : Nat) :
    toSubLine fI (BillCalcSrc.SubLine_round o sub sl e) = roundSubLine o e (toSubLine fI sl) := by
  rw [SubLine_round_eq']; rfl

theorem determineSubLinePrecision_model (o : Ops) (sub : String → Nat) (fI : BillCalcSrc.Item → Item)
    (hfI : ∀ it, (fI it).price = it.Price) (sls : List BillCalcSrc.SubLine) :
    BillCalcSrc.determineSubLinePrecision o sub sls = subLinePrecision (sls.map (toSubLine fI)) := by
  rw [determineSubLinePrecision_eq]
  unfold subLinePrecision
  rw [List.foldl_map]
  congr 1
  funext e sl
  obtain ⟨q, it, sm, ds, cs, tt⟩ := sl
  cases it with
  | none => simp [priceOf, toSubLine]
  | some it =>
    have := hfI it
    obtain ⟨cur, pr, alts⟩ := it
    cases pr <;> simp_all [priceOf, toSubLine]

theorem forList_map' {α β : Type} (f : α → β) (l : List α) (acc : List β) :
    forList (fun x s => ForInStep.yield (s ++ [f x])) l acc = acc ++ l.map f :=
  forList_map _ f (fun _ _ => rfl) l acc

theorem Line_round_eq' (o : Ops) (sub : String → Nat) (l : BillCalcSrc.Line) :
    BillCalcSrc.Line_round o sub l =
      (match l.Item.bind (·.Price) with
       | none => l
       | some p =>
         { l with Sum := l.Sum.map (down o · p.exp), Total := l.Total.map (down o · p.exp),
                  Discounts := l.Discounts.map (BillCalcSrc.LineDiscount_round o sub · p.exp),
                  Charges := l.Charges.map (roundAdj o p.exp),
                  Breakdown := l.Breakdown.map (BillCalcSrc.SubLine_round o sub · p.exp),
                  Substituted := l.Substituted.map (BillCalcSrc.SubLine_round o sub · p.exp) }) := by
  unfold BillCalcSrc.Line_round
  simp only [forIn_list_id, pure_bind, bind_pure_comp]
  simp only [Id.run, id_pure, forList_map', List.nil_append]
  obtain ⟨q, it, bd, sm, ds, cs, tx, tt, sb⟩ := l
  cases it with
  | none => simp
  | some it =>
    obtain ⟨cur, pr, alts⟩ := it
    cases pr with
    | none => simp
    | some p =>
      cases sm <;> cases tt <;> simp [LineCharge_round_eq] <;> rfl

theorem Line_round_eq (o : Ops) (sub : String → Nat) (fI : BillCalcSrc.Item → Item)
    (hfI : ∀ it, (fI it).price = it.Price) (l : BillCalcSrc.Line) :
    toLine fI (BillCalcSrc.Line_round o sub l) = roundLine o (toLine fI l) := by
  rw [Line_round_eq']
  obtain ⟨q, it, bd, sm, ds, cs, tx, tt, sb⟩ := l
  cases it with
  | none => rfl
  | some it =>
    have h := hfI it
    obtain ⟨cur, pr, alts⟩ := it
    cases pr with
    | none => simp only [toLine, roundLine, Option.map_some, h]; simp
    | some p =>
      simp only [toLine, roundLine, Option.map_some, h, Option.bind_some, List.map_map]
      congr 1
      apply List.map_congr_left; intro d _; exact SubLine_round_eq o sub fI d p.exp

theorem roundLines_eq' (o : Ops) (sub : String → Nat) (ls : List BillCalcSrc.Line) :
    BillCalcSrc.roundLines o sub ls = ls.map (BillCalcSrc.Line_round o sub) := by
  unfold BillCalcSrc.roundLines
  simp only [forIn_list_id, pure_bind]
  simp only [Id.run, id_pure, forList_map', List.nil_append]

theorem roundLines_eq (o : Ops) (sub : String → Nat) (fI : BillCalcSrc.Item → Item)
    (hfI : ∀ it, (fI it).price = it.Price) (ls : List BillCalcSrc.Line) :
    (BillCalcSrc.roundLines o sub ls).map (toLine fI) = (ls.map (toLine fI)).map (roundLine o) := by
  rw [roundLines_eq', List.map_map, List.map_map]
  apply List.map_congr_left; intro l _; exact Line_round_eq o sub fI hfI l


/-! ## the error-returning functions of bill/line_calculate.go (go2lean_errfn.go) -/

/-- the search loop of an Except-valued function: `for x in l { if p x { …; return r } }` -/
theorem forIn_except_find {ε α σ ρ : Type} (p : α → Prop) [DecidablePred p] (g : α → ρ × σ)
    (body : α → Option ρ × σ → Except ε (ForInStep (Option ρ × σ)))
    (hb : ∀ x s, body x s = if p x then pure (ForInStep.done (some (g x).1, (g x).2)) else pure (ForInStep.yield (none, s.2)))
    (l : List α) (s0 : σ) :
    forIn l ((none : Option ρ), s0) body
      = pure (match l.find? (fun x => decide (p x)) with
              | some x => (some (g x).1, (g x).2)
              | none => (none, s0)) := by
  induction l with
  | nil => rfl
  | cons a l ih =>
    rw [List.forIn_cons, hb]
    by_cases h : p a
    · simp [h, List.find?_cons]
    · simp only [h, if_false, List.find?_cons, decide_false]
      exact ih

def toAlt (a : BillCalcSrc.CurAmount) : String × Amount := (a.Currency, a.Value)

/-- a Go item as the model's: the model's item carries the subunits of its currency (the document's when it names none) -/
def toItem (sub : String → Nat) (cur : String) (it : BillCalcSrc.Item) : Item :=
  { price := it.Price, cur := it.Currency, sub := sub (if it.Currency = "" then cur else it.Currency),
    alts := it.AltPrices.map toAlt }

theorem convertRates_eq (o : Ops) (sub : String → Nat) (rates : List XRate) (hr : ∀ r ∈ rates, r.toSub = sub r.to)
    (f t : String) (h : f ≠ t) (a : Amount) :
    convertRates o sub rates f t a = (findRate rates f t).map (fun r => convert o r a) := by
  unfold convertRates
  simp only [h, if_false]
  cases hf : findRate rates f t with
  | none => rfl
  | some r =>
    have hm : r ∈ rates := List.mem_of_find?_eq_some hf
    have := hr r hm
    obtain ⟨a1, a2, a3, a4⟩ := r
    simp_all

/-- the item after the alternative price `x` in the document's currency has been taken -/
def altItem (sub : String → Nat) (ic : String) (p0 : Amount) (x : BillCalcSrc.CurAmount) : BillCalcSrc.Item :=
  { Currency := x.Currency, Price := some (matchPrecision x.Value ⟨0, sub x.Currency⟩),
    AltPrices := [⟨ic, matchPrecision p0 ⟨0, sub ic⟩⟩] }

theorem calculateLineItemPrice_eq (o : Ops) (sub : String → Nat) (it : BillCalcSrc.Item) (p0 : Amount)
    (hp : it.Price = some p0) (cur : String) (rates : List XRate) (hr : ∀ r ∈ rates, r.toSub = sub r.to) :
    toModel (toItem sub cur) (BillCalcSrc.calculateLineItemPrice o sub it cur rates)
      = itemPrice o cur (sub cur) rates (toItem sub cur it) p0 := by
  obtain ⟨ic, pr, alts⟩ := it
  simp only at hp
  subst hp
  unfold BillCalcSrc.calculateLineItemPrice itemPrice
  simp only [Option.isNone_some, Bool.false_eq_true, if_false, some_get!]
  by_cases h1 : ic = ""
  · subst h1
    simp [toModel, toItem, matchPrecision, pure, Except.pure]
  · by_cases h2 : ic = cur
    · subst h2
      simp [toModel, toItem, matchPrecision, h1, pure, Except.pure]
    · simp only [h1, h2, if_false, or_self]
      rw [forIn_except_find (fun x : BillCalcSrc.CurAmount => x.Currency = cur)
        (fun x => (altItem sub ic p0 x, (altItem sub ic p0 x, matchPrecision x.Value ⟨0, sub x.Currency⟩)))]
      rotate_left
      · intro x s; rfl
      simp only [toItem, h1, if_false, List.find?_map]
      cases hf : alts.find? (fun x => decide (x.Currency = cur)) with
      | some ap =>
        have hc : ap.Currency = cur := by simpa using List.find?_some hf
        have : List.find? ((fun ap => ap.1 == cur) ∘ toAlt) alts = some ap := by
          rw [← hf]; congr 1
        simp only [pure_bind]
        simp [toModel, toItem, this, toAlt, matchPrecision, hc, h1, h2, altItem, pure, Except.pure]
      | none =>
        have : List.find? ((fun ap => ap.1 == cur) ∘ toAlt) alts = none := by
          rw [← hf]; congr 1
        simp only [this, Option.map_none, pure_bind, bind_pure_comp]
        rw [convertRates_eq o sub rates hr ic cur h2]
        cases hfr : findRate rates ic cur with
        | none => simp [toModel, errOf, GoErr.leaf, noRateFormat, throw, throwThe, MonadExceptOf.throw, Functor.map, Except.map, h1, h2]
        | some r => simp [toModel, toItem, toAlt, matchPrecision, pure, Except.pure, h1, h2]
theorem ruleOf_precise (rr : String) : (ruleOf rr == Rule.precise) = decide (rr = "precise") := by
  unfold ruleOf
  by_cases h : rr = "precise"
  · subst h; decide
  · by_cases h2 : rr = "currency"
    · subst h2; decide
    · simp [h, h2]

theorem itemPrice_ok_price (o : Ops) (cur : String) (c : Nat) (rates : List XRate) (it it' : Item) (p0 : Amount)
    (h : itemPrice o cur c rates it p0 = .ok it') : ∃ p, it'.price = some p := by
  unfold itemPrice at h
  split at h
  · cases h; exact ⟨_, rfl⟩
  · split at h
    · cases h; exact ⟨_, rfl⟩
    · split at h
      · cases h; exact ⟨_, rfl⟩
      · cases h

theorem calculateSubLine_eq (o : Ops) (sub : String → Nat) (sl : BillCalcSrc.SubLine) (cur : String)
    (rates : List XRate) (rr : String) (hr : ∀ r ∈ rates, r.toSub = sub r.to) :
    toModel (toSubLine (toItem sub cur)) (BillCalcSrc.calculateSubLine o sub sl cur rates rr)
      = calcSubLine o cur (sub cur) rates (ruleOf rr) (toSubLine (toItem sub cur) sl) := by
  obtain ⟨q, it, sm, ds, cs, tt⟩ := sl
  unfold BillCalcSrc.calculateSubLine calcSubLine
  cases it with
  | none => simp [toModel, toSubLine, pure, Except.pure]
  | some it =>
    cases hp : it.Price with
    | none => simp [toModel, toSubLine, toItem, hp, pure, Except.pure]
    | some p0 =>
      have hi := calculateLineItemPrice_eq o sub it p0 hp cur rates hr
      simp only [toSubLine, Option.map_some, toItem, hp, Option.isNone_some, Bool.false_eq_true, if_false, some_get!]
      simp only [toItem, hp] at hi
      rw [← hi]
      cases hc : BillCalcSrc.calculateLineItemPrice o sub it cur rates with
      | error e => simp [toModel, bind, Except.bind]
      | ok t0 =>
        rw [hc] at hi
        obtain ⟨p, hp'⟩ := itemPrice_ok_price _ _ _ _ _ _ _ hi.symm
        have hp'' : t0.Price = some p := hp'
        have hd := calculateLineDiscounts_eq o sub ds
        have hcg := calculateLineCharges_eq o sub cs q
        simp only at hd hcg
        simp only [toModel, bind, Except.bind, pure, Except.pure, hp', hp'', some_get!, Option.getD_some, ruleOf_precise,
          applyRoundingRule, E, ← hd, ← hcg]
        by_cases hpr : rr = "precise" <;> simp [hpr, toItem, toSubLine, hp'']
/-- `for x in l { y, err := step(x); if err != nil { return err }; … }` as a recursion -/
def mapE {ε α β : Type} (f : α → Except ε β) : List α → Except ε (List β)
  | [] => .ok []
  | x :: xs =>
    match f x with
    | .error e => .error e
    | .ok y =>
      match mapE f xs with
      | .error e => .error e
      | .ok ys => .ok (y :: ys)

/-- an effect loop of an error function that threads a state: every element is replaced by the result of `step`, the first error ends everything -/
theorem forIn_except_effect {ε α β σ : Type} (step : α → Except ε β) (g : σ → β → σ)
    (body : α → List β × σ → Except ε (ForInStep (List β × σ)))
    (hb : ∀ x s, body x s = match step x with
      | .error e => .error e
      | .ok y => .ok (.yield (s.1 ++ [y], g s.2 y)))
    (l : List α) (acc : List β) (s : σ) :
    forIn l (acc, s) body = match mapE step l with
      | .error e => .error e
      | .ok ys => .ok (acc ++ ys, ys.foldl g s) := by
  induction l generalizing acc s with
  | nil => simp [mapE, pure, Except.pure]
  | cons a l ih =>
    rw [List.forIn_cons, hb]
    simp only [mapE]
    cases step a with
    | error e => rfl
    | ok y =>
      simp only [bind, Except.bind]
      rw [ih]
      cases mapE step l with
      | error e => rfl
      | ok ys => simp

/-- the same without other state -/
theorem forIn_except_map {ε α β : Type} (step : α → Except ε β)
    (body : α → List β → Except ε (ForInStep (List β)))
    (hb : ∀ x s, body x s = match step x with
      | .error e => .error e
      | .ok y => .ok (.yield (s ++ [y])))
    (l : List α) (acc : List β) :
    forIn l acc body = match mapE step l with
      | .error e => .error e
      | .ok ys => .ok (acc ++ ys) := by
  induction l generalizing acc with
  | nil => simp [mapE, pure, Except.pure]
  | cons a l ih =>
    rw [List.forIn_cons, hb]
    simp only [mapE]
    cases step a with
    | error e => rfl
    | ok y =>
      simp only [bind, Except.bind]
      rw [ih]
      cases mapE step l with
      | error e => rfl
      | ok ys => simp


/-! ## `calculateLine` and `calculateLines` (B22)

`calculateLine` is cut in two: the loop over the breakdown (`bdBody`, closed form
`forIn_bdBody`) and the part after it (`lineFinish`, a copy of the generated text from
`if l.Item.Price == nil` on; `calculateLine_nil` / `calculateLine_cons` prove that the
regenerated definition IS that composition, so a change of the Go function breaks them).
The model is cut the same way (`modelFinish`, `calcLine_split`).  The loop over
`l.Substituted` is outside: the model has no substituted sub-lines (hypothesis
`l.Substituted = []`). -/

open GoblVerif.Generated.BillCalcSrc (CurAmount calculateLineItemPrice calculateLineDiscounts calculateLineCharges calculateSubLine determineSubLinePrecision)

/-- the part of `calculateLine` after the breakdown -/
def lineFinish (o : GoblVerif.Calc.Ops) (sub : String → Nat) (l : BillCalcSrc.Line) (cur : String) (rates : List GoblVerif.Calc.XRate) (rr : String) : Except GoblVerif.CalcSrc.GoErr BillCalcSrc.Line := do
  let mut l := l
  let zero : GoblVerif.Amount := (GoblVerif.Amount.mk 0 ((some (sub cur) : Option Nat).get!))
  if l.Item.get!.Price.isNone = true then
    l := { l with Item := some { l.Item.get! with AltPrices := ([] : List CurAmount) } }
    l := { l with Sum := (none : Option GoblVerif.Amount) }
    l := { l with Total := (none : Option GoblVerif.Amount) }
    return l
  let t6 ← Except.mapError (fun err_2 => GoblVerif.CalcSrc.GoErr.at "item" err_2) (calculateLineItemPrice o sub l.Item.get! cur rates)
  l := { l with Item := some t6 }
  let mut exp : Nat := zero.exp
  if rr = "precise" then
    exp := exp + (2 : Nat)
  let price : GoblVerif.Amount := GoblVerif.Calc.up l.Item.get!.Price.get! exp
  let mut sum : GoblVerif.Amount := o.mul price l.Quantity
  sum := GoblVerif.CalcSrc.applyRoundingRule o sub rr cur sum
  let mut total : GoblVerif.Amount := sum
  let t7 := calculateLineDiscounts o sub l.Discounts sum total cur rr
  total := t7.1
  l := { l with Discounts := t7.2 }
  let t8 := calculateLineCharges o sub l.Charges l.Quantity sum total cur rr
  total := t8.1
  l := { l with Charges := t8.2 }
  l := { l with Sum := some sum }
  l := { l with Total := some total }
  return l

theorem calculateLine_nil (o : Ops) (sub : String → Nat) (l : BillCalcSrc.Line) (it : BillCalcSrc.Item) (cur : String)
    (rates : List XRate) (rr : String) (hi : l.Item = some it) (hs : l.Substituted = []) (hb : l.Breakdown = []) :
    BillCalcSrc.calculateLine o sub l cur rates rr = lineFinish o sub l cur rates rr := by
  obtain ⟨q, it', bd, sm, ds, cs, tx, tt, sb⟩ := l
  simp only at hi hs hb
  subst hi hs hb
  unfold BillCalcSrc.calculateLine lineFinish
  simp only [Option.isNone_some, Bool.false_eq_true, if_false, List.length_nil, Int.natCast_zero, Int.lt_irrefl, gt_iff_lt]

/-- the body of the breakdown loop -/
def bdBody (o : Ops) (sub : String → Nat) (cur : String) (rates : List XRate) (rr : String) (it4 : BillCalcSrc.SubLine × Nat) (s : Amount × Bool × List BillCalcSrc.SubLine) :
    Except GoErr (ForInStep (Amount × Bool × List BillCalcSrc.SubLine)) := do
  let t5 ← Except.mapError (fun err => GoErr.at "breakdown" (GoErr.at (toString (it4.2 : Int)) err))
      (calculateSubLine o sub it4.1 cur rates rr)
  if t5.Total.isSome = true then
    pure (ForInStep.yield (add o (matchPrecision s.1 t5.Total.get!) t5.Total.get!, true, s.2.2 ++ [t5]))
  else pure (ForInStep.yield (s.1, s.2.1, s.2.2 ++ [t5]))

/-- the line handed to the finishing part after the breakdown loop ended in state `s` -/
def afterBd (o : Ops) (sub : String → Nat) (cur : String) (l : BillCalcSrc.Line) (s : Amount × Bool × List BillCalcSrc.SubLine) : BillCalcSrc.Line :=
  if s.2.1 = true then
    { l with Breakdown := s.2.2,
             Item := some ⟨cur, some (o.rescale s.1 (determineSubLinePrecision o sub s.2.2)), []⟩ }
  else { l with Breakdown := s.2.2 }

theorem calculateLine_cons (o : Ops) (sub : String → Nat) (l : BillCalcSrc.Line) (it : BillCalcSrc.Item) (cur : String)
    (rates : List XRate) (rr : String) (hi : l.Item = some it) (hs : l.Substituted = []) (hb : l.Breakdown ≠ []) :
    BillCalcSrc.calculateLine o sub l cur rates rr = (do
      let s ← forIn l.Breakdown.zipIdx ((⟨0, sub cur⟩ : Amount), false, ([] : List BillCalcSrc.SubLine)) (bdBody o sub cur rates rr)
      lineFinish o sub (afterBd o sub cur l s) cur rates rr) := by
  obtain ⟨q, it', bd, sm, ds, cs, tx, tt, sb⟩ := l
  simp only at hi hs hb
  subst hi hs
  have hl : (0 : Int) < bd.length := by
    cases bd with
    | nil => exact absurd rfl hb
    | cons a b => simp
  unfold BillCalcSrc.calculateLine
  simp only [Option.isNone_some, Bool.false_eq_true, if_false, List.length_nil, Int.natCast_zero, Int.lt_irrefl, gt_iff_lt, hl, if_true]
  show _ = bind _ _
  congr 1
  funext s
  obtain ⟨np, hp, acc⟩ := s
  cases hp
  · simp only [afterBd, Bool.false_eq_true, if_false]
    unfold lineFinish
    rfl
  · simp only [afterBd,  if_true]
    unfold lineFinish
    rfl

/-! ### the loop over the breakdown, and the model's recursion -/

def bdStep (o : Ops) (sub : String → Nat) (cur : String) (rates : List XRate) (rr : String) (x : BillCalcSrc.SubLine × Nat) :
    Except GoErr BillCalcSrc.SubLine :=
  Except.mapError (fun err => GoErr.at "breakdown" (GoErr.at (toString (x.2 : Int)) err))
    (calculateSubLine o sub x.1 cur rates rr)

theorem bdBody_eq (o : Ops) (sub : String → Nat) (cur : String) (rates : List XRate) (rr : String)
    (x : BillCalcSrc.SubLine × Nat) (s : Amount × Bool × List BillCalcSrc.SubLine) :
    bdBody o sub cur rates rr x s = match bdStep o sub cur rates rr x with
      | .error e => .error e
      | .ok y => .ok (.yield (match y.Total with
          | some t => (accum o s.1 t, true, s.2.2 ++ [y])
          | none => (s.1, s.2.1, s.2.2 ++ [y]))) := by
  unfold bdBody
  change (bind (bdStep o sub cur rates rr x) _) = _
  cases bdStep o sub cur rates rr x with
  | error e => rfl
  | ok y =>
    simp only [bind, Except.bind]
    cases hy : y.Total <;> simp [pure, Except.pure, matchPrecision_add]

theorem forIn_bdBody (o : Ops) (sub : String → Nat) (cur : String) (rates : List XRate) (rr : String)
    (l : List (BillCalcSrc.SubLine × Nat)) (np : Amount) (hp : Bool) (acc : List BillCalcSrc.SubLine) :
    forIn l (np, hp, acc) (bdBody o sub cur rates rr) = match mapE (bdStep o sub cur rates rr) l with
      | .error e => .error e
      | .ok ys => .ok ((ys.filterMap (·.Total)).foldl (accum o) np, (hp || !(ys.filterMap (·.Total)).isEmpty), acc ++ ys) := by
  induction l generalizing np hp acc with
  | nil => simp [mapE, pure, Except.pure]
  | cons a l ih =>
    rw [List.forIn_cons, bdBody_eq]
    simp only [mapE]
    cases bdStep o sub cur rates rr a with
    | error e => rfl
    | ok y =>
      simp only [bind, Except.bind]
      cases hy : y.Total with
      | none =>
        simp only []
        rw [ih]
        cases mapE (bdStep o sub cur rates rr) l with
        | error e => rfl
        | ok ys => simp [hy]
      | some t =>
        simp only []
        rw [ih]
        cases mapE (bdStep o sub cur rates rr) l with
        | error e => rfl
        | ok ys => simp [hy]

theorem errOf_at (k : String) (e : GoErr) : errOf (GoErr.at k e) = errOf e := rfl

/-- an error loop over `l.zipIdx` whose step wraps the error under the index, read as the model's recursion -/
theorem mapE_model {α β α' β' : Type} (F : α → Except GoErr α') (G : β → Except CalcErr β') (f : α → β) (f' : α' → β')
    (w : Nat → GoErr → GoErr) (hw : ∀ i e, errOf (w i e) = errOf e) (l : List α)
    (h : ∀ x ∈ l, toModel f' (F x) = G (f x)) (k : Nat) :
    toModel (List.map f') (mapE (fun x : α × Nat => Except.mapError (w x.2) (F x.1)) (l.zipIdx k)) = mapE G (l.map f) := by
  induction l generalizing k with
  | nil => rfl
  | cons a l ih =>
    simp only [List.zipIdx_cons, List.map_cons, mapE]
    rw [← h a (List.mem_cons_self ..), ← ih (fun x hx => h x (List.mem_cons_of_mem _ hx)) (k + 1)]
    generalize mapE (fun x : α × Nat => Except.mapError (w x.2) (F x.1)) (l.zipIdx (k + 1)) = r
    cases F a with
    | error e => simp [toModel, Except.mapError, hw]
    | ok y => cases r <;> rfl

theorem calcSubLines_eq_mapE (o : Ops) (cur : String) (c : Nat) (rates : List XRate) (r : Rule) (l : List Calc.SubLine) :
    calcSubLines o cur c rates r l = mapE (calcSubLine o cur c rates r) l := by
  induction l with
  | nil => rfl
  | cons a l ih =>
    simp only [calcSubLines, mapE, ih]
    cases calcSubLine o cur c rates r a with
    | error e => rfl
    | ok y => cases mapE (calcSubLine o cur c rates r) l <;> rfl

theorem calcLines_eq_mapE (o : Ops) (cur : String) (c : Nat) (rates : List XRate) (r : Rule) (l : List Calc.Line) :
    calcLines o cur c rates r l = mapE (calcLine o cur c rates r) l := by
  induction l with
  | nil => rfl
  | cons a l ih =>
    simp only [calcLines, mapE, ih]
    cases calcLine o cur c rates r a with
    | error e => rfl
    | ok y => cases mapE (calcLine o cur c rates r) l <;> rfl


/-! ### the finishing part against the model -/

/-- the part of `Calc.calcLine` after the breakdown: `it1` is the item (replaced when the breakdown gave a price), `bd` the calculated breakdown -/
def modelFinish (o : Ops) (cur : String) (c : Nat) (rates : List XRate) (r : Rule) (l : Calc.Line) (it1 : Item)
    (bd : List Calc.SubLine) : Except CalcErr Calc.Line :=
  match it1.price with
  | none => .ok { l with item := some { it1 with alts := [] }, breakdown := bd, sum := none, total := none }
  | some p0 =>
    match itemPrice o cur c rates it1 p0 with
    | .error e => .error e
    | .ok it2 =>
      let p := it2.price.getD p0
      let exp := if r == .precise then c + E else c
      let price := up p exp
      let sum := applyRule o r c (o.mul price l.qty)
      let (ds, t1) := lineDiscounts o r c sum l.discounts sum
      let (cs, t2) := lineCharges o r c l.qty sum l.charges t1
      .ok { l with item := some it2, breakdown := bd, discounts := ds, charges := cs,
                   sum := some sum, total := some t2 }

theorem calcLine_split (o : Ops) (cur : String) (c : Nat) (rates : List XRate) (r : Rule) (l : Calc.Line) (it0 : Item)
    (hi : l.item = some it0) :
    calcLine o cur c rates r l =
      match calcSubLines o cur c rates r l.breakdown with
      | .error e => .error e
      | .ok bd =>
        let totals := bd.filterMap (·.total)
        modelFinish o cur c rates r l
          (if l.breakdown.isEmpty || totals.isEmpty then it0 else
            { it0 with cur := cur, sub := c, price := some (o.rescale (totals.foldl (accum o) ⟨0, c⟩) (subLinePrecision bd)), alts := [] })
          bd := by
  obtain ⟨q, it, ds, cs, bd, tx, sm, tt⟩ := l
  simp only at hi
  subst hi
  rfl


theorem lineFinish_eq (o : Ops) (sub : String → Nat) (l : BillCalcSrc.Line) (it : BillCalcSrc.Item) (cur : String)
    (rates : List XRate) (rr : String) (hr : ∀ r ∈ rates, r.toSub = sub r.to) (hi : l.Item = some it) (m : Calc.Line)
    (hq : m.qty = l.Quantity) (hd : m.discounts = l.Discounts.map toAdj) (hc : m.charges = l.Charges)
    (ht : m.taxes = l.Taxes) :
    toModel (toLine (toItem sub cur)) (lineFinish o sub l cur rates rr)
      = modelFinish o cur (sub cur) rates (ruleOf rr) m (toItem sub cur it)
          (l.Breakdown.map (toSubLine (toItem sub cur))) := by
  obtain ⟨q, it', bd, sm, ds, cs, tx, tt, sb⟩ := l
  obtain ⟨mq, mi, md, mc, mb, mt, ms, mtt⟩ := m
  simp only at hi hq hd hc ht
  subst hi hq hd hc ht
  unfold lineFinish modelFinish
  cases hp : it.Price with
  | none => simp [toModel, toLine, toItem, hp, pure, Except.pure]
  | some p0 =>
    have hi := calculateLineItemPrice_eq o sub it p0 hp cur rates hr
    simp only [toItem, hp, Option.isNone_some, Bool.false_eq_true, if_false, some_get!]
    simp only [toItem, hp] at hi
    rw [← hi]
    cases hc : BillCalcSrc.calculateLineItemPrice o sub it cur rates with
    | error e => simp [toModel, bind, Except.bind, Except.mapError, errOf_at]
    | ok t0 =>
      rw [hc] at hi
      obtain ⟨p, hp'⟩ := itemPrice_ok_price _ _ _ _ _ _ _ hi.symm
      have hp'' : t0.Price = some p := hp'
      have hd := calculateLineDiscounts_eq o sub ds
      have hcg := calculateLineCharges_eq o sub mc mq
      simp only at hd hcg
      simp only [toModel, bind, Except.bind, Except.mapError, pure, Except.pure, hp', hp'', some_get!, Option.getD_some, ruleOf_precise,
        applyRoundingRule, E, ← hd, ← hcg]
      by_cases hpr : rr = "precise" <;> simp [hpr, toItem, toLine, hp'']


theorem toModel_ok {α β : Type} (f : α → β) (a : α) : toModel f (.ok a) = .ok (f a) := rfl

theorem filterMap_total_toSubLine (fI : BillCalcSrc.Item → Item) (ys : List BillCalcSrc.SubLine) :
    (ys.map (toSubLine fI)).filterMap (·.total) = ys.filterMap (·.Total) := by
  rw [List.filterMap_map]; rfl

/-- `calculateLine` = `Calc.calcLine`, for every line without substituted sub-lines (the model has none) -/
theorem calculateLine_eq (o : Ops) (sub : String → Nat) (l : BillCalcSrc.Line) (cur : String)
    (rates : List XRate) (rr : String) (hr : ∀ r ∈ rates, r.toSub = sub r.to) (hs : l.Substituted = []) :
    toModel (toLine (toItem sub cur)) (BillCalcSrc.calculateLine o sub l cur rates rr)
      = calcLine o cur (sub cur) rates (ruleOf rr) (toLine (toItem sub cur) l) := by
  cases hI : l.Item with
  | none =>
    obtain ⟨q, it', bd, sm, ds, cs, tx, tt, sb⟩ := l
    simp only at hI
    subst hI
    simp [BillCalcSrc.calculateLine, calcLine, toModel, toLine, pure, Except.pure]
  | some it =>
    have hmi : (toLine (toItem sub cur) l).item = some (toItem sub cur it) := by simp [toLine, hI]
    rw [calcLine_split _ _ _ _ _ _ _ hmi, calcSubLines_eq_mapE]
    have hsl := mapE_model (fun sl => BillCalcSrc.calculateSubLine o sub sl cur rates rr)
      (calcSubLine o cur (sub cur) rates (ruleOf rr)) (toSubLine (toItem sub cur)) (toSubLine (toItem sub cur))
      (fun i err => GoErr.at "breakdown" (GoErr.at (toString (i : Int)) err)) (fun _ _ => rfl)
      l.Breakdown (fun sl _ => calculateSubLine_eq o sub sl cur rates rr hr) 0
    by_cases hb : l.Breakdown = []
    · rw [calculateLine_nil o sub l it cur rates rr hI hs hb]
      rw [lineFinish_eq o sub l it cur rates rr hr hI (toLine (toItem sub cur) l) rfl rfl rfl rfl]
      simp [toLine, hb, mapE]
    · rw [calculateLine_cons o sub l it cur rates rr hI hs hb, forIn_bdBody]
      have hbm : (toLine (toItem sub cur) l).breakdown = l.Breakdown.map (toSubLine (toItem sub cur)) := rfl
      rw [hbm, ← hsl]
      change toModel _ (bind (match mapE (bdStep o sub cur rates rr) l.Breakdown.zipIdx with
        | .error e => .error e | .ok ys => .ok _) _) = _
      have : (fun x : BillCalcSrc.SubLine × Nat => Except.mapError (fun err => GoErr.at "breakdown" (GoErr.at (toString (x.2 : Int)) err))
          (BillCalcSrc.calculateSubLine o sub x.1 cur rates rr)) = bdStep o sub cur rates rr := rfl
      rw [this]
      cases mapE (bdStep o sub cur rates rr) l.Breakdown.zipIdx with
      | error e => rfl
      | ok ys =>
        simp only [bind, Except.bind, toModel_ok, filterMap_total_toSubLine, Bool.false_or, List.nil_append]
        have hbe : (List.map (toSubLine (toItem sub cur)) l.Breakdown).isEmpty = false := by
          cases hbb : l.Breakdown with
          | nil => exact absurd hbb hb
          | cons a b => rfl
        rw [hbe, Bool.false_or]
        cases ht : (ys.filterMap (·.Total)).isEmpty with
        | true =>
          simp only [afterBd, Bool.not_true, Bool.false_eq_true, if_false, if_true]
          rw [lineFinish_eq o sub { l with Breakdown := ys } it cur rates rr hr hI (toLine (toItem sub cur) l) rfl rfl rfl rfl]
        | false =>
          simp only [afterBd, Bool.not_false, if_true, Bool.false_eq_true, if_false]
          have key := fun X : Amount => lineFinish_eq o sub { l with Breakdown := ys, Item := some ⟨cur, some X, []⟩ } ⟨cur, some X, []⟩
            cur rates rr hr rfl (toLine (toItem sub cur) l) rfl rfl rfl rfl
          rw [key]
          rw [determineSubLinePrecision_model o sub (toItem sub cur) (fun _ => rfl)]
          simp [toItem]


/-- `calculateLines` = `Calc.calcLines`, for lines without substituted sub-lines -/
theorem calculateLines_eq (o : Ops) (sub : String → Nat) (ls : List BillCalcSrc.Line) (cur : String)
    (rates : List XRate) (rr : String) (hr : ∀ r ∈ rates, r.toSub = sub r.to) (hs : ∀ l ∈ ls, l.Substituted = []) :
    toModel (List.map (toLine (toItem sub cur))) (BillCalcSrc.calculateLines o sub ls cur rates rr)
      = calcLines o cur (sub cur) rates (ruleOf rr) (ls.map (toLine (toItem sub cur))) := by
  rw [calcLines_eq_mapE]
  rw [← mapE_model (fun l => BillCalcSrc.calculateLine o sub l cur rates rr)
      (calcLine o cur (sub cur) rates (ruleOf rr)) (toLine (toItem sub cur)) (toLine (toItem sub cur))
      (fun i err => GoErr.at (toString (i : Int)) err) (fun _ _ => rfl)
      ls (fun l hl => calculateLine_eq o sub l cur rates rr hr (hs l hl)) 0]
  unfold BillCalcSrc.calculateLines
  simp only []
  rw [forIn_except_map (fun x : BillCalcSrc.Line × Nat => Except.mapError (fun err => GoErr.at (toString (x.2 : Int)) err)
      (BillCalcSrc.calculateLine o sub x.1 cur rates rr))]
  · cases mapE (fun x : BillCalcSrc.Line × Nat => Except.mapError (fun err => GoErr.at (toString (x.2 : Int)) err)
      (BillCalcSrc.calculateLine o sub x.1 cur rates rr)) ls.zipIdx <;> rfl
  · intro x s
    cases Except.mapError (fun err => GoErr.at (toString (x.2 : Int)) err) (BillCalcSrc.calculateLine o sub x.1 cur rates rr) <;> rfl

end GoblVerif.Proofs.BillCalcSrc
