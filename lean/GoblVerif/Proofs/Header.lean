/-
  Helper lemmas about the header model (core Lean only; no Mathlib needed).
-/
import GoblVerif.Model.Header

namespace GoblVerif

theorem digContains_iff (d d2 : Option Digest) :
    digContains d d2 = true ↔ ∀ x2, d2 = some x2 → ∃ x, d = some x ∧ x.str = x2.str := by
  cases d2 with
  | none => simp [digContains]
  | some x2 =>
    cases d with
    | none => simp [digContains]
    | some x => simp [digContains]

/-- exact characterisation of `Header.Contains` -/
theorem Header.contains_iff (h p : Header) : h.contains p = true ↔
    h.uuid = p.uuid ∧
    (∀ d2, p.dig = some d2 → ∃ d, h.dig = some d ∧ d.str = d2.str) ∧
    (∀ s2 ∈ p.stamps, ∃ s ∈ h.stamps, s.prv = s2.prv ∧ s.val = s2.val) ∧
    (∀ l2 ∈ p.links, ∃ l ∈ h.links, l.key = l2.key ∧ l.url = l2.url) ∧
    (∀ t ∈ p.tags, t ∈ h.tags) ∧
    (∀ kv ∈ p.metas, h.metas.lookup kv.1 = some kv.2) ∧
    (p.notes = "" ∨ p.notes = h.notes) := by
  unfold Header.contains
  simp only [Bool.and_eq_true, Bool.or_eq_true, List.all_eq_true, List.any_eq_true, beq_iff_eq,
    digContains_iff, stampMatch, linkMatch, metaMatch]
  constructor
  · rintro ⟨⟨⟨⟨⟨⟨h1, h2⟩, h3⟩, h4⟩, h5⟩, h6⟩, h7⟩
    refine ⟨h1, h2, h3, h4, ?_, h6, h7⟩
    intro t ht
    obtain ⟨x, hx, rfl⟩ := h5 t ht
    exact hx
  · rintro ⟨h1, h2, h3, h4, h5, h6, h7⟩
    exact ⟨⟨⟨⟨⟨⟨h1, h2⟩, h3⟩, h4⟩, fun t ht => ⟨t, h5 t ht, rfl⟩⟩, h6⟩, h7⟩

/-! ## association lists as Go maps -/

theorem lookup_of_mem_nodup : ∀ (m : Meta), (m.map Prod.fst).Nodup →
    ∀ kv ∈ m, m.lookup kv.1 = some kv.2
  | [], _, kv, h => by cases h
  | (a, b) :: es, hnd, kv, hmem => by
    simp only [List.map_cons, List.nodup_cons] at hnd
    rw [List.lookup_cons]
    rcases List.mem_cons.mp hmem with rfl | hin
    · simp
    · have hne : (kv.1 == a) = false := by
        apply beq_false_of_ne
        intro he
        exact hnd.1 (he ▸ List.mem_map.mpr ⟨kv, hin, rfl⟩)
      rw [hne]
      exact lookup_of_mem_nodup es hnd.2 kv hin

theorem mem_of_lookup : ∀ (m : Meta) (k v : String), m.lookup k = some v → (k, v) ∈ m
  | [], _, _, h => by simp at h
  | (a, b) :: es, k, v, h => by
    rw [List.lookup_cons] at h
    by_cases hk : k = a
    · subst hk; simp at h; subst h; exact List.mem_cons_self
    · have : (k == a) = false := beq_false_of_ne hk
      rw [this] at h
      exact List.mem_cons_of_mem _ (mem_of_lookup es k v h)

theorem lookup_metaSet : ∀ (m : Meta) (k v k2 : String),
    (metaSet m k v).lookup k2 = if k2 = k then some v else m.lookup k2
  | [], k, v, k2 => by
    simp only [metaSet, List.lookup_cons, List.lookup_nil]
    by_cases h : k2 = k
    · simp [h]
    · simp [h, beq_false_of_ne h]
  | (a, b) :: es, k, v, k2 => by
    simp only [metaSet]
    by_cases ha : a = k
    · subst ha
      simp only [beq_self_eq_true, if_true, List.lookup_cons]
      by_cases h : k2 = a
      · simp [h]
      · simp [h, beq_false_of_ne h]
    · have : (a == k) = false := beq_false_of_ne ha
      simp only [this, Bool.false_eq_true, if_false, List.lookup_cons]
      by_cases h2 : k2 = a
      · subst h2; simp [ha]
      · have : (k2 == a) = false := beq_false_of_ne h2
        simp only [this]
        exact lookup_metaSet es k v k2

theorem keys_metaSet : ∀ (m : Meta) (k v : String),
    (metaSet m k v).map Prod.fst = if k ∈ m.map Prod.fst then m.map Prod.fst else m.map Prod.fst ++ [k]
  | [], k, v => by simp [metaSet]
  | (a, b) :: es, k, v => by
    simp only [metaSet]
    by_cases ha : a = k
    · subst ha; simp
    · have : (a == k) = false := beq_false_of_ne ha
      simp only [this, Bool.false_eq_true, if_false, List.map_cons, keys_metaSet es k v, List.mem_cons]
      have hk : ¬ k = a := fun h => ha h.symm
      by_cases hin : k ∈ es.map Prod.fst <;> simp [hin, hk]

theorem nodup_metaSet (m : Meta) (k v : String) (h : (m.map Prod.fst).Nodup) :
    ((metaSet m k v).map Prod.fst).Nodup := by
  rw [keys_metaSet]
  by_cases hin : k ∈ m.map Prod.fst
  · simp only [hin, if_true]; exact h
  · simp only [hin, if_false]
    rw [List.nodup_append]
    refine ⟨h, by simp, ?_⟩
    intro a ha b hb
    simp at hb; subst hb
    intro he; subst he; exact hin ha

/-! ## AddStamp / AppendLink -/

theorem addStampL_fresh : ∀ (l : List Stamp) (s : Stamp), (∀ x ∈ l, x.prv ≠ s.prv) → addStampL l s = l ++ [s]
  | [], s, _ => rfl
  | x :: xs, s, h => by
    have hx : (x.prv == s.prv) = false := beq_false_of_ne (h x List.mem_cons_self)
    simp only [addStampL, hx, Bool.false_eq_true, if_false, List.cons_append]
    rw [addStampL_fresh xs s (fun y hy => h y (List.mem_cons_of_mem _ hy))]

theorem addLinkL_fresh : ∀ (l : List Link) (s : Link), (∀ x ∈ l, x.key ≠ s.key) → addLinkL l s = l ++ [s]
  | [], s, _ => rfl
  | x :: xs, s, h => by
    have hx : (x.key == s.key) = false := beq_false_of_ne (h x List.mem_cons_self)
    simp only [addLinkL, hx, Bool.false_eq_true, if_false, List.cons_append]
    rw [addLinkL_fresh xs s (fun y hy => h y (List.mem_cons_of_mem _ hy))]

/-- `AddStamp` keeps the list of providers, or appends a provider that was not there -/
theorem prvs_addStampL : ∀ (l : List Stamp) (s : Stamp),
    (addStampL l s).map (·.prv) = if s.prv ∈ l.map (·.prv) then l.map (·.prv) else l.map (·.prv) ++ [s.prv]
  | [], s => by simp [addStampL]
  | x :: xs, s => by
    simp only [addStampL]
    by_cases hx : x.prv = s.prv
    · simp [hx]
    · have : (x.prv == s.prv) = false := beq_false_of_ne hx
      simp only [this, Bool.false_eq_true, if_false, List.map_cons, prvs_addStampL xs s, List.mem_cons]
      have hk : ¬ s.prv = x.prv := fun h => hx h.symm
      by_cases hin : s.prv ∈ xs.map (·.prv) <;> simp [hin, hk]

theorem keys_addLinkL : ∀ (l : List Link) (s : Link),
    (addLinkL l s).map (·.key) = if s.key ∈ l.map (·.key) then l.map (·.key) else l.map (·.key) ++ [s.key]
  | [], s => by simp [addLinkL]
  | x :: xs, s => by
    simp only [addLinkL]
    by_cases hx : x.key = s.key
    · simp [hx]
    · have : (x.key == s.key) = false := beq_false_of_ne hx
      simp only [this, Bool.false_eq_true, if_false, List.map_cons, keys_addLinkL xs s, List.mem_cons]
      have hk : ¬ s.key = x.key := fun h => hx h.symm
      by_cases hin : s.key ∈ xs.map (·.key) <;> simp [hin, hk]

theorem dupKeys_append_fresh : ∀ (ks : List String) (k : String), k ∉ ks → dupKeys (ks ++ [k]) = dupKeys ks
  | [], k, _ => by simp [dupKeys]
  | a :: as, k, h => by
    have h1 : ¬ a = k := fun e => h (e ▸ List.mem_cons_self)
    have h2 : k ∉ as := fun hin => h (List.mem_cons_of_mem _ hin)
    simp only [List.cons_append, dupKeys, dupKeys_append_fresh as k h2]
    congr 1
    simp [h1]

/-- `AddStamp` never creates nor removes a duplicate provider -/
theorem dupKeys_addStampL (l : List Stamp) (s : Stamp) :
    dupKeys ((addStampL l s).map (·.prv)) = dupKeys (l.map (·.prv)) := by
  rw [prvs_addStampL]
  by_cases hin : s.prv ∈ l.map (·.prv)
  · simp only [hin, if_true]
  · simp only [hin, if_false]; exact dupKeys_append_fresh _ _ hin

theorem dupKeys_addLinkL (l : List Link) (s : Link) :
    dupKeys ((addLinkL l s).map (·.key)) = dupKeys (l.map (·.key)) := by
  rw [keys_addLinkL]
  by_cases hin : s.key ∈ l.map (·.key)
  · simp only [hin, if_true]
  · simp only [hin, if_false]; exact dupKeys_append_fresh _ _ hin

theorem addStampL_ne_nil (l : List Stamp) (s : Stamp) : addStampL l s ≠ [] := by
  cases l with
  | nil => simp [addStampL]
  | cons x xs => simp only [addStampL]; split <;> simp

/-! ## reflexivity -/

theorem Header.contains_refl (h : Header) (hwf : h.WF) : h.contains h = true := by
  rw [Header.contains_iff]
  refine ⟨rfl, fun d hd => ⟨d, hd, rfl⟩, fun s hs => ⟨s, hs, rfl, rfl⟩, fun l hl => ⟨l, hl, rfl, rfl⟩,
    fun t ht => ht, fun kv hkv => lookup_of_mem_nodup h.metas hwf kv hkv, Or.inr rfl⟩

end GoblVerif
