/-
  TaxTotalsSrc (proofs): helper lemmas for the `namespace Src` parts of
  Props/C20.lean and Props/C02.lean, which relate the definitions that go2lean
  regenerates from /repo/tax/totals.go (Generated/TaxTotalsSrc.lean) to the
  hand-written models (Model/Merge.lean with the faithful `num` operations,
  Model/Calc.lean over its rounding primitives).

  * `f_*` / `c_*`: what the fields of the class `TaxTotals.NumOps` are under the
    two instances (`faithfulOps`, `calcOps o`), as rewriting rules;
  * `ite_yield`, `foldl_congr'`, `foldl_cursor_map`, `foldl_cursor_put`: the
    loops the translator emits for "range over a slice of pointers and write
    through the range variable" (go2lean_own.go) are left folds over
    `l.zipIdx` whose step replaces element `i`; they compute `l.map G`;
  * the conversions between the records of Model/Merge.lean (which the
    translation is mapped onto) and those of Model/Calc.lean;
  * the write-back loops over two list levels (section "write-back loops":
    `foldl_cursor_acc`, `foldl_cursor_via`, `foldl_fill`, `foldl_shadow`,
    `foldl_inner_cursor`) and the search loop with a found pointer
    (`forList_search`), generic; with them `Clone_eq`, `Negate_eq`, `Merge_eq`
    (regenerated = Model/Merge.lean for summaries of any shape) and the closed
    forms `round_eq`, `calcBase_eq`, `calcFinalSum_eq`, `rateTotalFor_eq` over
    ANY reading of the primitives; their faithful reading is `Merge.calc*`
    (`Calculate_body_faithful`), their `calcOps o` reading is in
    Proofs/TaxTotalsCalc.lean.
-/
import GoblVerif.Generated.TaxTotalsSrc
import GoblVerif.Proofs.GoSemList

namespace GoblVerif.Proofs.TaxTotalsSrc
open GoblVerif GoblVerif.Merge GoblVerif.TaxTotals GoblVerif.Generated GoblVerif.GoSem

/-! ## the two readings of the primitives -/

section
variable (p q : Pct) (a b : Amount) (e : Nat)
theorem f_add : @NumOps.add faithfulOps a b = a.add b := rfl
theorem f_sub : @NumOps.sub faithfulOps a b = a.sub b := rfl
theorem f_negate : @NumOps.negate faithfulOps a = a.negate := rfl
theorem f_rescale : @NumOps.rescale faithfulOps a e = a.rescale e := rfl
theorem f_matchPrecision : @NumOps.matchPrecision faithfulOps a b = a.matchPrecision b := rfl
theorem f_isZero : @NumOps.isZero faithfulOps a = (a.value == 0) := rfl
theorem f_pctOf : @NumOps.pctOf faithfulOps p a = p.of a := rfl
theorem f_pctEquals : @NumOps.pctEquals faithfulOps p q = p.equals q := rfl

variable (o : Calc.Ops)
theorem c_add : @NumOps.add (calcOps o) a b = Calc.add o a b := rfl
theorem c_sub : @NumOps.sub (calcOps o) a b = Calc.sub o a b := rfl
theorem c_negate : @NumOps.negate (calcOps o) a = Calc.neg a := rfl
theorem c_rescale : @NumOps.rescale (calcOps o) a e = o.rescale a e := rfl
theorem c_matchPrecision : @NumOps.matchPrecision (calcOps o) a b = Calc.up a b.exp := rfl
theorem c_isZero : @NumOps.isZero (calcOps o) a = (a.value == 0) := rfl
theorem c_pctOf : @NumOps.pctOf (calcOps o) p a = Calc.pctOf o p a := rfl
theorem c_pctEquals : @NumOps.pctEquals (calcOps o) p q = Calc.pctEq p q := rfl
end

/-! ## loops -/

theorem ite_yield {β : Type} (c : Prop) [Decidable c] (a b : β) :
    (if c then ForInStep.yield a else ForInStep.yield b) = ForInStep.yield (if c then a else b) := by
  split <;> rfl

theorem ite_yield_id {β : Type} (c : Prop) [Decidable c] (a b : β) :
    (@ite (Id (ForInStep β)) c _ (ForInStep.yield a) (ForInStep.yield b)) = ForInStep.yield (if c then a else b) := by
  split <;> rfl

theorem foldl_congr' {α σ : Type} {f g : σ → α → σ} (l : List α) (s : σ) (h : ∀ s x, f s x = g s x) :
    l.foldl f s = l.foldl g s := by
  have : f = g := by funext s x; exact h s x
  rw [this]

/-- replacing element `i` by `G` of the element the loop was given, for every `i`, is `map G` -/
theorem foldl_cursor_gen {α : Type} (G : α → α) (l pre post : List α) :
    (l.zipIdx pre.length).foldl (fun acc p => acc.set p.2 (G p.1)) (pre ++ l ++ post) = pre ++ l.map G ++ post := by
  induction l generalizing pre with
  | nil => simp
  | cons a l ih =>
    simp only [List.zipIdx_cons, List.foldl_cons, List.map_cons]
    have h1 : (pre ++ a :: l ++ post).set pre.length (G a) = (pre ++ [G a]) ++ l ++ post := by
      simp
    rw [h1]
    have h2 := ih (pre ++ [G a])
    simp only [List.length_append, List.length_singleton] at h2
    rw [h2]; simp

theorem foldl_cursor_map {α : Type} (G : α → α) (l : List α) :
    l.zipIdx.foldl (fun acc p => acc.set p.2 (G p.1)) l = l.map G := by
  have := foldl_cursor_gen G l [] []
  simpa using this


/-! ## write-back loops over two list levels (generic; nothing here is about a particular package)

The loops that go2lean_own.go emits for `for i, v := range C { … v.f = e … }` are
left folds over `C.zipIdx` whose step ends in `C := C.set i v`.  Three shapes occur:

* CURSOR LOOP (`foldl_cursor_via`, with an accumulator `foldl_cursor_acc`): the
  state is `ψ C s` (a record that holds the container `C` and whatever else the
  loop accumulates), the step replaces element `i` by `G s x` and moves the
  accumulator to `H s x`; the result is `ψ (mapAcc G H s C) (C.foldl H s)`.
* FILL LOOP (`foldl_fill`): the container was made with the length of the list
  ranged over (`make([]*T, len(l))`) and element `i` is assigned (and read back)
  in round `i`; the step equation is needed only for `i < C.length`.
* INNER LOOP WITH WRITE-THROUGH (`foldl_shadow`): a loop nested in a cursor loop
  updates its own container `c` and, after every write, the enclosing one
  (`n := W n c`); since a later write at the same place wins (`hW`), the inner
  loop is the fold on `c` alone, followed by one write.
`foldl_comm` moves a fold along any change of representation of its state. -/

/-- a fold commutes with a change of representation of its state -/
theorem foldl_comm {C D X : Type} (ψ : D → C) (f : C → X → C) (g : D → X → D)
    (h : ∀ d x, f (ψ d) x = ψ (g d x)) (l : List X) (d : D) :
    l.foldl f (ψ d) = ψ (l.foldl g d) := by
  induction l generalizing d with
  | nil => rfl
  | cons a l ih => simp only [List.foldl_cons, h, ih]

/-- the list that a cursor loop with an accumulator leaves behind -/
def mapAcc {α σ : Type} (G : σ → α → α) (H : σ → α → σ) : σ → List α → List α
  | _, [] => []
  | s, a :: l => G s a :: mapAcc G H (H s a) l

theorem mapAcc_const {α σ : Type} (G : α → α) (H : σ → α → σ) (s : σ) (l : List α) :
    mapAcc (fun _ => G) H s l = l.map G := by
  induction l generalizing s with
  | nil => rfl
  | cons a l ih => simp [mapAcc, ih]

/-- CURSOR LOOP WITH AN ACCUMULATOR -/
theorem foldl_cursor_acc {C α σ : Type} (ψ : List α → σ → C) (step : C → α × Nat → C)
    (G : σ → α → α) (H : σ → α → σ)
    (h : ∀ acc s x i, step (ψ acc s) (x, i) = ψ (acc.set i (G s x)) (H s x))
    (l pre post : List α) (s : σ) :
    (l.zipIdx pre.length).foldl step (ψ (pre ++ l ++ post) s) = ψ (pre ++ mapAcc G H s l ++ post) (l.foldl H s) := by
  induction l generalizing pre s with
  | nil => simp [mapAcc]
  | cons a l ih =>
    simp only [List.zipIdx_cons, List.foldl_cons, mapAcc, h]
    have h1 : (pre ++ a :: l ++ post).set pre.length (G s a) = (pre ++ [G s a]) ++ l ++ post := by simp
    rw [h1]
    have h2 := ih (pre ++ [G s a]) (H s a)
    simp only [List.length_append, List.length_singleton] at h2
    rw [h2]; simp

theorem foldl_cursor_acc' {C α σ : Type} (ψ : List α → σ → C) (step : C → α × Nat → C)
    (G : σ → α → α) (H : σ → α → σ)
    (h : ∀ acc s x i, step (ψ acc s) (x, i) = ψ (acc.set i (G s x)) (H s x))
    (l : List α) (s : σ) :
    l.zipIdx.foldl step (ψ l s) = ψ (mapAcc G H s l) (l.foldl H s) := by
  have := foldl_cursor_acc ψ step G H h l [] [] s
  simpa using this

/-- CURSOR LOOP (no accumulator) through a representation -/
theorem foldl_cursor_via {C α : Type} (ψ : List α → C) (step : C → α × Nat → C) (G : α → α)
    (h : ∀ acc x i, step (ψ acc) (x, i) = ψ (acc.set i (G x))) (l : List α) :
    l.zipIdx.foldl step (ψ l) = ψ (l.map G) := by
  have := foldl_cursor_acc' (σ := Unit) (fun a _ => ψ a) step (fun _ => G) (fun _ _ => ())
    (fun acc _ x i => h acc x i) l ()
  rw [mapAcc_const] at this
  exact this

/-- FILL LOOP: the container was made with the right length and every element is assigned -/
theorem foldl_fill_gen {C α β : Type} (ψ : List α → C) (step : C → β × Nat → C) (F : β → α)
    (h : ∀ acc x i, i < acc.length → step (ψ acc) (x, i) = ψ (acc.set i (F x)))
    (l : List β) (pre init post : List α) (hlen : init.length = l.length) :
    (l.zipIdx pre.length).foldl step (ψ (pre ++ init ++ post)) = ψ (pre ++ l.map F ++ post) := by
  induction l generalizing pre init with
  | nil =>
    have : init = [] := List.eq_nil_of_length_eq_zero (by simpa using hlen)
    simp [this]
  | cons a l ih =>
    match init, hlen with
    | b :: init, hlen =>
      simp only [List.zipIdx_cons, List.foldl_cons]
      rw [h _ _ _ (by simp)]
      have h1 : (pre ++ b :: init ++ post).set pre.length (F a) = (pre ++ [F a]) ++ init ++ post := by simp
      rw [h1]
      have h2 := ih (pre ++ [F a]) init (by simpa using hlen)
      simp only [List.length_append, List.length_singleton] at h2
      rw [h2]; simp

theorem foldl_fill {C α β : Type} (ψ : List α → C) (step : C → β × Nat → C) (F : β → α)
    (h : ∀ acc x i, i < acc.length → step (ψ acc) (x, i) = ψ (acc.set i (F x)))
    (l : List β) (init : List α) (hlen : init.length = l.length) :
    l.zipIdx.foldl step (ψ init) = ψ (l.map F) := by
  have := foldl_fill_gen ψ step F h l [] init [] hlen
  simpa using this

/-- INNER LOOP THAT ALSO WRITES THE ENCLOSING CONTAINER -/
theorem foldl_shadow {N C X : Type} (W : N → C → N) (hW : ∀ n a b, W (W n a) b = W n b)
    (f : C → X → C) (step : N × C → X → N × C)
    (h : ∀ n c x, step (n, c) x = (W n (f c x), f c x)) (l : List X) (n : N) (c : C) :
    (l.foldl step (n, c)).2 = l.foldl f c ∧
    (∀ d, W (l.foldl step (n, c)).1 d = W n d) ∧
    (l.foldl step (W n c, c)).1 = W n (l.foldl f c) := by
  induction l generalizing n c with
  | nil => exact ⟨rfl, fun _ => rfl, rfl⟩
  | cons a l ih =>
    simp only [List.foldl_cons, h]
    obtain ⟨i1, i2, i3⟩ := ih (W n (f c a)) (f c a)
    refine ⟨i1, fun d => by rw [i2, hW], ?_⟩
    rw [hW] at i3 ⊢
    rw [i3, hW]


/-- THE TWO-LEVEL PRINCIPLE: a cursor loop over `l` (the container of `ψ l`) nested in another
    cursor loop.  Its state is (enclosing object `n`, own object `c`); every round replaces element
    `j` of the own container by `G x` and writes the own object through (`W`).  The own object ends
    as `ψ (l.map G)`; the enclosing one has received exactly that write when it held the own object
    before the loop, and in any case a later write hides what the loop wrote. -/
theorem foldl_inner_cursor {N C α : Type} (W : N → C → N) (hW : ∀ n a b, W (W n a) b = W n b)
    (f : C → α × Nat → C) (step : N × C → α × Nat → N × C)
    (h : ∀ n c p, step (n, c) p = (W n (f c p), f c p))
    (ψ : List α → C) (G : α → α) (hf : ∀ acc x j, f (ψ acc) (x, j) = ψ (acc.set j (G x)))
    (l : List α) (n : N) :
    (l.zipIdx.foldl step (W n (ψ l), ψ l)).1 = W n (ψ (l.map G)) ∧
    (l.zipIdx.foldl step (n, ψ l)).2 = ψ (l.map G) ∧
    (∀ d, W (l.zipIdx.foldl step (n, ψ l)).1 d = W n d) := by
  obtain ⟨h1, h2, h3⟩ := foldl_shadow W hW f step h l.zipIdx n (ψ l)
  have hc := foldl_cursor_via ψ f G hf l
  exact ⟨by rw [h3, hc], by rw [h1, hc], h2⟩

theorem getBang_set {α : Type} [Inhabited α] (l : List α) (i : Nat) (a : α) (h : i < l.length) :
    (l.set i a)[i]! = a := by
  simp [h]

/-! ## straight-line functions, for every reading of the primitives -/

theorem bool_ite (b : Bool) : (if b = true then true else false) = b := by cases b <;> rfl

theorem clone_eq (rt : RateTotal) : TaxTotalsSrc.RateTotal_clone rt = some rt := by
  unfold TaxTotalsSrc.RateTotal_clone
  rcases rt with ⟨k, c, e, b, p, s, a⟩
  cases s <;> simp [Id.run, id_pure]

theorem Matches_eq (rt rt2 : RateTotal) : @TaxTotalsSrc.RateTotal_Matches faithfulOps rt rt2 = rt.matches rt2 := by
  unfold TaxTotalsSrc.RateTotal_Matches RateTotal.matches
  rcases rt with ⟨k, c, e, b, p, s, a⟩
  rcases rt2 with ⟨k2, c2, e2, b2, p2, s2, a2⟩
  cases p <;> cases p2 <;> cases s <;> cases s2 <;>
    simp [Id.run, id_pure, f_pctEquals] <;> (try split) <;> (try split) <;> (try split) <;> (try simp_all) <;> (try rfl) <;>
    (try exact bool_ite _)

theorem newRateTotal_eq (c : TaxTotals.Combo) (zero : Amount) :
    TaxTotalsSrc.newRateTotal c zero = some
      { key := c.rate, country := c.country, ext := c.ext, base := zero, percent := c.percent,
        surcharge := c.surcharge.map (fun s => { percent := s, amount := zero }), amount := zero } := by
  unfold TaxTotalsSrc.newRateTotal
  rcases c with ⟨cat, cn2, r, p2, s2, e2, ret⟩
  cases p2 <;> cases s2 <;> simp [Id.run, id_pure]

theorem newCategoryTotal_eq (c : TaxTotals.Combo) (zero : Amount) :
    TaxTotalsSrc.newCategoryTotal c zero = some
      { code := c.category, retained := c.retained, rates := [], amount := zero, surcharge := none, amountP := zero } := by
  unfold TaxTotalsSrc.newCategoryTotal
  simp [Id.run, id_pure]

theorem mrp_faithful (rr : String) (a b : Amount) :
    @TaxTotalsSrc.matchRoundingPrecision faithfulOps rr a b = Merge.matchRoundingPrecision (rr == "currency") a b := by
  unfold TaxTotalsSrc.matchRoundingPrecision Merge.matchRoundingPrecision
  by_cases h : rr = "currency" <;> simp [Id.run, id_pure, h, f_matchPrecision]

/-- the rounding rule behind a rule key, as far as `matchRoundingPrecision` tells them apart -/
def ruleOf (rr : String) : Calc.Rule := if rr = "currency" then .currency else .precise

theorem mrp_calc (o : Calc.Ops) (rr : String) (a b : Amount) :
    @TaxTotalsSrc.matchRoundingPrecision (calcOps o) rr a b = Calc.mrp (ruleOf rr) a b := by
  unfold TaxTotalsSrc.matchRoundingPrecision Calc.mrp ruleOf
  by_cases h : rr = "currency" <;> simp [Id.run, id_pure, h, c_matchPrecision]

theorem preciseAmount_eq (o : Calc.Ops) (ct : Merge.CategoryTotal) :
    @TaxTotalsSrc.CategoryTotal_PreciseAmount (calcOps o) ct = (if ct.amountP.value != 0 then ct.amountP else ct.amount) := by
  unfold TaxTotalsSrc.CategoryTotal_PreciseAmount
  by_cases h : ct.amountP.value = 0 <;> simp [Id.run, id_pure, h, c_isZero]

theorem preciseSum_eq (o : Calc.Ops) (t : Merge.Total) :
    @TaxTotalsSrc.Total_PreciseSum (calcOps o) t = (if t.sumP.value != 0 then t.sumP else t.sum) := by
  unfold TaxTotalsSrc.Total_PreciseSum
  by_cases h : t.sumP.value = 0 <;> simp [Id.run, id_pure, h, c_isZero]

theorem category_eq (t : Total) (code : String) :
    TaxTotalsSrc.Total_Category t code = t.categories.find? (fun ct => ct.code == code) := by
  unfold TaxTotalsSrc.Total_Category
  simp only [forIn_list_id, pure_bind]
  simp only [Id.run, id_pure]
  induction t.categories with
  | nil => rfl
  | cons a l ih =>
    simp only [forList, List.find?]
    by_cases h : a.code = code
    · simp [h]
    · have h' : (a.code == code) = false := by simpa using h
      simp [h, h']; exact ih

/-! ## the records of Model/Calc.lean -/

/-- a rate group of Model/Merge.lean as one of Model/Calc.lean; `enc` is the canonical text of an extension map -/
def toCalcRT (enc : List (String × String) → String) (rt : Merge.RateTotal) : Calc.RateTotal :=
  { key := rt.key, country := rt.country, ext := enc rt.ext, base := rt.base, percent := rt.percent,
    surcharge := rt.surcharge.map (fun s => (s.percent, s.amount)), amount := rt.amount }

def toCalcCat (enc : List (String × String) → String) (ct : Merge.CategoryTotal) : Calc.CatTotal :=
  { code := ct.code, retained := ct.retained, rates := ct.rates.map (toCalcRT enc), amount := ct.amount,
    surcharge := ct.surcharge, precise := ct.amountP }

def toCalcTotal (enc : List (String × String) → String) (t : Merge.Total) : Calc.TaxTotal :=
  { cats := t.categories.map (toCalcCat enc), sum := t.sum, preciseSum := t.sumP }

def toCalcCombo (enc : List (String × String) → String) (c : TaxTotals.Combo) : Calc.Combo :=
  { cat := c.category, country := c.country, key := c.rate, percent := c.percent, surcharge := c.surcharge,
    ext := enc c.ext, retained := c.retained }

theorem matches_calc (o : Calc.Ops) (enc : List (String × String) → String)
    (rt : Merge.RateTotal) (c : TaxTotals.Combo) (henc : enc rt.ext = enc c.ext → rt.ext = c.ext) :
    @TaxTotalsSrc.RateTotal_matches (calcOps o) rt c = Calc.rtMatches (toCalcRT enc rt) (toCalcCombo enc c) := by
  unfold TaxTotalsSrc.RateTotal_matches Calc.rtMatches toCalcRT toCalcCombo
  rcases rt with ⟨k, cn, e, b, p, s, a⟩
  rcases c with ⟨cat, cn2, r, p2, s2, e2, ret⟩
  have he : (enc e != enc e2) = !(extEquals e e2) := by
    unfold extEquals
    by_cases h : e = e2
    · subst h; simp
    · have hne : enc e ≠ enc e2 := fun h' => h (henc h')
      have h1 : (enc e != enc e2) = true := bne_iff_ne.mpr hne
      have h2 : (e == e2) = false := beq_eq_false_iff_ne.mpr h
      rw [h1, h2]; rfl
  cases hx : extEquals e e2
  · simp [Id.run, id_pure, he, hx]
  · by_cases hc : cn = cn2
    · subst hc
      cases p <;> cases p2 <;> cases s <;> cases s2 <;> simp [Id.run, c_pctEquals, id_pure, he, hx] <;>
        (try split) <;> (try simp_all) <;> (try rfl)
    · simp [Id.run, hc, id_pure, he, hx]

/-! ## summaries with one category and one rate group (the shape of the `_partial` theorems) -/

/-- a summary with one category that has one rate group -/
def oneRow (cd : String) (ret : Bool) (r : RateTotal) (am : Amount) (su : Option Amount) (ap s sp : Amount) : Total :=
  ⟨[⟨cd, ret, [r], am, su, ap⟩], s, sp⟩

theorem Clone_oneRow (cd : String) (ret : Bool) (r : RateTotal) (am : Amount) (su : Option Amount) (ap s sp : Amount) :
    TaxTotalsSrc.Total_Clone (some (oneRow cd ret r am su ap s sp)) = some (oneRow cd ret r am su ap s sp) := by
  unfold TaxTotalsSrc.Total_Clone oneRow
  simp only [forIn_list_id, pure_bind]
  simp only [Id.run, id_pure, List.set_set, ite_yield_id, forList_fold, clone_eq]
  cases su <;> simp_all [List.zipIdx]

theorem Clone_none : TaxTotalsSrc.Total_Clone none = none := by
  unfold TaxTotalsSrc.Total_Clone; simp [Id.run, id_pure]

theorem Clone_empty (s sp : Amount) : TaxTotalsSrc.Total_Clone (some ⟨[], s, sp⟩) = some ⟨[], s, sp⟩ := by
  unfold TaxTotalsSrc.Total_Clone
  simp only [forIn_list_id, pure_bind]
  simp [Id.run, id_pure, forList]

theorem Negate_oneRow (cd : String) (ret : Bool) (r : RateTotal) (am : Amount) (su : Option Amount) (ap s sp : Amount) :
    @TaxTotalsSrc.Total_Negate faithfulOps (some (oneRow cd ret r am su ap s sp)) = some (oneRow cd ret r am su ap s sp).negate := by
  unfold TaxTotalsSrc.Total_Negate
  rw [Clone_oneRow]
  unfold oneRow Total.negate Total.clone
  simp only [forIn_list_id, pure_bind]
  simp only [Id.run, id_pure, List.set_set, ite_yield_id, forList_fold]
  rcases r with ⟨k, c, e, b, p, rs, a⟩
  cases su <;> cases rs <;> simp [List.zipIdx, CategoryTotal.negate, RateTotal.negate, f_negate]

theorem Negate_none [NumOps] : TaxTotalsSrc.Total_Negate none = none := by
  unfold TaxTotalsSrc.Total_Negate; simp [Id.run, id_pure]

/-! ## `Clone`, `Negate` for summaries of any shape -/

theorem Clone_inner (acc : List CategoryTotal) (s sp : Amount) (i : Nat) (hi : i < acc.length) (c0 : CategoryTotal)
    (l : List RateTotal) (init : List RateTotal) (hlen : init.length = l.length) :
    List.foldl
      (fun (s : Total) (x_1 : RateTotal × Nat) =>
        ({ categories :=
            s.categories.set i
              { code := s.categories[i]!.code, retained := s.categories[i]!.retained,
                rates := s.categories[i]!.rates.set x_1.snd x_1.fst,
                amount := s.categories[i]!.amount, surcharge := s.categories[i]!.surcharge,
                amountP := s.categories[i]!.amountP },
           sum := s.sum, sumP := s.sumP } : Total))
      ⟨acc.set i { c0 with rates := init }, s, sp⟩ l.zipIdx
    = ⟨acc.set i { c0 with rates := l }, s, sp⟩ := by
  have := foldl_fill (fun rs => (⟨acc.set i { c0 with rates := rs }, s, sp⟩ : Total))
    (fun (s : Total) (x_1 : RateTotal × Nat) =>
        ({ categories :=
            s.categories.set i
              { code := s.categories[i]!.code, retained := s.categories[i]!.retained,
                rates := s.categories[i]!.rates.set x_1.snd x_1.fst,
                amount := s.categories[i]!.amount, surcharge := s.categories[i]!.surcharge,
                amountP := s.categories[i]!.amountP },
           sum := s.sum, sumP := s.sumP } : Total)) id
    (by intro rs y j hj; simp [hi, List.set_set]) l init hlen
  simpa using this

theorem Clone_eq (t : Total) : TaxTotalsSrc.Total_Clone (some t) = some t := by
  unfold TaxTotalsSrc.Total_Clone
  simp only [forIn_list_id, pure_bind]
  simp only [Id.run, id_pure, ite_yield_id, forList_fold, clone_eq, Int.toNat_natCast, Option.get!_some,
    Option.isNone_some, Bool.false_eq_true, if_false]
  rw [foldl_fill (fun cats => (⟨cats, default, default⟩ : Total)) _ id ?h t.categories _ (by simp)]
  case h =>
    intro acc x i hi
    simp only [getBang_set, hi, List.set_set]
    rcases x with ⟨cd, ret, rs, am, su, ap⟩
    cases su with
    | none =>
      simp only [Option.isSome_none, Bool.false_eq_true, if_false]
      exact Clone_inner acc default default i hi ⟨cd, ret, [], am, none, ap⟩ rs _ (by simp)
    | some v =>
      simp only [Option.isSome_some, if_true, Option.get!_some]
      exact Clone_inner acc default default i hi ⟨cd, ret, [], am, some v, ap⟩ rs _ (by simp)
  simp

theorem Negate_eq (t : Total) : @TaxTotalsSrc.Total_Negate faithfulOps (some t) = some t.negate := by
  unfold TaxTotalsSrc.Total_Negate
  rw [Clone_eq]
  simp only [forIn_list_id, pure_bind]
  simp only [Id.run, id_pure, List.set_set, ite_yield_id, forList_fold, Option.get!_some,
    Option.isNone_some, Bool.false_eq_true, if_false, f_negate]
  rw [foldl_cursor_via (fun cats => (⟨cats, t.sum, t.sumP⟩ : Total)) _ CategoryTotal.negate ?h t.categories]
  case h =>
    intro acc x i
    rcases x with ⟨cd, ret, rs, am, su, ap⟩
    cases su <;>
    · simp only [Option.isSome_none, Option.isSome_some, Bool.false_eq_true, if_false, if_true, Option.get!_some]
      rw [(foldl_inner_cursor (N := Total) (C := CategoryTotal)
        (fun n c => ⟨n.categories.set i c, n.sum, n.sumP⟩) (by intro n a b; simp [List.set_set])
        (fun c p => { c with rates := c.rates.set p.2 p.1.negate }) _ ?h2
        (fun rs' => ⟨cd, ret, rs', am.negate, _, ap.negate⟩) RateTotal.negate (by intro acc x j; rfl) rs ⟨acc, t.sum, t.sumP⟩).1]
      case h2 =>
        intro n c p
        rcases p with ⟨⟨k, cn, e, b, pc, su, a⟩, j⟩
        cases su <;> simp [RateTotal.negate]
      simp [CategoryTotal.negate]
  simp [Total.negate, Total.clone]

/-! ## `Merge` for summaries of any shape: search loops with a found pointer -/

/-- a loop that only updates its state, whatever the shape of its body -/
theorem forList_eq_foldl {α β : Type} (f : α → β → ForInStep β) (g : β → α → β)
    (h : ∀ x s, f x s = ForInStep.yield (g s x)) (l : List α) (init : β) :
    forList f l init = l.foldl g init := by
  have : f = fun x s => ForInStep.yield (g s x) := by funext x s; exact h x s
  rw [this, forList_fold]

/-- SEARCH LOOP WITH A FOUND POINTER: `for i, v := range l { if P v { p = v; break } }` from
    `p = nil`: either nothing satisfies `P` and `p` stays nil, or `l = pre ++ m :: post` with `m` the
    first element that satisfies `P`, `p = m` and the index is `pre.length` -/
theorem forList_search {α : Type} (P : α → Prop) [DecidablePred P] (l : List α) (k : Nat) :
    ((∀ x ∈ l, ¬ P x) ∧
      forList (fun (p : α × Nat) (s : Option α × Option Nat) =>
        if P p.1 then ForInStep.done (some p.1, some p.2) else ForInStep.yield (s.1, s.2)) (l.zipIdx k) (none, none)
        = (none, none)) ∨
    (∃ pre m post, l = pre ++ m :: post ∧ (∀ x ∈ pre, ¬ P x) ∧ P m ∧
      forList (fun (p : α × Nat) (s : Option α × Option Nat) =>
        if P p.1 then ForInStep.done (some p.1, some p.2) else ForInStep.yield (s.1, s.2)) (l.zipIdx k) (none, none)
        = (some m, some (k + pre.length))) := by
  induction l generalizing k with
  | nil => left; exact ⟨by simp, rfl⟩
  | cons a l ih =>
    by_cases ha : P a
    · right; exact ⟨[], a, l, rfl, by simp, ha, by simp [List.zipIdx_cons, forList, ha]⟩
    · rcases ih (k + 1) with ⟨hno, hs⟩ | ⟨pre, m, post, hl, hpre, hm, hs⟩
      · left
        refine ⟨by intro x hx; rcases List.mem_cons.mp hx with rfl | hx; exact ha; exact hno x hx, ?_⟩
        simp only [List.zipIdx_cons, forList, ha, if_false]; exact hs
      · right
        refine ⟨a :: pre, m, post, by simp [hl], ?_, hm, ?_⟩
        · intro x hx; rcases List.mem_cons.mp hx with rfl | hx; exact ha; exact hpre x hx
        · simp only [List.zipIdx_cons, forList, ha, if_false]; rw [hs]; simp; omega

theorem mergeRate_none (l : List RateTotal) (rt : RateTotal) (h : ∀ x ∈ l, ¬ (x.matches rt = true)) :
    mergeRate l rt = l ++ [rt] := by
  induction l with
  | nil => rfl
  | cons a l ih =>
    have ha : a.matches rt = false := by simpa using h a (by simp)
    simp [mergeRate, ha, ih (fun x hx => h x (by simp [hx]))]

theorem mergeRate_found (pre post : List RateTotal) (m rt : RateTotal) (h : ∀ x ∈ pre, ¬ (x.matches rt = true))
    (hm : m.matches rt = true) : mergeRate (pre ++ m :: post) rt = pre ++ m.absorb rt :: post := by
  induction pre with
  | nil => simp [mergeRate, hm]
  | cons a l ih =>
    have ha : a.matches rt = false := by simpa using h a (by simp)
    simp [mergeRate, ha, ih (fun x hx => h x (by simp [hx]))]

theorem mergeCategory_none (l : List CategoryTotal) (ct : CategoryTotal) (h : ∀ x ∈ l, ¬ (x.code = ct.code)) :
    mergeCategory l ct = l ++ [ct] := by
  induction l with
  | nil => rfl
  | cons a l ih =>
    have ha : ¬ a.code = ct.code := h a (by simp)
    simp [mergeCategory, ha, ih (fun x hx => h x (by simp [hx]))]

theorem mergeCategory_found (pre post : List CategoryTotal) (m ct : CategoryTotal) (h : ∀ x ∈ pre, ¬ (x.code = ct.code))
    (hm : m.code = ct.code) : mergeCategory (pre ++ m :: post) ct = pre ++ m.absorb ct :: post := by
  induction pre with
  | nil => simp [mergeCategory, hm]
  | cons a l ih =>
    have ha : ¬ a.code = ct.code := h a (by simp)
    simp [mergeCategory, ha, ih (fun x hx => h x (by simp [hx]))]

theorem append_rates_fold (n : Total) (c : CategoryTotal) (l : List RateTotal) :
    List.foldl (fun (s : Total × Option CategoryTotal) (x : RateTotal) =>
      (s.fst, some ({ s.snd.get! with rates := s.snd.get!.rates ++ [x] } : CategoryTotal))) (n, some c) l
    = (n, some { c with rates := c.rates ++ l }) := by
  induction l generalizing c with
  | nil => simp
  | cons a l ih => simp [ih]

/-- one round of the loop over the second operand's rates in the `else` branch of `Merge`, on the
    state (result so far, found category): the category's rates take the rate in (`mergeRate`), and the
    category is written back at its place `j` -/
def mergeRateStep (j : Nat) (s : Total × Option CategoryTotal) (rt : RateTotal) : Total × Option CategoryTotal :=
  (⟨s.1.categories.set j { s.2.get! with rates := mergeRate s.2.get!.rates rt }, s.1.sum, s.1.sumP⟩,
    some { s.2.get! with rates := mergeRate s.2.get!.rates rt })

theorem mergeRateStep_fold (j : Nat) (n : Total) (c : CategoryTotal) (l : List RateTotal) :
    (l.foldl (mergeRateStep j) (⟨n.categories.set j c, n.sum, n.sumP⟩, some c)).1 =
      ⟨n.categories.set j { c with rates := mergeRates c.rates l }, n.sum, n.sumP⟩ := by
  have h3 := (foldl_shadow (N := Total) (C := Option CategoryTotal)
    (fun n oc => ⟨n.categories.set j oc.get!, n.sum, n.sumP⟩) (by intro n a b; simp [List.set_set])
    (fun oc rt => some { oc.get! with rates := mergeRate oc.get!.rates rt }) (mergeRateStep j)
    (by intro n c x; rfl) l n (some c)).2.2
  have hc := foldl_comm (fun rs => some ({ c with rates := rs } : CategoryTotal))
    (fun (oc : Option CategoryTotal) rt => some { oc.get! with rates := mergeRate oc.get!.rates rt }) mergeRate
    (by intro d x; rfl) l c.rates
  simp only [Option.get!_some] at h3
  rw [h3]
  have hc' : List.foldl (fun (oc : Option CategoryTotal) rt => some { oc.get! with rates := mergeRate oc.get!.rates rt }) (some c) l
      = some { c with rates := mergeRates c.rates l } := hc
  rw [hc']; rfl

theorem Merge_eq (t t2 : Total) : @TaxTotalsSrc.Total_Merge faithfulOps (some t) t2 = some (t.merge t2) := by
  unfold TaxTotalsSrc.Total_Merge
  rw [Clone_eq]
  simp only [forIn_list_id, pure_bind]
  simp only [Id.run, id_pure, ite_yield_id, forList_fold, Option.get!_some, f_add, clone_eq, Matches_eq]
  rw [forList_eq_foldl _ (fun (nt : Total) ct => { nt with categories := mergeCategory nt.categories ct }) ?h]
  case h =>
    intro ct nt
    rcases forList_search (fun (m : CategoryTotal) => m.code = ct.code) nt.categories 0 with
      ⟨hno, hs⟩ | ⟨pre, m, post, hl, hpre, hm, hs⟩
    · simp only [hs, Option.isNone_none, if_true, append_rates_fold]
      rw [mergeCategory_none _ _ hno]
      rcases ct with ⟨cd, ret, rs, am, su, ap⟩
      cases su <;> simp
    · simp only [hs, Option.isNone_some, Bool.false_eq_true, if_false, Option.get!_some, Nat.zero_add]
      rcases ct with ⟨cd, ret, rs, am, su, ap⟩
      rcases m with ⟨mcd, mret, mrs, mam, msu, map⟩
      cases su <;> cases msu <;>
      · simp only [Option.isSome_none, Option.isSome_some, Bool.false_eq_true, if_false, if_true, Option.get!_some]
        rw [forList_eq_foldl _ (mergeRateStep pre.length) ?hb]
        case hb =>
          intro rt s
          rcases forList_search (fun (m : RateTotal) => m.matches rt = true) s.snd.get!.rates 0 with
            ⟨hno, hs⟩ | ⟨rpre, rm, rpost, hl, hpre, hm, hs⟩
          · simp only [hs, Option.isNone_none, if_true, mergeRateStep]
            rw [mergeRate_none _ _ hno]
          · simp only [hs, Option.isNone_some, Bool.false_eq_true, if_false, Option.get!_some, Nat.zero_add]
            simp only [List.set_set, mergeRateStep, hl, mergeRate_found rpre rpost rm rt hpre hm]
            rcases rt with ⟨k1, c1, e1, b1, p1, rsu, a1⟩
            rcases rm with ⟨k2, c2, e2, b2, p2, msu', a2⟩
            cases rsu <;> cases msu' <;> simp [RateTotal.absorb]
        try simp only [List.set_set]
        rw [mergeRateStep_fold, hl, mergeCategory_found pre post _ _ hpre hm]
        simp [CategoryTotal.absorb]
  have hc := foldl_comm (fun cats => (⟨cats, t.sum, t.sumP⟩ : Total))
    (fun (nt : Total) ct => { nt with categories := mergeCategory nt.categories ct }) mergeCategory
    (by intro d x; rfl) t2.categories t.categories
  have hc' : List.foldl (fun (nt : Total) ct => ({ nt with categories := mergeCategory nt.categories ct } : Total)) t t2.categories
      = ⟨List.foldl mergeCategory t.categories t2.categories, t.sum, t.sumP⟩ := hc
  rw [hc']
  rfl

/-! ## `round`, `calculateBaseCategoryTotal`, `calculateFinalSum`, `rateTotalFor`: what they compute, over ANY reading of the primitives -/

/-- `Total.round` on one rate group, over any reading of the primitives -/
def roundRateG [NumOps] (e : Nat) (rt : RateTotal) : RateTotal :=
  { rt with
    amount := NumOps.rescale rt.amount e
    base := NumOps.rescale rt.base e
    surcharge := rt.surcharge.map fun s => { s with amount := NumOps.rescale s.amount e } }

/-- `Total.round` on one category -/
def roundCatG [NumOps] (e : Nat) (ct : CategoryTotal) : CategoryTotal :=
  { ct with
    rates := ct.rates.map (roundRateG e)
    amountP := ct.amount
    amount := NumOps.rescale ct.amount e
    surcharge := ct.surcharge.map (NumOps.rescale · e) }

theorem round_eq [NumOps] (t : Total) (zero : Amount) :
    TaxTotalsSrc.Total_round t zero =
      ((), ⟨t.categories.map (roundCatG zero.exp), NumOps.rescale t.sum zero.exp, t.sum⟩) := by
  unfold TaxTotalsSrc.Total_round
  simp only [forIn_list_id, pure_bind]
  simp only [Id.run, id_pure, List.set_set, ite_yield_id, forList_fold]
  rw [foldl_cursor_via (fun cats => (⟨cats, t.sum, t.sumP⟩ : Total)) _ (roundCatG zero.exp) ?h t.categories]
  case h =>
    intro acc x i
    dsimp only
    generalize hR : List.foldl _ (_, x) x.rates.zipIdx = R
    have h23 : R.2 = { x with rates := x.rates.map (roundRateG zero.exp) } ∧
        ∀ d, (⟨R.1.categories.set i d, R.1.sum, R.1.sumP⟩ : Total) = ⟨acc.set i d, t.sum, t.sumP⟩ := by
      rw [← hR]
      exact (foldl_inner_cursor (N := Total) (C := CategoryTotal)
        (fun n c => ⟨n.categories.set i c, n.sum, n.sumP⟩) (by intro n a b; simp [List.set_set])
        (fun c p => { c with rates := c.rates.set p.2 (roundRateG zero.exp p.1) }) _
        (by
          intro n c p
          rcases p with ⟨⟨k, cn, e, b, pc, su, a⟩, j⟩
          cases su <;> simp [roundRateG])
        (fun rs' => { x with rates := rs' }) (roundRateG zero.exp) (by intro acc x j; rfl) x.rates ⟨acc, t.sum, t.sumP⟩).2
    simp only [h23.1, h23.2]
    rcases x with ⟨cd, ret, rs, am, su, ap⟩
    cases su <;> simp [roundCatG]

/-- the rate part of `calculateBaseCategoryTotal`, over any reading of the primitives -/
def rateAmountsG [NumOps] (zero : Amount) (rt : RateTotal) : RateTotal :=
  match rt.percent with
  | none => { rt with amount := zero }
  | some p =>
    { rt with
      amount := NumOps.pctOf p rt.base
      surcharge := rt.surcharge.map fun s => { s with amount := NumOps.pctOf s.percent rt.base } }

/-- what one rate group adds to (category amount, category surcharge) in `calculateBaseCategoryTotal` -/
def catAccG [NumOps] (zero : Amount) (rr : String) (s : Amount × Option Amount) (rt : RateTotal) : Amount × Option Amount :=
  match rt.percent with
  | none => s
  | some p =>
    (NumOps.add (TaxTotalsSrc.matchRoundingPrecision rr s.1 (NumOps.pctOf p rt.base)) (NumOps.pctOf p rt.base),
     match rt.surcharge with
     | none => s.2
     | some su =>
       some (NumOps.add (TaxTotalsSrc.matchRoundingPrecision rr (s.2.getD zero) (NumOps.pctOf su.percent rt.base))
         (NumOps.pctOf su.percent rt.base)))

/-- `calculateBaseCategoryTotal` on a category, over any reading of the primitives -/
def calcCatG [NumOps] (zero : Amount) (rr : String) (ct : CategoryTotal) : CategoryTotal :=
  { ct with
    rates := ct.rates.map (rateAmountsG zero)
    amount := (ct.rates.foldl (catAccG zero rr) (zero, none)).1
    surcharge := (ct.rates.foldl (catAccG zero rr) (zero, none)).2 }

theorem calcBase_eq [NumOps] (t : Total) (ct : CategoryTotal) (zero : Amount) (rr : String) :
    TaxTotalsSrc.Total_calculateBaseCategoryTotal t ct zero rr = ((), calcCatG zero rr ct) := by
  unfold TaxTotalsSrc.Total_calculateBaseCategoryTotal
  simp only [forIn_list_id, pure_bind]
  simp only [Id.run, id_pure, List.set_set, ite_yield_id, forList_fold]
  rw [foldl_cursor_acc' (σ := Amount × Option Amount)
    (fun rs s => (⟨ct.code, ct.retained, rs, s.1, s.2, ct.amountP⟩ : CategoryTotal)) _
    (fun _ => rateAmountsG zero) (catAccG zero rr) ?h ct.rates (zero, none)]
  case h =>
    intro acc s x i
    rcases x with ⟨k, cn, e, b, pc, su, a⟩
    rcases s with ⟨s1, s2⟩
    cases pc <;> cases su <;> cases s2 <;> simp [rateAmountsG, catAccG]
  rw [mapAcc_const]; rfl

/-- what one (calculated) category adds to the sum in `calculateFinalSum` -/
def sumAccG [NumOps] (rr : String) (s : Amount) (ct : CategoryTotal) : Amount :=
  if ct.retained = true then
    match ct.surcharge with
    | some x => NumOps.sub (NumOps.sub (TaxTotalsSrc.matchRoundingPrecision rr s ct.amount) ct.amount) x
    | none => NumOps.sub (TaxTotalsSrc.matchRoundingPrecision rr s ct.amount) ct.amount
  else
    match ct.surcharge with
    | some x => NumOps.add (NumOps.add (TaxTotalsSrc.matchRoundingPrecision rr s ct.amount) ct.amount) x
    | none => NumOps.add (TaxTotalsSrc.matchRoundingPrecision rr s ct.amount) ct.amount

theorem calcFinalSum_eq [NumOps] (t : Total) (zero : Amount) (rr : String) :
    TaxTotalsSrc.Total_calculateFinalSum t zero rr =
      ((), ⟨t.categories.map (calcCatG zero rr), (t.categories.map (calcCatG zero rr)).foldl (sumAccG rr) zero, t.sumP⟩) := by
  unfold TaxTotalsSrc.Total_calculateFinalSum
  simp only [forIn_list_id, pure_bind]
  simp only [Id.run, id_pure, ite_yield_id, forList_fold, calcBase_eq]
  rw [foldl_cursor_acc' (σ := Amount)
    (fun cats s => (⟨cats, s, t.sumP⟩ : Total)) _
    (fun _ => calcCatG zero rr) (fun s ct => sumAccG rr s (calcCatG zero rr ct)) ?h t.categories zero]
  case h =>
    intro acc s x i
    generalize calcCatG zero rr x = y
    rcases y with ⟨cd, ret, rs, am, su, ap⟩
    cases ret <;> cases su <;> simp [sumAccG]
  rw [mapAcc_const, List.foldl_map]

/-- the row `newRateTotal` makes -/
def newRT (c : TaxTotals.Combo) (zero : Amount) : RateTotal :=
  { key := c.rate, country := c.country, ext := c.ext, base := zero, percent := c.percent,
    surcharge := c.surcharge.map (fun s => { percent := s, amount := zero }), amount := zero }

/-- `rateTotalFor` inside one category: the rates afterwards and the row the returned pointer aliases -/
def locRates [NumOps] (c : TaxTotals.Combo) (zero : Amount) : List RateTotal → List RateTotal × RateTotal
  | [] => ([newRT c zero], newRT c zero)
  | rt :: rts =>
    if TaxTotalsSrc.RateTotal_matches rt c = true then (rt :: rts, rt)
    else ((rt :: (locRates c zero rts).1), (locRates c zero rts).2)

/-- `rateTotalFor`: the categories afterwards and the row the returned pointer aliases -/
def locCats [NumOps] (c : TaxTotals.Combo) (zero : Amount) : List CategoryTotal → List CategoryTotal × RateTotal
  | [] => ([{ code := c.category, retained := c.retained, rates := [newRT c zero], amount := zero, surcharge := none,
              amountP := zero }], newRT c zero)
  | ct :: cts =>
    if ct.code = c.category then ({ ct with rates := (locRates c zero ct.rates).1 } :: cts, (locRates c zero ct.rates).2)
    else (ct :: (locCats c zero cts).1, (locCats c zero cts).2)

theorem locRates_none [NumOps] (c : TaxTotals.Combo) (zero : Amount) (l : List RateTotal)
    (h : ∀ x ∈ l, ¬ (TaxTotalsSrc.RateTotal_matches x c = true)) :
    locRates c zero l = (l ++ [newRT c zero], newRT c zero) := by
  induction l with
  | nil => rfl
  | cons a l ih =>
    have ha : ¬ (TaxTotalsSrc.RateTotal_matches a c = true) := h a (by simp)
    simp [locRates, ha, ih (fun x hx => h x (by simp [hx]))]

theorem locRates_found [NumOps] (c : TaxTotals.Combo) (zero : Amount) (pre post : List RateTotal) (m : RateTotal)
    (h : ∀ x ∈ pre, ¬ (TaxTotalsSrc.RateTotal_matches x c = true)) (hm : TaxTotalsSrc.RateTotal_matches m c = true) :
    locRates c zero (pre ++ m :: post) = (pre ++ m :: post, m) := by
  induction pre with
  | nil => simp [locRates, hm]
  | cons a l ih =>
    have ha : ¬ (TaxTotalsSrc.RateTotal_matches a c = true) := h a (by simp)
    simp [locRates, ha, ih (fun x hx => h x (by simp [hx]))]

theorem locCats_none [NumOps] (c : TaxTotals.Combo) (zero : Amount) (l : List CategoryTotal)
    (h : ∀ x ∈ l, ¬ (x.code = c.category)) :
    locCats c zero l = (l ++ [⟨c.category, c.retained, [newRT c zero], zero, none, zero⟩], newRT c zero) := by
  induction l with
  | nil => rfl
  | cons a l ih =>
    have ha : ¬ (a.code = c.category) := h a (by simp)
    simp [locCats, ha, ih (fun x hx => h x (by simp [hx]))]

theorem locCats_found [NumOps] (c : TaxTotals.Combo) (zero : Amount) (pre post : List CategoryTotal) (m : CategoryTotal)
    (h : ∀ x ∈ pre, ¬ (x.code = c.category)) (hm : m.code = c.category) :
    locCats c zero (pre ++ m :: post) =
      (pre ++ { m with rates := (locRates c zero m.rates).1 } :: post, (locRates c zero m.rates).2) := by
  induction pre with
  | nil => simp [locCats, hm]
  | cons a l ih =>
    have ha : ¬ (a.code = c.category) := h a (by simp)
    simp [locCats, ha, ih (fun x hx => h x (by simp [hx]))]

theorem rateTotalFor_eq [NumOps] (t : Total) (c : TaxTotals.Combo) (zero : Amount) :
    TaxTotalsSrc.Total_rateTotalFor t c zero =
      (some (locCats c zero t.categories).2, ⟨(locCats c zero t.categories).1, t.sum, t.sumP⟩) := by
  unfold TaxTotalsSrc.Total_rateTotalFor
  simp only [forIn_list_id, pure_bind]
  simp only [Id.run, id_pure, newRateTotal_eq, newCategoryTotal_eq, Option.get!_some]
  rcases forList_search (fun (m : CategoryTotal) => m.code = c.category) t.categories 0 with
    ⟨hno, hs⟩ | ⟨pre, m, post, hl, hpre, hm, hs⟩
  · simp only [hs, Option.isNone_none, if_true, List.zipIdx_nil, forList]
    rw [locCats_none _ _ _ hno]
    simp [newRT]
  · simp only [hs, Option.isNone_some, Bool.false_eq_true, if_false, Option.get!_some, Nat.zero_add]
    rw [hl, locCats_found _ _ _ _ _ hpre hm]
    rcases forList_search (fun (r : RateTotal) => TaxTotalsSrc.RateTotal_matches r c = true) m.rates 0 with
      ⟨rno, rs⟩ | ⟨rpre, rm, rpost, rl, rpreh, rmh, rs⟩
    · simp only [rs, Option.isNone_none, if_true]
      rw [locRates_none _ _ _ rno]
      simp [newRT]
    · simp only [rs, Option.isNone_some, Bool.false_eq_true, if_false]
      rw [rl, locRates_found _ _ _ _ _ rpreh rmh]
      simp only [← rl]
      rcases t with ⟨cats, s, sp⟩
      simp only at hl
      rw [hl]

/-! ## the closed forms read with the faithful operations = Model/Merge.lean -/

theorem roundCatG_faithful (e : Nat) : @roundCatG faithfulOps e = Merge.roundCategory e := rfl

theorem calcRate_fold (rr : String) (zero : Amount) (l : List RateTotal) (done : List RateTotal) (a : Amount) (s : Option Amount) :
    l.foldl (Merge.calcRate (rr == "currency") zero) (done, a, s) =
      (done ++ l.map (@rateAmountsG faithfulOps zero),
        (l.foldl (@catAccG faithfulOps zero rr) (a, s)).1, (l.foldl (@catAccG faithfulOps zero rr) (a, s)).2) := by
  induction l generalizing done a s with
  | nil => simp
  | cons x l ih =>
    rcases x with ⟨k, cn, e, b, pc, su, am⟩
    cases pc <;> cases su <;>
      simp [Merge.calcRate, ih, rateAmountsG, catAccG, mrp_faithful, f_add, f_pctOf]

theorem calcCatG_faithful (zero : Amount) (rr : String) (ct : CategoryTotal) :
    @calcCatG faithfulOps zero rr ct = Merge.calcCategory (rr == "currency") zero ct := by
  unfold Merge.calcCategory calcCatG
  rw [calcRate_fold]; simp

theorem sumStep_fold (rr : String) (zero : Amount) (l : List CategoryTotal) (done : List CategoryTotal) (a : Amount) :
    l.foldl (Merge.calcSumStep (rr == "currency") zero) (done, a) =
      (done ++ l.map (@calcCatG faithfulOps zero rr), (l.map (@calcCatG faithfulOps zero rr)).foldl (@sumAccG faithfulOps rr) a) := by
  induction l generalizing done a with
  | nil => simp
  | cons x l ih =>
    simp only [List.foldl_cons, List.map_cons, Merge.calcSumStep, ← calcCatG_faithful, ih]
    generalize @calcCatG faithfulOps zero rr x = y
    rcases y with ⟨cd, ret, rs, am, su, ap⟩
    cases ret <;> cases su <;> simp [sumAccG, mrp_faithful, f_add, f_sub]

/-- `calculateFinalSum` followed by `round` (the body of `Total.Calculate` after the nil test and the
    zero of the currency), read with the faithful operations, is `Total.calculate` of Model/Merge.lean -/
theorem Calculate_body_faithful (t : Total) (e : Nat) (rr : String) :
    (@TaxTotalsSrc.Total_round faithfulOps (@TaxTotalsSrc.Total_calculateFinalSum faithfulOps t ⟨0, e⟩ rr).2 ⟨0, e⟩).2 =
      t.calculate e (rr == "currency") := by
  rw [@calcFinalSum_eq faithfulOps, @round_eq faithfulOps]
  unfold Merge.Total.calculate
  simp only [sumStep_fold, roundCatG_faithful, f_rescale, List.nil_append]

end GoblVerif.Proofs.TaxTotalsSrc
