/-
  Helper lemmas for the customer-rates part of C04 (Model/CustomerRates.lean):
  what one `Invoice.Calculate` does to every combo, in closed form, for the
  order of the code and for the alternative order of a possible repair.
  Core Lean only.
-/
import GoblVerif.Model.CustomerRates

namespace GoblVerif.CustomerRates

theorem mapCombos_mapCombos (f g : Combo → Combo) (d : Doc) :
    mapCombos f (mapCombos g d) = mapCombos (fun t => f (g t)) d := by
  simp [mapCombos, List.map_map, Function.comp_def]

theorem mapCombos_congr (f g : Combo → Combo) (d : Doc) (h : ∀ t, f t = g t) : mapCombos f d = mapCombos g d := by
  have : f = g := funext h
  rw [this]

@[simp] theorem mapCombos_tagged (f : Combo → Combo) (d : Doc) : (mapCombos f d).tagged = d.tagged := rfl
@[simp] theorem mapCombos_customer (f : Combo → Combo) (d : Doc) : (mapCombos f d).customer = d.customer := rfl

theorem mapCombos_id (d : Doc) : mapCombos (fun t => t) d = d := by
  cases d
  simp [mapCombos]

/-- `applyCustomerRates` writes the customer's country, if there is one, on every combo -/
theorem applyCustomerRates_eq (d : Doc) : applyCustomerRates d = mapCombos (withCountry d.customer) d := by
  cases d with
  | mk tg cu l di ch =>
    cases cu with
    | none =>
      have : withCountry none = fun t => t := rfl
      show _ = mapCombos (withCountry none) _
      rw [this, mapCombos_id]
      rfl
    | some c => rfl

/-- the customer-rates step of `normalize` and of `calculate` -/
theorem rates_step_eq (d : Doc) :
    (if d.tagged then applyCustomerRates d else d) = mapCombos (withCountry (if d.tagged then d.customer else none)) d := by
  by_cases h : d.tagged
  · simp only [h, if_true]
    exact applyCustomerRates_eq d
  · simp only [h]
    have : withCountry none = fun t => t := rfl
    simp [this, mapCombos_id]

theorem effective_eq (n : Norms) (d : Doc) :
    (if (normCustomer n d).tagged then (normCustomer n d).customer else none) = effective n d := rfl

/-- **closed form of the alternative order** (possible repair): one `Calculate` would send every
    combo through `stepAlt` -/
theorem passAlt_eq (n : Norms) (k : Combo → Combo) (d : Doc) :
    passAlt n k d = mapCombos (stepAlt n k (effective n d)) (normCustomer n d) := by
  unfold passAlt calculate normalizeAlt
  show (let d2 := if (mapCombos n.combo (if (normCustomer n d).tagged then applyCustomerRates (normCustomer n d) else normCustomer n d)).tagged
                  then applyCustomerRates (mapCombos n.combo (if (normCustomer n d).tagged then applyCustomerRates (normCustomer n d) else normCustomer n d))
                  else mapCombos n.combo (if (normCustomer n d).tagged then applyCustomerRates (normCustomer n d) else normCustomer n d)
        mapCombos k d2) = _
  simp only []
  rw [rates_step_eq (normCustomer n d), effective_eq]
  rw [rates_step_eq]
  simp only [mapCombos_tagged, mapCombos_customer, effective_eq, mapCombos_mapCombos]
  rfl

/-- **closed form of the order of the code**: the normalisers see the combo as written -/
theorem pass_eq (n : Norms) (k : Combo → Combo) (d : Doc) :
    pass n k d = mapCombos (step n k (effective n d)) (normCustomer n d) := by
  unfold pass calculate normalize
  show (let d2 := if (mapCombos n.combo (normCustomer n d)).tagged
                  then applyCustomerRates (mapCombos n.combo (normCustomer n d))
                  else mapCombos n.combo (normCustomer n d)
        mapCombos k d2) = _
  simp only []
  rw [rates_step_eq]
  simp only [mapCombos_tagged, mapCombos_customer, mapCombos_mapCombos]
  rfl

theorem normCustomer_mapCombos (n : Norms) (f : Combo → Combo) (d : Doc) :
    normCustomer n (mapCombos f d) = mapCombos f (normCustomer n d) := rfl

theorem normCustomer_idem (n : Norms) (hp : ∀ c, n.party (n.party c) = n.party c) (d : Doc) :
    normCustomer n (normCustomer n d) = normCustomer n d := by
  cases d with
  | mk tg cu l di ch =>
    cases cu <;> simp [normCustomer, hp]

theorem effective_normCustomer (n : Norms) (hp : ∀ c, n.party (n.party c) = n.party c) (d : Doc) :
    effective n (normCustomer n d) = effective n d := by
  cases d with
  | mk tg cu l di ch =>
    cases cu <;> cases tg <;> simp [effective, normCustomer, hp]

theorem effective_mapCombos (n : Norms) (f : Combo → Combo) (d : Doc) : effective n (mapCombos f d) = effective n d := rfl

theorem withCountry_idem (o : Option String) (t : Combo) : withCountry o (withCountry o t) = withCountry o t := by
  cases o <;> rfl

/-- `Calculate` repeated: the customer stays as the first normalisation left it and every combo goes
    through `step` once more -/
theorem pass_pass_eq (n : Norms) (k : Combo → Combo) (hp : ∀ c, n.party (n.party c) = n.party c)
    (f : Combo → Combo) (d : Doc) :
    pass n k (mapCombos f (normCustomer n d))
      = mapCombos (fun t => step n k (effective n d) (f t)) (normCustomer n d) := by
  rw [pass_eq, effective_mapCombos, effective_normCustomer n hp, normCustomer_mapCombos,
    normCustomer_idem n hp, mapCombos_mapCombos]

theorem passAlt_passAlt_eq (n : Norms) (k : Combo → Combo) (hp : ∀ c, n.party (n.party c) = n.party c)
    (f : Combo → Combo) (d : Doc) :
    passAlt n k (mapCombos f (normCustomer n d))
      = mapCombos (fun t => stepAlt n k (effective n d) (f t)) (normCustomer n d) := by
  rw [passAlt_eq, effective_mapCombos, effective_normCustomer n hp, normCustomer_mapCombos,
    normCustomer_idem n hp, mapCombos_mapCombos]

/-! ## the PT / pt-saft-v1 instance -/

/-- what the PT normalisers do to the extensions, given category, country and rate -/
def ptExt (saft : Bool) (cat country rate : String) (e : Ext) : Ext :=
  ((ptNorms saft).combo ⟨cat, country, rate, e⟩).ext

/-- the PT normalisers change the extensions only -/
theorem ptNorms_combo_eq (saft : Bool) (t : Combo) :
    (ptNorms saft).combo t = { t with ext := ptExt saft t.cat t.country t.rate t.ext } := by
  cases t with
  | mk cat country rate ext =>
  cases saft <;> simp only [ptExt, ptNorms, saftCombo, ptRegimeCombo, Bool.false_eq_true, if_false, if_true]
  · split <;> rfl
  · by_cases h1 : cat ≠ "VAT"
    · simp [h1]
    · simp only [h1, if_false]
      by_cases h2 : foreignTo "PT" country
      · simp [h2]
      · simp only [h2, if_false]
        by_cases h3 : rate = ""
        · simp [h3]
        · simp only [h3, if_false]
          cases saftRateCode rate <;> rfl

theorem ptExt_closed (saft : Bool) (cat c rate : String) (e : Ext) :
    ptExt saft cat c rate e =
      if cat ≠ "VAT" then e else
      let e1 := if e "pt-region" = "" then extSet "pt-region" "PT" e else e
      let e2 := if foreignTo "PT" c then extSet "pt-region" (isoCountry c) e1 else e1
      if saft = false then e2 else
      if foreignTo "PT" c then extSet "pt-saft-tax-rate" "OUT" e2 else
      if rate = "" then e2 else
      match saftRateCode rate with
      | none => e2
      | some code => extSet "pt-saft-tax-rate" code e2 := by
  cases saft <;> simp only [ptExt, ptNorms, saftCombo, ptRegimeCombo, Bool.false_eq_true, if_false, if_true]
  · split <;> rfl
  · by_cases h1 : cat ≠ "VAT"
    · simp [h1]
    · simp only [h1, if_false]
      by_cases h2 : foreignTo "PT" c
      · simp [h2]
      · simp only [h2, if_false]
        by_cases h3 : rate = ""
        · simp [h3]
        · simp only [h3, if_false]
          cases saftRateCode rate <;> simp

/-- normalising a normalised combo of the same country changes nothing -/
theorem ptExt_idem (saft : Bool) (cat c rate : String) (e : Ext) :
    ptExt saft cat c rate (ptExt saft cat c rate e) = ptExt saft cat c rate e := by
  rw [ptExt_closed saft cat c rate e]
  by_cases h1 : cat ≠ "VAT"
  · rw [ptExt_closed]; simp [h1]
  · rw [ptExt_closed]
    simp only [h1, if_false]
    funext x
    by_cases h2 : foreignTo "PT" c <;> by_cases h0 : e "pt-region" = "" <;> cases saft <;>
      by_cases h3 : rate = "" <;> cases saftRateCode rate <;>
      simp only [h2, h0, h3, if_true, if_false, reduceCtorEq] <;> grind [extSet]

/-- the regime's own country and no country are the same to the PT normalisers -/
theorem ptExt_own (saft : Bool) (cat rate : String) (e : Ext) :
    ptExt saft cat "PT" rate e = ptExt saft cat "" rate e := by
  have h1 : ¬ foreignTo "PT" "PT" := by simp [foreignTo]
  have h2 : ¬ foreignTo "PT" "" := by simp [foreignTo]
  rw [ptExt_closed, ptExt_closed]
  simp only [h1, h2, if_false]

theorem partyCountry_idem (c : String) : partyCountry (partyCountry c) = partyCountry c := by
  unfold partyCountry
  by_cases h : c = "GR"
  · simp [h]
  · simp [h]

/-- (possible repair) one combo would be settled after one calculation: regime PT, with or without
    pt-saft-v1, whatever the customer rates are -/
theorem pt_stepAlt_idem (saft : Bool) (o : Option String) (t : Combo) :
    stepAlt (ptNorms saft) (comboCalculate "PT") o (stepAlt (ptNorms saft) (comboCalculate "PT") o t)
      = stepAlt (ptNorms saft) (comboCalculate "PT") o t := by
  cases t with
  | mk cat country rate ext =>
  cases o with
  | some c =>
    simp only [stepAlt, withCountry, setCountry, ptNorms_combo_eq, comboCalculate]
    by_cases h : c = "PT"
    · simp only [h, if_true, ptExt_idem]
    · simp only [h, if_false, ptExt_idem]
  | none =>
    simp only [stepAlt, withCountry, ptNorms_combo_eq, comboCalculate]
    by_cases h : country = "PT"
    · subst h
      simp only [if_true, ptExt_own, ptExt_idem]
      simp
    · simp only [h, if_false, ptExt_idem]

/-- (the code) without customer rates one combo is settled after one calculation -/
theorem pt_step_none_idem (saft : Bool) (t : Combo) :
    step (ptNorms saft) (comboCalculate "PT") none (step (ptNorms saft) (comboCalculate "PT") none t)
      = step (ptNorms saft) (comboCalculate "PT") none t :=
  pt_stepAlt_idem saft none t

/-- (the code) with customer rates one combo is settled after TWO calculations: from the second one on
    the normalisers see the country the first one stored -/
theorem pt_step_settles (saft : Bool) (o : Option String) (t : Combo) :
    step (ptNorms saft) (comboCalculate "PT") o
        (step (ptNorms saft) (comboCalculate "PT") o (step (ptNorms saft) (comboCalculate "PT") o t))
      = step (ptNorms saft) (comboCalculate "PT") o (step (ptNorms saft) (comboCalculate "PT") o t) := by
  cases o with
  | none => rw [pt_step_none_idem]
  | some c =>
    cases t with
    | mk cat country rate ext =>
    simp only [step, withCountry, setCountry, ptNorms_combo_eq, comboCalculate]
    by_cases h : c = "PT"
    · simp only [h, if_true, ptExt_idem]
    · simp only [h, if_false, ptExt_idem]

end GoblVerif.CustomerRates
