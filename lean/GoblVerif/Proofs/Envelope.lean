/-
  Helper lemmas about the envelope model's verification functions (core Lean only).
-/
import GoblVerif.Model.Envelope
import GoblVerif.Proofs.Header

namespace GoblVerif

theorem find_key_isSome (ks : List Key) (s : Sig) :
    (ks.find? (fun k => jwsValid k s)).isSome = true ↔ s.signer ∈ ks := by
  simp only [List.find?_isSome, jwsValid, beq_iff_eq]
  constructor
  · rintro ⟨k, hk, rfl⟩; exact hk
  · intro h; exact ⟨s.signer, h, rfl⟩

/-- the per-signature verdict is `ok` exactly when the entry is a real
    signature, made by one of the keys (or no keys are given) and contained -/
theorem verifySignature_ok_iff (h : Header) (s : Option Sig) (ks : List Key) :
    verifySignature h s ks = .ok ↔
      ∃ sg, s = some sg ∧ (ks = [] ∨ sg.signer ∈ ks) ∧ h.contains sg.payload = true := by
  cases s with
  | none => simp only [verifySignature]; split <;> simp
  | some sg =>
    simp only [verifySignature]
    by_cases hk : ks = []
    · subst hk; by_cases hc : h.contains sg.payload = true <;> simp [hc]
    · have hke : ks.isEmpty = false := by cases ks <;> simp_all
      simp only [hke, Bool.false_eq_true, if_false]
      cases hf : ks.find? (fun k => jwsValid k sg) with
      | none =>
        have : ¬ sg.signer ∈ ks := by
          intro hin
          have := (find_key_isSome ks sg).mpr hin
          simp [hf] at this
        simp [hk, this]
      | some k0 =>
        have : sg.signer ∈ ks := (find_key_isSome ks sg).mp (by simp [hf])
        by_cases hc : h.contains sg.payload = true <;> simp [hc, this]

theorem Env.verify_ok_iff (e : Env) (ks : List Key) :
    e.verify ks = .ok ↔ e.sigs ≠ [] ∧ ∀ s ∈ e.sigs, verifySignature e.head s ks = .ok := by
  unfold Env.verify
  by_cases h0 : e.sigs = []
  · simp [h0]
  · have : e.sigs.isEmpty = false := by cases hs : e.sigs <;> simp_all
    simp only [this, Bool.false_eq_true, if_false]
    constructor
    · intro h
      split at h
      · rename_i hall
        refine ⟨h0, fun s hs => ?_⟩
        rw [List.all_eq_true] at hall
        have := hall (verifySignature e.head s ks) (List.mem_map.mpr ⟨s, hs, rfl⟩)
        simpa using this
      · cases h
    · rintro ⟨_, hall⟩
      have : (e.sigs.map (fun s => verifySignature e.head s ks)).all (· == .ok) = true := by
        rw [List.all_eq_true]
        intro v hv
        obtain ⟨s, hs, rfl⟩ := List.mem_map.mp hv
        simp [hall s hs]
      simp [this]

theorem cliSigs_ok_iff (h : Header) (k : Key) : ∀ (ss : List (Option Sig)),
    cliSigs h k ss = .ok ↔ ∀ s ∈ ss, ∃ sg, s = some sg ∧ sg.signer = k ∧ h.contains sg.payload = true
  | [] => by simp [cliSigs]
  | none :: rest => by simp [cliSigs]
  | some sg :: rest => by
    simp only [cliSigs, jwsValid]
    by_cases hk : sg.signer = k
    · by_cases hc : h.contains sg.payload = true
      · simp [hk, hc, cliSigs_ok_iff h k rest]
      · simp [hk, hc]
    · simp [hk]

/-! digests as strings -/

theorem digest_str_inj (H : Nat → String) (d d' : Doc) :
    (digestOf H d).str = (digestOf H d').str → H d.content = H d'.content := by
  intro h
  simp only [digestOf, Digest.str] at h
  rw [String.ext_iff] at h
  simp only [String.toList_append] at h
  rw [List.append_assoc, List.append_assoc] at h
  have := List.append_cancel_left h
  have := List.append_cancel_left this
  exact String.ext_iff.mpr this

end GoblVerif
