/-
  Helper lemmas for C12: the calendar order is a strict total order, the
  model's qualifier/date tests coincide with the specification's on real
  calendar days, and "first match of a strictly descending list = its latest
  started entry".
-/
import GoblVerif.Model.Rates
import GoblVerif.Spec.C12

namespace GoblVerif.Proofs.Rates
open GoblVerif.Rates GoblVerif.Spec.C12

/-! ## the calendar order -/

theorem dateLt_iff (a b : Date) :
    dateLt a b = true ↔ (a.y < b.y ∨ (a.y = b.y ∧ (a.m < b.m ∨ (a.m = b.m ∧ a.d < b.d)))) := by
  simp [dateLt]

theorem dateLe_iff (a b : Date) :
    dateLe a b = true ↔ (a.y < b.y ∨ (a.y = b.y ∧ (a.m < b.m ∨ (a.m = b.m ∧ a.d ≤ b.d)))) := by
  simp [dateLe]

theorem date_ext {a b : Date} (hy : a.y = b.y) (hm : a.m = b.m) (hd : a.d = b.d) : a = b := by
  cases a; cases b; simp_all

theorem dateLt_trans {a b c : Date} (h1 : dateLt a b = true) (h2 : dateLt b c = true) : dateLt a c = true := by
  rw [dateLt_iff] at *; omega

theorem dateLt_asymm {a b : Date} (h1 : dateLt a b = true) : dateLt b a = false := by
  rw [Bool.eq_false_iff]; intro h2; rw [dateLt_iff] at *; omega

theorem dateLe_of_not_lt {a b : Date} (h : dateLt b a = false) : dateLe a b = true := by
  rw [Bool.eq_false_iff, Ne, dateLt_iff] at h; rw [dateLe_iff]; omega

theorem not_dateLe_of_lt {a b : Date} (h : dateLt a b = true) : dateLe b a = false := by
  rw [Bool.eq_false_iff]; intro h2; rw [dateLt_iff] at h; rw [dateLe_iff] at h2; omega

theorem dateLe_antisymm {a b : Date} (h1 : dateLe a b = true) (h2 : dateLe b a = true) : a = b := by
  rw [dateLe_iff] at *
  apply date_ext <;> omega

theorem dateLe_refl (a : Date) : dateLe a a = true := by rw [dateLe_iff]; omega

/-- `civil.Date.Before` is the calendar order -/
theorem before_eq_dateLt (a b : Date) : a.before b = dateLt a b := by
  rw [Bool.eq_iff_iff, dateLt_iff]
  unfold Date.before
  split
  · simp; omega
  · split
    · simp; omega
    · simp; omega

/-- the code's date test `!since.After(date)` is "since ≤ date" -/
theorem not_after_eq_dateLe (s d : Date) : (!s.after d) = dateLe s d := by
  unfold Date.after
  rw [before_eq_dateLt]
  cases h : dateLt d s
  · simp [dateLe_of_not_lt h]
  · simp [not_dateLe_of_lt h]

theorem isValid_eq_realDay (a : Date) : a.isValid = realDay a := by
  unfold Date.isValid realDay Date.daysIn Date.isLeap
  rcases a with ⟨y, m, d⟩
  simp only
  by_cases h1 : 1 ≤ m <;> by_cases h12 : m ≤ 12
  · have : m = 1 ∨ m = 2 ∨ m = 3 ∨ m = 4 ∨ m = 5 ∨ m = 6 ∨ m = 7 ∨ m = 8 ∨ m = 9 ∨ m = 10 ∨ m = 11 ∨ m = 12 := by omega
    rcases this with h | h | h | h | h | h | h | h | h | h | h | h <;> subst h <;> simp
  · simp [h12]
  · simp [h1]
  · simp [h1]

/-! ## start dates with "undated = −∞" -/

theorem startLt_trans {a b c : Option Date} (h1 : startLt a b = true) (h2 : startLt b c = true) : startLt a c = true := by
  cases a <;> cases b <;> cases c <;> simp_all [startLt]
  exact dateLt_trans h1 h2

theorem startLt_asymm {a b : Option Date} (h : startLt a b = true) : startLt b a = false := by
  cases a <;> cases b <;> simp_all [startLt]
  exact dateLt_asymm h

theorem startLt_irrefl (a : Option Date) : startLt a a = false := by
  cases a with
  | none => rfl
  | some x =>
    simp only [startLt]
    rw [Bool.eq_false_iff]; intro h; rw [dateLt_iff] at h; omega

theorem startLe_of_startLt {a b : Option Date} (h : startLt a b = true) : startLe a b = true := by
  cases a <;> cases b <;> simp_all [startLt, startLe]
  rw [dateLt_iff] at h; rw [dateLe_iff]; omega

theorem startLe_refl (a : Option Date) : startLe a a = true := by
  cases a <;> simp [startLe, dateLe_refl]

theorem startLe_antisymm {a b : Option Date} (h1 : startLe a b = true) (h2 : startLe b a = true) : a = b := by
  cases a <;> cases b <;> simp_all [startLe]
  exact dateLe_antisymm h1 h2

theorem startLe_of_not_startLt {a b : Option Date} (h : startLt b a = false) : startLe a b = true := by
  cases a <;> cases b <;> simp_all [startLt, startLe]
  exact dateLe_of_not_lt h

/-! ## model tests = specification tests -/

theorem hasAnyTag_eq (rowTags tags : List String) :
    hasAnyTag rowTags tags = rowTags.any (fun t => tags.contains t) := by
  unfold hasAnyTag
  congr 1
  funext t
  induction tags with
  | nil => rfl
  | cons x xs ih =>
    simp only [List.any_cons, List.contains_cons, ih]

theorem extContains_eq (ext rowExt : Ext) (hne : rowExt.isEmpty = false) :
    extContains ext rowExt = rowExt.all (fun kv => extLookup ext kv.1 == some kv.2) := by
  unfold extContains
  cases ext with
  | nil =>
    cases rowExt with
    | nil => simp at hne
    | cons kv rest => simp [extLookup]
  | cons p q => simp

theorem applicable_eq_applies (v : RateValue) (tags : List String) (ext : Ext) :
    applicable v tags ext = applies v tags ext := by
  unfold applicable applies tagsApply extApply
  rw [hasAnyTag_eq]
  cases h : v.ext.isEmpty
  · rw [extContains_eq _ _ h]
  · simp

/-- on real calendar days the code's date test is "start ≤ d" -/
theorem started_eq_onOrBefore (v : RateValue) (d : Date) (hv : sinceReal v = true) :
    started v d = onOrBefore v d := by
  unfold started onOrBefore
  unfold sinceReal at hv
  cases hs : v.since with
  | none => rfl
  | some s =>
    rw [hs] at hv
    simp only at hv ⊢
    rw [isValid_eq_realDay, hv, not_after_eq_dateLe]
    simp

/-- `RateDef.Value` = first applicable row that has started -/
theorem value_eq_find (vals : List RateValue) (d : Date) (tags : List String) (ext : Ext) :
    value vals d tags ext = (vals.filter fun v => applicable v tags ext).find? (fun v => started v d) := by
  induction vals with
  | nil => rfl
  | cons rv rest ih =>
    unfold value
    by_cases ht : (!rv.tags.isEmpty && !hasAnyTag rv.tags tags) = true
    · have hna : applicable rv tags ext = false := by
        unfold applicable
        simp only [Bool.and_eq_true, Bool.not_eq_eq_eq_not, Bool.not_true] at ht
        simp [ht.1, ht.2]
      rw [if_pos ht, ih, List.filter_cons_of_neg (by simp [hna])]
    · rw [if_neg ht]
      by_cases he : (!rv.ext.isEmpty && !extContains ext rv.ext) = true
      · have hna : applicable rv tags ext = false := by
          unfold applicable
          simp only [Bool.and_eq_true, Bool.not_eq_eq_eq_not, Bool.not_true] at he
          simp [he.1, he.2]
        rw [if_pos he, ih, List.filter_cons_of_neg (by simp [hna])]
      · rw [if_neg he]
        have ha : applicable rv tags ext = true := by
          unfold applicable
          simp only [Bool.and_eq_true, Bool.not_eq_eq_eq_not, Bool.not_true, not_and,
            Bool.not_eq_false] at ht he
          cases h1 : rv.tags.isEmpty <;> cases h2 : rv.ext.isEmpty <;> simp_all
        rw [List.filter_cons_of_pos (by simp [ha]), List.find?_cons]
        cases hs : started rv d
        · simp [ih]
        · simp

/-! ## strictly descending lists -/

theorem strictDesc_tail {x : Option Date} {l : List (Option Date)} (h : strictDesc (x :: l) = true) :
    strictDesc l = true := by
  cases l with
  | nil => rfl
  | cons y rest => simp [strictDesc] at h; exact h.2

theorem strictDesc_head_gt {x : Option Date} {l : List (Option Date)} (h : strictDesc (x :: l) = true) :
    ∀ y ∈ l, startLt y x = true := by
  induction l generalizing x with
  | nil => intro y hy; cases hy
  | cons z rest ih =>
    simp [strictDesc] at h
    intro y hy
    rcases List.mem_cons.mp hy with rfl | hy
    · exact h.1
    · exact startLt_trans (ih h.2 y hy) h.1

theorem weakDesc_tail {x : Option Date} {l : List (Option Date)} (h : weakDesc (x :: l) = true) :
    weakDesc l = true := by
  cases l with
  | nil => rfl
  | cons y rest => simp [weakDesc] at h; exact h.2

theorem startLe_trans {a b c : Option Date} (h1 : startLe a b = true) (h2 : startLe b c = true) : startLe a c = true := by
  cases a <;> cases b <;> cases c <;> simp_all [startLe]
  rw [dateLe_iff] at *; omega

theorem weakDesc_head_ge {x : Option Date} {l : List (Option Date)} (h : weakDesc (x :: l) = true) :
    ∀ y ∈ l, startLe y x = true := by
  induction l generalizing x with
  | nil => intro y hy; cases hy
  | cons z rest ih =>
    simp [weakDesc] at h
    intro y hy
    rcases List.mem_cons.mp hy with rfl | hy
    · exact h.1
    · exact startLe_trans (ih h.2 y hy) h.1

theorem weakDesc_of_strictDesc {l : List (Option Date)} (h : strictDesc l = true) : weakDesc l = true := by
  induction l with
  | nil => rfl
  | cons x rest ih =>
    cases rest with
    | nil => rfl
    | cons y r =>
      simp [strictDesc] at h
      simp [weakDesc, startLe_of_startLt h.1, ih h.2]

theorem latest_mem {l : List RateValue} {r : RateValue} (h : latest l = some r) : r ∈ l := by
  induction l generalizing r with
  | nil => simp [latest] at h
  | cons v rest ih =>
    unfold latest at h
    cases hl : latest rest with
    | none => rw [hl] at h; simp at h; simp [h]
    | some b =>
      rw [hl] at h
      simp only at h
      split at h
      · simp at h; subst h; exact List.mem_cons_of_mem _ (ih hl)
      · simp at h; simp [h]

/-- in a list whose start dates descend (weakly), the first entry passing any
    test `p` is `latest` of the entries passing `p` -/
theorem latest_filter_eq_find (A : List RateValue) (p : RateValue → Bool)
    (hd : weakDesc (A.map (·.since)) = true) :
    latest (A.filter p) = A.find? p := by
  induction A with
  | nil => rfl
  | cons v rest ih =>
    have hd' : weakDesc (rest.map (·.since)) = true := weakDesc_tail (by simpa using hd)
    cases hp : p v
    · rw [List.filter_cons_of_neg (by simp [hp]), List.find?_cons_of_neg (by simp [hp])]
      exact ih hd'
    · rw [List.filter_cons_of_pos (by simp [hp]), List.find?_cons_of_pos (by simp [hp])]
      unfold latest
      cases hl : latest (rest.filter p) with
      | none => rfl
      | some b =>
        simp only
        have hb : b ∈ rest := (List.mem_filter.mp (latest_mem hl)).1
        have hge : startLe b.since v.since = true :=
          weakDesc_head_ge (by simpa using hd) b.since (List.mem_map.mpr ⟨b, hb, rfl⟩)
        have : startLt v.since b.since = false := by
          cases h : startLt v.since b.since
          · rfl
          · have := startLe_antisymm hge (startLe_of_startLt h)
            rw [this, startLt_irrefl] at h; cases h
        rw [this]; simp

/-- `latest` returns an entry with a greatest start date -/
theorem latest_ge {l : List RateValue} {r : RateValue} (h : latest l = some r) :
    ∀ x ∈ l, startLe x.since r.since = true := by
  induction l generalizing r with
  | nil => intro x hx; cases hx
  | cons v rest ih =>
    unfold latest at h
    cases hl : latest rest with
    | none =>
      rw [hl] at h; simp at h; subst h
      have : rest = [] := by
        cases rest with
        | nil => rfl
        | cons a t =>
          exfalso
          unfold latest at hl
          cases h2 : latest t <;> simp [h2] at hl
          split at hl <;> cases hl
      subst this
      intro x hx; simp at hx; subst hx; exact startLe_refl _
    | some b =>
      rw [hl] at h
      simp only at h
      intro x hx
      cases hlt : startLt v.since b.since
      · rw [hlt] at h; simp at h; subst h
        have hvb : startLe b.since v.since = true := startLe_of_not_startLt hlt
        rcases List.mem_cons.mp hx with rfl | hx
        · exact startLe_refl _
        · exact startLe_trans (ih hl x hx) hvb
      · rw [hlt] at h; simp at h; subst h
        rcases List.mem_cons.mp hx with rfl | hx
        · exact startLe_of_startLt hlt
        · exact ih hl x hx

theorem find_congr {α : Type} {l : List α} {p q : α → Bool} (h : ∀ x ∈ l, p x = q x) :
    l.find? p = l.find? q := by
  induction l with
  | nil => rfl
  | cons a t ih =>
    rw [List.find?_cons, List.find?_cons, h a (List.mem_cons_self ..)]
    cases q a
    · exact ih (fun x hx => h x (List.mem_cons_of_mem _ hx))
    · rfl

end GoblVerif.Proofs.Rates
