/-
  Helper lemmas for the payment half of C20: the loop of `Payment.calculate`
  split into its two accumulators, the shape of a line total, and exactness of
  `ExchangeRate.Convert` at the destination currency's precision.
-/
import GoblVerif.Model.Payment
import GoblVerif.Spec.C20
import GoblVerif.Proofs.Merge
import GoblVerif.Proofs.Num
import Mathlib.Tactic.Linarith
import Mathlib.Tactic.FieldSimp

namespace GoblVerif.Payment
open GoblVerif GoblVerif.Merge GoblVerif.Spec.C20

/-- the tax summary a line contributes, if any -/
def lineTax (p : Payment) (l : PaymentLine) : Option Total :=
  l.document.bind fun dr => dr.calculated p.roundingCurrency

/-- `tt` after one more summary -/
def accTax (acc : Option Total) (t : Total) : Option Total :=
  some (match acc with | none => t | some x => x.merge t)

def accTotal (acc : Option Amount) (lt : Amount) : Option Amount :=
  some (match acc with | none => lt | some x => x.add lt)

theorem stepLine_ok (p : Payment) (st st' : LoopState) (l : PaymentLine) (h : stepLine p st l = .ok st') :
    ∃ lt, l.calculate p.currency p.curExp p.rates = .ok lt ∧
      st'.lineTotals = st.lineTotals ++ [lt] ∧
      st'.total = accTotal st.total lt ∧
      st'.tt = (match lineTax p l with | none => st.tt | some t => accTax st.tt t) := by
  unfold stepLine at h
  cases hl : l.calculate p.currency p.curExp p.rates with
  | error e => rw [hl] at h; simp [bind, Except.bind] at h
  | ok lt =>
    rw [hl] at h
    refine ⟨lt, rfl, ?_⟩
    unfold lineTax accTax accTotal
    rcases hd : l.document with _ | dr
    · rw [hd] at h
      simp only [bind, Except.bind, pure, Except.pure, Except.ok.injEq] at h
      subst h
      rcases st.total with _ | x <;> simp
    · rw [hd] at h
      by_cases hv : dr.docValid = true
      · simp only [hv, Bool.not_true, Bool.false_eq_true, if_false] at h
        rcases hc : dr.calculated p.roundingCurrency with _ | t
        · rw [hc] at h
          simp only [bind, Except.bind, pure, Except.pure, Except.ok.injEq] at h
          subst h
          rcases st.total with _ | x <;> simp [hc]
        · rw [hc] at h
          rcases ht : st.tt with _ | acc
          · rw [ht] at h
            simp only [bind, Except.bind, pure, Except.pure, Except.ok.injEq] at h
            subst h
            rcases st.total with _ | x <;> simp [hc, ht]
          · rw [ht] at h
            simp only [bind, Except.bind, pure, Except.pure, Except.ok.injEq] at h
            subst h
            rcases st.total with _ | x <;> simp [hc, ht]
      · simp [hv, bind, Except.bind, throw, throwThe, MonadExceptOf.throw] at h

theorem runLines_ok (p : Payment) (ls : List PaymentLine) (st st' : LoopState) (h : runLines p ls st = .ok st') :
    ∃ lts, List.Forall₂ (fun l lt => l.calculate p.currency p.curExp p.rates = .ok lt) ls lts ∧
      st'.lineTotals = st.lineTotals ++ lts ∧
      st'.total = lts.foldl accTotal st.total ∧
      st'.tt = (ls.filterMap (lineTax p)).foldl accTax st.tt := by
  induction ls generalizing st with
  | nil =>
    simp only [runLines, Except.ok.injEq] at h
    subst h
    exact ⟨[], List.Forall₂.nil, by simp, rfl, rfl⟩
  | cons l ls ih =>
    unfold runLines at h
    cases hs : stepLine p st l with
    | error e => rw [hs] at h; simp at h
    | ok st1 =>
      rw [hs] at h
      simp only at h
      obtain ⟨lt, hlt, h1, h2, h3⟩ := stepLine_ok p st st1 l hs
      obtain ⟨lts, f, g1, g2, g3⟩ := ih st1 h
      refine ⟨lt :: lts, List.Forall₂.cons hlt f, ?_, ?_, ?_⟩
      · rw [g1, h1]; simp
      · rw [g2, h2]; rfl
      · rw [g3, h3]
        rcases hx : lineTax p l with _ | t
        · simp [List.filterMap_cons, hx]
        · simp [List.filterMap_cons, hx]

/-- value a debit/credit side contributes to the line total -/
def sideValue (e : ℕ) (x : Option Amount) : ℤ := match x with | none => 0 | some a => (a.rescale e).value

theorem line_total (pl : PaymentLine) (cur : String) (e : ℕ) (rates : List ExchangeRate) (lt : Amount)
    (h : pl.calculate cur e rates = .ok lt) :
    ∃ d c, lineSide pl cur rates pl.debit = .ok d ∧ lineSide pl cur rates pl.credit = .ok c ∧
      lt = ⟨sideValue e d - sideValue e c, e⟩ := by
  unfold PaymentLine.calculate at h
  cases hd : lineSide pl cur rates pl.debit with
  | error x => rw [hd] at h; simp [bind, Except.bind] at h
  | ok d =>
    cases hc : lineSide pl cur rates pl.credit with
    | error x => rw [hd, hc] at h; simp [bind, Except.bind] at h
    | ok c =>
      rw [hd, hc] at h
      simp only [bind, Except.bind, pure, Except.pure, Except.ok.injEq] at h
      refine ⟨d, c, rfl, rfl, ?_⟩
      subst h
      unfold sideValue
      rcases d with _ | a <;> rcases c with _ | b <;> simp [Amount.add, Amount.sub]

theorem foldl_accTotal (e : ℕ) (lts : List Amount) (acc : Amount) (hacc : acc.exp = e)
    (h : ∀ lt ∈ lts, lt.exp = e) :
    lts.foldl accTotal (some acc) = some ⟨acc.value + (lts.map (·.value)).sum, e⟩ := by
  induction lts generalizing acc with
  | nil => simp [← hacc]
  | cons lt more ih =>
    simp only [List.foldl_cons, accTotal]
    have hl := h lt (by simp)
    rw [add_same_exp acc lt (by omega)]
    rw [ih ⟨acc.value + lt.value, acc.exp⟩ hacc (fun x hx => h x (by simp [hx]))]
    simp only [List.map_cons, List.sum_cons]
    congr 2; ring

/-- merge of a non-empty list of summaries, left to right -/
def mergeAll : List Total → Option Total
  | [] => none
  | t :: ts => some (ts.foldl Total.merge t)

theorem foldl_accTax_some (ts : List Total) (t : Total) :
    ts.foldl accTax (some t) = some (ts.foldl Total.merge t) := by
  induction ts generalizing t with
  | nil => rfl
  | cons x more ih => simp only [List.foldl_cons, accTax]; exact ih _

theorem foldl_accTax (ts : List Total) : ts.foldl accTax none = mergeAll ts := by
  cases ts with
  | nil => rfl
  | cons t more => simp only [List.foldl_cons, accTax, mergeAll]; exact foldl_accTax_some more t

/-! ### `ExchangeRate.Convert` is one exact rounding at the destination precision -/

/-- the result is at the destination currency's precision, whatever the amount -/
theorem convert_exp (er : ExchangeRate) (a : Amount) : (er.convert a).exp = er.toExp := by
  unfold ExchangeRate.convert
  by_cases h : a.exp > er.toExp
  · simp [h, Amount.multiply, Amount.rescaleUp]
  · simp only [h, if_false]
    unfold Amount.multiply Amount.rescaleUp Amount.rescale
    by_cases h2 : er.toExp > a.exp
    · have h3 : ¬ a.exp > er.toExp := h
      simp [h2, h3]
    · simp only [h2, if_false]
      omega

private theorem roundTo_eq_rha (e : ℕ) (q : ℚ) (N D : ℤ) (hD : 0 < D)
    (h : q * ((pow10 e : ℤ) : ℚ) = (N : ℚ) / D) : Spec.roundTo e q = rha N D := by
  rw [← goRound_div_pos N D hD]
  unfold Spec.roundTo Spec.roundHalfAway
  show goRound _ = goRound _
  rw [h]

/-- `Convert` = the exact product with the declared rate rounded half away from
    zero to the destination precision, for an amount of *any* precision, inside
    the float-exact domain: the product of the two integers `Multiply` receives
    (the amount's value, scaled up to the destination precision when it is
    coarser, and the rate's value) below 2^52, the power of ten it divides by
    at most 10^22. -/
theorem convert_exact (er : ExchangeRate) (a : Amount)
    (hm : |a.value * pow10 (er.toExp - a.exp) * er.amount.value| < 2 ^ 52)
    (he : er.amount.exp + (a.exp - er.toExp) ≤ 22) :
    er.convert a = convertSpec er.amount.toRat er.toExp a := by
  unfold ExchangeRate.convert convertSpec
  have h1 : ((pow10 a.exp : ℤ) : ℚ) ≠ 0 := by exact_mod_cast pow10_ne a.exp
  have h2 : ((pow10 er.amount.exp : ℤ) : ℚ) ≠ 0 := by exact_mod_cast pow10_ne _
  by_cases h : a.exp > er.toExp
  · -- finer than the destination: extra decimals moved to the rate
    simp only [h, if_true]
    have hz : er.toExp - a.exp = 0 := by omega
    rw [hz] at hm
    have hup : (⟨a.value, er.toExp⟩ : Amount).rescaleUp er.toExp = ⟨a.value, er.toExp⟩ := by
      simp [Amount.rescaleUp]
    rw [hup, multiply_exact _ _ (by simpa [pow10] using hm) he]
    unfold Amount.mulX
    congr 1
    symm
    apply roundTo_eq_rha _ _ _ _ (pow10_pos _)
    obtain ⟨d, hd⟩ : ∃ d, a.exp = er.toExp + d := ⟨a.exp - er.toExp, by omega⟩
    have hd' : er.toExp + d - er.toExp = d := by omega
    unfold Amount.toRat
    simp only [hd, hd']
    unfold pow10
    push_cast
    rw [pow_add, pow_add]
    field_simp
  · -- at or below the destination precision: raised first (integer scaling)
    simp only [h, if_false]
    obtain ⟨k, hk⟩ : ∃ k, er.toExp = a.exp + k := ⟨er.toExp - a.exp, by omega⟩
    have hk' : er.toExp - a.exp = k := by omega
    have hz : a.exp - er.toExp = 0 := by omega
    rw [hz] at he
    rw [hk'] at hm
    have hup : a.rescaleUp er.toExp = ⟨a.value * pow10 k, er.toExp⟩ := by
      unfold Amount.rescaleUp Amount.rescale
      by_cases hk0 : k = 0
      · subst hk0
        have : ¬ er.toExp > a.exp := by omega
        simp only [this, if_false]
        cases a
        simp only [pow10, pow_zero, mul_one, Amount.mk.injEq, true_and]
        simpa using hk.symm
      · have h3 : er.toExp > a.exp := by omega
        have h4 : ¬ a.exp > er.toExp := by omega
        simp [h3, h4, hk']
    rw [hup, multiply_exact _ _ (by simpa using hm) (by simpa using he)]
    unfold Amount.mulX
    congr 1
    symm
    apply roundTo_eq_rha _ _ _ _ (pow10_pos _)
    unfold Amount.toRat
    simp only [hk]
    unfold pow10
    push_cast
    rw [pow_add]
    field_simp

/-- the repaired `Convert` no longer depends on how the amount is written: the
    same value at two precisions converts to the same result (before 6f2aa78
    `100` JPY and `100.00` JPY gave 1.00 and 0.61 EUR at rate 0.0061) -/
theorem convert_precision_irrelevant (er : ExchangeRate) (a b : Amount) (hab : a.toRat = b.toRat)
    (hma : |a.value * pow10 (er.toExp - a.exp) * er.amount.value| < 2 ^ 52)
    (hea : er.amount.exp + (a.exp - er.toExp) ≤ 22)
    (hmb : |b.value * pow10 (er.toExp - b.exp) * er.amount.value| < 2 ^ 52)
    (heb : er.amount.exp + (b.exp - er.toExp) ≤ 22) :
    er.convert a = er.convert b := by
  rw [convert_exact er a hma hea, convert_exact er b hmb heb]
  unfold convertSpec
  rw [hab]


/-! ### a converted payment line against the specification -/

/-- the float-exact domain of `convert_exact` for an optional amount -/
def convDomain (r : ExchangeRate) (x : Option Amount) : Prop :=
  ∀ a, x = some a →
    |a.value * pow10 (r.toExp - a.exp) * r.amount.value| < 2 ^ 52 ∧ r.amount.exp + (a.exp - r.toExp) ≤ 22

/-- what a side contributes according to the specification: the exact product
    with the rate `q`, rounded once to `e` decimals; nothing when absent -/
def specSide (q : ℚ) (e : ℕ) (x : Option Amount) : ℤ :=
  match x with | none => 0 | some a => (convertSpec q e a).value

theorem lineSide_converted (pl : PaymentLine) (cur : String) (rates : List ExchangeRate) (r : ExchangeRate)
    (x : Option Amount) (hc : pl.currency ≠ "") (hne : pl.currency ≠ cur)
    (hr : matchExchangeRate rates pl.currency cur = some r) (hd : convDomain r x) :
    lineSide pl cur rates x = .ok (x.map (convertSpec r.amount.toRat r.toExp)) := by
  unfold lineSide
  rcases x with _ | a
  · rfl
  · obtain ⟨hm, he⟩ := hd a rfl
    simp only [bne_iff_ne, ne_eq, hc, not_false_eq_true, if_true, Option.map_some]
    unfold convert
    simp only [beq_iff_eq, hne, if_false, hr]
    rw [convert_exact r a hm he]

theorem sideValue_spec (q : ℚ) (e : ℕ) (x : Option Amount) :
    sideValue e (x.map (convertSpec q e)) = specSide q e x := by
  unfold sideValue specSide
  rcases x with _ | a
  · rfl
  · simp [convertSpec, Amount.rescale]

theorem converted_line_total (pl : PaymentLine) (cur : String) (e : ℕ) (rates : List ExchangeRate)
    (r : ExchangeRate) (lt : Amount) (hc : pl.currency ≠ "") (hne : pl.currency ≠ cur)
    (hr : matchExchangeRate rates pl.currency cur = some r) (hre : r.toExp = e)
    (hd : convDomain r pl.debit) (hcr : convDomain r pl.credit)
    (h : pl.calculate cur e rates = .ok lt) :
    lt = ⟨specSide r.amount.toRat e pl.debit - specSide r.amount.toRat e pl.credit, e⟩ := by
  obtain ⟨d, c, h1, h2, h3⟩ := line_total pl cur e rates lt h
  rw [lineSide_converted pl cur rates r _ hc hne hr hd] at h1
  rw [lineSide_converted pl cur rates r _ hc hne hr hcr] at h2
  simp only [Except.ok.injEq] at h1 h2
  subst h1 h2
  rw [h3, hre, sideValue_spec, sideValue_spec]

theorem forall2_exp (cur : String) (e : ℕ) (rates : List ExchangeRate) (ls : List PaymentLine) (lts : List Amount)
    (hf : List.Forall₂ (fun l lt => l.calculate cur e rates = .ok lt) ls lts) : ∀ lt ∈ lts, lt.exp = e := by
  induction hf with
  | nil => simp
  | cons hl _ ih =>
    intro lt hlt
    simp only [List.mem_cons] at hlt
    rcases hlt with rfl | hlt
    · obtain ⟨d, c, _, _, e⟩ := line_total _ _ _ _ _ hl
      rw [e]
    · exact ih lt hlt

/-! ### when `Payment.calculate` is defined, and what it does not look at -/

/-- a line the loop of `Payment.calculate` accepts: its amounts can be converted
    and the currency of its document (if any) is defined -/
def lineOK (p : Payment) (l : PaymentLine) : Prop :=
  (∃ lt, l.calculate p.currency p.curExp p.rates = .ok lt) ∧ ∀ dr, l.document = some dr → dr.docValid = true

theorem stepLine_defined (p : Payment) (st : LoopState) (l : PaymentLine) :
    (∃ st', stepLine p st l = .ok st') ↔ lineOK p l := by
  unfold stepLine lineOK
  cases hl : l.calculate p.currency p.curExp p.rates with
  | error e => simp [bind, Except.bind]
  | ok lt =>
    rcases hd : l.document with _ | dr
    · simp [bind, Except.bind, pure, Except.pure]
    · by_cases hv : dr.docValid = true
      · rcases hc : dr.calculated p.roundingCurrency with _ | t
        · simp [hv, hc, bind, Except.bind, pure, Except.pure]
        · rcases ht : st.tt with _ | acc <;> simp [hv, hc, bind, Except.bind, pure, Except.pure]
      · simp [hv, bind, Except.bind, throw, throwThe, MonadExceptOf.throw]

theorem runLines_defined (p : Payment) (ls : List PaymentLine) (st : LoopState) :
    (∃ st', runLines p ls st = .ok st') ↔ ∀ l ∈ ls, lineOK p l := by
  induction ls generalizing st with
  | nil => simp [runLines]
  | cons l ls ih =>
    unfold runLines
    cases hs : stepLine p st l with
    | error e =>
      have hn : ¬ lineOK p l := fun h => by
        obtain ⟨st', h'⟩ := (stepLine_defined p st l).mpr h
        rw [hs] at h'; cases h'
      simp [hn]
    | ok st1 =>
      have hl : lineOK p l := (stepLine_defined p st l).mp ⟨st1, hs⟩
      simp only [List.mem_cons, forall_eq_or_imp, hl, true_and]
      exact ih st1

theorem stepLine_total_irrelevant (p : Payment) (a : Amount) (st : LoopState) (l : PaymentLine) :
    stepLine { p with total := a } st l = stepLine p st l := rfl

theorem runLines_total_irrelevant (p : Payment) (a : Amount) (ls : List PaymentLine) (st : LoopState) :
    runLines { p with total := a } ls st = runLines p ls st := by
  induction ls generalizing st with
  | nil => rfl
  | cons l ls ih =>
    unfold runLines
    rw [stepLine_total_irrelevant]
    cases stepLine p st l with
    | error e => rfl
    | ok st1 => exact ih st1

end GoblVerif.Payment
