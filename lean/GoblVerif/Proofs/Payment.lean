/-
  Helper lemmas for the payment half of C20: the loop of `Payment.calculate`
  split into its two accumulators, the shape of a line total, and exactness of
  `ExchangeRate.Convert` at the destination currency's precision.
-/
import GoblVerif.Model.Payment
import GoblVerif.Spec.C20
import GoblVerif.Proofs.Merge
import GoblVerif.Proofs.Num
import Mathlib.Tactic.Linarith
import Mathlib.Tactic.FieldSimp

namespace GoblVerif.Payment
open GoblVerif GoblVerif.Merge GoblVerif.Spec.C20

/-- the tax summary a line contributes, if any -/
def lineTax (p : Payment) (l : PaymentLine) : Option Total :=
  l.document.bind fun dr => dr.calculated p.roundingCurrency

/-- `tt` after one more summary -/
def accTax (acc : Option Total) (t : Total) : Option Total :=
  some (match acc with | none => t | some x => x.merge t)

def accTotal (acc : Option Amount) (lt : Amount) : Option Amount :=
  some (match acc with | none => lt | some x => x.add lt)

theorem stepLine_ok (p : Payment) (st st' : LoopState) (l : PaymentLine) (h : stepLine p st l = .ok st') :
    ∃ lt, l.calculate p.currency p.curExp p.rates = .ok lt ∧
      st'.lineTotals = st.lineTotals ++ [lt] ∧
      st'.total = accTotal st.total lt ∧
      st'.tt = (match lineTax p l with | none => st.tt | some t => accTax st.tt t) := by
  unfold stepLine at h
  cases hl : l.calculate p.currency p.curExp p.rates with
  | error e => rw [hl] at h; simp [bind, Except.bind] at h
  | ok lt =>
    rw [hl] at h
    refine ⟨lt, rfl, ?_⟩
    unfold lineTax accTax accTotal
    rcases hd : l.document with _ | dr
    · rw [hd] at h
      simp only [bind, Except.bind, pure, Except.pure, Except.ok.injEq] at h
      subst h
      rcases st.total with _ | x <;> simp
    · rw [hd] at h
      by_cases hv : dr.docValid = true
      · simp only [hv, Bool.not_true, Bool.false_eq_true, if_false] at h
        rcases hc : dr.calculated p.roundingCurrency with _ | t
        · rw [hc] at h
          simp only [bind, Except.bind, pure, Except.pure, Except.ok.injEq] at h
          subst h
          rcases st.total with _ | x <;> simp [hc]
        · rw [hc] at h
          rcases ht : st.tt with _ | acc
          · rw [ht] at h
            simp only [bind, Except.bind, pure, Except.pure, Except.ok.injEq] at h
            subst h
            rcases st.total with _ | x <;> simp [hc, ht]
          · rw [ht] at h
            simp only [bind, Except.bind, pure, Except.pure, Except.ok.injEq] at h
            subst h
            rcases st.total with _ | x <;> simp [hc, ht]
      · simp [hv, bind, Except.bind, throw, throwThe, MonadExceptOf.throw] at h

theorem runLines_ok (p : Payment) (ls : List PaymentLine) (st st' : LoopState) (h : runLines p ls st = .ok st') :
    ∃ lts, List.Forall₂ (fun l lt => l.calculate p.currency p.curExp p.rates = .ok lt) ls lts ∧
      st'.lineTotals = st.lineTotals ++ lts ∧
      st'.total = lts.foldl accTotal st.total ∧
      st'.tt = (ls.filterMap (lineTax p)).foldl accTax st.tt := by
  induction ls generalizing st with
  | nil =>
    simp only [runLines, Except.ok.injEq] at h
    subst h
    exact ⟨[], List.Forall₂.nil, by simp, rfl, rfl⟩
  | cons l ls ih =>
    unfold runLines at h
    cases hs : stepLine p st l with
    | error e => rw [hs] at h; simp at h
    | ok st1 =>
      rw [hs] at h
      simp only at h
      obtain ⟨lt, hlt, h1, h2, h3⟩ := stepLine_ok p st st1 l hs
      obtain ⟨lts, f, g1, g2, g3⟩ := ih st1 h
      refine ⟨lt :: lts, List.Forall₂.cons hlt f, ?_, ?_, ?_⟩
      · rw [g1, h1]; simp
      · rw [g2, h2]; rfl
      · rw [g3, h3]
        rcases hx : lineTax p l with _ | t
        · simp [List.filterMap_cons, hx]
        · simp [List.filterMap_cons, hx]

/-- value a debit/credit side contributes to the line total -/
def sideValue (e : ℕ) (x : Option Amount) : ℤ := match x with | none => 0 | some a => (a.rescale e).value

theorem line_total (pl : PaymentLine) (cur : String) (e : ℕ) (rates : List ExchangeRate) (lt : Amount)
    (h : pl.calculate cur e rates = .ok lt) :
    ∃ d c, lineSide pl cur rates pl.debit = .ok d ∧ lineSide pl cur rates pl.credit = .ok c ∧
      lt = ⟨sideValue e d - sideValue e c, e⟩ := by
  unfold PaymentLine.calculate at h
  cases hd : lineSide pl cur rates pl.debit with
  | error x => rw [hd] at h; simp [bind, Except.bind] at h
  | ok d =>
    cases hc : lineSide pl cur rates pl.credit with
    | error x => rw [hd, hc] at h; simp [bind, Except.bind] at h
    | ok c =>
      rw [hd, hc] at h
      simp only [bind, Except.bind, pure, Except.pure, Except.ok.injEq] at h
      refine ⟨d, c, rfl, rfl, ?_⟩
      subst h
      unfold sideValue
      rcases d with _ | a <;> rcases c with _ | b <;> simp [Amount.add, Amount.sub]

theorem foldl_accTotal (e : ℕ) (lts : List Amount) (acc : Amount) (hacc : acc.exp = e)
    (h : ∀ lt ∈ lts, lt.exp = e) :
    lts.foldl accTotal (some acc) = some ⟨acc.value + (lts.map (·.value)).sum, e⟩ := by
  induction lts generalizing acc with
  | nil => simp [← hacc]
  | cons lt more ih =>
    simp only [List.foldl_cons, accTotal]
    have hl := h lt (by simp)
    rw [add_same_exp acc lt (by omega)]
    rw [ih ⟨acc.value + lt.value, acc.exp⟩ hacc (fun x hx => h x (by simp [hx]))]
    simp only [List.map_cons, List.sum_cons]
    congr 2; ring

/-- merge of a non-empty list of summaries, left to right -/
def mergeAll : List Total → Option Total
  | [] => none
  | t :: ts => some (ts.foldl Total.merge t)

theorem foldl_accTax_some (ts : List Total) (t : Total) :
    ts.foldl accTax (some t) = some (ts.foldl Total.merge t) := by
  induction ts generalizing t with
  | nil => rfl
  | cons x more ih => simp only [List.foldl_cons, accTax]; exact ih _

theorem foldl_accTax (ts : List Total) : ts.foldl accTax none = mergeAll ts := by
  cases ts with
  | nil => rfl
  | cons t more => simp only [List.foldl_cons, accTax, mergeAll]; exact foldl_accTax_some more t

/-! ### `ExchangeRate.Convert` at the destination precision is one exact rounding -/

theorem convert_exact (er : ExchangeRate) (a : Amount)
    (hm : |a.value * er.amount.value| < 2 ^ 52) (he : er.amount.exp ≤ 22) (hx : a.exp = er.toExp) :
    er.convert a = convertSpec er.amount.toRat er.toExp a := by
  unfold ExchangeRate.convert convertSpec
  rw [multiply_exact a er.amount hm he]
  have hr : (a.mulX er.amount).rescale er.toExp = a.mulX er.amount := by
    unfold Amount.rescale Amount.mulX
    simp [hx]
  rw [hr]
  unfold Amount.mulX
  rw [← hx]
  congr 1
  rw [← goRound_div_pos _ _ (pow10_pos _)]
  unfold Spec.roundTo Spec.roundHalfAway Amount.toRat
  show goRound _ = goRound _
  congr 1
  have h1 : ((pow10 a.exp : ℤ) : ℚ) ≠ 0 := by exact_mod_cast pow10_ne a.exp
  have h2 : ((pow10 er.amount.exp : ℤ) : ℚ) ≠ 0 := by exact_mod_cast pow10_ne _
  push_cast
  field_simp


theorem forall2_exp (cur : String) (e : ℕ) (rates : List ExchangeRate) (ls : List PaymentLine) (lts : List Amount)
    (hf : List.Forall₂ (fun l lt => l.calculate cur e rates = .ok lt) ls lts) : ∀ lt ∈ lts, lt.exp = e := by
  induction hf with
  | nil => simp
  | cons hl _ ih =>
    intro lt hlt
    simp only [List.mem_cons] at hlt
    rcases hlt with rfl | hlt
    · obtain ⟨d, c, _, _, e⟩ := line_total _ _ _ _ _ hl
      rw [e]
    · exact ih lt hlt

/-! ### when `Payment.calculate` is defined, and what it does not look at -/

/-- a line the loop of `Payment.calculate` accepts: its amounts can be converted
    and the currency of its document (if any) is defined -/
def lineOK (p : Payment) (l : PaymentLine) : Prop :=
  (∃ lt, l.calculate p.currency p.curExp p.rates = .ok lt) ∧ ∀ dr, l.document = some dr → dr.docValid = true

theorem stepLine_defined (p : Payment) (st : LoopState) (l : PaymentLine) :
    (∃ st', stepLine p st l = .ok st') ↔ lineOK p l := by
  unfold stepLine lineOK
  cases hl : l.calculate p.currency p.curExp p.rates with
  | error e => simp [bind, Except.bind]
  | ok lt =>
    rcases hd : l.document with _ | dr
    · simp [bind, Except.bind, pure, Except.pure]
    · by_cases hv : dr.docValid = true
      · rcases hc : dr.calculated p.roundingCurrency with _ | t
        · simp [hv, hc, bind, Except.bind, pure, Except.pure]
        · rcases ht : st.tt with _ | acc <;> simp [hv, hc, bind, Except.bind, pure, Except.pure]
      · simp [hv, bind, Except.bind, throw, throwThe, MonadExceptOf.throw]

theorem runLines_defined (p : Payment) (ls : List PaymentLine) (st : LoopState) :
    (∃ st', runLines p ls st = .ok st') ↔ ∀ l ∈ ls, lineOK p l := by
  induction ls generalizing st with
  | nil => simp [runLines]
  | cons l ls ih =>
    unfold runLines
    cases hs : stepLine p st l with
    | error e =>
      have hn : ¬ lineOK p l := fun h => by
        obtain ⟨st', h'⟩ := (stepLine_defined p st l).mpr h
        rw [hs] at h'; cases h'
      simp [hn]
    | ok st1 =>
      have hl : lineOK p l := (stepLine_defined p st l).mp ⟨st1, hs⟩
      simp only [List.mem_cons, forall_eq_or_imp, hl, true_and]
      exact ih st1

theorem stepLine_total_irrelevant (p : Payment) (a : Amount) (st : LoopState) (l : PaymentLine) :
    stepLine { p with total := a } st l = stepLine p st l := rfl

theorem runLines_total_irrelevant (p : Payment) (a : Amount) (ls : List PaymentLine) (st : LoopState) :
    runLines { p with total := a } ls st = runLines p ls st := by
  induction ls generalizing st with
  | nil => rfl
  | cons l ls ih =>
    unfold runLines
    rw [stepLine_total_irrelevant]
    cases stepLine p st l with
    | error e => rfl
    | ok st1 => exact ih st1

end GoblVerif.Payment
