/-
  Helper lemmas for the validator models of Model/SchemaLeaves.lean (C11):
  byte length against code-point length, and two small facts about regular
  expression languages — all characters of a word lie in a class that contains
  every class of the expression, and expressions of fixed length.
  Core Lean only.
-/
import GoblVerif.Model.SchemaLeaves
import GoblVerif.Proofs.Regex

namespace GoblVerif.Regex
open RE

/-- every range of `a` lies inside one range of `K` (neither class negated) -/
def CClass.sub (a K : CClass) : Bool :=
  !a.neg && !K.neg && a.ranges.all fun r => K.ranges.any fun q => q.1 ≤ r.1 && r.2 ≤ q.2

theorem CClass.sub_mem {a K : CClass} (h : a.sub K = true) {c : Nat} (hc : a.mem c = true) : K.mem c = true := by
  simp only [CClass.sub, Bool.and_eq_true, Bool.not_eq_true', List.all_eq_true, List.any_eq_true,
    decide_eq_true_eq] at h
  obtain ⟨⟨ha, hK⟩, hr⟩ := h
  simp only [CClass.mem, ha, hK, bne_iff_ne, ne_eq, Bool.not_eq_false, List.any_eq_true, Bool.and_eq_true,
    decide_eq_true_eq] at hc ⊢
  obtain ⟨r, hrm, h1, h2⟩ := hc
  obtain ⟨q, hqm, h3, h4⟩ := hr r hrm
  exact ⟨q, hqm, by omega, by omega⟩

/-- every character class of the expression lies inside `K` -/
def RE.within (K : CClass) : RE → Bool
  | .empty => true
  | .eps => true
  | .cls k => k.sub K
  | .cat a b => within K a && within K b
  | .alt a b => within K a && within K b
  | .star a => within K a

theorem within_chars {K : CClass} {r : RE} {s : List Nat} (hm : Matches r s) :
    r.within K = true → ∀ c ∈ s, K.mem c = true := by
  induction hm with
  | eps => intro _ c hc; cases hc
  | cls hk =>
    intro hw c hc
    simp only [List.mem_singleton] at hc
    subst hc
    exact CClass.sub_mem hw hk
  | cat _ _ iha ihb =>
    intro hw c hc
    simp only [RE.within, Bool.and_eq_true] at hw
    rcases List.mem_append.mp hc with h | h
    · exact iha hw.1 c h
    · exact ihb hw.2 c h
  | altL _ ih =>
    intro hw
    simp only [RE.within, Bool.and_eq_true] at hw
    exact ih hw.1
  | altR _ ih =>
    intro hw
    simp only [RE.within, Bool.and_eq_true] at hw
    exact ih hw.2
  | starNil => intro _ c hc; cases hc
  | starCons _ _ iha ihb =>
    intro hw c hc
    rcases List.mem_append.mp hc with h | h
    · exact iha (by simpa [RE.within] using hw) c h
    · exact ihb hw c h

/-- a word of an expression that does not accept the empty word and whose classes all lie in `K`
    is a word of `[K]+` -/
theorem matches_plus_cls_of_within {K : CClass} {r : RE} {s : List Nat} (hm : Matches r s)
    (hw : r.within K = true) (hn : r.nullable = false) : Matches (RE.plus (.cls K)) s := by
  have hne : s ≠ [] := by
    intro h
    subst h
    have := (nullable_iff r).mpr hm
    rw [hn] at this
    cases this
  exact matches_plus_of_all hne (fun c hc => Matches.cls (within_chars hm hw c hc))

/-- the length of every word, for expressions made of classes and concatenation -/
def RE.fixedLen : RE → Option Nat
  | .eps => some 0
  | .cls _ => some 1
  | .cat a b => match fixedLen a, fixedLen b with
    | some m, some n => some (m + n)
    | _, _ => none
  | _ => none

theorem fixedLen_length {r : RE} {s : List Nat} (hm : Matches r s) : ∀ n, r.fixedLen = some n → s.length = n := by
  induction hm with
  | eps => intro n h; simp only [RE.fixedLen, Option.some.injEq] at h; simp [← h]
  | cls _ => intro n h; simp only [RE.fixedLen, Option.some.injEq] at h; simp [← h]
  | @cat a b s t _ _ iha ihb =>
    intro n h
    simp only [RE.fixedLen] at h
    split at h
    · rename_i m k hm' hk'
      simp only [Option.some.injEq] at h
      rw [List.length_append, iha m hm', ihb k hk', h]
    · cases h
  | altL _ _ => intro n h; simp [RE.fixedLen] at h
  | altR _ _ => intro n h; simp [RE.fixedLen] at h
  | starNil => intro n h; simp [RE.fixedLen] at h
  | starCons _ _ _ _ => intro n h; simp [RE.fixedLen] at h

end GoblVerif.Regex

namespace GoblVerif.Leaves
open GoblVerif.Regex RE

/-- a text has at most as many code points as bytes -/
theorem length_le_utf8Len : ∀ s : List Nat, s.length ≤ utf8Len s
  | [] => Nat.le_refl _
  | c :: r => by
    have := length_le_utf8Len r
    simp only [List.length_cons, utf8Len]
    split <;> (try split) <;> (try split) <;> omega

theorem requiredCode_spec {s : List Nat} (h : requiredCode s = true) :
    1 ≤ s.length ∧ s.length ≤ 32 ∧ codeRE.matchL s = true := by
  simp only [requiredCode, codeValidate, Bool.and_eq_true, Bool.not_eq_true', Bool.or_eq_true,
    decide_eq_true_eq] at h
  obtain ⟨hne, h⟩ := h
  rcases h with h | ⟨⟨_, h32⟩, hm⟩
  · rw [hne] at h; cases h
  · have := length_le_utf8Len s
    refine ⟨?_, by omega, hm⟩
    cases s with
    | nil => cases hne
    | cons _ _ => simp

theorem keyValidate_spec {s : List Nat} (h : keyValidate s = true) (hne : s ≠ []) :
    1 ≤ s.length ∧ s.length ≤ 64 ∧ keyRE.matchL s = true := by
  simp only [keyValidate, Bool.and_eq_true, Bool.or_eq_true, decide_eq_true_eq] at h
  rcases h with h | ⟨⟨hm, _⟩, h64⟩
  · cases s with
    | nil => exact absurd rfl hne
    | cons _ _ => cases h
  · have := length_le_utf8Len s
    refine ⟨?_, by omega, hm⟩
    cases s with
    | nil => exact absurd rfl hne
    | cons _ _ => simp

end GoblVerif.Leaves
