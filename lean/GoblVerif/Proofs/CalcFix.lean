/-
  Fixpoint of the line calculation: calculating a calculated and presented
  (rounded) line again reproduces the calculated line, provided no fixed
  discount/charge amount is finer than the line is presented with (the known
  finding `fixed_amount_finer_than_price_is_not_a_fixpoint` is exactly the
  complement).
-/
import GoblVerif.Proofs.CalcBasics

namespace GoblVerif.Calc

theorem up_up (a : Amount) (e : ℕ) : up (up a e) e = up a e := up_self _ e (by rw [up_exp]; omega)

theorem down_noop (a : Amount) (e : ℕ) (h : a.exp ≤ e) : down exactOps a e = a := by
  unfold down
  rw [if_neg (by omega)]

/-- a discount whose stored amount survives presentation at `e` decimals: it is recomputed from a
percentage, or its fixed amount has at most `e` decimals -/
def DiscountStable (e : ℕ) (d : LineAdj) : Prop :=
  (∃ p, d.percent = some p ∧ pctIsZero p = false) ∨ d.amount.exp ≤ e

/-- a charge is also recomputed when it has a rate -/
def ChargeStable (e : ℕ) (d : LineAdj) : Prop :=
  (∃ p, d.percent = some p ∧ pctIsZero p = false) ∨ d.rate.isSome ∨ d.amount.exp ≤ e

theorem adjPct_round (r : Rule) (c e : ℕ) (sum : Amount) (d : LineAdj) (hce : c ≤ e) (hs : DiscountStable e d) :
    adjUp c (adjPct exactOps r c sum (roundAdj exactOps e (adjUp c (adjPct exactOps r c sum d)))) =
      adjUp c (adjPct exactOps r c sum d) := by
  unfold adjPct
  cases hp : d.percent with
  | none =>
    rcases hs with ⟨p, h1, _⟩ | hs
    · rw [hp] at h1; cases h1
    · simp only [adjUp, roundAdj, hp]
      rw [down_noop _ e (by rw [up_exp]; omega), up_up]
  | some p =>
    by_cases hz : pctIsZero p = true
    · rcases hs with ⟨q, h1, h2⟩ | hs
      · rw [hp] at h1; cases h1; rw [hz] at h2; cases h2
      · simp only [hz, if_true, adjUp, roundAdj, hp]
        rw [down_noop _ e (by rw [up_exp]; omega), up_up]
    · simp only [hz]
      cases hb : d.base with
      | none => simp [adjUp, roundAdj, hp, hz, hb]
      | some b => simp [adjUp, roundAdj, hp, hz, hb, up_up]

theorem lineDiscounts_round (r : Rule) (c e : ℕ) (sum : Amount) (ds : List LineAdj) (total : Amount)
    (hce : c ≤ e) (hs : ∀ d ∈ ds, DiscountStable e d) :
    lineDiscounts exactOps r c sum ((lineDiscounts exactOps r c sum ds total).1.map (roundAdj exactOps e)) total =
      lineDiscounts exactOps r c sum ds total := by
  induction ds generalizing total with
  | nil => rfl
  | cons d ds ih =>
    have h1 := adjPct_round r c e sum d hce (hs d (by simp))
    have ih' := fun t => ih t (fun x hx => hs x (by simp [hx]))
    simp only [lineDiscounts, lineDiscountStep, List.map_cons, h1]
    rw [ih']

theorem chargeStep_round (r : Rule) (c e : ℕ) (qty sum : Amount) (d : LineAdj) (hce : c ≤ e) (hs : ChargeStable e d) :
    adjUp c (adjRate exactOps qty (adjPct exactOps r c sum
        (roundAdj exactOps e (adjUp c (adjRate exactOps qty (adjPct exactOps r c sum d)))))) =
      adjUp c (adjRate exactOps qty (adjPct exactOps r c sum d)) := by
  cases hr : d.rate with
  | some rt =>
    -- the amount is recomputed from rate × quantity whatever was stored
    unfold adjPct
    cases hp : d.percent with
    | none => simp [adjUp, roundAdj, adjRate, hp, hr]
    | some p =>
      by_cases hz : pctIsZero p = true
      · simp [adjUp, roundAdj, adjRate, hp, hr, hz]
      · cases hb : d.base with
        | none => simp [adjUp, roundAdj, adjRate, hp, hr, hz, hb]
        | some b => simp [adjUp, roundAdj, adjRate, hp, hr, hz, hb, up_up]
  | none =>
    have hs' : DiscountStable e d := by
      rcases hs with h | h | h
      · exact Or.inl h
      · rw [hr] at h; cases h
      · exact Or.inr h
    have hnr : ∀ x : LineAdj, x.rate = none → adjRate exactOps qty x = x := by
      intro x hx; simp [adjRate, hx]
    have h0 : (adjPct exactOps r c sum d).rate = none := by
      unfold adjPct
      cases d.percent with
      | none => exact hr
      | some p =>
        simp only
        split
        · exact hr
        · cases d.base <;> exact hr
    rw [hnr _ h0]
    have h1 : (roundAdj exactOps e (adjUp c (adjPct exactOps r c sum d))).rate = none := h0
    have h2 : (adjPct exactOps r c sum (roundAdj exactOps e (adjUp c (adjPct exactOps r c sum d)))).rate = none := by
      generalize roundAdj exactOps e (adjUp c (adjPct exactOps r c sum d)) = x at h1 ⊢
      unfold adjPct
      cases x.percent with
      | none => exact h1
      | some p =>
        simp only
        split
        · exact h1
        · cases x.base <;> exact h1
    rw [hnr _ h2]
    exact adjPct_round r c e sum d hce hs'

theorem lineCharges_round (r : Rule) (c e : ℕ) (qty sum : Amount) (ds : List LineAdj) (total : Amount)
    (hce : c ≤ e) (hs : ∀ d ∈ ds, ChargeStable e d) :
    lineCharges exactOps r c qty sum ((lineCharges exactOps r c qty sum ds total).1.map (roundAdj exactOps e)) total =
      lineCharges exactOps r c qty sum ds total := by
  induction ds generalizing total with
  | nil => rfl
  | cons d ds ih =>
    have h1 := chargeStep_round r c e qty sum d hce (hs d (by simp))
    have ih' := fun t => ih t (fun x hx => hs x (by simp [hx]))
    simp only [lineCharges, lineChargeStep, List.map_cons, h1]
    rw [ih']

theorem itemPrice_same (cur : String) (c : ℕ) (rates : List XRate) (it : Item) (p : Amount)
    (hcur : (it.cur == "" || it.cur == cur) = true) :
    itemPrice exactOps cur c rates it p = .ok { it with price := some (up p it.sub) } := by
  unfold itemPrice
  simp only [hcur, if_true]

/-- **Line fixpoint.**  A plain line priced in the document currency, none of whose fixed
discount/charge amounts has more decimals than the line is presented with, is reproduced exactly when
its calculated and presented form is calculated again. -/
theorem calcLine_fixpoint (cur : String) (c : ℕ) (rates : List XRate) (r : Rule) (l l1 : Line) (it : Item)
    (p : Amount) (hb : l.breakdown = []) (hi : l.item = some it) (hp : it.price = some p)
    (hcur : (it.cur == "" || it.cur == cur) = true) (hsub : c ≤ it.sub)
    (hd : ∀ d ∈ l.discounts, DiscountStable (max p.exp it.sub) d)
    (hc : ∀ d ∈ l.charges, ChargeStable (max p.exp it.sub) d)
    (h1 : calcLine exactOps cur c rates r l = .ok l1) :
    calcLine exactOps cur c rates r (roundLine exactOps l1) = .ok l1 := by
  have hce : c ≤ max p.exp it.sub := by omega
  -- the first calculation, spelled out
  unfold calcLine at h1
  simp only [hi, hb, calcSubLines, List.filterMap_nil, List.isEmpty_nil, Bool.true_or, if_true, hp,
    itemPrice_same cur c rates it p hcur, Option.getD_some] at h1
  injection h1 with h1
  subst h1
  -- the second one
  unfold roundLine
  simp only [List.map_nil]
  unfold calcLine
  simp only [calcSubLines, List.filterMap_nil, List.isEmpty_nil, Bool.true_or, if_true]
  have hcur' : (({ it with price := some (up p it.sub) } : Item).cur == "" ||
      ({ it with price := some (up p it.sub) } : Item).cur == cur) = true := hcur
  rw [itemPrice_same cur c rates _ (up p it.sub) hcur']
  simp only [Option.getD_some, up_up, up_exp]
  rw [lineDiscounts_round r c (max p.exp it.sub) _ l.discounts _ hce hd]
  rw [lineCharges_round r c (max p.exp it.sub) l.qty _ l.charges _ hce hc]

end GoblVerif.Calc
