/-
  Fixpoint of the line calculation: calculating a calculated and presented
  (rounded) line again reproduces the calculated line, provided no fixed
  discount/charge amount is finer than the line is presented with (the known
  finding `fixed_amount_finer_than_price_is_not_a_fixpoint` is exactly the
  complement).
-/
import GoblVerif.Proofs.CalcBasics

namespace GoblVerif.Calc

theorem up_up (a : Amount) (e : ℕ) : up (up a e) e = up a e := up_self _ e (by rw [up_exp]; omega)

theorem down_noop (a : Amount) (e : ℕ) (h : a.exp ≤ e) : down exactOps a e = a := by
  unfold down
  rw [if_neg (by omega)]

/-- a discount whose stored amount survives presentation at `e` decimals: it is recomputed from a
percentage, or its fixed amount has at most `e` decimals -/
def DiscountStable (e : ℕ) (d : LineAdj) : Prop :=
  (∃ p, d.percent = some p ∧ pctIsZero p = false) ∨ d.amount.exp ≤ e

/-- a charge is also recomputed when it has a rate -/
def ChargeStable (e : ℕ) (d : LineAdj) : Prop :=
  (∃ p, d.percent = some p ∧ pctIsZero p = false) ∨ d.rate.isSome ∨ d.amount.exp ≤ e

theorem adjPct_round (r : Rule) (c e : ℕ) (sum : Amount) (d : LineAdj) (hce : c ≤ e) (hs : DiscountStable e d) :
    adjUp c (adjPct exactOps r c sum (roundAdj exactOps e (adjUp c (adjPct exactOps r c sum d)))) =
      adjUp c (adjPct exactOps r c sum d) := by
  unfold adjPct
  cases hp : d.percent with
  | none =>
    rcases hs with ⟨p, h1, _⟩ | hs
    · rw [hp] at h1; cases h1
    · simp only [adjUp, roundAdj, hp]
      rw [down_noop _ e (by rw [up_exp]; omega), up_up]
  | some p =>
    by_cases hz : pctIsZero p = true
    · rcases hs with ⟨q, h1, h2⟩ | hs
      · rw [hp] at h1; cases h1; rw [hz] at h2; cases h2
      · simp only [hz, if_true, adjUp, roundAdj, hp]
        rw [down_noop _ e (by rw [up_exp]; omega), up_up]
    · simp only [hz]
      cases hb : d.base with
      | none => simp [adjUp, roundAdj, hp, hz, hb]
      | some b => simp [adjUp, roundAdj, hp, hz, hb, up_up]

theorem lineDiscounts_round (r : Rule) (c e : ℕ) (sum : Amount) (ds : List LineAdj) (total : Amount)
    (hce : c ≤ e) (hs : ∀ d ∈ ds, DiscountStable e d) :
    lineDiscounts exactOps r c sum ((lineDiscounts exactOps r c sum ds total).1.map (roundAdj exactOps e)) total =
      lineDiscounts exactOps r c sum ds total := by
  induction ds generalizing total with
  | nil => rfl
  | cons d ds ih =>
    have h1 := adjPct_round r c e sum d hce (hs d (by simp))
    have ih' := fun t => ih t (fun x hx => hs x (by simp [hx]))
    simp only [lineDiscounts, lineDiscountStep, List.map_cons, h1]
    rw [ih']

theorem chargeStep_round (r : Rule) (c e : ℕ) (qty sum : Amount) (d : LineAdj) (hce : c ≤ e) (hs : ChargeStable e d) :
    adjUp c (adjRate exactOps qty (adjPct exactOps r c sum
        (roundAdj exactOps e (adjUp c (adjRate exactOps qty (adjPct exactOps r c sum d)))))) =
      adjUp c (adjRate exactOps qty (adjPct exactOps r c sum d)) := by
  cases hr : d.rate with
  | some rt =>
    -- the amount is recomputed from rate × quantity whatever was stored
    unfold adjPct
    cases hp : d.percent with
    | none => simp [adjUp, roundAdj, adjRate, hp, hr]
    | some p =>
      by_cases hz : pctIsZero p = true
      · simp [adjUp, roundAdj, adjRate, hp, hr, hz]
      · cases hb : d.base with
        | none => simp [adjUp, roundAdj, adjRate, hp, hr, hz, hb]
        | some b => simp [adjUp, roundAdj, adjRate, hp, hr, hz, hb, up_up]
  | none =>
    have hs' : DiscountStable e d := by
      rcases hs with h | h | h
      · exact Or.inl h
      · rw [hr] at h; cases h
      · exact Or.inr h
    have hnr : ∀ x : LineAdj, x.rate = none → adjRate exactOps qty x = x := by
      intro x hx; simp [adjRate, hx]
    have h0 : (adjPct exactOps r c sum d).rate = none := by
      unfold adjPct
      cases d.percent with
      | none => exact hr
      | some p =>
        simp only
        split
        · exact hr
        · cases d.base <;> exact hr
    rw [hnr _ h0]
    have h1 : (roundAdj exactOps e (adjUp c (adjPct exactOps r c sum d))).rate = none := h0
    have h2 : (adjPct exactOps r c sum (roundAdj exactOps e (adjUp c (adjPct exactOps r c sum d)))).rate = none := by
      generalize roundAdj exactOps e (adjUp c (adjPct exactOps r c sum d)) = x at h1 ⊢
      unfold adjPct
      cases x.percent with
      | none => exact h1
      | some p =>
        simp only
        split
        · exact h1
        · cases x.base <;> exact h1
    rw [hnr _ h2]
    exact adjPct_round r c e sum d hce hs'

theorem lineCharges_round (r : Rule) (c e : ℕ) (qty sum : Amount) (ds : List LineAdj) (total : Amount)
    (hce : c ≤ e) (hs : ∀ d ∈ ds, ChargeStable e d) :
    lineCharges exactOps r c qty sum ((lineCharges exactOps r c qty sum ds total).1.map (roundAdj exactOps e)) total =
      lineCharges exactOps r c qty sum ds total := by
  induction ds generalizing total with
  | nil => rfl
  | cons d ds ih =>
    have h1 := chargeStep_round r c e qty sum d hce (hs d (by simp))
    have ih' := fun t => ih t (fun x hx => hs x (by simp [hx]))
    simp only [lineCharges, lineChargeStep, List.map_cons, h1]
    rw [ih']

theorem itemPrice_same (cur : String) (c : ℕ) (rates : List XRate) (it : Item) (p : Amount)
    (hcur : (it.cur == "" || it.cur == cur) = true) :
    itemPrice exactOps cur c rates it p = .ok { it with price := some (up p it.sub) } := by
  unfold itemPrice
  simp only [hcur, if_true]

/-- **Line fixpoint.**  A plain line priced in the document currency, none of whose fixed
discount/charge amounts has more decimals than the line is presented with, is reproduced exactly when
its calculated and presented form is calculated again. -/
theorem calcLine_fixpoint (cur : String) (c : ℕ) (rates : List XRate) (r : Rule) (l l1 : Line) (it : Item)
    (p : Amount) (hb : l.breakdown = []) (hi : l.item = some it) (hp : it.price = some p)
    (hcur : (it.cur == "" || it.cur == cur) = true) (hsub : c ≤ it.sub)
    (hd : ∀ d ∈ l.discounts, DiscountStable (max p.exp it.sub) d)
    (hc : ∀ d ∈ l.charges, ChargeStable (max p.exp it.sub) d)
    (h1 : calcLine exactOps cur c rates r l = .ok l1) :
    calcLine exactOps cur c rates r (roundLine exactOps l1) = .ok l1 := by
  have hce : c ≤ max p.exp it.sub := by omega
  -- the first calculation, spelled out
  unfold calcLine at h1
  simp only [hi, hb, calcSubLines, List.filterMap_nil, List.isEmpty_nil, Bool.true_or, if_true, hp,
    itemPrice_same cur c rates it p hcur, Option.getD_some] at h1
  injection h1 with h1
  subst h1
  -- the second one
  unfold roundLine
  simp only [List.map_nil]
  unfold calcLine
  simp only [calcSubLines, List.filterMap_nil, List.isEmpty_nil, Bool.true_or, if_true]
  have hcur' : (({ it with price := some (up p it.sub) } : Item).cur == "" ||
      ({ it with price := some (up p it.sub) } : Item).cur == cur) = true := hcur
  rw [itemPrice_same cur c rates _ (up p it.sub) hcur']
  simp only [Option.getD_some, up_up, up_exp]
  rw [lineDiscounts_round r c (max p.exp it.sub) _ l.discounts _ hce hd]
  rw [lineCharges_round r c (max p.exp it.sub) l.qty _ l.charges _ hce hc]

/-! ### lines with a breakdown -/

def maxExp (l : List LineAdj) : ℕ := l.foldr (fun d m => max d.amount.exp m) 0

theorem le_maxExp (l : List LineAdj) (d : LineAdj) (h : d ∈ l) : d.amount.exp ≤ maxExp l := by
  induction l with
  | nil => simp at h
  | cons x xs ih =>
    simp only [maxExp, List.foldr_cons]
    simp only [List.mem_cons] at h
    rcases h with rfl | h
    · omega
    · have := ih h
      simp only [maxExp] at this
      omega

theorem map_roundAdj_noop (e : ℕ) (l : List LineAdj) (h : ∀ d ∈ l, d.amount.exp ≤ e) :
    l.map (roundAdj exactOps e) = l := by
  induction l with
  | nil => rfl
  | cons x xs ih =>
    simp only [List.map_cons]
    rw [ih (fun d hd => h d (by simp [hd]))]
    congr 1
    simp only [roundAdj]
    rw [down_noop _ e (h x (by simp))]

/-- the discounts computed once are reproduced when they are computed again (no rounding in between) -/
theorem lineDiscounts_idem (r : Rule) (c : ℕ) (sum : Amount) (ds : List LineAdj) (total : Amount) :
    lineDiscounts exactOps r c sum (lineDiscounts exactOps r c sum ds total).1 total =
      lineDiscounts exactOps r c sum ds total := by
  set out := (lineDiscounts exactOps r c sum ds total).1 with hout
  set e := max c (max (maxExp ds) (maxExp out)) with he
  have h1 : out.map (roundAdj exactOps e) = out :=
    map_roundAdj_noop e out (fun d hd => by have := le_maxExp out d hd; omega)
  have h2 := lineDiscounts_round r c e sum ds total (by omega)
    (fun d hd => Or.inr (by have := le_maxExp ds d hd; omega))
  rw [← hout, h1] at h2
  exact h2

theorem lineCharges_idem (r : Rule) (c : ℕ) (qty sum : Amount) (ds : List LineAdj) (total : Amount) :
    lineCharges exactOps r c qty sum (lineCharges exactOps r c qty sum ds total).1 total =
      lineCharges exactOps r c qty sum ds total := by
  set out := (lineCharges exactOps r c qty sum ds total).1 with hout
  set e := max c (max (maxExp ds) (maxExp out)) with he
  have h1 : out.map (roundAdj exactOps e) = out :=
    map_roundAdj_noop e out (fun d hd => by have := le_maxExp out d hd; omega)
  have h2 := lineCharges_round r c e qty sum ds total (by omega)
    (fun d hd => Or.inr (Or.inr (by have := le_maxExp ds d hd; omega)))
  rw [← hout, h1] at h2
  exact h2

/-- a sub-line priced in the document currency -/
def SubLineStable (cur : String) (sl : SubLine) : Prop :=
  ∃ it p, sl.item = some it ∧ it.price = some p ∧ (it.cur == "" || it.cur == cur) = true

theorem calcSubLine_fix (cur : String) (c : ℕ) (rates : List XRate) (r : Rule) (sl sl1 : SubLine) (e : ℕ)
    (hs : SubLineStable cur sl) (h1 : calcSubLine exactOps cur c rates r sl = .ok sl1) :
    calcSubLine exactOps cur c rates r (roundSubLine exactOps e sl1) = .ok sl1 ∧ SubLineStable cur sl1 := by
  obtain ⟨it, p, hi, hp, hcur⟩ := hs
  unfold calcSubLine at h1
  simp only [hi, hp, itemPrice_same cur c rates it p hcur, Option.getD_some] at h1
  injection h1 with h1
  subst h1
  have hcur' : (({ it with price := some (up p it.sub) } : Item).cur == "" ||
      ({ it with price := some (up p it.sub) } : Item).cur == cur) = true := hcur
  refine ⟨?_, ⟨_, _, rfl, rfl, hcur'⟩⟩
  unfold roundSubLine calcSubLine
  simp only [itemPrice_same cur c rates _ (up p it.sub) hcur', Option.getD_some, up_up]
  rw [lineDiscounts_idem, lineCharges_idem]

theorem calcSubLines_fix (cur : String) (c : ℕ) (rates : List XRate) (r : Rule) (sls sls1 : List SubLine) (e : ℕ)
    (hs : ∀ sl ∈ sls, SubLineStable cur sl) (h1 : calcSubLines exactOps cur c rates r sls = .ok sls1) :
    calcSubLines exactOps cur c rates r (sls1.map (roundSubLine exactOps e)) = .ok sls1 := by
  induction sls generalizing sls1 with
  | nil =>
    simp only [calcSubLines] at h1
    injection h1 with h1
    subst h1
    rfl
  | cons sl sls ih =>
    simp only [calcSubLines] at h1
    cases ha : calcSubLine exactOps cur c rates r sl with
    | error err => simp [ha] at h1
    | ok sl1 =>
      cases hb : calcSubLines exactOps cur c rates r sls with
      | error err => simp [ha, hb] at h1
      | ok rest =>
        simp only [ha, hb] at h1
        injection h1 with h1
        subst h1
        simp only [List.map_cons, calcSubLines]
        rw [(calcSubLine_fix cur c rates r sl sl1 e (hs sl (by simp)) ha).1,
          ih rest (fun x hx => hs x (by simp [hx])) hb]



theorem calcSubLine_total (cur : String) (c : ℕ) (rates : List XRate) (r : Rule) (sl sl1 : SubLine)
    (hs : SubLineStable cur sl) (h1 : calcSubLine exactOps cur c rates r sl = .ok sl1) : sl1.total.isSome := by
  obtain ⟨it, p, hi, hp, hcur⟩ := hs
  unfold calcSubLine at h1
  simp only [hi, hp, itemPrice_same cur c rates it p hcur, Option.getD_some] at h1
  injection h1 with h1
  subst h1
  rfl

theorem calcSubLines_totals_ne (cur : String) (c : ℕ) (rates : List XRate) (r : Rule) (sls bd : List SubLine)
    (hs : ∀ sl ∈ sls, SubLineStable cur sl) (hne : sls ≠ []) (h1 : calcSubLines exactOps cur c rates r sls = .ok bd) :
    bd ≠ [] ∧ (bd.filterMap (·.total)) ≠ [] := by
  cases sls with
  | nil => exact absurd rfl hne
  | cons sl sls =>
    simp only [calcSubLines] at h1
    cases ha : calcSubLine exactOps cur c rates r sl with
    | error err => simp [ha] at h1
    | ok sl1 =>
      cases hb : calcSubLines exactOps cur c rates r sls with
      | error err => simp [ha, hb] at h1
      | ok rest =>
        simp only [ha, hb] at h1
        injection h1 with h1
        subst h1
        have ht := calcSubLine_total cur c rates r sl sl1 (hs sl (by simp)) ha
        refine ⟨by simp, ?_⟩
        cases htt : sl1.total with
        | none => rw [htt] at ht; cases ht
        | some t => simp [List.filterMap_cons, htt]

theorem DiscountStable.mono {e e' : ℕ} {d : LineAdj} (h : DiscountStable e d) (he : e ≤ e') : DiscountStable e' d := by
  rcases h with h | h
  · exact Or.inl h
  · exact Or.inr (by omega)

theorem ChargeStable.mono {e e' : ℕ} {d : LineAdj} (h : ChargeStable e d) (he : e ≤ e') : ChargeStable e' d := by
  rcases h with h | h | h
  · exact Or.inl h
  · exact Or.inr (Or.inl h)
  · exact Or.inr (Or.inr (by omega))

/-- **Line fixpoint with a breakdown.**  A line whose price comes from sub-lines priced in the document
currency, and whose own fixed discount/charge amounts have at most the currency's decimals, is reproduced
exactly when its calculated and presented form (sub-lines included) is calculated again. -/
theorem calcLine_fixpoint_breakdown (cur : String) (c : ℕ) (rates : List XRate) (r : Rule) (l l1 : Line) (it0 : Item)
    (hi : l.item = some it0) (hne : l.breakdown ≠ []) (hsl : ∀ sl ∈ l.breakdown, SubLineStable cur sl)
    (hd : ∀ d ∈ l.discounts, DiscountStable c d) (hc : ∀ d ∈ l.charges, ChargeStable c d)
    (h1 : calcLine exactOps cur c rates r l = .ok l1) :
    calcLine exactOps cur c rates r (roundLine exactOps l1) = .ok l1 := by
  unfold calcLine at h1
  simp only [hi] at h1
  cases hbd : calcSubLines exactOps cur c rates r l.breakdown with
  | error err => simp [hbd] at h1
  | ok bd =>
    obtain ⟨hbdne, htotne⟩ := calcSubLines_totals_ne cur c rates r l.breakdown bd hsl hne hbd
    have he1 : l.breakdown.isEmpty = false := by cases hl : l.breakdown with | nil => exact absurd hl hne | cons _ _ => rfl
    have he2 : (bd.filterMap (·.total)).isEmpty = false := by
      cases hl : bd.filterMap (·.total) with | nil => exact absurd hl htotne | cons _ _ => rfl
    have he3 : bd.isEmpty = false := by cases hl : bd with | nil => exact absurd hl hbdne | cons _ _ => rfl
    simp only [hbd, he1, he2, Bool.or_self, Bool.false_eq_true, if_false] at h1
    -- the item price taken from the sub-lines
    set p0 := exactOps.rescale ((bd.filterMap (·.total)).foldl (accum exactOps) ⟨0, c⟩) (subLinePrecision bd) with hp0
    have hsame : ((({ it0 with cur := cur, sub := c, price := some p0, alts := [] } : Item).cur == "") ||
        (({ it0 with cur := cur, sub := c, price := some p0, alts := [] } : Item).cur == cur)) = true := by simp
    rw [itemPrice_same cur c rates _ p0 hsame] at h1
    simp only [Option.getD_some] at h1
    injection h1 with h1
    subst h1
    -- the second calculation
    have hbd2 := calcSubLines_fix cur c rates r l.breakdown bd (up p0 c).exp hsl hbd
    unfold roundLine
    simp only
    unfold calcLine
    simp only [hbd2, List.isEmpty_map, he3, he2, Bool.or_self, Bool.false_eq_true, if_false]
    have hsame2 : ((({ it0 with cur := cur, sub := c, price := some p0, alts := [] } : Item).cur == "") ||
        (({ it0 with cur := cur, sub := c, price := some p0, alts := [] } : Item).cur == cur)) = true := hsame
    rw [← hp0, itemPrice_same cur c rates _ p0 hsame2]
    simp only [Option.getD_some]
    have hce : c ≤ (up p0 c).exp := by rw [up_exp]; omega
    rw [lineDiscounts_round r c (up p0 c).exp _ l.discounts _ hce (fun d hd' => (hd d hd').mono hce)]
    rw [lineCharges_round r c (up p0 c).exp l.qty _ l.charges _ hce (fun d hd' => (hc d hd').mono hce)]

/-! ### the whole document -/

/-- a line the second calculation reproduces: no breakdown, and either no item at all or a priced item in
the document currency whose fixed discount/charge amounts are not finer than the line is presented with -/
def LineStable (cur : String) (c : ℕ) (l : Line) : Prop :=
  (l.breakdown = [] ∧
    match l.item with
    | none => True
    | some it => ∃ p, it.price = some p ∧ (it.cur == "" || it.cur == cur) = true ∧ c ≤ it.sub ∧
        (∀ d ∈ l.discounts, DiscountStable (max p.exp it.sub) d) ∧
        (∀ d ∈ l.charges, ChargeStable (max p.exp it.sub) d)) ∨
  -- or: priced by a breakdown of sub-lines in the document currency, own fixed amounts at currency precision
  (l.breakdown ≠ [] ∧ (∃ it0, l.item = some it0) ∧ (∀ sl ∈ l.breakdown, SubLineStable cur sl) ∧
    (∀ d ∈ l.discounts, DiscountStable c d) ∧ (∀ d ∈ l.charges, ChargeStable c d))

theorem calcLine_fix (cur : String) (c : ℕ) (rates : List XRate) (r : Rule) (l l1 : Line)
    (hs : LineStable cur c l) (h1 : calcLine exactOps cur c rates r l = .ok l1) :
    calcLine exactOps cur c rates r (roundLine exactOps l1) = .ok l1 := by
  rcases hs with ⟨hb, hi⟩ | ⟨hne, ⟨it0, hi0⟩, hsl, hd, hc⟩
  swap
  · exact calcLine_fixpoint_breakdown cur c rates r l l1 it0 hi0 hne hsl hd hc h1
  cases hit : l.item with
  | none =>
    have : l1 = l := by
      unfold calcLine at h1
      simp only [hit] at h1
      injection h1 with h1
      exact h1.symm
    subst this
    have hr : roundLine exactOps l1 = l1 := by unfold roundLine; simp only [hit]
    rw [hr]
    unfold calcLine
    simp only [hit]
  | some it =>
    rw [hit] at hi
    obtain ⟨p, hp, hcur, hsub, hd, hc⟩ := hi
    exact calcLine_fixpoint cur c rates r l l1 it p hb hit hp hcur hsub hd hc h1

theorem calcLines_fix (cur : String) (c : ℕ) (rates : List XRate) (r : Rule) (ls ls1 : List Line)
    (hs : ∀ l ∈ ls, LineStable cur c l) (h1 : calcLines exactOps cur c rates r ls = .ok ls1) :
    calcLines exactOps cur c rates r (ls1.map (roundLine exactOps)) = .ok ls1 := by
  induction ls generalizing ls1 with
  | nil =>
    simp only [calcLines] at h1
    injection h1 with h1
    subst h1
    rfl
  | cons l ls ih =>
    simp only [calcLines] at h1
    cases ha : calcLine exactOps cur c rates r l with
    | error e => simp [ha] at h1
    | ok l1 =>
      cases hb : calcLines exactOps cur c rates r ls with
      | error e => simp [ha, hb] at h1
      | ok ls' =>
        simp only [ha, hb] at h1
        injection h1 with h1
        subst h1
        simp only [List.map_cons, calcLines]
        rw [calcLine_fix cur c rates r l l1 (hs l (by simp)) ha,
          ih ls' (fun x hx => hs x (by simp [hx])) hb]

/-- a document discount/charge whose stored amount survives presentation -/
def DocAdjStable (c : ℕ) (x : DocAdj) : Prop :=
  (∃ p, x.percent = some p ∧ pctIsZero p = false) ∨ x.amount.exp ≤ c

theorem applyRule_exp (r : Rule) (c : ℕ) (a : Amount) (h : a.exp ≤ c) : (applyRule exactOps r c a).exp = c := by
  cases r <;> simp [applyRule, up_exp] <;> omega

theorem applyRule_fix (r : Rule) (c : ℕ) (a : Amount) (h : a.exp = c) : applyRule exactOps r c a = a := by
  cases r
  · exact up_self a c (by omega)
  · simp only [applyRule, exact_rescale]
    exact rescaleX_self a c h
  · exact up_self a c (by omega)

theorem docAdj_fix (r : Rule) (c : ℕ) (sum : Amount) (x : DocAdj) (hs : DocAdjStable c x) :
    docAdj exactOps r c sum (roundDocAdj exactOps c (docAdj exactOps r c sum x)) = docAdj exactOps r c sum x := by
  have fixed : ∀ (hfix : (docAdj exactOps r c sum x) = { x with amount := applyRule exactOps r c x.amount })
      (hperc : ∀ y : DocAdj, y.percent = x.percent → y.base = x.base →
        docAdj exactOps r c sum y = { y with amount := applyRule exactOps r c y.amount })
      (hexp : x.amount.exp ≤ c),
      docAdj exactOps r c sum (roundDocAdj exactOps c (docAdj exactOps r c sum x)) = docAdj exactOps r c sum x := by
    intro hfix hperc hexp
    rw [hfix]
    have he : (applyRule exactOps r c x.amount).exp = c := applyRule_exp r c x.amount hexp
    have hround : roundDocAdj exactOps c { x with amount := applyRule exactOps r c x.amount } =
        { x with amount := applyRule exactOps r c x.amount } := by
      unfold roundDocAdj
      simp only
      rw [down_noop]
      rw [he]
      cases x.base with
      | none => simp
      | some b => simp only; split <;> omega
    rw [hround, hperc { x with amount := applyRule exactOps r c x.amount } rfl rfl]
    simp only
    rw [applyRule_fix r c _ he]
  cases hp : x.percent with
  | none =>
    rcases hs with ⟨p, h1, _⟩ | hexp
    · rw [hp] at h1; cases h1
    · apply fixed
      · simp [docAdj, hp]
      · intro y hy _; simp [docAdj, hy, hp]
      · exact hexp
  | some p =>
    by_cases hz : pctIsZero p = true
    · rcases hs with ⟨q, h1, h2⟩ | hexp
      · rw [hp] at h1; cases h1; rw [hz] at h2; cases h2
      · apply fixed
        · simp [docAdj, hp, hz]
        · intro y hy _; simp [docAdj, hy, hp, hz]
        · exact hexp
    · -- the amount is recomputed from the percentage whatever was stored
      unfold docAdj roundDocAdj
      simp only [hp, hz]
      cases hb : x.base with
      | none => simp [hp, hz, hb]
      | some b => simp [hp, hz, hb]

/-- an advance whose stored amount survives presentation -/
def AdvanceStable (c : ℕ) (a : Advance) : Prop := a.percent.isSome ∨ a.amount.exp ≤ c

theorem calcAdvance_fix (c : ℕ) (twt : Amount) (a : Advance) (hs : AdvanceStable c a) :
    calcAdvance exactOps c twt
        { calcAdvance exactOps c twt a with amount := exactOps.rescale (calcAdvance exactOps c twt a).amount c } =
      calcAdvance exactOps c twt a := by
  unfold calcAdvance
  cases hp : a.percent with
  | some p => simp [hp]
  | none =>
    rcases hs with h | h
    · rw [hp] at h; cases h
    · simp only [hp, exact_rescale]
      have he : (up a.amount c).exp = c := by rw [up_exp]; omega
      rw [rescaleX_self _ c he, up_up]

theorem calcDue_idem (c : ℕ) (payable : Amount) (x : Due) :
    calcDue exactOps c payable (calcDue exactOps c payable x) = calcDue exactOps c payable x := by
  unfold calcDue
  cases hp : x.percent with
  | none =>
    simp only [hp, exact_rescale]
    rw [rescaleX_self _ c (rescaleX_exp _ c)]
  | some p =>
    by_cases hz : pctIsZero p = true
    · simp only [hp, hz, if_true, exact_rescale]
      rw [rescaleX_self _ c (rescaleX_exp _ c)]
    · simp [hp, hz]

/-- the calculated and presented document read back as the input of the next calculation -/
def rereadDoc (d : Doc) (o : Out) : Doc :=
  { d with lines := o.lines, discounts := o.discounts, charges := o.charges, advances := o.advances, dues := o.dues }

def DocStable (d : Doc) : Prop :=
  (∀ l ∈ d.lines, LineStable d.cur d.c l) ∧ (∀ x ∈ d.discounts, DocAdjStable d.c x) ∧
  (∀ x ∈ d.charges, DocAdjStable d.c x) ∧ (∀ a ∈ d.advances, AdvanceStable d.c a)

theorem map_docAdj_fix (r : Rule) (c : ℕ) (sum : Amount) (xs : List DocAdj) (hs : ∀ x ∈ xs, DocAdjStable c x) :
    ((xs.map (docAdj exactOps r c sum)).map (roundDocAdj exactOps c)).map (docAdj exactOps r c sum) =
      xs.map (docAdj exactOps r c sum) := by
  rw [List.map_map, List.map_map]
  apply List.map_congr_left
  intro x hx
  exact docAdj_fix r c sum x (hs x hx)

theorem map_calcAdvance_fix (c : ℕ) (twt : Amount) (xs : List Advance) (hs : ∀ a ∈ xs, AdvanceStable c a) :
    ((xs.map (calcAdvance exactOps c twt)).map (fun a => { a with amount := exactOps.rescale a.amount c })).map
        (calcAdvance exactOps c twt) = xs.map (calcAdvance exactOps c twt) := by
  rw [List.map_map, List.map_map]
  apply List.map_congr_left
  intro a ha
  exact calcAdvance_fix c twt a (hs a ha)

theorem pre_reread (d : Doc) (p : Pre) (o : Out) (hsl : ∀ l ∈ d.lines, LineStable d.cur d.c l)
    (hsd : ∀ x ∈ d.discounts, DocAdjStable d.c x) (hsc : ∀ x ∈ d.charges, DocAdjStable d.c x)
    (hpre : pre exactOps d = .ok p)
    (hol : o.lines = p.lines.map (roundLine exactOps)) (hod : o.discounts = p.discounts.map (roundDocAdj exactOps d.c))
    (hoc : o.charges = p.charges.map (roundDocAdj exactOps d.c)) :
    pre exactOps (rereadDoc d o) = .ok p := by
  unfold pre at hpre
  cases hl : calcLines exactOps d.cur d.c d.rates d.rule d.lines with
  | error e => simp [hl] at hpre
  | ok lines =>
    simp only [hl] at hpre
    injection hpre with hpre
    subst hpre
    simp only at hol hod hoc
    have hl2 := calcLines_fix d.cur d.c d.rates d.rule d.lines lines hsl hl
    have hd2 := map_docAdj_fix d.rule d.c (lineSum exactOps d.c lines) d.discounts hsd
    have hc2 := map_docAdj_fix d.rule d.c (lineSum exactOps d.c lines) d.charges hsc
    unfold pre
    simp only [rereadDoc, hol, hod, hoc, hl2, hd2, hc2]

/-- **Document fixpoint.**  If a stable document calculates to `out` (with totals), the document read back
from `out` calculates to exactly `out` again. -/
theorem calculate_fixpoint (d : Doc) (out : Out) (t : Totals) (hs : DocStable d)
    (h : calculate exactOps d = .ok out) (ht : out.totals = some t) :
    calculate exactOps (rereadDoc d out) = .ok out := by
  obtain ⟨hsl, hsd, hsc, hsa⟩ := hs
  unfold calculate at h
  cases hpre : pre exactOps d with
  | error e => simp [hpre] at h
  | ok p =>
    simp only [hpre] at h
    by_cases hre : p.rows.isEmpty = true
    · simp only [hre, if_true] at h
      injection h with h
      rw [← h] at ht
      simp at ht
    · simp only [hre, if_false] at h
      cases htx : taxTotal exactOps d.rule d.c d.includes p.rows with
      | error e => simp [htx] at h
      | ok tx =>
        simp only [htx] at h
        injection h with h
        subst h
        have hpre' := pre_reread d p (finish exactOps d p tx) hsl hsd hsc hpre rfl rfl rfl
        unfold calculate
        rw [hpre']
        simp only [hre, if_false, Bool.false_eq_true]
        have h1 : (rereadDoc d (finish exactOps d p tx)).rule = d.rule := rfl
        have h2 : (rereadDoc d (finish exactOps d p tx)).c = d.c := rfl
        have h3 : (rereadDoc d (finish exactOps d p tx)).includes = d.includes := rfl
        rw [h1, h2, h3, htx]
        simp only
        congr 1
        -- same Pre and tax summary: only the advances and due dates were read back
        unfold finish rawTotals
        simp only [rereadDoc]
        cases hpay : d.hasPayment
        · simp
        · simp only [if_true]
          rw [map_calcAdvance_fix d.c _ d.advances hsa]
          simp only [List.map_map]
          congr 1
          apply List.map_congr_left
          intro x _
          exact calcDue_idem d.c _ x


end GoblVerif.Calc
