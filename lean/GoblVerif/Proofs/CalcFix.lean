/-
  Fixpoint of the line calculation: calculating a calculated and presented
  (rounded) line again reproduces the calculated line, provided no fixed
  discount/charge amount is finer than the line is presented with (the known
  finding `fixed_amount_finer_than_price_is_not_a_fixpoint` is exactly the
  complement).
-/
import GoblVerif.Proofs.CalcBasics

namespace GoblVerif.Calc

theorem up_up (a : Amount) (e : ℕ) : up (up a e) e = up a e := up_self _ e (by rw [up_exp]; omega)

theorem down_noop (a : Amount) (e : ℕ) (h : a.exp ≤ e) : down exactOps a e = a := by
  unfold down
  rw [if_neg (by omega)]

/-- a discount whose stored amount survives presentation at `e` decimals: it is recomputed from a
percentage, or its fixed amount has at most `e` decimals -/
def DiscountStable (e : ℕ) (d : LineAdj) : Prop :=
  (∃ p, d.percent = some p ∧ pctIsZero p = false) ∨ d.amount.exp ≤ e

/-- a charge is also recomputed when it has a rate -/
def ChargeStable (e : ℕ) (d : LineAdj) : Prop :=
  (∃ p, d.percent = some p ∧ pctIsZero p = false) ∨ d.rate.isSome ∨ d.amount.exp ≤ e

theorem adjPct_round (r : Rule) (c e : ℕ) (sum : Amount) (d : LineAdj) (hce : c ≤ e) (hs : DiscountStable e d) :
    adjUp c (adjPct exactOps r c sum (roundAdj exactOps e (adjUp c (adjPct exactOps r c sum d)))) =
      adjUp c (adjPct exactOps r c sum d) := by
  unfold adjPct
  cases hp : d.percent with
  | none =>
    rcases hs with ⟨p, h1, _⟩ | hs
    · rw [hp] at h1; cases h1
    · simp only [adjUp, roundAdj, hp]
      rw [down_noop _ e (by rw [up_exp]; omega), up_up]
  | some p =>
    by_cases hz : pctIsZero p = true
    · rcases hs with ⟨q, h1, h2⟩ | hs
      · rw [hp] at h1; cases h1; rw [hz] at h2; cases h2
      · simp only [hz, if_true, adjUp, roundAdj, hp]
        rw [down_noop _ e (by rw [up_exp]; omega), up_up]
    · simp only [hz]
      cases hb : d.base with
      | none => simp [adjUp, roundAdj, hp, hz, hb]
      | some b => simp [adjUp, roundAdj, hp, hz, hb, up_up]

theorem lineDiscounts_round (r : Rule) (c e : ℕ) (sum : Amount) (ds : List LineAdj) (total : Amount)
    (hce : c ≤ e) (hs : ∀ d ∈ ds, DiscountStable e d) :
    lineDiscounts exactOps r c sum ((lineDiscounts exactOps r c sum ds total).1.map (roundAdj exactOps e)) total =
      lineDiscounts exactOps r c sum ds total := by
  induction ds generalizing total with
  | nil => rfl
  | cons d ds ih =>
    have h1 := adjPct_round r c e sum d hce (hs d (by simp))
    have ih' := fun t => ih t (fun x hx => hs x (by simp [hx]))
    simp only [lineDiscounts, lineDiscountStep, List.map_cons, h1]
    rw [ih']

theorem chargeStep_round (r : Rule) (c e : ℕ) (qty sum : Amount) (d : LineAdj) (hce : c ≤ e) (hs : ChargeStable e d) :
    adjUp c (adjRate exactOps qty (adjPct exactOps r c sum
        (roundAdj exactOps e (adjUp c (adjRate exactOps qty (adjPct exactOps r c sum d)))))) =
      adjUp c (adjRate exactOps qty (adjPct exactOps r c sum d)) := by
  cases hr : d.rate with
  | some rt =>
    -- the amount is recomputed from rate × quantity whatever was stored
    unfold adjPct
    cases hp : d.percent with
    | none => simp [adjUp, roundAdj, adjRate, hp, hr]
    | some p =>
      by_cases hz : pctIsZero p = true
      · simp [adjUp, roundAdj, adjRate, hp, hr, hz]
      · cases hb : d.base with
        | none => simp [adjUp, roundAdj, adjRate, hp, hr, hz, hb]
        | some b => simp [adjUp, roundAdj, adjRate, hp, hr, hz, hb, up_up]
  | none =>
    have hs' : DiscountStable e d := by
      rcases hs with h | h | h
      · exact Or.inl h
      · rw [hr] at h; cases h
      · exact Or.inr h
    have hnr : ∀ x : LineAdj, x.rate = none → adjRate exactOps qty x = x := by
      intro x hx; simp [adjRate, hx]
    have h0 : (adjPct exactOps r c sum d).rate = none := by
      unfold adjPct
      cases d.percent with
      | none => exact hr
      | some p =>
        simp only
        split
        · exact hr
        · cases d.base <;> exact hr
    rw [hnr _ h0]
    have h1 : (roundAdj exactOps e (adjUp c (adjPct exactOps r c sum d))).rate = none := h0
    have h2 : (adjPct exactOps r c sum (roundAdj exactOps e (adjUp c (adjPct exactOps r c sum d)))).rate = none := by
      generalize roundAdj exactOps e (adjUp c (adjPct exactOps r c sum d)) = x at h1 ⊢
      unfold adjPct
      cases x.percent with
      | none => exact h1
      | some p =>
        simp only
        split
        · exact h1
        · cases x.base <;> exact h1
    rw [hnr _ h2]
    exact adjPct_round r c e sum d hce hs'

theorem lineCharges_round (r : Rule) (c e : ℕ) (qty sum : Amount) (ds : List LineAdj) (total : Amount)
    (hce : c ≤ e) (hs : ∀ d ∈ ds, ChargeStable e d) :
    lineCharges exactOps r c qty sum ((lineCharges exactOps r c qty sum ds total).1.map (roundAdj exactOps e)) total =
      lineCharges exactOps r c qty sum ds total := by
  induction ds generalizing total with
  | nil => rfl
  | cons d ds ih =>
    have h1 := chargeStep_round r c e qty sum d hce (hs d (by simp))
    have ih' := fun t => ih t (fun x hx => hs x (by simp [hx]))
    simp only [lineCharges, lineChargeStep, List.map_cons, h1]
    rw [ih']

theorem itemPrice_same (cur : String) (c : ℕ) (rates : List XRate) (it : Item) (p : Amount)
    (hcur : (it.cur == "" || it.cur == cur) = true) :
    itemPrice exactOps cur c rates it p = .ok { it with price := some (up p it.sub) } := by
  unfold itemPrice
  simp only [hcur, if_true]

/-- **Line fixpoint.**  A plain line priced in the document currency, none of whose fixed
discount/charge amounts has more decimals than the line is presented with, is reproduced exactly when
its calculated and presented form is calculated again. -/
theorem calcLine_fixpoint (cur : String) (c : ℕ) (rates : List XRate) (r : Rule) (l l1 : Line) (it : Item)
    (p : Amount) (hb : l.breakdown = []) (hi : l.item = some it) (hp : it.price = some p)
    (hcur : (it.cur == "" || it.cur == cur) = true) (hsub : c ≤ it.sub)
    (hd : ∀ d ∈ l.discounts, DiscountStable (max p.exp it.sub) d)
    (hc : ∀ d ∈ l.charges, ChargeStable (max p.exp it.sub) d)
    (h1 : calcLine exactOps cur c rates r l = .ok l1) :
    calcLine exactOps cur c rates r (roundLine exactOps l1) = .ok l1 := by
  have hce : c ≤ max p.exp it.sub := by omega
  -- the first calculation, spelled out
  unfold calcLine at h1
  simp only [hi, hb, calcSubLines, List.filterMap_nil, List.isEmpty_nil, Bool.true_or, if_true, hp,
    itemPrice_same cur c rates it p hcur, Option.getD_some] at h1
  injection h1 with h1
  subst h1
  -- the second one
  unfold roundLine
  simp only [List.map_nil]
  unfold calcLine
  simp only [calcSubLines, List.filterMap_nil, List.isEmpty_nil, Bool.true_or, if_true]
  have hcur' : (({ it with price := some (up p it.sub) } : Item).cur == "" ||
      ({ it with price := some (up p it.sub) } : Item).cur == cur) = true := hcur
  rw [itemPrice_same cur c rates _ (up p it.sub) hcur']
  simp only [Option.getD_some, up_up, up_exp]
  rw [lineDiscounts_round r c (max p.exp it.sub) _ l.discounts _ hce hd]
  rw [lineCharges_round r c (max p.exp it.sub) l.qty _ l.charges _ hce hc]

/-! ### the whole document -/

/-- a line the second calculation reproduces: no breakdown, and either no item at all or a priced item in
the document currency whose fixed discount/charge amounts are not finer than the line is presented with -/
def LineStable (cur : String) (c : ℕ) (l : Line) : Prop :=
  l.breakdown = [] ∧
  match l.item with
  | none => True
  | some it => ∃ p, it.price = some p ∧ (it.cur == "" || it.cur == cur) = true ∧ c ≤ it.sub ∧
      (∀ d ∈ l.discounts, DiscountStable (max p.exp it.sub) d) ∧
      (∀ d ∈ l.charges, ChargeStable (max p.exp it.sub) d)

theorem calcLine_fix (cur : String) (c : ℕ) (rates : List XRate) (r : Rule) (l l1 : Line)
    (hs : LineStable cur c l) (h1 : calcLine exactOps cur c rates r l = .ok l1) :
    calcLine exactOps cur c rates r (roundLine exactOps l1) = .ok l1 := by
  obtain ⟨hb, hi⟩ := hs
  cases hit : l.item with
  | none =>
    have : l1 = l := by
      unfold calcLine at h1
      simp only [hit] at h1
      injection h1 with h1
      exact h1.symm
    subst this
    have hr : roundLine exactOps l1 = l1 := by unfold roundLine; simp only [hit]
    rw [hr]
    unfold calcLine
    simp only [hit]
  | some it =>
    rw [hit] at hi
    obtain ⟨p, hp, hcur, hsub, hd, hc⟩ := hi
    exact calcLine_fixpoint cur c rates r l l1 it p hb hit hp hcur hsub hd hc h1

theorem calcLines_fix (cur : String) (c : ℕ) (rates : List XRate) (r : Rule) (ls ls1 : List Line)
    (hs : ∀ l ∈ ls, LineStable cur c l) (h1 : calcLines exactOps cur c rates r ls = .ok ls1) :
    calcLines exactOps cur c rates r (ls1.map (roundLine exactOps)) = .ok ls1 := by
  induction ls generalizing ls1 with
  | nil =>
    simp only [calcLines] at h1
    injection h1 with h1
    subst h1
    rfl
  | cons l ls ih =>
    simp only [calcLines] at h1
    cases ha : calcLine exactOps cur c rates r l with
    | error e => simp [ha] at h1
    | ok l1 =>
      cases hb : calcLines exactOps cur c rates r ls with
      | error e => simp [ha, hb] at h1
      | ok ls' =>
        simp only [ha, hb] at h1
        injection h1 with h1
        subst h1
        simp only [List.map_cons, calcLines]
        rw [calcLine_fix cur c rates r l l1 (hs l (by simp)) ha,
          ih ls' (fun x hx => hs x (by simp [hx])) hb]

/-- a document discount/charge whose stored amount survives presentation -/
def DocAdjStable (c : ℕ) (x : DocAdj) : Prop :=
  (∃ p, x.percent = some p ∧ pctIsZero p = false) ∨ x.amount.exp ≤ c

theorem applyRule_exp (r : Rule) (c : ℕ) (a : Amount) (h : a.exp ≤ c) : (applyRule exactOps r c a).exp = c := by
  cases r <;> simp [applyRule, up_exp] <;> omega

theorem applyRule_fix (r : Rule) (c : ℕ) (a : Amount) (h : a.exp = c) : applyRule exactOps r c a = a := by
  cases r
  · exact up_self a c (by omega)
  · simp only [applyRule, exact_rescale]
    exact rescaleX_self a c h
  · exact up_self a c (by omega)

theorem docAdj_fix (r : Rule) (c : ℕ) (sum : Amount) (x : DocAdj) (hs : DocAdjStable c x) :
    docAdj exactOps r c sum (roundDocAdj exactOps c (docAdj exactOps r c sum x)) = docAdj exactOps r c sum x := by
  have fixed : ∀ (hfix : (docAdj exactOps r c sum x) = { x with amount := applyRule exactOps r c x.amount })
      (hperc : ∀ y : DocAdj, y.percent = x.percent → y.base = x.base →
        docAdj exactOps r c sum y = { y with amount := applyRule exactOps r c y.amount })
      (hexp : x.amount.exp ≤ c),
      docAdj exactOps r c sum (roundDocAdj exactOps c (docAdj exactOps r c sum x)) = docAdj exactOps r c sum x := by
    intro hfix hperc hexp
    rw [hfix]
    have he : (applyRule exactOps r c x.amount).exp = c := applyRule_exp r c x.amount hexp
    have hround : roundDocAdj exactOps c { x with amount := applyRule exactOps r c x.amount } =
        { x with amount := applyRule exactOps r c x.amount } := by
      unfold roundDocAdj
      simp only
      rw [down_noop]
      rw [he]
      cases x.base with
      | none => simp
      | some b => simp only; split <;> omega
    rw [hround, hperc { x with amount := applyRule exactOps r c x.amount } rfl rfl]
    simp only
    rw [applyRule_fix r c _ he]
  cases hp : x.percent with
  | none =>
    rcases hs with ⟨p, h1, _⟩ | hexp
    · rw [hp] at h1; cases h1
    · apply fixed
      · simp [docAdj, hp]
      · intro y hy _; simp [docAdj, hy, hp]
      · exact hexp
  | some p =>
    by_cases hz : pctIsZero p = true
    · rcases hs with ⟨q, h1, h2⟩ | hexp
      · rw [hp] at h1; cases h1; rw [hz] at h2; cases h2
      · apply fixed
        · simp [docAdj, hp, hz]
        · intro y hy _; simp [docAdj, hy, hp, hz]
        · exact hexp
    · -- the amount is recomputed from the percentage whatever was stored
      unfold docAdj roundDocAdj
      simp only [hp, hz]
      cases hb : x.base with
      | none => simp [hp, hz, hb]
      | some b => simp [hp, hz, hb]

/-- an advance whose stored amount survives presentation -/
def AdvanceStable (c : ℕ) (a : Advance) : Prop := a.percent.isSome ∨ a.amount.exp ≤ c

theorem calcAdvance_fix (c : ℕ) (twt : Amount) (a : Advance) (hs : AdvanceStable c a) :
    calcAdvance exactOps c twt
        { calcAdvance exactOps c twt a with amount := exactOps.rescale (calcAdvance exactOps c twt a).amount c } =
      calcAdvance exactOps c twt a := by
  unfold calcAdvance
  cases hp : a.percent with
  | some p => simp [hp]
  | none =>
    rcases hs with h | h
    · rw [hp] at h; cases h
    · simp only [hp, exact_rescale]
      have he : (up a.amount c).exp = c := by rw [up_exp]; omega
      rw [rescaleX_self _ c he, up_up]

theorem calcDue_idem (c : ℕ) (payable : Amount) (x : Due) :
    calcDue exactOps c payable (calcDue exactOps c payable x) = calcDue exactOps c payable x := by
  unfold calcDue
  cases hp : x.percent with
  | none =>
    simp only [hp, exact_rescale]
    rw [rescaleX_self _ c (rescaleX_exp _ c)]
  | some p =>
    by_cases hz : pctIsZero p = true
    · simp only [hp, hz, if_true, exact_rescale]
      rw [rescaleX_self _ c (rescaleX_exp _ c)]
    · simp [hp, hz]

/-- the calculated and presented document read back as the input of the next calculation -/
def rereadDoc (d : Doc) (o : Out) : Doc :=
  { d with lines := o.lines, discounts := o.discounts, charges := o.charges, advances := o.advances, dues := o.dues }

def DocStable (d : Doc) : Prop :=
  (∀ l ∈ d.lines, LineStable d.cur d.c l) ∧ (∀ x ∈ d.discounts, DocAdjStable d.c x) ∧
  (∀ x ∈ d.charges, DocAdjStable d.c x) ∧ (∀ a ∈ d.advances, AdvanceStable d.c a)

theorem map_docAdj_fix (r : Rule) (c : ℕ) (sum : Amount) (xs : List DocAdj) (hs : ∀ x ∈ xs, DocAdjStable c x) :
    ((xs.map (docAdj exactOps r c sum)).map (roundDocAdj exactOps c)).map (docAdj exactOps r c sum) =
      xs.map (docAdj exactOps r c sum) := by
  rw [List.map_map, List.map_map]
  apply List.map_congr_left
  intro x hx
  exact docAdj_fix r c sum x (hs x hx)

theorem map_calcAdvance_fix (c : ℕ) (twt : Amount) (xs : List Advance) (hs : ∀ a ∈ xs, AdvanceStable c a) :
    ((xs.map (calcAdvance exactOps c twt)).map (fun a => { a with amount := exactOps.rescale a.amount c })).map
        (calcAdvance exactOps c twt) = xs.map (calcAdvance exactOps c twt) := by
  rw [List.map_map, List.map_map]
  apply List.map_congr_left
  intro a ha
  exact calcAdvance_fix c twt a (hs a ha)

theorem pre_reread (d : Doc) (p : Pre) (o : Out) (hsl : ∀ l ∈ d.lines, LineStable d.cur d.c l)
    (hsd : ∀ x ∈ d.discounts, DocAdjStable d.c x) (hsc : ∀ x ∈ d.charges, DocAdjStable d.c x)
    (hpre : pre exactOps d = .ok p)
    (hol : o.lines = p.lines.map (roundLine exactOps)) (hod : o.discounts = p.discounts.map (roundDocAdj exactOps d.c))
    (hoc : o.charges = p.charges.map (roundDocAdj exactOps d.c)) :
    pre exactOps (rereadDoc d o) = .ok p := by
  unfold pre at hpre
  cases hl : calcLines exactOps d.cur d.c d.rates d.rule d.lines with
  | error e => simp [hl] at hpre
  | ok lines =>
    simp only [hl] at hpre
    injection hpre with hpre
    subst hpre
    simp only at hol hod hoc
    have hl2 := calcLines_fix d.cur d.c d.rates d.rule d.lines lines hsl hl
    have hd2 := map_docAdj_fix d.rule d.c (lineSum exactOps d.c lines) d.discounts hsd
    have hc2 := map_docAdj_fix d.rule d.c (lineSum exactOps d.c lines) d.charges hsc
    unfold pre
    simp only [rereadDoc, hol, hod, hoc, hl2, hd2, hc2]

/-- **Document fixpoint.**  If a stable document calculates to `out` (with totals), the document read back
from `out` calculates to exactly `out` again. -/
theorem calculate_fixpoint (d : Doc) (out : Out) (t : Totals) (hs : DocStable d)
    (h : calculate exactOps d = .ok out) (ht : out.totals = some t) :
    calculate exactOps (rereadDoc d out) = .ok out := by
  obtain ⟨hsl, hsd, hsc, hsa⟩ := hs
  unfold calculate at h
  cases hpre : pre exactOps d with
  | error e => simp [hpre] at h
  | ok p =>
    simp only [hpre] at h
    by_cases hre : p.rows.isEmpty = true
    · simp only [hre, if_true] at h
      injection h with h
      rw [← h] at ht
      simp at ht
    · simp only [hre, if_false] at h
      cases htx : taxTotal exactOps d.rule d.c d.includes p.rows with
      | error e => simp [htx] at h
      | ok tx =>
        simp only [htx] at h
        injection h with h
        subst h
        have hpre' := pre_reread d p (finish exactOps d p tx) hsl hsd hsc hpre rfl rfl rfl
        unfold calculate
        rw [hpre']
        simp only [hre, if_false, Bool.false_eq_true]
        have h1 : (rereadDoc d (finish exactOps d p tx)).rule = d.rule := rfl
        have h2 : (rereadDoc d (finish exactOps d p tx)).c = d.c := rfl
        have h3 : (rereadDoc d (finish exactOps d p tx)).includes = d.includes := rfl
        rw [h1, h2, h3, htx]
        simp only
        congr 1
        -- same Pre and tax summary: only the advances and due dates were read back
        unfold finish rawTotals
        simp only [rereadDoc]
        cases hpay : d.hasPayment
        · simp
        · simp only [if_true]
          rw [map_calcAdvance_fix d.c _ d.advances hsa]
          simp only [List.map_map]
          congr 1
          apply List.map_congr_left
          intro x _
          exact calcDue_idem d.c _ x

end GoblVerif.Calc
