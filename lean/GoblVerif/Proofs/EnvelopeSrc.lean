/-
  Helpers for `namespace Src` of Props/C10.lean: the embedding of the model's
  envelope into the Go-shaped one of Generated/EnvelopeSrc.lean, and the
  equality of every translated function of /repo/envelope.go with the
  corresponding transition of Model/Envelope.lean.
-/
import GoblVerif.Generated.EnvelopeSrc
import GoblVerif.Proofs.GoSemList

namespace GoblVerif.EnvSrc
open GoblVerif GoblVerif.GoSem GoblVerif.Generated.EnvelopeSrc

/-- the `*schema.Object` that stands for a document of the model: not empty, and
    `Envelope.Digest()` over it is the model's `digestOf H` -/
def ofDoc (H : Nat → String) (d : Doc) : Obj := ⟨false, d, digestOf H d⟩

/-- the Go envelope that stands for an envelope of the model (`sch` = its
    `$schema`; the header pointer is never nil in the model) -/
def ofEnv (H : Nat → String) (sch : String) (e : Env) : Envelope :=
  ⟨sch, some e.head, e.doc.map (ofDoc H), e.sigs⟩

/-- the Go error of an outcome class: `nil` for ok, otherwise the `*gobl.Error`
    with the key of the class -/
def goErr : Outcome → Option Err
  | .ok => none
  | o => some (.gobl o.str)

/-- the Go error of a signature verdict (`errors.New` texts of `verifySignature`) -/
def verdictErr : SigVerdict → Option Err
  | .ok => none
  | .mismatch => some (.plain "header mismatch")
  | .noKey => some (.plain "no key match found")
  | .badPayload => some (.plain "invalid signature payload")

/-- the Go error of `Verify` -/
def verifyErr : VerifyOut → Option Err
  | .ok => none
  | .unsigned => some (.gobl "signature")
  | .failed _ => some (.gobl "validation")

theorem length_pos_iff {α : Type} (l : List α) : ((l.length : Int) > 0) ↔ l ≠ [] := by
  cases l <;> simp <;> omega

theorem length_zero_iff {α : Type} (l : List α) : ((l.length : Int) = 0) ↔ l = [] := by
  cases l <;> simp <;> omega

theorem src_Signed (H : Nat → String) (sch : String) (e : Env) :
    Envelope_Signed (ofEnv H sch e) = e.signed := by
  unfold Envelope_Signed Env.signed ofEnv
  cases e.sigs <;> simp <;> omega

theorem src_Unsign (H : Nat → String) (sch : String) (e : Env) :
    Envelope_Unsign (ofEnv H sch e) = ofEnv H sch e.unsign := by
  simp [Envelope_Unsign, ofEnv, Env.unsign, Id.run, id_pure]

theorem validate_core (H : Nat → String) (sch : String) (hs : sch ≠ "") (e : Env) :
    (if (validateStruct e.signed (some (ofEnv H sch e))).isSome = true then
        wrapError (validateStruct e.signed (some (ofEnv H sch e)))
      else
        wrapError
          (if (digestPrim (some (ofEnv H sch e))).snd.isSome = true then (digestPrim (some (ofEnv H sch e))).snd
          else
            if (digestEquals (ofEnv H sch e).Head.get!.dig (digestPrim (some (ofEnv H sch e))).fst).isSome = true then
              withCause ErrDigest (digestEquals (ofEnv H sch e).Head.get!.dig (digestPrim (some (ofEnv H sch e))).fst)
            else none)) = goErr (Env.validate H e) := by
  cases hdoc : e.doc with
  | none => simp [ofEnv, hdoc, validateStruct, wrapError, Env.validate, goErr, Outcome.str]
  | some d =>
    by_cases hb : (headBad e.head e.signed || !d.validIn e.signed || e.sigs.any (·.isNone)) = true
    · have hv : validateStruct e.signed (some (ofEnv H sch e)) = some .fields := by
        simp only [Bool.or_eq_true, Bool.not_eq_true'] at hb
        simp only [validateStruct, ofEnv, hdoc, Option.map_some, ofDoc]
        rw [if_pos]
        rcases hb with (hb | hb) | hb
        · exact Or.inr (Or.inr (Or.inl hb))
        · exact Or.inr (Or.inr (Or.inr (Or.inl hb)))
        · exact Or.inr (Or.inr (Or.inr (Or.inr hb)))
      simp [hv, wrapError, Env.validate, hdoc, hb, goErr, Outcome.str]
    · have hv : validateStruct e.signed (some (ofEnv H sch e)) = none := by
        simp only [Bool.or_eq_true, Bool.not_eq_true', not_or] at hb
        simp only [validateStruct, ofEnv, hdoc, Option.map_some, ofDoc]
        rw [if_neg]
        simp only [not_or]
        refine ⟨hs, by simp, hb.1.1, ?_, hb.2⟩
        simpa using hb.1.2
      simp only [hv, Option.isSome_none, Bool.false_eq_true, if_false]
      simp only [Env.validate, hdoc, hb]
      by_cases hd : e.head.dig = some (digestOf H d)
      · simp [digestPrim, ofEnv, hdoc, ofDoc, digestEquals, hd, wrapError, goErr]
      · have hne : ¬ (e.head.dig == some (digestOf H d)) = true := by simpa using hd
        simp only [hne]
        have hbad : headBad e.head e.signed = false := by
          simp only [Bool.or_eq_true, Bool.not_eq_true', not_or] at hb
          simpa using hb.1.1
        cases hdg : e.head.dig with
        | none => simp [headBad, hdg] at hbad
        | some dg =>
          have hdd : dg ≠ digestOf H d := by intro h; apply hd; rw [hdg, h]
          have hcase : dg.alg ≠ (digestOf H d).alg ∨ (dg.alg = (digestOf H d).alg ∧ dg.val ≠ (digestOf H d).val) := by
            by_cases ha : dg.alg = (digestOf H d).alg
            · right; refine ⟨ha, ?_⟩
              intro hv; apply hdd
              cases dg; cases hq : digestOf H d; simp_all
            · left; exact ha
          rcases hcase with ha | ⟨ha, hv⟩
          · simp [digestPrim, ofEnv, hdoc, ofDoc, digestEquals, hdg, ha, wrapError, withCause, ErrDigest, goErr, Outcome.str]
          · simp [digestPrim, ofEnv, hdoc, ofDoc, digestEquals, hdg, ha, hv, wrapError, withCause, ErrDigest, goErr, Outcome.str]

theorem sigs_len_pos (H : Nat → String) (sch : String) (e : Env) :
    (((ofEnv H sch e).Signatures.length : Int) > 0) ↔ e.signed = true := by
  simp only [ofEnv, Env.signed]
  cases e.sigs <;> simp <;> omega

theorem src_Validate (H : Nat → String) (sch : String) (hs : sch ≠ "") (e : Env) :
    Envelope_Validate (ofEnv H sch e) = goErr (Env.validate H e) := by
  unfold Envelope_Validate Envelope_ValidateWithContext Envelope_verifyDigest
  simp only [Id.run, id_pure]
  have h := validate_core H sch hs e
  by_cases hsg : e.signed = true
  · rw [if_pos ((sigs_len_pos H sch e).2 hsg)]
    rw [hsg] at h; exact h
  · rw [if_neg (fun hc => hsg ((sigs_len_pos H sch e).1 hc))]
    have : e.signed = false := by simpa using hsg
    rw [this] at h; exact h

theorem goErr_isSome (o : Outcome) : (goErr o).isSome = true ↔ o ≠ .ok := by
  cases o <;> simp [goErr]

theorem src_Sign (H : Nat → String) (sch : String) (hs : sch ≠ "") (e : Env) (k : Key) :
    Envelope_Sign (ofEnv H sch e) (some k) = (goErr (Env.sign H e k).2, ofEnv H sch (Env.sign H e k).1) := by
  unfold Envelope_Sign
  simp only [Id.run, id_pure]
  have h1 : (ofEnv H sch e).Head.isNone = false := by simp [ofEnv]
  have h2 : keySign (some k) (ofEnv H sch e).Head = (some ⟨k, e.head⟩, none) := by simp [ofEnv, keySign]
  have h3 : ({ ofEnv H sch e with Signatures := (ofEnv H sch e).Signatures ++ [some ⟨k, e.head⟩] } : Envelope)
      = ofEnv H sch { e with sigs := e.sigs ++ [some ⟨k, e.head⟩] } := by simp [ofEnv]
  simp only [h1, h2, h3, src_Validate H sch hs]
  simp only [Env.sign]
  cases hv : Env.validate H { e with sigs := e.sigs ++ [some ⟨k, e.head⟩] } <;>
    simp [goErr, ofEnv]

theorem src_Sign_badKey (H : Nat → String) (sch : String) (e : Env) :
    Envelope_Sign (ofEnv H sch e) none = (goErr .signature, ofEnv H sch e) := by
  unfold Envelope_Sign
  simp [Id.run, id_pure, ofEnv, keySign, withCause, ErrSignature, goErr, Outcome.str]

theorem src_Sign_noHead (E : Envelope) (key : Option Key) (h : E.Head = none) :
    Envelope_Sign E key = (goErr .validation, E) := by
  unfold Envelope_Sign
  simp [Id.run, id_pure, h, ErrValidation, goErr, Outcome.str]

theorem src_calculate (H : Nat → String) (sch : String) (e : Env) (d : Doc) (hdoc : e.doc = some d)
    (hz : uuidIsZero (some e.head.uuid) = false) :
    Envelope_calculate (ofEnv H sch e)
      = (goErr (Env.calculate H e).2, ofEnv H EnvelopeSchema (Env.calculate H e).1) := by
  unfold Envelope_calculate
  simp only [Id.run, id_pure]
  cases hc : d.calcOk
  · simp [ofEnv, hdoc, ofDoc, objCalculate, hc, Env.calculate, withCause, ErrCalculation, goErr, Outcome.str]
  · simp [ofEnv, hdoc, ofDoc, objCalculate, hc, Env.calculate, hz, digestPrim, goErr]

theorem src_Calculate_noDoc (H : Nat → String) (sch : String) (e : Env) (hdoc : e.doc = none) :
    Envelope_Calculate (ofEnv H sch e) = (goErr (Env.calculate H e).2, ofEnv H sch (Env.calculate H e).1) := by
  unfold Envelope_Calculate
  simp [Id.run, id_pure, ofEnv, hdoc, Env.calculate, ErrNoDocument, goErr, Outcome.str]

theorem src_Calculate (H : Nat → String) (sch : String) (e : Env) (d : Doc) (hdoc : e.doc = some d)
    (hz : uuidIsZero (some e.head.uuid) = false) :
    Envelope_Calculate (ofEnv H sch e)
      = (goErr (Env.calculate H e).2, ofEnv H EnvelopeSchema (Env.calculate H e).1) := by
  unfold Envelope_Calculate
  simp only [Id.run, id_pure]
  have h1 : (ofEnv H sch e).Document.isNone = false := by simp [ofEnv, hdoc]
  have h2 : objIsEmpty (ofEnv H sch e).Document = false := by simp [ofEnv, hdoc, objIsEmpty, ofDoc]
  simp [h1, h2, src_calculate H sch e d hdoc hz]

/-- an empty `schema.Object` (`NewEnvelope`'s) is no document either -/
theorem src_Calculate_emptyObj (E : Envelope) (o : Obj) (h : E.Document = some o) (he : o.empty = true) :
    Envelope_Calculate E = (goErr .noDocument, E) := by
  unfold Envelope_Calculate
  simp [Id.run, id_pure, h, objIsEmpty, he, ErrNoDocument, goErr, Outcome.str]

theorem wrapError_goErr (o : Outcome) : wrapError (goErr o) = goErr o := by
  cases o <;> simp [goErr, wrapError]

theorem src_Insert_obj (H : Nat → String) (sch : String) (e : Env) (d : Doc)
    (hz : uuidIsZero (some e.head.uuid) = false) :
    Envelope_Insert (ofEnv H sch e) (.obj (some (ofDoc H d)))
      = (goErr (Env.insert H e d).2, ofEnv H EnvelopeSchema (Env.insert H e d).1) := by
  unfold Envelope_Insert
  simp only [Id.run, id_pure]
  have h3 : ({ ofEnv H sch e with Document := some (ofDoc H d) } : Envelope) = ofEnv H sch { e with doc := some d } := by
    simp [ofEnv]
  have hc := src_calculate H sch { e with doc := some d } d rfl hz
  simp only [AnyDoc.isNil, AnyDoc.asObj, h3, hc, Env.insert]
  cases ho : (Env.calculate H { e with doc := some d }).2 <;>
    simp [ofEnv, goErr, wrapError]

theorem src_Insert_other (H : Nat → String) (sch : String) (e : Env) (d : Doc)
    (hz : uuidIsZero (some e.head.uuid) = false) :
    Envelope_Insert (ofEnv H sch e) (.other (some (ofDoc H d)) none)
      = (goErr (Env.insert H e d).2, ofEnv H EnvelopeSchema (Env.insert H e d).1) := by
  unfold Envelope_Insert
  simp only [Id.run, id_pure]
  have h3 : ({ ofEnv H sch e with Document := some (ofDoc H d) } : Envelope) = ofEnv H sch { e with doc := some d } := by
    simp [ofEnv]
  have hc := src_calculate H sch { e with doc := some d } d rfl hz
  simp only [AnyDoc.isNil, AnyDoc.asObj, newObject, h3, hc, Env.insert]
  cases ho : (Env.calculate H { e with doc := some d }).2 <;>
    simp [ofEnv, goErr, wrapError]

theorem src_Insert_nil (H : Nat → String) (sch : String) (e : Env) :
    Envelope_Insert (ofEnv H sch e) .nil = (goErr .noDocument, ofEnv H sch e) := by
  unfold Envelope_Insert
  simp [Id.run, id_pure, ofEnv, AnyDoc.isNil, ErrNoDocument, goErr, Outcome.str]

theorem verifyLoop (h : Header) (sg : Option Sig) (ks : List Key) :
    (forList
        (fun (x : Option Key) (s : Option (Option Err) × Unit) =>
          if (sigVerifyPayload sg x).fst.isSome = true then ForInStep.yield (none, ())
          else
            if (checkNull (some (sigVerifyPayload sg x).snd)).isSome = true then
              ForInStep.done (some (errNew "invalid signature payload"), ())
            else
              if h.contains (some (sigVerifyPayload sg x).snd).get! = true then
                ForInStep.done (some none, ())
              else ForInStep.done (some (errNew "header mismatch"), ()))
        (List.map some ks) (none, ())).fst
      = match sg with
        | none => none
        | some s =>
          match ks.find? (fun k => jwsValid k s) with
          | none => none
          | some _ => some (if h.contains s.payload then none else errNew "header mismatch") := by
  induction ks with
  | nil => cases sg <;> simp [forList]
  | cons k ks ih =>
    cases sg with
    | none =>
      simp only [List.map_cons, forList, sigVerifyPayload, Option.isSome_some, if_true]
      simpa [sigVerifyPayload] using ih
    | some s =>
      simp only [List.map_cons, forList, List.find?_cons]
      by_cases hk : jwsValid k s = true
      · by_cases hc : h.contains s.payload = true <;> simp [sigVerifyPayload, hk, checkNull, hc]
      · have hk' : jwsValid k s = false := by simpa using hk
        simp only [sigVerifyPayload, hk', Bool.false_eq_true, if_false, Option.isSome_some, if_true]
        simpa [sigVerifyPayload] using ih

theorem src_verifySignature (H : Nat → String) (sch : String) (e : Env) (sg : Option Sig) (ks : List Key) :
    Envelope_verifySignature (ofEnv H sch e) sg (ks.map some) = verdictErr (verifySignature e.head sg ks) := by
  unfold Envelope_verifySignature
  simp only [forIn_list_id, pure_bind]
  simp only [Id.run, id_pure]
  have h0 : ¬ ((ofEnv H sch e).Head.isNone = true ∨ (checkNull (ofEnv H sch e).Head).isSome = true) := by
    simp [ofEnv, checkNull]
  have hh : (ofEnv H sch e).Head.get! = e.head := by simp [ofEnv]
  rw [if_neg h0, hh, verifyLoop]
  cases ks with
  | nil =>
    cases sg with
    | none => simp [sigPayload, verifySignature, verdictErr, errNew]
    | some s =>
      by_cases hc : e.head.contains s.payload = true <;>
        simp [sigPayload, checkNull, verifySignature, verdictErr, errNew, hc]
  | cons k ks =>
    have hl : ¬ (((List.map some (k :: ks)).length : Int) = 0) := by simp; omega
    rw [if_neg hl]
    cases sg with
    | none => simp [verifySignature, verdictErr, errNew]
    | some s =>
      simp only [verifySignature]
      cases hf : List.find? (fun k => jwsValid k s) (k :: ks) with
      | none => simp [verdictErr, errNew]
      | some k' =>
        by_cases hc : e.head.contains s.payload = true <;> simp [verdictErr, errNew, hc]

theorem mapSet_ne_nil {α β : Type} [BEq α] (m : List (α × β)) (k : α) (v : β) : mapSet m k v ≠ [] := by
  cases m with
  | nil => simp [mapSet]
  | cons a m => obtain ⟨k', v'⟩ := a; simp only [mapSet]; split <;> simp

theorem collectLoop {α : Type} (f : α → Option Err) (key : α → String) (l : List α) (acc : List (String × Option Err)) :
    (forList (fun x s => if (f x).isSome = true then ForInStep.yield (mapSet s (key x) (f x)) else ForInStep.yield s) l acc = [])
      ↔ (acc = [] ∧ l.all (fun x => (f x).isNone) = true) := by
  induction l generalizing acc with
  | nil => simp [forList]
  | cons a l ih =>
    simp only [forList, List.all_cons, Bool.and_eq_true]
    by_cases ha : (f a).isSome = true
    · have hn : (f a).isNone = false := by cases hfa : f a <;> simp_all
      simp only [ha, if_true, ih, hn]
      constructor
      · intro h; exact absurd h.1 (mapSet_ne_nil _ _ _)
      · intro h; simp at h
    · have hn : (f a).isNone = true := by cases hfa : f a <;> simp_all
      have ha' : (f a).isSome = false := by simpa using ha
      simp only [ha', Bool.false_eq_true, if_false, ih, hn, true_and]

theorem verdictErr_isNone (v : SigVerdict) : (verdictErr v).isNone = (v == .ok) := by
  cases v <;> simp [verdictErr] <;> rfl

theorem src_Verify (H : Nat → String) (sch : String) (e : Env) (ks : List Key) :
    Envelope_Verify (ofEnv H sch e) (ks.map some) = verifyErr (e.verify ks) := by
  unfold Envelope_Verify
  simp only [forIn_list_id, pure_bind]
  simp only [Id.run, id_pure]
  cases hsg : e.sigs with
  | nil => simp [ofEnv, hsg, Env.verify, verifyErr, ErrSignature]
  | cons a l =>
    have hl : ¬ (((ofEnv H sch e).Signatures.length : Int) = 0) := by simp [ofEnv, hsg]; omega
    rw [if_neg hl]
    have hloop := collectLoop (fun (x : Option Sig × Nat) => Envelope_verifySignature (ofEnv H sch e) x.fst (List.map some ks))
      (fun x => toString (x.snd : Int)) (ofEnv H sch e).Signatures.zipIdx []
    generalize hve : forList _ (ofEnv H sch e).Signatures.zipIdx [] = ve at hloop ⊢
    have hall : (List.all (ofEnv H sch e).Signatures.zipIdx fun x =>
        (Envelope_verifySignature (ofEnv H sch e) x.fst (List.map some ks)).isNone)
        = (e.sigs.map (fun s => verifySignature e.head s ks)).all (· == .ok) := by
      simp only [src_verifySignature, verdictErr_isNone]
      simp only [ofEnv]
      rw [List.all_map]
      generalize e.sigs = ss
      have : ∀ (n : Nat), (List.all (ss.zipIdx n) fun x => verifySignature e.head x.fst ks == SigVerdict.ok)
          = List.all ss ((fun x => x == SigVerdict.ok) ∘ fun s => verifySignature e.head s ks) := by
        induction ss with
        | nil => intro n; rfl
        | cons b ss ih => intro n; simp only [List.zipIdx_cons, List.all_cons, ih, Function.comp]
      exact this 0
    rw [hsg] at hall
    have hv : e.verify ks = if ((a :: l).map (fun s => verifySignature e.head s ks)).all (· == .ok) = true then .ok
        else .failed ((a :: l).map (fun s => verifySignature e.head s ks)) := by
      unfold Env.verify; rw [hsg]; rfl
    rw [hv]
    by_cases hok : ((a :: l).map (fun s => verifySignature e.head s ks)).all (· == .ok) = true
    · have : ve = [] := hloop.2 ⟨rfl, by rw [hall]; exact hok⟩
      rw [if_pos hok]
      simp [this, verifyErr]
    · have hne : ve ≠ [] := fun h => hok (by rw [← hall]; exact (hloop.1 h).2)
      have hpos : ((ve.length : Int) > 0) := (length_pos_iff ve).2 hne
      rw [if_pos hpos, if_neg hok]
      simp [verifyErr, withCause, ErrValidation]

end GoblVerif.EnvSrc
