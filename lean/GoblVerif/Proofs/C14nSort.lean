/-
  Helper lemmas for C07: the key order, the stable insertion sort
  (Object.Sort), its interaction with dropping members, and uniqueness of the
  sorted arrangement when keys are distinct.
-/
import GoblVerif.Spec.C07

namespace GoblVerif.Proofs.C14n
open GoblVerif GoblVerif.Spec.C07

/-! ## `ltS` is a strict linear order -/

theorem ltS_irrefl : ∀ a : Str, ltS a a = false
  | [] => rfl
  | x :: xs => by simp [ltS, ltS_irrefl xs]

theorem ltS_trans : ∀ a b c : Str, ltS a b = true → ltS b c = true → ltS a c = true
  | [], [], _, h, _ => by simp [ltS] at h
  | [], _ :: _, [], _, h => by simp [ltS] at h
  | [], _ :: _, _ :: _, _, _ => by simp [ltS]
  | _ :: _, [], _, h, _ => by simp [ltS] at h
  | _ :: _, _ :: _, [], _, h => by simp [ltS] at h
  | x :: xs, y :: ys, z :: zs, h1, h2 => by
    simp only [ltS, Bool.or_eq_true, decide_eq_true_eq, Bool.and_eq_true, beq_iff_eq] at h1 h2 ⊢
    rcases h1 with h1 | ⟨e1, h1⟩ <;> rcases h2 with h2 | ⟨e2, h2⟩
    · left; omega
    · left; omega
    · left; omega
    · right; exact ⟨by omega, ltS_trans xs ys zs h1 h2⟩

theorem ltS_total : ∀ a b : Str, ltS a b = false → ltS b a = false → a = b
  | [], [], _, _ => rfl
  | [], _ :: _, h, _ => by simp [ltS] at h
  | _ :: _, [], _, h => by simp [ltS] at h
  | x :: xs, y :: ys, h1, h2 => by
    simp only [ltS, Bool.or_eq_false_iff, decide_eq_false_iff_not, Bool.and_eq_false_iff,
      beq_eq_false_iff_ne] at h1 h2
    have hxy : x = y := by omega
    subst hxy
    have h1' : ltS xs ys = false := by rcases h1.2 with h | h; exact absurd rfl h; exact h
    have h2' : ltS ys xs = false := by rcases h2.2 with h | h; exact absurd rfl h; exact h
    rw [ltS_total xs ys h1' h2']

theorem ltS_asymm (a b : Str) (h : ltS a b = true) : ltS b a = false := by
  cases hb : ltS b a with
  | false => rfl
  | true => have := ltS_trans a b a h hb; rw [ltS_irrefl] at this; exact absurd this (by decide)

/-- `a ≤ b` in key order -/
def leS (a b : Str) : Prop := ltS b a = false

theorem leS_trans {a b c : Str} (h1 : leS a b) (h2 : leS b c) : leS a c := by
  unfold leS at *
  cases hca : ltS c a with
  | false => rfl
  | true =>
    -- c < a; compare a and b
    cases hab : ltS a b with
    | true => have := ltS_trans c a b hca hab; rw [h2] at this; exact absurd this (by decide)
    | false =>
      have : a = b := ltS_total a b hab h1
      subst this; rw [h2] at hca; exact absurd hca (by decide)

theorem ltS_of_leS_ne {a b : Str} (h : leS a b) (hne : a ≠ b) : ltS a b = true := by
  cases hab : ltS a b with
  | true => rfl
  | false => exact absurd (ltS_total a b hab h) hne

/-! ## insertion sort -/

section
variable {α : Type}

def SortedL (l : List (Str × α)) : Prop := l.Pairwise (fun a b => leS a.1 b.1)

theorem insSorted_perm (k : Str) (v : α) : ∀ l : List (Str × α), (insSorted k v l).Perm ((k, v) :: l)
  | [] => List.Perm.refl _
  | (k', v') :: r => by
    unfold insSorted
    split
    · exact ((insSorted_perm k v r).cons (k', v')).trans (List.Perm.swap _ _ _)
    · exact List.Perm.refl _

theorem sortL_perm : ∀ l : List (Str × α), (sortL l).Perm l
  | [] => List.Perm.refl _
  | (k, v) :: r => by
    unfold sortL
    exact (insSorted_perm k v (sortL r)).trans ((sortL_perm r).cons _)

theorem insSorted_sorted (k : Str) (v : α) : ∀ l : List (Str × α), SortedL l → SortedL (insSorted k v l)
  | [], _ => by simp [insSorted, SortedL]
  | (k', v') :: r, h => by
    unfold SortedL at h ⊢
    rw [List.pairwise_cons] at h
    unfold insSorted
    split
    · rename_i hlt
      rw [List.pairwise_cons]
      refine ⟨?_, insSorted_sorted k v r h.2⟩
      intro b hb
      rcases List.mem_cons.mp ((insSorted_perm k v r).mem_iff.mp hb) with hb | hb
      · subst hb; exact ltS_asymm _ _ hlt
      · exact h.1 b hb
    · rename_i hlt
      simp only [Bool.not_eq_true] at hlt
      rw [List.pairwise_cons]
      refine ⟨?_, List.pairwise_cons.mpr h⟩
      intro b hb
      rcases List.mem_cons.mp hb with hb | hb
      · subst hb; exact hlt
      · exact leS_trans hlt (h.1 b hb)

theorem sortL_sorted : ∀ l : List (Str × α), SortedL (sortL l)
  | [] => by simp [sortL, SortedL]
  | (k, v) :: r => by unfold sortL; exact insSorted_sorted k v _ (sortL_sorted r)

/-- inserting in front of a list whose head is not smaller -/
theorem insSorted_head (k : Str) (v : α) (l : List (Str × α)) (h : ∀ b ∈ l.head?, leS k b.1) :
    insSorted k v l = (k, v) :: l := by
  cases l with
  | nil => rfl
  | cons x r =>
    obtain ⟨k', v'⟩ := x
    have := h (k', v') (by simp)
    unfold leS at this
    simp [insSorted, this]

theorem sortL_of_sorted : ∀ l : List (Str × α), SortedL l → sortL l = l
  | [], _ => rfl
  | (k, v) :: r, h => by
    unfold SortedL at h
    rw [List.pairwise_cons] at h
    unfold sortL
    rw [sortL_of_sorted r h.2]
    apply insSorted_head
    intro b hb
    exact h.1 b (List.mem_of_mem_head? hb)

theorem insSorted_cons_lt (k : Str) (v : α) (k' : Str) (v' : α) (r : List (Str × α)) (h : ltS k' k = true) :
    insSorted k v ((k', v') :: r) = (k', v') :: insSorted k v r := by simp [insSorted, h]

theorem insSorted_cons_ge (k : Str) (v : α) (k' : Str) (v' : α) (r : List (Str × α)) (h : ltS k' k = false) :
    insSorted k v ((k', v') :: r) = (k, v) :: (k', v') :: r := by simp [insSorted, h]

theorem sortL_cons (k : Str) (v : α) (r : List (Str × α)) : sortL ((k, v) :: r) = insSorted k v (sortL r) := rfl

theorem filter_insSorted (p : Str × α → Bool) (k : Str) (v : α) :
    ∀ l : List (Str × α), SortedL l →
      (insSorted k v l).filter p = if p (k, v) then insSorted k v (l.filter p) else l.filter p
  | [], _ => by
    cases hp : p (k, v) <;> simp [insSorted, hp]
  | (k', v') :: r, h => by
    have h' := h
    unfold SortedL at h
    rw [List.pairwise_cons] at h
    have ih := filter_insSorted p k v r h.2
    cases hlt : ltS k' k
    · rw [insSorted_cons_ge k v k' v' r hlt]
      cases hp : p (k, v)
      · simp [List.filter_cons, hp]
      · have := insSorted_head k v (List.filter p ((k', v') :: r)) (by
          intro b hb
          have hb := List.mem_of_mem_head? hb
          have hb := (List.mem_filter.mp hb).1
          rcases List.mem_cons.mp hb with hb | hb
          · subst hb; exact hlt
          · exact leS_trans hlt (h.1 b hb))
        rw [if_pos rfl, this, List.filter_cons, hp, if_pos rfl]
    · rw [insSorted_cons_lt k v k' v' r hlt, List.filter_cons, ih]
      cases hp : p (k, v) <;> cases hp' : p (k', v')
      · simp [hp']
      · simp [hp']
      · simp [hp']
      · simp [hp', insSorted_cons_lt k v k' v' _ hlt]

theorem filter_sortL (p : Str × α → Bool) : ∀ l : List (Str × α), (sortL l).filter p = sortL (l.filter p)
  | [] => rfl
  | (k, v) :: r => by
    rw [sortL_cons, filter_insSorted p k v _ (sortL_sorted r), filter_sortL p r]
    cases hp : p (k, v)
    · simp [hp]
    · simp [hp, sortL_cons]

theorem map_insSorted {β : Type} (g : α → β) (k : Str) (v : α) : ∀ l : List (Str × α),
    (insSorted k v l).map (fun p => (p.1, g p.2)) = insSorted k (g v) (l.map (fun p => (p.1, g p.2)))
  | [] => rfl
  | (k', v') :: r => by
    unfold insSorted
    split <;> simp [map_insSorted g k v r, *]

theorem map_sortL {β : Type} (g : α → β) : ∀ l : List (Str × α),
    (sortL l).map (fun p => (p.1, g p.2)) = sortL (l.map (fun p => (p.1, g p.2)))
  | [] => rfl
  | (k, v) :: r => by
    simp only [sortL, List.map_cons, map_insSorted, map_sortL g r]

/-- two arrangements of the same members that are both strictly sorted are equal -/
theorem eq_of_perm_of_strict : ∀ (l₁ l₂ : List (Str × α)), l₁.Perm l₂ →
    l₁.Pairwise (fun a b => ltS a.1 b.1 = true) → l₂.Pairwise (fun a b => ltS a.1 b.1 = true) → l₁ = l₂
  | [], l₂, hp, _, _ => (List.Perm.nil_eq hp)
  | a :: t₁, [], hp, _, _ => absurd hp.symm (by simp)
  | a :: t₁, b :: t₂, hp, h₁, h₂ => by
    rw [List.pairwise_cons] at h₁ h₂
    have hab : a = b := by
      have ha : a ∈ b :: t₂ := hp.mem_iff.mp (by simp)
      have hb : b ∈ a :: t₁ := hp.mem_iff.mpr (by simp)
      rcases List.mem_cons.mp ha with ha | ha
      · exact ha
      · rcases List.mem_cons.mp hb with hb | hb
        · exact hb.symm
        · have l1 := h₁.1 b hb
          have l2 := h₂.1 a ha
          rw [ltS_asymm _ _ l1] at l2
          exact absurd l2 (by decide)
    subst hab
    rw [eq_of_perm_of_strict t₁ t₂ hp.cons_inv h₁.2 h₂.2]

theorem strict_of_sorted_nodup : ∀ (l : List (Str × α)), SortedL l → (l.map (·.1)).Nodup →
    l.Pairwise (fun a b => ltS a.1 b.1 = true)
  | [], _, _ => List.Pairwise.nil
  | a :: t, hs, hn => by
    unfold SortedL at hs
    rw [List.pairwise_cons] at hs ⊢
    simp only [List.map_cons, List.nodup_cons] at hn
    refine ⟨?_, strict_of_sorted_nodup t hs.2 hn.2⟩
    intro b hb
    apply ltS_of_leS_ne (hs.1 b hb)
    intro e
    exact hn.1 (by rw [e]; exact List.mem_map_of_mem hb)

/-- with distinct keys the sorted arrangement does not depend on the input order -/
theorem sortL_eq_of_perm (l₁ l₂ : List (Str × α)) (hp : l₁.Perm l₂) (hn : (l₁.map (·.1)).Nodup) :
    sortL l₁ = sortL l₂ := by
  have p1 := sortL_perm l₁
  have p2 := sortL_perm l₂
  have hn2 : (l₂.map (·.1)).Nodup := (hp.map _).nodup_iff.mp hn
  apply eq_of_perm_of_strict _ _ (p1.trans (hp.trans p2.symm))
  · exact strict_of_sorted_nodup _ (sortL_sorted l₁) ((p1.map _).nodup_iff.mpr hn)
  · exact strict_of_sorted_nodup _ (sortL_sorted l₂) ((p2.map _).nodup_iff.mpr hn2)

end

end GoblVerif.Proofs.C14n
