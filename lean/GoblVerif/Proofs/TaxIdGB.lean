/-
  Helper lemmas for the GB theorem of Props/C13.lean (kept in the namespace of
  the property file so the final theorem reads naturally).
-/
import GoblVerif.Proofs.TaxId
namespace GoblVerif.Props.C13
open GoblVerif.TaxId
open GoblVerif.Spec.TaxId (digs dot num dg isDigits digitSum luhnValid luhnTotal)

theorem gb_subLoop (f : Nat) (c : Int) (h1 : -97 < c) (h2 : c ≤ 97 * f) :
    GB.subLoop f c = c - 97 * ((c + 96) / 97) := by
  induction f generalizing c with
  | zero => simp [GB.subLoop]; omega
  | succ f ih =>
    unfold GB.subLoop
    split
    · rw [ih (c - 97) (by omega) (by push_cast at h2 ⊢; omega)]; omega
    · omega

/-- the arithmetic core of `GB.commercialCheck` -/
def gbCore (N body S cc : Nat) : Bool :=
  N != 0 && decide (cc ≤ 96) &&
    (((S + cc) % 97 == 0 && decide (body < 9990001) && (decide (body < 100000) || decide (body > 999999)) &&
        (decide (body < 9490001) || decide (body > 9700000)))
      || ((S + cc + 55) % 97 == 0 && decide (body > 1000000)))

theorem gb_commercial (val : Str) (N body S cc : Nat) (hN : atoi0 val = N) (hb : atoi0 (val.take 7) = body)
    (hS : wloop GB.multipliers val 0 = S) (hc : atoi0 ((val.drop 7).take 2) = cc) :
    GB.commercialCheck val = gbCore N body S cc := by
  unfold GB.commercialCheck gbCore
  simp only [hN, hb, hS, hc]
  rw [gb_subLoop (S + 1) (S : Int) (by omega) (by push_cast; omega)]
  have hcd : (S : Int) - 97 * (((S : Int) + 96) / 97) = -(((97 - S % 97) % 97 : Nat) : Int) := by omega
  have h1 : (97 - S % 97) % 97 < 97 := Nat.mod_lt _ (by omega)
  have h2 : (S + (97 - S % 97) % 97) % 97 = 0 := by omega
  rw [hcd]
  generalize (97 - S % 97) % 97 = cd at h1 h2
  rw [Bool.eq_iff_iff]
  simp
  have e : (if 0 < cd then (cd : Int) else -(cd : Int)) = cd := by split <;> omega
  rw [e]
  split <;> omega

end GoblVerif.Props.C13
