/-
  Helper lemmas about the normaliser model (Model/Normalize.lean) for Props/C13.lean.
-/
import GoblVerif.Proofs.TaxId

namespace GoblVerif.TaxId
open GoblVerif.TaxId.Norm
open GoblVerif.Spec.TaxId (stripCodes endsWith chSuffixes)

theorem toUpper_toNat (c : Char) :
    c.toUpper.toNat = if 97 ≤ c.toNat ∧ c.toNat ≤ 122 then c.toNat - 32 else c.toNat := by
  unfold Char.toUpper
  have hv : c.toNat = c.val.toNat := rfl
  split
  · rename_i h
    have h1 : 97 ≤ c.val.toNat ∧ c.val.toNat ≤ 122 := by
      obtain ⟨a, b⟩ := h
      exact ⟨UInt32.le_iff_toNat_le.mp a, UInt32.le_iff_toNat_le.mp b⟩
    rw [hv, if_pos h1]
    show (c.val + ('A'.val - 'a'.val)).toNat = _
    rw [UInt32.toNat_add]
    have : ('A'.val - 'a'.val).toNat = 4294967264 := by decide
    rw [this]
    omega
  · rename_i h
    have h1 : ¬ (97 ≤ c.val.toNat ∧ c.val.toNat ≤ 122) := by
      intro ⟨a, b⟩
      exact h ⟨UInt32.le_iff_toNat_le.mpr a, UInt32.le_iff_toNat_le.mpr b⟩
    rw [hv, if_neg h1]

theorem toLower_toNat (c : Char) :
    c.toLower.toNat = if 65 ≤ c.toNat ∧ c.toNat ≤ 90 then c.toNat + 32 else c.toNat := by
  unfold Char.toLower
  have hv : c.toNat = c.val.toNat := rfl
  split
  · rename_i h
    have h1 : 65 ≤ c.val.toNat ∧ c.val.toNat ≤ 90 := by
      obtain ⟨a, b⟩ := h
      exact ⟨UInt32.le_iff_toNat_le.mp a, UInt32.le_iff_toNat_le.mp b⟩
    rw [hv, if_pos h1]
    show (c.val + ('a'.val - 'A'.val)).toNat = _
    rw [UInt32.toNat_add]
    have : ('a'.val - 'A'.val).toNat = 32 := by decide
    rw [this]
    omega
  · rename_i h
    have h1 : ¬ (65 ≤ c.val.toNat ∧ c.val.toNat ≤ 90) := by
      intro ⟨a, b⟩
      exact h ⟨UInt32.le_iff_toNat_le.mpr a, UInt32.le_iff_toNat_le.mpr b⟩
    rw [hv, if_neg h1]

theorem toUpper_of_isAZ09 (c : Char) (h : isAZ09 c = true) : c.toUpper = c := by
  rw [char_eq_iff_toNat, toUpper_toNat]
  simp [isAZ09, isDig, isUp] at h
  split <;> omega

theorem isDig_toUpper (c : Char) : isDig c.toUpper = isDig c := by
  rw [Bool.eq_iff_iff]
  simp only [isDig, toUpper_toNat, decide_eq_true_eq]
  split <;> omega

theorem toUpper_toLower (c : Char) : c.toLower.toUpper = c.toUpper := by
  rw [char_eq_iff_toNat, toUpper_toNat, toUpper_toNat, toLower_toNat]
  repeat' split
  all_goals omega

theorem toUpper_toUpper (c : Char) : c.toUpper.toUpper = c.toUpper := by
  rw [char_eq_iff_toNat, toUpper_toNat, toUpper_toNat]
  repeat' split
  all_goals omega

/-- a clean text (upper-case letters and digits only) is left alone by the cleaning steps -/
theorem clean_fixed (r : Str) (h : r.all isAZ09 = true) : stripBad (upper r) = r := by
  induction r with
  | nil => rfl
  | cons c cs ih =>
    simp only [List.all_cons, Bool.and_eq_true] at h
    simp only [upper, stripBad, List.map_cons, toUpper_of_isAZ09 c h.1, List.filter_cons, h.1, if_true]
    congr 1
    exact ih h.2

theorem stripBad_clean (s : Str) : (stripBad s).all isAZ09 = true := by
  simp [stripBad]

theorem trimPrefix_clean (p s : Str) (h : s.all isAZ09 = true) : (trimPrefix p s).all isAZ09 = true := by
  unfold trimPrefix
  split
  · rw [List.all_eq_true] at h ⊢
    intro x hx; exact h x (List.mem_of_mem_drop hx)
  · exact h

theorem foldl_trim_clean (alts : List Str) (s : Str) (h : s.all isAZ09 = true) :
    (alts.foldl (fun c a => trimPrefix a c) s).all isAZ09 = true := by
  induction alts generalizing s with
  | nil => exact h
  | cons a as ih => exact ih _ (trimPrefix_clean a s h)

/-! ### the prefix loop of `tax.NormalizeIdentity` -/

theorem trimPrefix_eq_self_iff (p s : Str) : trimPrefix p s = s ↔ (p = [] ∨ p.isPrefixOf s = false) := by
  unfold trimPrefix
  constructor
  · intro h
    split at h
    · rename_i hp
      left
      obtain ⟨t, rfl⟩ := List.isPrefixOf_iff_prefix.mp hp
      have := congrArg List.length h
      simp only [List.length_drop, List.length_append] at this
      exact List.eq_nil_of_length_eq_zero (by omega)
    · rename_i hp; right; exact Bool.eq_false_iff.mpr hp
  · rintro (rfl | h)
    · simp
    · simp [h]

theorem trimPrefix_fixed_of_prefix (p r m : Str) (hr : r <+: m) (h : trimPrefix p m = m) : trimPrefix p r = r := by
  rw [trimPrefix_eq_self_iff] at h ⊢
  rcases h with h | h
  · exact Or.inl h
  · right
    cases hp : p.isPrefixOf r with
    | false => rfl
    | true =>
      have : p <+: m := (List.isPrefixOf_iff_prefix.mp hp).trans hr
      rw [List.isPrefixOf_iff_prefix.mpr this] at h
      exact absurd h (by simp)

theorem trimPrefix_length_le (p s : Str) : (trimPrefix p s).length ≤ s.length := by
  unfold trimPrefix; split <;> simp

theorem trimPrefix_eq_of_length (p s : Str) (h : s.length ≤ (trimPrefix p s).length) : trimPrefix p s = s := by
  unfold trimPrefix at h ⊢
  split
  · rename_i hp
    rw [if_pos hp] at h
    obtain ⟨t, rfl⟩ := List.isPrefixOf_iff_prefix.mp hp
    simp only [List.length_drop, List.length_append] at h
    have : p = [] := List.eq_nil_of_length_eq_zero (by omega)
    subst this; simp
  · rfl

theorem foldl_trim_length_le (alts : List Str) (s : Str) :
    (alts.foldl (fun c a => trimPrefix a c) s).length ≤ s.length := by
  induction alts generalizing s with
  | nil => simp
  | cons a as ih => exact Nat.le_trans (ih _) (trimPrefix_length_le a s)

theorem foldl_trim_eq_of_length (alts : List Str) (s : Str)
    (h : s.length ≤ (alts.foldl (fun c a => trimPrefix a c) s).length) :
    ∀ a ∈ alts, trimPrefix a s = s := by
  induction alts generalizing s with
  | nil => simp
  | cons a as ih =>
    simp only [List.foldl_cons] at h
    have h1 := foldl_trim_length_le as (trimPrefix a s)
    have h2 := trimPrefix_length_le a s
    have ha : trimPrefix a s = s := trimPrefix_eq_of_length a s (by omega)
    rw [ha] at h
    intro b hb
    simp only [List.mem_cons] at hb
    rcases hb with rfl | hb
    · exact ha
    · exact ih s h b hb

theorem trimPass_length_le (country : Str) (alts : List Str) (s : Str) :
    (trimPass country alts s).length ≤ s.length :=
  Nat.le_trans (foldl_trim_length_le _ _) (trimPrefix_length_le _ _)

/-- a pass that does not shorten the code changes nothing, step by step -/
theorem trimPass_steps_of_length (country : Str) (alts : List Str) (s : Str)
    (h : s.length ≤ (trimPass country alts s).length) :
    trimPrefix country s = s ∧ ∀ a ∈ alts, trimPrefix a s = s := by
  unfold trimPass at h
  have h1 := foldl_trim_length_le alts (trimPrefix country s)
  have h2 := trimPrefix_length_le country s
  have hc : trimPrefix country s = s := trimPrefix_eq_of_length country s (by omega)
  rw [hc] at h
  exact ⟨hc, foldl_trim_eq_of_length alts s h⟩

theorem foldl_trim_fixed' (alts : List Str) (r : Str) (h : ∀ a ∈ alts, trimPrefix a r = r) :
    alts.foldl (fun c a => trimPrefix a c) r = r := by
  induction alts with
  | nil => rfl
  | cons a as ih =>
    simp only [List.foldl_cons, h a (by simp)]
    exact ih (fun b hb => h b (by simp [hb]))

theorem trimPass_fixed_iff (country : Str) (alts : List Str) (r : Str) :
    trimPass country alts r = r ↔ (trimPrefix country r = r ∧ ∀ a ∈ alts, trimPrefix a r = r) := by
  constructor
  · intro h; exact trimPass_steps_of_length country alts r (by rw [h])
  · intro ⟨h0, h⟩; unfold trimPass; rw [h0]; exact foldl_trim_fixed' alts r h

theorem trimPass_lt_of_ne (country : Str) (alts : List Str) (s : Str) (h : trimPass country alts s ≠ s) :
    (trimPass country alts s).length < s.length := by
  by_contra hn
  exact h ((trimPass_fixed_iff country alts s).mpr (trimPass_steps_of_length country alts s (by omega)))

/-- the fuel `length + 1` always reaches the `break`: the result of the loop is left alone by a further pass -/
theorem trimLoop_stable (country : Str) (alts : List Str) (fuel : Nat) (s : Str) (h : s.length < fuel) :
    trimPass country alts (trimLoop country alts fuel s) = trimLoop country alts fuel s := by
  induction fuel generalizing s with
  | zero => omega
  | succ f ih =>
    simp only [trimLoop]
    split
    · rename_i he; simpa using he
    · rename_i he
      have hne : trimPass country alts s ≠ s := by simpa using he
      exact ih _ (by have := trimPass_lt_of_ne country alts s hne; omega)

theorem trimLoop_of_fixed (country : Str) (alts : List Str) (fuel : Nat) (r : Str)
    (h : trimPass country alts r = r) : trimLoop country alts fuel r = r := by
  cases fuel with
  | zero => rfl
  | succ f => simp [trimLoop, h]

theorem trimPass_clean (country : Str) (alts : List Str) (s : Str) (h : s.all isAZ09 = true) :
    (trimPass country alts s).all isAZ09 = true :=
  foldl_trim_clean _ _ (trimPrefix_clean _ _ h)

theorem trimLoop_clean (country : Str) (alts : List Str) (fuel : Nat) (s : Str) (h : s.all isAZ09 = true) :
    (trimLoop country alts fuel s).all isAZ09 = true := by
  induction fuel generalizing s with
  | zero => exact h
  | succ f ih =>
    simp only [trimLoop]
    split
    · exact h
    · exact ih _ (trimPass_clean country alts s h)

theorem normalizeIdentity_clean (country : Str) (alts : List Str) (code : Str) :
    (normalizeIdentity country alts code).all isAZ09 = true :=
  trimLoop_clean _ _ _ _ (stripBad_clean _)

/-- the result of `NormalizeIdentity` is left alone by a further pass of its loop -/
theorem normalizeIdentity_stable (country : Str) (alts : List Str) (code : Str) :
    trimPass country alts (normalizeIdentity country alts code) = normalizeIdentity country alts code :=
  trimLoop_stable country alts _ _ (Nat.lt_succ_self _)

theorem trimPrefix_of_not_prefix (p s : Str) (h : p.isPrefixOf s = false) : trimPrefix p s = s := by
  simp [trimPrefix, h]

theorem foldl_trim_fixed (alts : List Str) (r : Str) (h : ∀ a ∈ alts, a.isPrefixOf r = false) :
    alts.foldl (fun c a => trimPrefix a c) r = r := by
  induction alts with
  | nil => rfl
  | cons a as ih =>
    simp only [List.foldl_cons, trimPrefix_of_not_prefix a r (h a (by simp))]
    exact ih (fun b hb => h b (by simp [hb]))

theorem filter_isDig_upper (s : Str) : (upper s).filter isDig = s.filter isDig := by
  induction s with
  | nil => rfl
  | cons c cs ih =>
    simp only [upper, List.map_cons, List.filter_cons, isDig_toUpper] at ih ⊢
    cases h : isDig c with
    | false => simpa using ih
    | true =>
      have : c.toUpper = c := toUpper_of_isAZ09 c (by simp [isAZ09, h])
      simp [this, ih]

theorem filter_isDig_stripBad (s : Str) : (stripBad s).filter isDig = s.filter isDig := by
  simp only [stripBad, List.filter_filter]
  congr 1
  funext c
  cases h : isDig c <;> simp [isAZ09, h]

theorem filter_isDig_trimPrefix (p s : Str) (hp : p.filter isDig = []) :
    (trimPrefix p s).filter isDig = s.filter isDig := by
  unfold trimPrefix
  split
  · rename_i h
    obtain ⟨t, rfl⟩ := List.isPrefixOf_iff_prefix.mp h
    simp [hp]
  · rfl

theorem filter_isDig_foldl_trim (alts : List Str) (s : Str) (h : ∀ a ∈ alts, a.filter isDig = []) :
    (alts.foldl (fun c a => trimPrefix a c) s).filter isDig = s.filter isDig := by
  induction alts generalizing s with
  | nil => rfl
  | cons a as ih =>
    simp only [List.foldl_cons]
    rw [ih _ (fun b hb => h b (by simp [hb])), filter_isDig_trimPrefix a s (h a (by simp))]

theorem filter_isDig_trimPass (country : Str) (alts : List Str) (s : Str)
    (hc : country.filter isDig = []) (ha : ∀ a ∈ alts, a.filter isDig = []) :
    (trimPass country alts s).filter isDig = s.filter isDig := by
  unfold trimPass
  rw [filter_isDig_foldl_trim alts _ ha, filter_isDig_trimPrefix country s hc]

theorem filter_isDig_trimLoop (country : Str) (alts : List Str) (fuel : Nat) (s : Str)
    (hc : country.filter isDig = []) (ha : ∀ a ∈ alts, a.filter isDig = []) :
    (trimLoop country alts fuel s).filter isDig = s.filter isDig := by
  induction fuel generalizing s with
  | zero => rfl
  | succ f ih =>
    simp only [trimLoop]
    split
    · rfl
    · rw [ih, filter_isDig_trimPass country alts s hc ha]

theorem filter_isDig_normalizeIdentity (country : Str) (alts : List Str) (code : Str)
    (hc : country.filter isDig = []) (ha : ∀ a ∈ alts, a.filter isDig = []) :
    (normalizeIdentity country alts code).filter isDig = code.filter isDig := by
  unfold normalizeIdentity
  rw [filter_isDig_trimLoop _ _ _ _ hc ha, filter_isDig_stripBad, filter_isDig_upper]

/-! ### two-letter codes: the loop removes exactly the leading run of codes -/

/-! two-letter codes: the loop = removal of the leading run of codes -/

theorem isPrefixOf_two (a b : Char) (s : Str) :
    [a, b].isPrefixOf s = true ↔ ∃ rest, s = a :: b :: rest := by
  constructor
  · intro h
    obtain ⟨t, rfl⟩ := List.isPrefixOf_iff_prefix.mp h
    exact ⟨t, rfl⟩
  · rintro ⟨rest, rfl⟩; simp

theorem stripCodes_trimPrefix (codes : List Str) (p : Str) (hp : p ∈ codes) (hl : p.length = 2) (s : Str) :
    stripCodes codes (trimPrefix p s) = stripCodes codes s := by
  match p, hl with
  | [a, b], _ =>
    unfold trimPrefix
    split
    · rename_i h
      obtain ⟨rest, rfl⟩ := (isPrefixOf_two a b s).mp h
      simp [stripCodes, hp]
    · rfl

theorem stripCodes_foldl (codes alts : List Str) (ha : ∀ a ∈ alts, a ∈ codes ∧ a.length = 2) (s : Str) :
    stripCodes codes (alts.foldl (fun c a => trimPrefix a c) s) = stripCodes codes s := by
  induction alts generalizing s with
  | nil => rfl
  | cons a as ih =>
    simp only [List.foldl_cons]
    rw [ih (fun b hb => ha b (by simp [hb])), stripCodes_trimPrefix codes a (ha a (by simp)).1 (ha a (by simp)).2]

theorem stripCodes_trimPass (country : Str) (alts : List Str) (h : ∀ p ∈ country :: alts, p.length = 2) (s : Str) :
    stripCodes (country :: alts) (trimPass country alts s) = stripCodes (country :: alts) s := by
  unfold trimPass
  rw [stripCodes_foldl _ alts (fun a ha => ⟨by simp [ha], h a (by simp [ha])⟩),
    stripCodes_trimPrefix _ country (by simp) (h country (by simp))]

theorem stripCodes_trimLoop (country : Str) (alts : List Str) (h : ∀ p ∈ country :: alts, p.length = 2) (fuel : Nat) (s : Str) :
    stripCodes (country :: alts) (trimLoop country alts fuel s) = stripCodes (country :: alts) s := by
  induction fuel generalizing s with
  | zero => rfl
  | succ f ih =>
    simp only [trimLoop]
    split
    · rfl
    · rw [ih, stripCodes_trimPass country alts h]

theorem stripCodes_of_fixed (codes : List Str) (r : Str) (h : ∀ p ∈ codes, trimPrefix p r = r) :
    stripCodes codes r = r := by
  match r with
  | [] => rfl
  | [_] => rfl
  | a :: b :: rest =>
    simp only [stripCodes]
    split
    · rename_i hc
      have hm : [a, b] ∈ codes := by simpa using hc
      have := h _ hm
      simp [trimPrefix] at this
      have := congrArg List.length this
      simp at this
      omega
    · rfl

theorem normalizeIdentity_eq_stripCodes (country : Str) (alts : List Str) (code : Str)
    (h : ∀ p ∈ country :: alts, p.length = 2) :
    normalizeIdentity country alts code = stripCodes (country :: alts) (stripBad (upper code)) := by
  have hs := normalizeIdentity_stable country alts code
  rw [trimPass_fixed_iff] at hs
  have hfix := stripCodes_of_fixed (country :: alts) (normalizeIdentity country alts code) (by
    intro p hp
    simp only [List.mem_cons] at hp
    rcases hp with rfl | hp
    · exact hs.1
    · exact hs.2 p hp)
  rw [← hfix]
  exact stripCodes_trimLoop country alts h _ _

/-! ### the CH suffix pattern `(MWST|TVA|IVA)+$` -/

/-! CH suffixes -/

theorem chSuffixStar_append (a b : Str) (ha : chSuffixStar a = true) (hb : chSuffixStar b = true) :
    chSuffixStar (a ++ b) = true := by
  fun_induction chSuffixStar a with
  | case1 => simpa using hb
  | case2 r ih => simpa [chSuffixStar] using ih ha
  | case3 r ih => simpa [chSuffixStar] using ih ha
  | case4 r ih => simpa [chSuffixStar] using ih ha
  | case5 => simp at ha

/-- a run of suffixes is a concatenation of suffixes from the list -/
theorem chSuffixStar_parts (t : Str) (h : chSuffixStar t = true) :
    ∃ parts : List Str, (∀ x ∈ parts, x ∈ chSuffixes) ∧ t = parts.flatten := by
  fun_induction chSuffixStar t with
  | case1 => exact ⟨[], by simp, rfl⟩
  | case2 r ih => obtain ⟨ps, h1, h2⟩ := ih h; exact ⟨['M','W','S','T'] :: ps, by simpa [chSuffixes] using h1, by simp [h2]⟩
  | case3 r ih => obtain ⟨ps, h1, h2⟩ := ih h; exact ⟨['T','V','A'] :: ps, by simpa [chSuffixes] using h1, by simp [h2]⟩
  | case4 r ih => obtain ⟨ps, h1, h2⟩ := ih h; exact ⟨['I','V','A'] :: ps, by simpa [chSuffixes] using h1, by simp [h2]⟩
  | case5 => simp at h

/-- what is removed is a run of suffixes -/
theorem chStripSuffix_split (s : Str) : ∃ t, s = chStripSuffix s ++ t ∧ chSuffixStar t = true := by
  induction s with
  | nil => exact ⟨[], rfl, rfl⟩
  | cons c cs ih =>
    simp only [chStripSuffix]
    split
    · rename_i h
      simp only [chSuffixPlus, Bool.and_eq_true] at h
      exact ⟨c :: cs, rfl, h.2⟩
    · obtain ⟨t, h1, h2⟩ := ih
      exact ⟨t, by simp [← h1], h2⟩

theorem chStripSuffix_prefix (s : Str) : chStripSuffix s <+: s := by
  obtain ⟨t, h, _⟩ := chStripSuffix_split s
  exact ⟨t, h.symm⟩

theorem chSuffixPlus_append (a b : Str) (ha : chSuffixPlus a = true) (hb : chSuffixStar b = true) :
    chSuffixPlus (a ++ b) = true := by
  simp only [chSuffixPlus, Bool.and_eq_true] at ha ⊢
  refine ⟨?_, chSuffixStar_append a b ha.2 hb⟩
  cases a with
  | nil => simp at ha
  | cons x xs => simp

theorem chStripSuffix_idem (s : Str) : chStripSuffix (chStripSuffix s) = chStripSuffix s := by
  induction s with
  | nil => rfl
  | cons c cs ih =>
    simp only [chStripSuffix]
    split
    · rfl
    · rename_i hn
      simp only [chStripSuffix]
      split
      · rename_i hp
        exfalso
        obtain ⟨t, h1, h2⟩ := chStripSuffix_split cs
        have := chSuffixPlus_append _ t hp h2
        simp only [List.cons_append, ← h1] at this
        exact hn this
      · rw [ih]

/-- cutting in front of a non-empty run of suffixes removes at least that run -/
theorem chStripSuffix_length_append (u t : Str) (ht : chSuffixPlus t = true) :
    (chStripSuffix (u ++ t)).length ≤ u.length := by
  induction u with
  | nil =>
    cases t with
    | nil => simp [chSuffixPlus] at ht
    | cons c cs => simp [chStripSuffix, ht]
  | cons c us ih =>
    simp only [List.cons_append, chStripSuffix]
    split
    · simp
    · simp only [List.length_cons]; omega

theorem endsWith_split (suf s : Str) (h : endsWith suf s = true) : ∃ t, s = t ++ suf := by
  unfold endsWith at h
  obtain ⟨u, hu⟩ := List.isPrefixOf_iff_prefix.mp h
  refine ⟨u.reverse, ?_⟩
  have := congrArg List.reverse hu
  simpa using this.symm

/-- the result ends with none of the suffixes -/
theorem chStripSuffix_no_suffix (s x : Str) (hx : x ∈ chSuffixes) : endsWith x (chStripSuffix s) = false := by
  cases h : endsWith x (chStripSuffix s) with
  | false => rfl
  | true =>
    exfalso
    obtain ⟨u, hu⟩ := endsWith_split _ _ h
    have hp : chSuffixPlus x = true := by
      simp only [chSuffixes, List.mem_cons, List.not_mem_nil, or_false] at hx
      rcases hx with rfl | rfl | rfl <;> decide
    have h1 := chStripSuffix_length_append u x hp
    rw [← hu, chStripSuffix_idem, hu] at h1
    have : 0 < x.length := by
      simp only [chSuffixes, List.mem_cons, List.not_mem_nil, or_false] at hx
      rcases hx with rfl | rfl | rfl <;> simp
    simp only [List.length_append] at h1
    omega

theorem chStripSuffix_clean (s : Str) (h : s.all isAZ09 = true) : (chStripSuffix s).all isAZ09 = true := by
  rw [List.all_eq_true] at h ⊢
  intro x hx
  exact h x ((chStripSuffix_prefix s).subset hx)

theorem chSuffixStar_no_digits (t : Str) (h : chSuffixStar t = true) : t.filter isDig = [] := by
  fun_induction chSuffixStar t with
  | case1 => rfl
  | case2 r ih => simpa [isDig] using ih h
  | case3 r ih => simpa [isDig] using ih h
  | case4 r ih => simpa [isDig] using ih h
  | case5 => simp at h

theorem filter_isDig_chStripSuffix (s : Str) : (chStripSuffix s).filter isDig = s.filter isDig := by
  obtain ⟨t, h1, h2⟩ := chStripSuffix_split s
  conv => rhs; rw [h1]
  simp [chSuffixStar_no_digits t h2]

theorem mxUpper_isDig (c : Char) : isDig (mxUpper c) = isDig c := by
  unfold mxUpper
  split
  · rename_i h; simp at h; subst h; decide
  · exact isDig_toUpper c

theorem mxUpper_of_isDig (c : Char) (h : isDig c = true) : mxUpper c = c := by
  unfold mxUpper
  split
  · rename_i h'; simp at h'; subst h'; simp [isDig] at h
  · exact toUpper_of_isAZ09 c (by simp [isAZ09, h])

theorem filter_isDig_map_mxUpper (s : Str) : (s.map mxUpper).filter isDig = s.filter isDig := by
  induction s with
  | nil => rfl
  | cons c cs ih =>
    simp only [List.map_cons, List.filter_cons, mxUpper_isDig]
    cases h : isDig c with
    | true => simp [mxUpper_of_isDig c h, ih]
    | false => simpa using ih

theorem filter_isDig_mxNormalize (s : Str) : (mxNormalize s).filter isDig = s.filter isDig := by
  rw [← filter_isDig_map_mxUpper s]
  simp only [mxNormalize, List.filter_filter]
  congr 1
  funext a
  cases h : isDig a <;> simp [h]

theorem mxNormalize_idem (s : Str) : mxNormalize (mxNormalize s) = mxNormalize s := by
  have key : ∀ r : Str, r.all (fun c => isUp c || c == 'Ñ' || c == '&' || isDig c) = true → mxNormalize r = r := by
    intro r hr
    induction r with
    | nil => rfl
    | cons c cs ih =>
      simp only [List.all_cons, Bool.and_eq_true] at hr
      have hc : mxUpper c = c := by
        unfold mxUpper
        split
        · rename_i h'; simp at h'; subst h'; simp [isUp, isDig] at hr
        · have h1 := hr.1
          simp only [Bool.or_eq_true, beq_iff_eq] at h1
          rcases h1 with ((h1 | h1) | h1) | h1
          · exact toUpper_of_isAZ09 c (by simp [isAZ09, h1])
          · subst h1; decide
          · subst h1; decide
          · exact toUpper_of_isAZ09 c (by simp [isAZ09, h1])
      have := ih hr.2
      simp only [mxNormalize, List.map_cons, List.filter_cons, hc, hr.1, if_true] at this ⊢
      rw [this]
  apply key
  rw [List.all_eq_true]
  intro x hx
  simp only [mxNormalize, List.mem_filter] at hx
  exact hx.2

theorem take_clean (s : Str) (n : Nat) (h : s.all isAZ09 = true) : (s.take n).all isAZ09 = true := by
  rw [List.all_eq_true] at h ⊢
  intro x hx; exact h x (List.mem_of_mem_take hx)

/-- a clean code that a pass of the loop leaves alone is a fixed point of `NormalizeIdentity` -/
theorem normalizeIdentity_fixed (country : Str) (alts : List Str) (r : Str) (hc : r.all isAZ09 = true)
    (h : trimPass country alts r = r) : normalizeIdentity country alts r = r := by
  unfold normalizeIdentity
  rw [clean_fixed r hc]
  exact trimLoop_of_fixed country alts _ r h

theorem digitChar_clean (k : Nat) (h : k ≤ 9) : isAZ09 (digitChar k) = true := by
  simp [isAZ09, isDig, digitChar_toNat k h]; omega

theorem vatCheck_clean (s : Str) : (FR.calculateVATCheckDigit s).all isAZ09 = true ∧ (FR.calculateVATCheckDigit s).length = 2 := by
  refine ⟨?_, rfl⟩
  simp only [FR.calculateVATCheckDigit, List.all_cons, List.all_nil, Bool.and_true]
  rw [digitChar_clean _ (by omega), digitChar_clean _ (by omega)]; rfl

theorem frExtend_clean (s : Str) (h : s.all isAZ09 = true) : (frExtend s).all isAZ09 = true := by
  unfold frExtend
  repeat' split
  · simp [List.all_append, (vatCheck_clean s).1, h]
  · exact h
  · exact h

theorem keepsDigits_of_eq (a b : Str) (h : b.filter isDig = a.filter isDig) :
    Spec.TaxId.keepsDigits a b = true ∧ Spec.TaxId.keepsDigitsSuffix a b = true := by
  simp [Spec.TaxId.keepsDigits, Spec.TaxId.keepsDigitsSuffix, Spec.TaxId.digitsOf, h]

end GoblVerif.TaxId
