/-
  Helper lemmas about the normaliser model (Model/Normalize.lean) for Props/C13.lean.
-/
import GoblVerif.Proofs.TaxId

namespace GoblVerif.TaxId
open GoblVerif.TaxId.Norm

theorem toUpper_toNat (c : Char) :
    c.toUpper.toNat = if 97 ≤ c.toNat ∧ c.toNat ≤ 122 then c.toNat - 32 else c.toNat := by
  unfold Char.toUpper
  have hv : c.toNat = c.val.toNat := rfl
  split
  · rename_i h
    have h1 : 97 ≤ c.val.toNat ∧ c.val.toNat ≤ 122 := by
      obtain ⟨a, b⟩ := h
      exact ⟨UInt32.le_iff_toNat_le.mp a, UInt32.le_iff_toNat_le.mp b⟩
    rw [hv, if_pos h1]
    show (c.val + ('A'.val - 'a'.val)).toNat = _
    rw [UInt32.toNat_add]
    have : ('A'.val - 'a'.val).toNat = 4294967264 := by decide
    rw [this]
    omega
  · rename_i h
    have h1 : ¬ (97 ≤ c.val.toNat ∧ c.val.toNat ≤ 122) := by
      intro ⟨a, b⟩
      exact h ⟨UInt32.le_iff_toNat_le.mpr a, UInt32.le_iff_toNat_le.mpr b⟩
    rw [hv, if_neg h1]

theorem toLower_toNat (c : Char) :
    c.toLower.toNat = if 65 ≤ c.toNat ∧ c.toNat ≤ 90 then c.toNat + 32 else c.toNat := by
  unfold Char.toLower
  have hv : c.toNat = c.val.toNat := rfl
  split
  · rename_i h
    have h1 : 65 ≤ c.val.toNat ∧ c.val.toNat ≤ 90 := by
      obtain ⟨a, b⟩ := h
      exact ⟨UInt32.le_iff_toNat_le.mp a, UInt32.le_iff_toNat_le.mp b⟩
    rw [hv, if_pos h1]
    show (c.val + ('a'.val - 'A'.val)).toNat = _
    rw [UInt32.toNat_add]
    have : ('a'.val - 'A'.val).toNat = 32 := by decide
    rw [this]
    omega
  · rename_i h
    have h1 : ¬ (65 ≤ c.val.toNat ∧ c.val.toNat ≤ 90) := by
      intro ⟨a, b⟩
      exact h ⟨UInt32.le_iff_toNat_le.mpr a, UInt32.le_iff_toNat_le.mpr b⟩
    rw [hv, if_neg h1]

theorem toUpper_of_isAZ09 (c : Char) (h : isAZ09 c = true) : c.toUpper = c := by
  rw [char_eq_iff_toNat, toUpper_toNat]
  simp [isAZ09, isDig, isUp] at h
  split <;> omega

theorem isDig_toUpper (c : Char) : isDig c.toUpper = isDig c := by
  rw [Bool.eq_iff_iff]
  simp only [isDig, toUpper_toNat, decide_eq_true_eq]
  split <;> omega

theorem toUpper_toLower (c : Char) : c.toLower.toUpper = c.toUpper := by
  rw [char_eq_iff_toNat, toUpper_toNat, toUpper_toNat, toLower_toNat]
  repeat' split
  all_goals omega

theorem toUpper_toUpper (c : Char) : c.toUpper.toUpper = c.toUpper := by
  rw [char_eq_iff_toNat, toUpper_toNat, toUpper_toNat]
  repeat' split
  all_goals omega

/-- a clean text (upper-case letters and digits only) is left alone by the cleaning steps -/
theorem clean_fixed (r : Str) (h : r.all isAZ09 = true) : stripBad (upper r) = r := by
  induction r with
  | nil => rfl
  | cons c cs ih =>
    simp only [List.all_cons, Bool.and_eq_true] at h
    simp only [upper, stripBad, List.map_cons, toUpper_of_isAZ09 c h.1, List.filter_cons, h.1, if_true]
    congr 1
    exact ih h.2

theorem stripBad_clean (s : Str) : (stripBad s).all isAZ09 = true := by
  simp [stripBad]

theorem trimPrefix_clean (p s : Str) (h : s.all isAZ09 = true) : (trimPrefix p s).all isAZ09 = true := by
  unfold trimPrefix
  split
  · rw [List.all_eq_true] at h ⊢
    intro x hx; exact h x (List.mem_of_mem_drop hx)
  · exact h

theorem foldl_trim_clean (alts : List Str) (s : Str) (h : s.all isAZ09 = true) :
    (alts.foldl (fun c a => trimPrefix a c) s).all isAZ09 = true := by
  induction alts generalizing s with
  | nil => exact h
  | cons a as ih => exact ih _ (trimPrefix_clean a s h)

theorem normalizeIdentity_clean (country : Str) (alts : List Str) (code : Str) :
    (normalizeIdentity country alts code).all isAZ09 = true :=
  foldl_trim_clean _ _ (trimPrefix_clean _ _ (stripBad_clean _))

theorem trimPrefix_of_not_prefix (p s : Str) (h : p.isPrefixOf s = false) : trimPrefix p s = s := by
  simp [trimPrefix, h]

theorem foldl_trim_fixed (alts : List Str) (r : Str) (h : ∀ a ∈ alts, a.isPrefixOf r = false) :
    alts.foldl (fun c a => trimPrefix a c) r = r := by
  induction alts with
  | nil => rfl
  | cons a as ih =>
    simp only [List.foldl_cons, trimPrefix_of_not_prefix a r (h a (by simp))]
    exact ih (fun b hb => h b (by simp [hb]))

theorem filter_isDig_upper (s : Str) : (upper s).filter isDig = s.filter isDig := by
  induction s with
  | nil => rfl
  | cons c cs ih =>
    simp only [upper, List.map_cons, List.filter_cons, isDig_toUpper] at ih ⊢
    cases h : isDig c with
    | false => simpa using ih
    | true =>
      have : c.toUpper = c := toUpper_of_isAZ09 c (by simp [isAZ09, h])
      simp [this, ih]

theorem filter_isDig_stripBad (s : Str) : (stripBad s).filter isDig = s.filter isDig := by
  simp only [stripBad, List.filter_filter]
  congr 1
  funext c
  cases h : isDig c <;> simp [isAZ09, h]

theorem filter_isDig_trimPrefix (p s : Str) (hp : p.filter isDig = []) :
    (trimPrefix p s).filter isDig = s.filter isDig := by
  unfold trimPrefix
  split
  · rename_i h
    obtain ⟨t, rfl⟩ := List.isPrefixOf_iff_prefix.mp h
    simp [hp]
  · rfl

theorem filter_isDig_foldl_trim (alts : List Str) (s : Str) (h : ∀ a ∈ alts, a.filter isDig = []) :
    (alts.foldl (fun c a => trimPrefix a c) s).filter isDig = s.filter isDig := by
  induction alts generalizing s with
  | nil => rfl
  | cons a as ih =>
    simp only [List.foldl_cons]
    rw [ih _ (fun b hb => h b (by simp [hb])), filter_isDig_trimPrefix a s (h a (by simp))]

theorem hasSuffix_split (suf s : Str) (h : hasSuffix suf s = true) : ∃ t, s = t ++ suf := by
  unfold hasSuffix at h
  obtain ⟨u, hu⟩ := List.isPrefixOf_iff_prefix.mp h
  refine ⟨u.reverse, ?_⟩
  have := congrArg List.reverse hu
  simpa using this.symm

theorem take_append_len (t suf : Str) : (t ++ suf).take ((t ++ suf).length - suf.length) = t := by
  simp

theorem filter_isDig_chStripSuffix (s : Str) : (chStripSuffix s).filter isDig = s.filter isDig := by
  unfold chStripSuffix
  split
  · rename_i h; obtain ⟨t, rfl⟩ := hasSuffix_split _ _ h
    have := take_append_len t ['M','W','S','T']
    simp only [List.length_cons, List.length_nil] at this
    rw [this]; simp [isDig]
  · split
    · rename_i h; obtain ⟨t, rfl⟩ := hasSuffix_split _ _ h
      have := take_append_len t ['T','V','A']
      simp only [List.length_cons, List.length_nil] at this
      rw [this]; simp [isDig]
    · split
      · rename_i h; obtain ⟨t, rfl⟩ := hasSuffix_split _ _ h
        have := take_append_len t ['I','V','A']
        simp only [List.length_cons, List.length_nil] at this
        rw [this]; simp [isDig]
      · rfl

theorem mxUpper_isDig (c : Char) : isDig (mxUpper c) = isDig c := by
  unfold mxUpper
  split
  · rename_i h; simp at h; subst h; decide
  · exact isDig_toUpper c

theorem mxUpper_of_isDig (c : Char) (h : isDig c = true) : mxUpper c = c := by
  unfold mxUpper
  split
  · rename_i h'; simp at h'; subst h'; simp [isDig] at h
  · exact toUpper_of_isAZ09 c (by simp [isAZ09, h])

theorem filter_isDig_map_mxUpper (s : Str) : (s.map mxUpper).filter isDig = s.filter isDig := by
  induction s with
  | nil => rfl
  | cons c cs ih =>
    simp only [List.map_cons, List.filter_cons, mxUpper_isDig]
    cases h : isDig c with
    | true => simp [mxUpper_of_isDig c h, ih]
    | false => simpa using ih

theorem filter_isDig_mxNormalize (s : Str) : (mxNormalize s).filter isDig = s.filter isDig := by
  rw [← filter_isDig_map_mxUpper s]
  simp only [mxNormalize, List.filter_filter]
  congr 1
  funext a
  cases h : isDig a <;> simp [h]

theorem mxNormalize_idem (s : Str) : mxNormalize (mxNormalize s) = mxNormalize s := by
  have key : ∀ r : Str, r.all (fun c => isUp c || c == 'Ñ' || c == '&' || isDig c) = true → mxNormalize r = r := by
    intro r hr
    induction r with
    | nil => rfl
    | cons c cs ih =>
      simp only [List.all_cons, Bool.and_eq_true] at hr
      have hc : mxUpper c = c := by
        unfold mxUpper
        split
        · rename_i h'; simp at h'; subst h'; simp [isUp, isDig] at hr
        · have h1 := hr.1
          simp only [Bool.or_eq_true, beq_iff_eq] at h1
          rcases h1 with ((h1 | h1) | h1) | h1
          · exact toUpper_of_isAZ09 c (by simp [isAZ09, h1])
          · subst h1; decide
          · subst h1; decide
          · exact toUpper_of_isAZ09 c (by simp [isAZ09, h1])
      have := ih hr.2
      simp only [mxNormalize, List.map_cons, List.filter_cons, hc, hr.1, if_true] at this ⊢
      rw [this]
  apply key
  rw [List.all_eq_true]
  intro x hx
  simp only [mxNormalize, List.mem_filter] at hx
  exact hx.2

theorem take_clean (s : Str) (n : Nat) (h : s.all isAZ09 = true) : (s.take n).all isAZ09 = true := by
  rw [List.all_eq_true] at h ⊢
  intro x hx; exact h x (List.mem_of_mem_take hx)

theorem chStripSuffix_clean (s : Str) (h : s.all isAZ09 = true) : (chStripSuffix s).all isAZ09 = true := by
  unfold chStripSuffix
  repeat' split
  all_goals first | exact take_clean _ _ h | exact h

theorem normalizeIdentity_fixed (country : Str) (r : Str) (hc : r.all isAZ09 = true)
    (h0 : country.isPrefixOf r = false) : normalizeIdentity country [] r = r := by
  unfold normalizeIdentity
  rw [clean_fixed r hc, trimPrefix_of_not_prefix country r h0]; rfl

theorem digitChar_clean (k : Nat) (h : k ≤ 9) : isAZ09 (digitChar k) = true := by
  simp [isAZ09, isDig, digitChar_toNat k h]; omega

theorem vatCheck_clean (s : Str) : (FR.calculateVATCheckDigit s).all isAZ09 = true ∧ (FR.calculateVATCheckDigit s).length = 2 := by
  refine ⟨?_, rfl⟩
  simp only [FR.calculateVATCheckDigit, List.all_cons, List.all_nil, Bool.and_true]
  rw [digitChar_clean _ (by omega), digitChar_clean _ (by omega)]; rfl

theorem frExtend_clean (s : Str) (h : s.all isAZ09 = true) : (frExtend s).all isAZ09 = true := by
  unfold frExtend
  repeat' split
  · simp [List.all_append, (vatCheck_clean s).1, h]
  · exact h
  · exact h

theorem keepsDigits_of_eq (a b : Str) (h : b.filter isDig = a.filter isDig) :
    Spec.TaxId.keepsDigits a b = true ∧ Spec.TaxId.keepsDigitsSuffix a b = true := by
  simp [Spec.TaxId.keepsDigits, Spec.TaxId.keepsDigitsSuffix, Spec.TaxId.digitsOf, h]

end GoblVerif.TaxId
