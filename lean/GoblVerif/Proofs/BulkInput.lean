/-
  Helper lemmas for C15, input and context layer (Model/BulkInput.lean):
  the decode loop as a function, the bounds of the owed sequence numbers, and
  the two simulations of the context-threaded system by the plain dispatcher
  (without a cancellation: the same run; with cancellations: the same run up
  to payloads).
-/
import GoblVerif.Proofs.Bulk
import GoblVerif.Model.BulkInput

namespace GoblVerif.Bulk
open List

variable {α β : Type}

/-! ## the decode loop -/

theorem parse_ok_prefix (pre : List (Req α)) (rest : List (Item α)) (e : Ending) :
    parse (pre.map Item.ok ++ rest) e = (pre ++ (parse rest e).1, (parse rest e).2) := by
  induction pre with
  | nil => simp
  | cons r rs ih => simp [parse, ih]

theorem parse_complete (pre : List (Req α)) (e : Ending) :
    parse (pre.map Item.ok) e = (pre, e.tail) := by
  have := parse_ok_prefix pre ([] : List (Item α)) e
  simpa [parse] using this

theorem parse_unreadable (pre : List (Req α)) (id : String) (rest : List (Item α)) (e : Ending) :
    parse (pre.map Item.ok ++ Item.broken id :: rest) e = (pre, Tail.bad id) := by
  rw [parse_ok_prefix]
  simp [parse]

/-! ## owed sequence numbers -/

theorem expectedFrom_seq_bounds (c : Cfg α β) : ∀ (rs : List (Req α)) (k : Nat) (r : Resp β),
    r ∈ expectedFrom c k rs → k ≤ r.seq ∧ r.seq < k + rs.length := by
  intro rs
  induction rs with
  | nil => intro k r hr; simp [expectedFrom, workersFrom] at hr
  | cons q qs ih =>
    intro k r hr
    simp only [expectedFrom, workersFrom, map_cons, mem_cons] at hr
    rcases hr with rfl | hr
    · simp [respOf]
    · have := ih (k + 1) r (by simpa [expectedFrom] using hr)
      simp only [length_cons]
      omega

theorem expected_seq_bounds (c : Cfg α β) (r : Resp β) (hr : r ∈ expected c) :
    1 ≤ r.seq ∧ r.seq ≤ c.reqs.length := by
  have := expectedFrom_seq_bounds c c.reqs 1 r hr
  omega

/-! ## the context-threaded system without a cancellation is the plain system -/

theorem cexec_of_no_cancel (c : CCfg α β) : ∀ (ls : List CLabel) (s s' : CState α β),
    (∀ l ∈ ls, l ≠ CLabel.cancel) → cexec c s ls = some s' →
    s'.cancelled = s.cancelled ∧ ∃ sched, exec (c.at s.cancelled) s.base sched = some s'.base := by
  intro ls
  induction ls with
  | nil =>
    intro s s' _ h
    simp only [cexec, Option.some.injEq] at h
    subst h
    exact ⟨rfl, [], rfl⟩
  | cons l ls ih =>
    intro s s' hn h
    cases l with
    | cancel => exact absurd rfl (hn _ (by simp))
    | sys l =>
      simp only [cexec, cstep] at h
      cases hs : step (c.at s.cancelled) s.base l with
      | none => simp [hs] at h
      | some b =>
        simp only [hs] at h
        obtain ⟨hc, sched, hex⟩ := ih { s with base := b } s' (fun x hx => hn x (by simp [hx])) h
        refine ⟨hc, l :: sched, ?_⟩
        simp only [exec, hs]
        exact hex

/-! ## with cancellations it is the plain system up to payloads -/

theorem shape_respOf (c : CCfg α β) (b : Bool) (w : Worker α) :
    (respOf (c.at b) w).shape = respOf c.shape w := rfl

theorem shape_finalOf (c : CCfg α β) (b : Bool) (n : Nat) :
    (finalOf (c.at b) n).shape = finalOf c.shape n := rfl

theorem step_shape (c : CCfg α β) (b : Bool) (s s' : State α β) (l : Label)
    (h : step (c.at b) s l = some s') : step c.shape s.shape l = some s'.shape := by
  cases l with
  | read =>
    simp only [step] at h ⊢
    split at h
    · rename_i r rest hph hpd
      simp only [Option.some.injEq] at h
      subst h
      simp [State.shape, hph, hpd]
    · simp at h
  | stop =>
    simp only [step] at h ⊢
    split at h
    · rename_i hph hpd
      simp only [Option.some.injEq] at h
      subst h
      simp [State.shape, hph, hpd]
    · simp at h
  | send k =>
    simp only [step] at h ⊢
    split at h
    · rename_i w hw
      split at h
      · rename_i hlt
        simp only [Option.some.injEq] at h
        subst h
        have hlt' : s.buf.length < c.shape.cap := hlt
        simp [State.shape, hw, hlt', shape_respOf]
      · simp at h
    · simp at h
  | done =>
    simp only [step] at h ⊢
    split at h
    · rename_i n hn
      simp only [Option.some.injEq] at h
      subst h
      simp [State.shape, hn]
    · simp at h
  | final =>
    simp only [step] at h ⊢
    split at h
    · rename_i hph hrun hsent
      split at h
      · rename_i hlt
        simp only [Option.some.injEq] at h
        subst h
        have hlt' : s.buf.length < c.shape.cap := hlt
        simp [State.shape, hph, hrun, hsent, hlt', shape_finalOf]
      · simp at h
    · simp at h
  | recv =>
    simp only [step] at h ⊢
    split at h
    · rename_i r rest hb
      simp only [Option.some.injEq] at h
      subst h
      simp [State.shape, hb]
    · simp at h

theorem cexec_shape (c : CCfg α β) : ∀ (ls : List CLabel) (s s' : CState α β),
    cexec c s ls = some s' → ∃ sched, exec c.shape s.base.shape sched = some s'.base.shape := by
  intro ls
  induction ls with
  | nil =>
    intro s s' h
    simp only [cexec, Option.some.injEq] at h
    subst h
    exact ⟨[], rfl⟩
  | cons l ls ih =>
    intro s s' h
    cases l with
    | cancel =>
      simp only [cexec, cstep] at h
      exact ih { s with cancelled := true } s' h
    | sys l =>
      simp only [cexec, cstep] at h
      cases hs : step (c.at s.cancelled) s.base l with
      | none => simp [hs] at h
      | some b =>
        simp only [hs] at h
        obtain ⟨sched, hex⟩ := ih { s with base := b } s' h
        refine ⟨l :: sched, ?_⟩
        simp only [exec, step_shape c s.cancelled s.base b l hs]
        exact hex

theorem terminated_shape (s : State α β) : terminated s.shape = terminated s := by
  simp [terminated, State.shape]

/-! ## with cancellations every reply is still the request's own result, seen with or without the cancellation -/

theorem mem_workersFrom : ∀ (rs : List (Req α)) (k i : Nat) (q : Req α),
    rs[i]? = some q → (q, k + i) ∈ workersFrom k rs := by
  intro rs
  induction rs with
  | nil => intro k i q h; simp at h
  | cons r rs ih =>
    intro k i q h
    cases i with
    | zero =>
      simp only [getElem?_cons_zero, Option.some.injEq] at h
      subst h
      simp [workersFrom]
    | succ j =>
      simp only [getElem?_cons_succ] at h
      have := ih (k + 1) j q h
      simp only [workersFrom, mem_cons]
      right
      have e : k + (j + 1) = k + 1 + j := by omega
      rw [e]; exact this

/-- the invariant: unread input is a suffix of the requests, every running
    worker is one of the owed `(request, position)` pairs, and every reply
    sent so far is such a pair's reply computed with the flag off or on -/
structure CInv (c : CCfg α β) (s : CState α β) : Prop where
  pend : s.base.pending = c.reqs.drop s.base.next
  run : ∀ w ∈ s.base.running, w ∈ workersFrom 1 c.reqs
  sent : ∀ r ∈ s.base.stream, r.isFinal = false →
    r ∈ expected (c.at false) ∨ r ∈ expected (c.at true)

theorem cinv_init (c : CCfg α β) : CInv c (cinit c) where
  pend := by simp [cinit, init, CCfg.at]
  run := by simp [cinit, init]
  sent := by simp [cinit, init, State.stream]

theorem respOf_mem_expected (c : CCfg α β) (b : Bool) (w : Worker α) (hw : w ∈ workersFrom 1 c.reqs) :
    respOf (c.at b) w ∈ expected (c.at b) := by
  simp only [expected, expectedFrom, mem_map]
  exact ⟨w, hw, rfl⟩

theorem cinv_step (c : CCfg α β) (s : CState α β) (b' : State α β) (l : Label)
    (inv : CInv c s) (h : step (c.at s.cancelled) s.base l = some b') :
    CInv c { s with base := b' } := by
  obtain ⟨hp, hr, hs⟩ := inv
  cases l with
  | read =>
    simp only [step] at h
    split at h
    · rename_i r rest hph hpd
      simp only [Option.some.injEq] at h
      subst h
      have hdrop : c.reqs.drop s.base.next = r :: rest := by rw [← hp, hpd]
      have hget : c.reqs[s.base.next]? = some r := by
        have := congrArg (fun l => l[0]?) hdrop
        simpa using this
      refine ⟨?_, ?_, ?_⟩
      · show rest = c.reqs.drop (s.base.next + 1)
        have : c.reqs.drop (s.base.next + 1) = (c.reqs.drop s.base.next).drop 1 := by simp
        rw [this, hdrop]; rfl
      · intro w hw
        simp only [mem_append, mem_cons, not_mem_nil, or_false] at hw
        rcases hw with hw | rfl
        · exact hr w hw
        · have := mem_workersFrom c.reqs 1 s.base.next r hget
          simpa [Nat.add_comm] using this
      · exact hs
    · simp at h
  | stop =>
    simp only [step] at h
    split at h
    · simp only [Option.some.injEq] at h
      subst h
      exact ⟨hp, hr, hs⟩
    · simp at h
  | send k =>
    simp only [step] at h
    split at h
    · rename_i w hw
      split at h
      · simp only [Option.some.injEq] at h
        subst h
        have hwm : w ∈ s.base.running := mem_of_getElem? hw
        refine ⟨hp, ?_, ?_⟩
        · intro x hx
          exact hr x (mem_of_mem_eraseIdx hx)
        · intro r hrm hnf
          simp only [State.stream, mem_append, mem_cons, not_mem_nil, or_false] at hrm
          rcases hrm with hrm | hrm | rfl
          · exact hs r (by simp [State.stream, hrm]) hnf
          · exact hs r (by simp [State.stream, hrm]) hnf
          · have := respOf_mem_expected c s.cancelled w (hr w hwm)
            cases hc : s.cancelled with
            | false => left; simpa [hc] using this
            | true => right; simpa [hc] using this
      · simp at h
    · simp at h
  | done =>
    simp only [step] at h
    split at h
    · simp only [Option.some.injEq] at h
      subst h
      exact ⟨hp, hr, hs⟩
    · simp at h
  | final =>
    simp only [step] at h
    split at h
    · split at h
      · simp only [Option.some.injEq] at h
        subst h
        refine ⟨hp, hr, ?_⟩
        intro r hrm hnf
        simp only [State.stream, mem_append, mem_cons, not_mem_nil, or_false] at hrm
        rcases hrm with hrm | hrm | rfl
        · exact hs r (by simp [State.stream, hrm]) hnf
        · exact hs r (by simp [State.stream, hrm]) hnf
        · simp [finalOf] at hnf
      · simp at h
    · simp at h
  | recv =>
    simp only [step] at h
    split at h
    · rename_i r rest hb
      simp only [Option.some.injEq] at h
      subst h
      refine ⟨hp, hr, ?_⟩
      intro x hx hnf
      apply hs x _ hnf
      simp only [State.stream, mem_append, mem_cons, not_mem_nil, or_false] at hx
      simp only [State.stream, hb, mem_append, mem_cons]
      rcases hx with (hx | rfl) | hx
      · exact Or.inl hx
      · exact Or.inr (Or.inl rfl)
      · exact Or.inr (Or.inr hx)
    · simp at h

theorem cinv_exec (c : CCfg α β) : ∀ (ls : List CLabel) (s s' : CState α β),
    CInv c s → cexec c s ls = some s' → CInv c s' := by
  intro ls
  induction ls with
  | nil =>
    intro s s' inv h
    simp only [cexec, Option.some.injEq] at h
    subst h; exact inv
  | cons l ls ih =>
    intro s s' inv h
    cases l with
    | cancel =>
      simp only [cexec, cstep] at h
      exact ih { s with cancelled := true } s' ⟨inv.pend, inv.run, inv.sent⟩ h
    | sys l =>
      simp only [cexec, cstep] at h
      cases hs : step (c.at s.cancelled) s.base l with
      | none => simp [hs] at h
      | some b =>
        simp only [hs] at h
        exact ih { s with base := b } s' (cinv_step c s b l inv hs) h

end GoblVerif.Bulk
