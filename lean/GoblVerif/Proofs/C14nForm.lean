/-
  Helper lemmas for C07: the README forms — plain integers, exponent-form
  floats, which characters can occur in canonical text.
-/
import GoblVerif.Proofs.C14nAtoms

namespace GoblVerif.Proofs.C14n
open GoblVerif GoblVerif.Spec.C07

/-! ## rule 6: integers -/

theorem isIntPlain_pos (n : Nat) : isIntPlain (natDigits n) = true := by
  by_cases h0 : n = 0
  · subst h0; rw [natDigits_zero]; rfl
  · obtain ⟨h, t, e, hd, hz⟩ := natDigits_cons n
    have hz := hz (by omega)
    have hall : ∀ c ∈ t, isDigit c = true := fun c hc => (natDigits_spec n).dig c (by rw [e]; simp [hc])
    rw [e, isIntPlain.eq_def]
    simp only [isDigit, Bool.and_eq_true, decide_eq_true_eq] at hd
    split
    · rfl
    · rename_i heq; simp at heq; omega
    · rename_i heq; simp at heq
      obtain ⟨e1, e2⟩ := heq
      subst e1 e2
      simp only [Bool.and_eq_true, decide_eq_true_eq, List.all_eq_true]
      exact ⟨⟨by omega, by omega⟩, hall⟩
    · rename_i heq; simp at heq

theorem isIntPlain_neg (n : Nat) (hn : 0 < n) : isIntPlain (0x2D :: natDigits n) = true := by
  obtain ⟨h, t, e, hd, hz⟩ := natDigits_cons n
  have hz := hz hn
  have hall : ∀ c ∈ t, isDigit c = true := fun c hc => (natDigits_spec n).dig c (by rw [e]; simp [hc])
  rw [e]
  simp only [isDigit, Bool.and_eq_true, decide_eq_true_eq] at hd
  simp only [isIntPlain, Bool.and_eq_true, decide_eq_true_eq, List.all_eq_true]
  exact ⟨⟨by omega, by omega⟩, hall⟩

theorem isIntPlain_formatInt (i : Int) : isIntPlain (formatInt i) = true := by
  unfold formatInt
  split
  · exact isIntPlain_neg _ (by omega)
  · exact isIntPlain_pos _

/-! ## rule 7: floats -/

theorem splitOn_append (c : Nat) (pre post : Chars) (h : ∀ x ∈ pre, x ≠ c) :
    splitOn c (pre ++ c :: post) = (pre, post) := by
  induction pre with
  | nil => simp [splitOn]
  | cons x xs ih =>
    have hx : x ≠ c := h x (by simp)
    have := ih (fun y hy => h y (by simp [hy]))
    simp [splitOn, hx, this]

theorem isFrac_fracText (rest : List Nat) (hall : rest.all (· < 10) = true)
    (hlast : rest ≠ [] → rest.getLast? ≠ some 0) : isFrac (fracText rest) = true := by
  cases rest with
  | nil => rfl
  | cons a t =>
    have hd := fracText_digits (a :: t) hall
    have hl := hlast (by simp)
    simp only [fracText, List.isEmpty_cons, Bool.false_eq_true, if_false] at hd ⊢
    simp only [isFrac, Bool.or_eq_true, Bool.and_eq_true, bne_iff_ne, ne_eq, Bool.not_eq_true']
    right
    refine ⟨⟨by simp, List.all_eq_true.mpr hd⟩, ?_⟩
    rw [List.getLast?_map]
    intro hc
    cases hg : (a :: t).getLast? with
    | none => simp [hg] at hc
    | some x =>
      simp [hg] at hc
      exact hl (by rw [hg]; simp; omega)

theorem isFloatForm_body (d : Nat) (rest : List Nat) (e : Int) (hw : wfFloat (d :: rest) e = true) :
    isFloatForm ((48 + d) :: 0x2E :: (fracText rest ++ 0x45 :: formatInt e)) = true ∧
    isFloatForm (0x2D :: (48 + d) :: 0x2E :: (fracText rest ++ 0x45 :: formatInt e)) = true := by
  simp only [wfFloat, Bool.and_eq_true] at hw
  obtain ⟨hd, hall, hlast⟩ := wfDigits_cons hw.1
  have hsplit : splitOn 0x45 (fracText rest ++ 0x45 :: formatInt e) = (fracText rest, formatInt e) :=
    splitOn_append _ _ _ (by
      intro x hx
      have := fracText_digits rest hall x hx
      simp [isDigit] at this; omega)
  have hzero : (48 + d != 48 || (fracText rest == [48] && formatInt e == [48])) = true := by
    have h2 := hw.2
    simp only [List.headD_cons, Bool.or_eq_true, bne_iff_ne, ne_eq, Bool.and_eq_true, beq_iff_eq] at h2 ⊢
    rcases h2 with h2 | h2
    · left; omega
    · right
      obtain ⟨h3, h4⟩ := h2
      simp only [List.cons.injEq] at h3
      obtain ⟨_, h3⟩ := h3
      subst h3 h4
      exact ⟨rfl, by decide⟩
  have hcore : (isDigit (48 + d) && isFrac (splitOn 0x45 (fracText rest ++ 0x45 :: formatInt e)).1 &&
      isExpPlain (splitOn 0x45 (fracText rest ++ 0x45 :: formatInt e)).2 &&
      (fracText rest ++ 0x45 :: formatInt e).contains 0x45 &&
      (48 + d != 48 || ((splitOn 0x45 (fracText rest ++ 0x45 :: formatInt e)).1 == [48] &&
        (splitOn 0x45 (fracText rest ++ 0x45 :: formatInt e)).2 == [48]))) = true := by
    rw [hsplit]
    simp only [Bool.and_eq_true]
    refine ⟨⟨⟨⟨?_, isFrac_fracText rest hall hlast⟩, ?_⟩, ?_⟩, hzero⟩
    · simp [isDigit]; omega
    · exact isIntPlain_formatInt e
    · simp
  constructor
  · rw [isFloatForm.eq_def]
    have hne : 48 + d ≠ 0x2D := by omega
    split
    · rename_i heq; simp at heq; omega
    · exact hcore
  · simp only [isFloatForm]
    exact hcore

theorem isFloatForm_fltText (neg : Bool) (ds : List Nat) (e : Int) (hw : wfFloat ds e = true) :
    isFloatForm (fltText neg ds e) = true := by
  cases ds with
  | nil => simp [wfFloat, wfDigits] at hw
  | cons d rest =>
    have := isFloatForm_body d rest e hw
    cases neg
    · simpa [fltText] using this.1
    · simpa [fltText] using this.2

/-! ## which characters occur in canonical text -/

/-- a printable ASCII character other than space -/
def printable (c : Nat) : Prop := 0x21 ≤ c ∧ c < 0x7F

theorem upperHex_printable (n : Nat) (h : n < 16) : printable (upperHex n) := by
  unfold upperHex printable; split <;> omega

theorem escChar_chars (c x : Nat) (hx : x ∈ escChar c) : printable x ∨ (0x20 ≤ x ∧ x = c) := by
  unfold escChar at hx
  repeat' split at hx
  all_goals simp only [List.mem_cons, List.mem_nil_iff, or_false] at hx
  all_goals first
    | (rcases hx with hx | hx <;> subst hx <;> left <;> unfold printable <;> omega)
    | (rcases hx with hx | hx | hx | hx | hx | hx <;> subst hx <;>
        first | (left; unfold printable; omega) | (left; exact upperHex_printable _ (by omega)))
    | (subst hx; right; omega)

theorem escS_chars (s : Str) (x : Nat) (hx : x ∈ escS s) : printable x ∨ (0x20 ≤ x ∧ s.any (· == x) = true) := by
  simp only [escS, List.mem_flatMap] at hx
  obtain ⟨c, hc, hx⟩ := hx
  rcases escChar_chars c x hx with h | ⟨h1, h2⟩
  · exact Or.inl h
  · subst h2; exact Or.inr ⟨h1, List.any_eq_true.mpr ⟨x, hc, by simp⟩⟩

theorem digit_printable {c : Nat} (h : isDigit c = true) : printable c := by
  simp [isDigit] at h; unfold printable; omega

theorem formatInt_chars (i : Int) (x : Nat) (hx : x ∈ formatInt i) : printable x := by
  unfold formatInt at hx
  split at hx
  · rcases List.mem_cons.mp hx with hx | hx
    · subst hx; unfold printable; omega
    · exact digit_printable ((natDigits_spec _).dig x hx)
  · exact digit_printable ((natDigits_spec _).dig x hx)

theorem fltText_chars (neg : Bool) (ds : List Nat) (e : Int) (hw : wfDigits ds = true) (x : Nat)
    (hx : x ∈ fltText neg ds e) : printable x := by
  cases ds with
  | nil => simp [wfDigits] at hw
  | cons d rest =>
    obtain ⟨hd, hall, _⟩ := wfDigits_cons hw
    simp only [fltText, List.headD_cons, List.tail_cons, List.mem_append, List.mem_cons] at hx
    rcases hx with hx | hx | hx | hx | hx | hx
    · cases neg <;> simp at hx
      subst hx; unfold printable; omega
    · subst hx; unfold printable; omega
    · subst hx; unfold printable; omega
    · exact digit_printable (fracText_digits rest hall x hx)
    · subst hx; unfold printable; omega
    · exact formatInt_chars e x hx

theorem atomText_chars (a : Atom) (hw : a.wf = true) (x : Nat) (hx : x ∈ atomText a) :
    printable x ∨ (0x20 ≤ x ∧ strsHave (· == x) (.atom a) = true) := by
  cases a with
  | null => left; simp [atomText] at hx; rcases hx with h | h | h <;> subst h <;> unfold printable <;> omega
  | bool b =>
    left
    cases b <;> simp [atomText] at hx
    · rcases hx with h | h | h | h | h <;> subst h <;> unfold printable <;> omega
    · rcases hx with h | h | h | h <;> subst h <;> unfold printable <;> omega
  | int i => exact Or.inl (formatInt_chars i x hx)
  | flt neg ds e => exact Or.inl (fltText_chars neg ds e hw x hx)
  | str s =>
    simp only [atomText, strText, List.mem_cons, List.mem_append, List.mem_nil_iff, or_false] at hx
    rcases hx with hx | hx | hx
    · subst hx; left; unfold printable; omega
    · simpa [strsHave] using escS_chars s x hx
    · subst hx; left; unfold printable; omega

theorem strText_chars (k : Str) (x : Nat) (hx : x ∈ strText k) : printable x ∨ (0x20 ≤ x ∧ k.any (· == x) = true) := by
  simp only [strText, List.mem_cons, List.mem_append, List.mem_nil_iff, or_false] at hx
  rcases hx with hx | hx | hx
  · subst hx; left; unfold printable; omega
  · exact escS_chars k x hx
  · subst hx; left; unfold printable; omega

mutual
theorem text_chars : ∀ (v : J), v.wf = true → ∀ x ∈ text v,
    printable x ∨ (0x20 ≤ x ∧ strsHave (· == x) v = true)
  | .atom a, hw, x, hx => atomText_chars a (by simpa [J.wf] using hw) x (by simpa [text] using hx)
  | .arr xs, hw, x, hx => by
    simp only [text, List.mem_cons, List.mem_append, List.mem_nil_iff, or_false] at hx
    rcases hx with hx | hx | hx
    · subst hx; left; unfold printable; omega
    · simpa [strsHave] using elems_chars true xs (by simpa [J.wf] using hw) x hx
    · subst hx; left; unfold printable; omega
  | .obj kvs, hw, x, hx => by
    simp only [text, List.mem_cons, List.mem_append, List.mem_nil_iff, or_false] at hx
    rcases hx with hx | hx | hx
    · subst hx; left; unfold printable; omega
    · simpa [strsHave] using members_chars true kvs (by simpa [J.wf] using hw) x hx
    · subst hx; left; unfold printable; omega
theorem elems_chars : ∀ (f : Bool) (xs : JL), xs.wf = true → ∀ x ∈ elems f xs,
    printable x ∨ (0x20 ≤ x ∧ strsHaveL (· == x) xs = true)
  | _, .nil, _, x, hx => by simp [elems] at hx
  | f, .cons y ys, hw, x, hx => by
    simp only [JL.wf, Bool.and_eq_true] at hw
    simp only [elems, List.mem_append] at hx
    rcases hx with hx | hx | hx
    · cases f <;> simp [sep] at hx
      subst hx; left; unfold printable; omega
    · rcases text_chars y hw.1 x hx with h | h
      · exact Or.inl h
      · exact Or.inr ⟨h.1, by simp [strsHaveL, h.2]⟩
    · rcases elems_chars false ys hw.2 x hx with h | h
      · exact Or.inl h
      · exact Or.inr ⟨h.1, by simp [strsHaveL, h.2]⟩
theorem members_chars : ∀ (f : Bool) (kvs : KL), kvs.wf = true → ∀ x ∈ members f kvs,
    printable x ∨ (0x20 ≤ x ∧ strsHaveK (· == x) kvs = true)
  | _, .nil, _, x, hx => by simp [members] at hx
  | f, .cons k v r, hw, x, hx => by
    simp only [KL.wf, Bool.and_eq_true] at hw
    simp only [members, List.mem_append, List.mem_cons] at hx
    rcases hx with hx | hx | hx | hx | hx
    · cases f <;> simp [sep] at hx
      subst hx; left; unfold printable; omega
    · rcases strText_chars k x hx with h | h
      · exact Or.inl h
      · exact Or.inr ⟨h.1, by simp [strsHaveK, h.2]⟩
    · subst hx; left; unfold printable; omega
    · rcases text_chars v hw.1 x hx with h | h
      · exact Or.inl h
      · exact Or.inr ⟨h.1, by simp [strsHaveK, h.2]⟩
    · rcases members_chars false r hw.2 x hx with h | h
      · exact Or.inl h
      · exact Or.inr ⟨h.1, by simp [strsHaveK, h.2]⟩
end

end GoblVerif.Proofs.C14n
