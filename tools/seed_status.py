#!/usr/bin/env python3
"""seed_status.py: write seeded/INDEX.json — for every seeded change whether its patch still applies to the
current /repo HEAD (plainly, or only with --3way because a later fix: commit touched the same file), and which
checks caught it.  Re-running a seed: git -C /repo apply [--3way] <patch>; ./check <ID>; git -C /repo reset --hard HEAD."""
import json, os, subprocess, glob
out = {}
head = subprocess.run(['git','-C','/repo','rev-parse','--short','HEAD'],capture_output=True,text=True).stdout.strip()
for d in sorted(glob.glob('/verif/seeded/C*-*')):
    sid = os.path.basename(d)
    patch = os.path.join(d, 'patch.diff')
    meta = json.load(open(os.path.join(d, 'meta.json')))
    plain = subprocess.run(['git','-C','/repo','apply','--check',patch],capture_output=True).returncode == 0
    three = plain or subprocess.run(['git','-C','/repo','apply','--check','--3way',patch],capture_output=True).returncode == 0
    out[sid] = {'applies': 'plain' if plain else ('3way' if three else 'no (the code it changes was repaired since)'),
                'caught_by': (meta.get('evaluation') or {}).get('caught_by'),
                'files': meta.get('files_changed')}
json.dump({'repo_head': head, 'seeds': out}, open('/verif/seeded/INDEX.json','w'), indent=1)
from collections import Counter
print(head, Counter(v['applies'].split()[0] for v in out.values()))
