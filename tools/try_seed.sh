#!/bin/bash
# try_seed.sh <property-id> <k> <check-id>... : confirm a seeded mutation (demo fails with it, passes without,
# existing tests still pass), store it under /verif/seeded/<id>-<k>/, run the named checks against it on /repo, undo.
set -u
export GOFLAGS=-mod=mod GOPROXY=off GOSUMDB=off GOTOOLCHAIN=local
ID=$1; K=$2; shift 2
WT=/tmp/mut-$ID; M=/tmp/mutout-$ID/$K; [ -d $M ] || M=$WT/MUTATION/$K
DEST=/verif/seeded/$ID-$K
mkdir -p $DEST
cp $M/patch.diff $DEST/; cp $M/meta.json $DEST/ 2>/dev/null; cp $M/*_test.go $DEST/ 2>/dev/null; cp $M/*.go $DEST/ 2>/dev/null
DEMO=$(ls $M/*_test.go 2>/dev/null | head -1)
PKG=$(python3 -c "import json;print(json.load(open('$M/meta.json')).get('demo_cmd',''))" 2>/dev/null)
echo "demo_cmd: $PKG"
# scratch worktree for confirmation
S=/tmp/seedcheck-$ID-$K
git -C /repo worktree add -q --detach $S HEAD
pkgdir=$(echo "$PKG" | grep -o 'go test \./[a-zA-Z0-9_/]*' | head -1 | sed 's/go test \.\///'); [ -z "$pkgdir" ] && pkgdir=.
run=$(echo "$PKG" | grep -o '\-run [A-Za-z0-9_]*' | head -1)
cp $DEMO $S/$pkgdir/zz_mutation_demo_test.go
( cd $S && go test ./$pkgdir $run -count=1 >/tmp/seed-orig.log 2>&1; echo "orig demo rc=$?" )
( cd $S && git apply $M/patch.diff && go build ./... && go test ./$pkgdir $run -count=1 >/tmp/seed-mut.log 2>&1; echo "mutated demo rc=$?" )
( cd $S && rm -f $pkgdir/zz_mutation_demo_test.go && go test ./... 2>&1 | grep -v "^ok\|no test files" | head -5; echo "existing suite with mutation: done (lines above = failures)" )
git -C /repo worktree remove --force $S
# run the checks against the mutation
git -C /repo apply $M/patch.diff || { echo "patch does not apply to /repo"; exit 1; }
for c in "$@"; do
  ( cd /verif && timeout 1800 ./check $c 2>/dev/null | grep -c "^VIOLATION" | sed "s/^/check $c violations: /" )
  ( cd /verif && ./check $c 2>&1 | grep "violation:\|tie broken\|broken obligations" | head -3 | cut -c1-300 )
done
git -C /repo checkout -- .
git -C /repo status --short | head -3
# regenerate the evidence of the checks just run, from the unchanged tree
for c in "$@"; do ( cd /verif && ./check $c >/dev/null 2>&1; echo "clean re-run $c rc=$?" ); done
