#!/usr/bin/env python3
"""merge_agent.py <workdir> : copy files that are new (or changed and agent-owned) from an agent copy into /verif; report shared-file diffs"""
import os,sys,shutil,filecmp,subprocess
src=sys.argv[1]; dst='/verif'
own=sys.argv[2:]  # extra path prefixes owned by the agent (relative), overwritten even if they exist
skip_dirs={'.git','.lake','bin','evidence','replays','Generated','scratch-repo','__pycache__'}
shared={'lean/Driver/Main.lean','lean/GoblVerif.lean','harness/cmd/drive/main.go','MANIFEST.json','known_findings.json','DESIGN.md','BUILDER_GUIDE.md','check','setup.sh','harness/go.mod','harness/go.sum','.gitignore','properties.jsonl'}
new=[];changed=[]
for root,dirs,files in os.walk(src):
    dirs[:]=[d for d in dirs if d not in skip_dirs]
    for f in files:
        p=os.path.join(root,f); rel=os.path.relpath(p,src)
        if rel in shared: continue
        q=os.path.join(dst,rel)
        if not os.path.exists(q):
            os.makedirs(os.path.dirname(q),exist_ok=True); shutil.copy2(p,q); new.append(rel)
        elif not filecmp.cmp(p,q,shallow=False):
            if any(rel.startswith(o) for o in own):
                shutil.copy2(p,q); changed.append(rel+' (overwritten)')
            else:
                changed.append(rel+' (DIFFERS, not copied)')
print('NEW:',*new,sep='\n  ')
print('CHANGED:',*changed,sep='\n  ')
