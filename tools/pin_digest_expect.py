#!/usr/bin/env python3
"""Rewrite the `Expect` section of Props/C08.lean from the CURRENT Generated/DigestFacts.lean.

Run by hand after Model/Digest.lean (and, for the c14n marshallers, Model/C14n.lean) has been compared
with an edited source function: the pinned texts are what the models were written against.  Never run
by a check.  Usage: tools/pin_digest_expect.py [root of the verif tree, default: the parent of tools/]"""
import os, re, sys, textwrap

ROOT = sys.argv[1] if len(sys.argv) > 1 else os.path.dirname(os.path.dirname(os.path.abspath(__file__)))
LEAN = os.path.join(ROOT, 'lean', 'GoblVerif')
facts = open(os.path.join(LEAN, 'Generated', 'DigestFacts.lean')).read()
defs = dict(re.findall(r'^def (\w+) : List String := (\[.*\])$', facts, re.M))

# function (as named in DigestFacts) -> what it is for the model
DOCS = [
 ('Envelope_Digest', "Envelope.Digest: json.Marshal of the document, c14n.CanonicalJSON of those bytes, dsig.NewSHA256Digest of the canonical bytes; a marshalling failure is ErrMarshal, a canonicalisation failure ErrInternal (model `digest`: `(canon d).map (sha256Digest h)`, `none` = the internal error)"),
 ('Envelope_verifyDigest', "Envelope.verifyDigest: the header's digest against a freshly computed one; a failure of Digest is passed on, a failure of Equals becomes ErrDigest (model `verifyDigest`)"),
 ('Envelope_Validate', "Envelope.Validate is ValidateWithContext with the background context"),
 ('Envelope_ValidateWithContext', "Envelope.ValidateWithContext: structural validation of schema, head, document and signatures first; only when that passes, verifyDigest — and its verdict is the verdict (model `validate`: `.validation` before `verifyDigest`)"),
 ('Envelope_Calculate', "Envelope.Calculate refuses an absent or empty document and otherwise is `calculate`"),
 ('Envelope_calculate', "Envelope.calculate: the document calculates itself first, then — after the header exists — the digest is taken of the calculated document and stored in the header (model `calculate`)"),
 ('dsig_NewSHA256Digest', "dsig.NewSHA256Digest: one SHA-256 over the whole of the data handed in (no loop, no branch), hexadecimal, under the algorithm name DigestSHA256 (model `sha256Digest`: `⟨algSHA256, h.H data⟩`, the hash applied once to all the bytes)"),
 ('dsig_Digest_Equals', "Digest.Equals: algorithm names first, then values, by `!=` on the strings (model `Dig.equals`)"),
 ('c14n_CanonicalJSON', "c14n.CanonicalJSON: UnmarshalJSON of the reader, MarshalJSON of what it returned — nothing in between (model `canon`; the two halves are C07's)"),
 ('c14n_UnmarshalJSON', "c14n.UnmarshalJSON, the entry point of the reader (the same shape C07 pins: encoding check, decoder with UseNumber, one value, nothing after it)"),
 ('c14n_MarshalJSON', "c14n.MarshalJSON (canonical JSON of a Go value) goes through the same CanonicalJSON"),
 ('c14n_Object_Sort', "c14n Object.Sort: stable, by `<` on the keys (model `sortK`)"),
 ('c14n_Object_MarshalJSON', "c14n Object.MarshalJSON: `{`, the attributes that marshal to something separated by `,`, `}` (model `marshalK`)"),
 ('c14n_Array_MarshalJSON', "c14n Array.MarshalJSON: `[`, every value in order separated by `,`, `]` — nothing dropped, nothing reordered (model `marshalL`)"),
 ('c14n_Attribute_MarshalJSON', "c14n Attribute.MarshalJSON: nothing for a null value, else key `:` value (model `marshalK`, `attrJoin`)"),
 ('c14n_String_MarshalJSON', "c14n String.MarshalJSON is encodeString"),
 ('c14n_Integer_MarshalJSON', "c14n Integer.MarshalJSON: FormatInt base 10"),
 ('c14n_Float_MarshalJSON', "c14n Float.MarshalJSON: strconv's shortest 'E' form, the point put in after the first digit — which comes after a minus sign —, the exponent stripped of `+` and leading zeros (model `marshalFloat`)"),
 ('c14n_Null_MarshalJSON', "c14n Null.MarshalJSON"),
 ('c14n_Bool_MarshalJSON', "c14n Bool.MarshalJSON"),
 ('c14n_encodeString', "c14n encodeString: the bytes written for every character — safe ASCII literally, the seven short escapes each with its own letter, `u00XX` for the other controls, everything else copied (model `encodeString`)"),
 ('schema_Object_MarshalJSON', "schema.Object.MarshalJSON — what `json.Marshal(e.Document)` runs: the payload as encoding/json writes it, with the *stored* schema id inserted (the model's `doc : J` is this text)"),
 ('schema_Object_UnmarshalJSON', "schema.Object.UnmarshalJSON: the schema id is extracted from the text and kept as it is written, a *fresh* payload instance of exactly that id is created, the whole text is unmarshalled into it"),
 ('schema_Extract', "schema.Extract reads the top-level `$schema` member with encoding/json (member order and depth do not matter)"),
 ('schema_Insert', "schema.Insert writes the id as the first member of the payload's object"),
 ('schema_registry_typeFor', "the registry answers for the exact id only"),
 ('schema_ID_Interface', "ID.Interface: a new value of the registered type, nil for an unknown id"),
]

def doc(text):
    lines = textwrap.wrap(text, 100)
    return '/-- ' + '\n    '.join(lines) + ' -/'

out = ['''/-! ## expectations over facts regenerated from /repo on every run

How the digest is computed and compared (`Generated/DigestFacts.lean`, extractor
`harness/cmd/extract/digest.go`; re-pinned by hand with `tools/pin_digest_expect.py`): calls, branch
conditions, statements, loop headers — and for the marshallers of c14n the bytes written — in source
order, of every function between the document of an envelope and the verdict of `Validate`.
`Model/Digest.lean` (and `Model/C14n.lean`) mirror them by hand; a change to one of these functions
breaks its obligation here even when no swept edit shows a difference (`./check C08` then searches for
a witness). -/
namespace Expect
open GoblVerif.Generated.Digest
''']
n = 0
for fn, text in DOCS:
    kinds = ['calls', 'conds', 'stmts', 'loops'] + (['writes'] if ('writes_' + fn) in defs else [])
    for k in kinds:
        if f'{k}_{fn}' not in defs:
            sys.exit(f'missing fact {k}_{fn}')
    parts = []
    for k in kinds:
        v = defs[f'{k}_{fn}']
        parts.append(f'{k}_{fn} = {v}' if v == '[]' else f'{k}_{fn} =\n      {v}')
    out.append(doc(text))
    out.append(f'theorem {fn}_as_modelled :\n    ' + ' ∧\n    '.join(parts) + ' :=\n  ⟨' + ', '.join(['rfl'] * len(kinds)) + '⟩\n')
    n += 1
listed = {fn for fn, _ in DOCS}
for name in defs:
    m = re.match(r'calls_(\w+)$', name)
    if m and m.group(1) not in listed:
        sys.exit(f'function {m.group(1)} of DigestFacts has no entry in DOCS')

for name in ('digestAlgorithms', 'digestJSON', 'headerDigestJSON', 'envelopeJSON', 'sha256_imports', 'sha256_pkgcalls'):
    if name not in defs:
        sys.exit(f'missing fact {name}')
out.append(f'''/-- the algorithm name of the model is the one constant of the library; a digest travels as
    `{{"alg": …, "val": …}}` under `head.dig`, the document under `doc` -/
theorem digest_names_as_modelled :
    digestAlgorithms = {defs['digestAlgorithms']} ∧ algSHA256 = "sha256" ∧
    digestJSON = {defs['digestJSON']} ∧ headerDigestJSON = {defs['headerDigestJSON']} ∧
    envelopeJSON = {defs['envelopeJSON']} :=
  ⟨rfl, rfl, rfl, rfl, rfl⟩

/-- the hash is crypto/sha256's one-shot `Sum256` of the data as handed in, written out with
    encoding/hex (the abstract `Hash.H` of the model; the harness instantiates it with the same two) -/
theorem hash_is_sha256_of_all_bytes :
    sha256_imports = {defs['sha256_imports']} ∧
    sha256_pkgcalls = {defs['sha256_pkgcalls']} := ⟨rfl, rfl⟩

/-- the header must carry a digest (model `validate`: no digest is a validation error), and the
    document is required -/
theorem digest_and_document_required :
    GoblVerif.Generated.Head.rules_Digest = ["validation.Required"] ∧
    GoblVerif.Generated.Envelope.rules_Document = ["validation.Required"] := ⟨rfl, rfl⟩

end Expect
''')
text = '\n'.join(out)
path = os.path.join(LEAN, 'Props', 'C08.lean')
s = open(path).read()
BEGIN = '/-! ## expectations over facts regenerated from /repo on every run'
if BEGIN in s:
    i = s.index(BEGIN)
    j = s.index('end Expect\n', i) + len('end Expect\n')
    s = s[:i] + text + s[j:]
else:
    end = 'end GoblVerif.Props.C08'
    s = s.replace(end, text + '\n' + end)
open(path, 'w').write(s)
print('C08:', n + 3, 'obligations pinned')
