#!/bin/bash
# run every registered quick (or $1=thorough) check on the current tree; print one line each
cd "$(dirname "$0")/.."
tier=${1:-quick}
for id in $(python3 -c "import json;print(' '.join(c['property_id'] for c in json.load(open('MANIFEST.json'))['checks']))"); do
  s=$(date +%s)
  out=$(./check $id --tier $tier 2>/dev/null)
  rc=$?
  echo "$id rc=$rc $(( $(date +%s) - s ))s $(echo "$out" | grep -c '^KNOWN-FINDING') known; $(echo "$out" | grep '^VIOLATION' | head -2 | tr '\n' ' ')"
done
