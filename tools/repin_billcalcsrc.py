#!/usr/bin/env python3
"""Re-pin the reviewed facts of Generated/BillCalcSrc.lean in Props/C01.lean (namespace Src):
copies the right-hand sides of the generated `def`s into the conjuncts `BillCalcSrc.<name> = …`
of `assumptions_BillCalcSrc_as_reviewed`, `struct_BillCalcSrc_*_as_mapped` and
`namedTypes_BillCalcSrc_as_reviewed`.  To be run BY HAND after a reviewed change of the
configuration (billcalcsrc.go), never by ./check."""
import re, sys, os
root = os.path.join(os.path.dirname(os.path.abspath(__file__)), '..', 'lean', 'GoblVerif')
gen = open(os.path.join(root, 'Generated', 'BillCalcSrc.lean')).read()
pp = os.path.join(root, 'Props', 'C01.lean')
props = open(pp).read()
def body(name):
    m = re.search(r'^def %s : [^\n]*? := (.*)$' % re.escape(name), gen, re.M)
    first = m.group(1)
    if not first.rstrip().endswith('['):
        return first.strip()
    out = [first.strip()]
    for line in gen[m.end() + 1:].split('\n'):
        out.append(line.strip())
        if line.rstrip().endswith(']'):
            break
    return ' '.join(out)
def repin(name):
    global props
    pat = re.compile(r'(    BillCalcSrc\.%s = )(.*?)( ∧\n| := by decide)' % re.escape(name), re.S)
    if not pat.search(props):
        print('no pin for', name); return
    props = pat.sub(lambda m: m.group(1) + body(name) + m.group(3), props, count=1)
for n in re.findall(r'    BillCalcSrc\.(\w+) = ', props):
    repin(n)
m = re.search(r'(BillCalcSrc\.namedTypes\.map \(fun t => \(t\.1, t\.2\.2\)\) = )(.*?)( := by decide)', props, re.S)
nt = re.findall(r'^  \("([^"]+)", .*, "([^"]+)"\)[,\]]', gen, re.M)
props = props.replace(m.group(0), m.group(1) + '[' + ', '.join('("%s", "%s")' % p for p in nt) + ']' + m.group(3))
open(pp, 'w').write(props)
