#!/usr/bin/env python3
"""note_seed.py <ID-k> <caught_by comma list> [note]: record the evaluation of a seeded change in its meta.json"""
import json, sys
sid, caught = sys.argv[1], [x for x in sys.argv[2].split(',') if x]
note = sys.argv[3] if len(sys.argv) > 3 else ''
p = f'/verif/seeded/{sid}/meta.json'
m = json.load(open(p))
pid, k = sid.split('-')
m['evaluation'] = {
  'confirmed_with': f'tools/try_seed.sh {pid} {k} <checks>: demo passes on a fresh worktree of /repo HEAD, fails with patch.diff applied, `go build ./...` and the whole existing suite pass with the patch; then `git -C /repo apply patch.diff`, ./check <id> (quick tier), `git -C /repo checkout -- .`, checks re-run on the clean tree',
  'caught_by': caught, 'note': note }
json.dump(m, open(p, 'w'), indent=1)
print(sid, caught)
