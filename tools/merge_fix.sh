#!/bin/bash
# merge_fix.sh <agent-copy-dir> [base-dir]: apply what an agent changed in its copy of /verif
# (relative to the commit the copy was made from) onto the current /verif with a 3-way merge.
set -e
A=$1; B=${2:-/root/work2/base}
cd /tmp && rm -rf mf && mkdir mf && cd mf
ln -s $B a; ln -s $A b
diff -ruN -x .lake -x bin -x replays -x Generated -x go.sum -x go.mod -x evidence -x '*.drive.json' -x .git -x __pycache__ a/ b/ > ../mf.patch || true
cd /verif && git apply --3way --whitespace=nowarn /tmp/mf.patch && echo merged; grep -c '^diff ' /tmp/mf.patch
rm -rf /tmp/mf
