#!/bin/bash
# merge_fix.sh <agent-copy-dir> [base-dir]: apply what an agent changed in its copy of /verif
# (relative to the commit the copy was made from) onto the current /verif with a 3-way merge.
set -e
A=$1; B=${2:-/root/work2/base}
cd /tmp && rm -rf mf && mkdir mf && cd mf
ln -s $B a; ln -s $A b
diff -ruN -x .lake -x bin -x replays -x Generated -x go.sum -x go.mod -x evidence -x '*.drive.json' -x .git -x __pycache__ a/ b/ > ../mf.patch || true
cd /verif
if git apply --whitespace=nowarn /tmp/mf.patch 2>/dev/null; then echo merged
else
  # shared text files move under every merge: apply the rest, then those with fuzz / rejects
  git apply --whitespace=nowarn --exclude=DESIGN.md --exclude=known_findings.json --exclude=MANIFEST.json /tmp/mf.patch && echo "merged (without shared files)"
  python3 - <<'PY'
import re,subprocess
s=open('/tmp/mf.patch').read()
for part in re.split(r'(?m)^(?=diff -ruN )',s):
    if not part.startswith('diff -ruN'): continue
    for f in ['DESIGN.md','known_findings.json','MANIFEST.json']:
        if part.split('\n')[0].endswith('b/'+f):
            open('/tmp/mf-one.patch','w').write(part)
            r=subprocess.run(['patch','-p1','--merge','--no-backup-if-mismatch','-i','/tmp/mf-one.patch'],cwd='/verif',capture_output=True,text=True)
            print(' ',f,'rc',r.returncode,(r.stdout.strip().splitlines() or [''])[-1])
PY
fi
grep -c '^diff ' /tmp/mf.patch
rm -rf /tmp/mf
