#!/bin/bash
# merge_fix.sh <agent-copy-dir> [base-dir]: apply what an agent changed in its copy of /verif
# (relative to the commit the copy was made from) onto the current /verif with a 3-way merge.
set -e
A=$1; B=${2:-/root/work2/base}
cd /tmp && rm -rf mf && mkdir mf && cd mf
ln -s $B a; ln -s $A b
diff -ruN -x .lake -x bin -x replays -x Generated -x go.sum -x go.mod -x evidence -x '*.drive.json' -x .git -x __pycache__ a/ b/ > ../mf.patch || true
cd /verif
if git apply --whitespace=nowarn /tmp/mf.patch 2>/dev/null; then echo merged
else
  # shared text files move under every merge: apply the rest, then those with fuzz / rejects
  git apply --whitespace=nowarn --exclude=DESIGN.md --exclude=known_findings.json --exclude=MANIFEST.json /tmp/mf.patch && echo "merged (without shared files)"
  for f in DESIGN.md known_findings.json MANIFEST.json; do
    git apply --whitespace=nowarn --include=$f /tmp/mf.patch 2>/dev/null && echo "  $f ok" || { patch -p1 --merge -s < <(filterdiff -i "b/$f" /tmp/mf.patch 2>/dev/null) 2>/dev/null && echo "  $f merged with patch" || echo "  $f NEEDS HAND MERGE"; }
  done
fi
grep -c '^diff ' /tmp/mf.patch
rm -rf /tmp/mf
