#!/bin/bash
# regress_seeds.sh [seed-id…]: re-run every seeded change against the current machinery.
# Uses $VERIF_REPO (default /repo) — run it on a scratch copy (vp run --with-repo), never while other checks use /repo.
# One line per seed: <id> <check> caught|MISSED|skip.
export GOFLAGS=-mod=mod GOPROXY=off GOSUMDB=off GOTOOLCHAIN=local
R=${VERIF_REPO:-/repo}
cd "$(dirname "$0")/.."
ids=("$@"); [ ${#ids[@]} -eq 0 ] && ids=($(ls seeded | grep '^C[0-9]*-[0-9]*$'))
for sid in "${ids[@]}"; do
  p=seeded/$sid/patch.diff
  chk=$(python3 -c "import json;m=json.load(open('seeded/$sid/meta.json'));c=(m.get('evaluation') or {}).get('caught_by') or ['${sid%%-*}'];own='${sid%%-*}';print(own if own in c else c[0])")
  git -C $R reset -q --hard HEAD
  if git -C $R apply "$PWD/$p" 2>/dev/null || git -C $R apply --3way "$PWD/$p" 2>/dev/null; then
    if (cd $R && go build ./... >/dev/null 2>&1); then
      n=$(./check $chk 2>/dev/null | grep -c "^VIOLATION")
      [ "$n" -gt 0 ] && echo "$sid $chk caught" || echo "$sid $chk MISSED"
    else echo "$sid $chk skip (does not build on this HEAD)"; fi
  else echo "$sid $chk skip (patch does not apply)"; fi
  git -C $R reset -q --hard HEAD
done
