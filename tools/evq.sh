#!/bin/bash
# evq.sh <slot> <seed-id> <checks...> ; runs eval_seed on /root/seedout/<seed-id>
slot=$1; id=$2; shift 2
cd /verif && tools/eval_seed.sh /root/seedout/$id $slot "$@" > /root/evlog/$id.log 2>&1
