#!/usr/bin/env python3
"""Rewrite the `Expect` sections of Props/C01..C04,C17 from the CURRENT Generated/CalcFacts.lean.

Run by hand after the model has been compared with an edited source function (the pinned texts are
what Model/Calc.lean was written against).  Never run by a check."""
import re, sys
LEAN = '/verif/lean/GoblVerif'
facts = open(f'{LEAN}/Generated/CalcFacts.lean').read()
defs = dict(re.findall(r'^def (\w+) : List String := (\[.*\])$', facts, re.M))
groups = {
 'C01': ['calculateLines','calculateLine','calculateSubLine','calculateLineItemPrice','calculateLineDiscounts',
         'calculateLineCharges','calculateLineSum','determineSubLinePrecision','ApplyRoundingRule',
         'Amount_RescaleUp','Amount_RescaleDown','Amount_MatchPrecision','Amount_Upscale','Percentage_Of','Percentage_From','Percentage_Factor'],
 'C02': ['TotalCalculator_Calculate','TotalCalculator_prepareLines','TotalCalculator_removeIncludedTaxes',
         'TotalCalculator_calculateBaseRateTotals','Total_rateTotalFor','newRateTotal','newCategoryTotal','RateTotal_matches',
         'Total_Calculate','Total_calculateBaseCategoryTotal','Total_calculateFinalSum','matchRoundingPrecision','Amount_Remove'],
 'C03': ['calculate','calculateDiscounts','calculateCharges','calculateDiscountSum','calculateChargeSum',
         'PaymentDetails_calculateAdvances','PaymentDetails_totalAdvance','Terms_CalculateDues','Advance_CalculateFrom',
         'CategoryTotal_PreciseAmount','Total_PreciseSum','Total_round','Totals_round'],
 'C04': ['Line_round','SubLine_round','LineDiscount_round','LineCharge_round','Discount_round','Charge_round','Totals_reset'],
 'C17': ['Invoice_Invert','removeIncludedTaxes','Discount_removeIncludedTaxes','Charge_removeIncludedTaxes',
         'Invoice_RemoveIncludedTaxes','canRemoveIncludedTaxes','removeLineIncludedTaxes','removeSubLinesIncludedTaxes',
         'removeLineDiscountsIncludedTaxes','removeLineChargesIncludedTaxes'],
}
BEGIN = '/-! ## pinned source shapes (regenerated facts; tools/pin_calc_expect.py) -/'
for pid, fns in groups.items():
    path = f'{LEAN}/Props/{pid}.lean'
    s = open(path).read()
    block = [BEGIN, '', 'namespace ExpectCalc', 'open GoblVerif.Generated.Calc', '']
    for fn in fns:
        for kind in ('calls', 'conds', 'stmts'):
            name = f'{kind}_{fn}'
            if name not in defs: sys.exit(f'missing fact {name}')
            block.append(f'theorem {name}_as_modelled : {name} =\n    {defs[name]} := rfl')
    if pid == 'C17':  # integer constants copied by the models (extractor: const_<name>)
        block.append('theorem const_defaultTaxRemovalAccuracy_as_modelled : const_defaultTaxRemovalAccuracy = toString removalAccuracy := by decide')
        block.append('theorem const_linePrecisionExtra_as_modelled : const_linePrecisionExtra = toString E := by decide')
    block += ['', 'end ExpectCalc', '']
    text = '\n'.join(block)
    if BEGIN in s:
        s = re.sub(re.escape(BEGIN) + r'.*?end ExpectCalc\n', lambda m: text, s, flags=re.S)
    else:
        end = f'end GoblVerif.Props.{pid}'
        s = s.replace(end, text + '\n' + end)
    if 'import GoblVerif.Generated.CalcFacts' not in s:
        s = re.sub(r'(?m)^(import GoblVerif\.Spec\.' + pid + r')$', r'\1\nimport GoblVerif.Generated.CalcFacts', s, count=1)
    open(path, 'w').write(s)
    print(pid, len(fns) * 3, 'pinned')
