#!/bin/bash
# store_seed.sh <id> <caught_by comma list> [note]
id=$1; caught=$2; note=${3:-}
mkdir -p /verif/seeded/$id
cp /root/seedout/$id/patch.diff /root/seedout/$id/meta.json /root/seedout/$id/*_test.go /verif/seeded/$id/
python3 - "$id" "$caught" "$note" <<'PY'
import json,sys
sid,caught,note=sys.argv[1],[x for x in sys.argv[2].split(',') if x],sys.argv[3]
p=f'/verif/seeded/{sid}/meta.json'
m=json.load(open(p))
m['evaluation']={'confirmed_with':'tools/eval_seed.sh <dir> <slot> <checks>: scratch worktree of /repo HEAD: demo passes, fails with patch.diff applied, go build ./... and the whole existing suite pass with the patch; the checks then run from a scratch copy of /verif with VERIF_REPO pointing at the patched worktree (quick tier); /repo itself untouched','caught_by':caught,'note':note}
json.dump(m,open(p,'w'),indent=1)
print(sid,caught)
PY
