#!/usr/bin/env python3
"""register.py <agentdir> <ID>... : add driver/harness/root registrations and copy MANIFEST entries + known findings from the agent copy"""
import sys,json,re
src=sys.argv[1]; ids=sys.argv[2:]
# Driver/Main.lean
p='/verif/lean/Driver/Main.lean'; s=open(p).read()
for i in ids:
    if f'import Driver.{i}\n' not in s:
        s=s.replace('\nopen Driver\n',f'import Driver.{i}\n\nopen Driver\n'.replace('\n\nopen','\nopen') ,1) if False else s
        # insert import after last import line
        lines=s.split('\n'); k=max(j for j,l in enumerate(lines) if l.startswith('import '))
        lines.insert(k+1,f'import Driver.{i}'); s='\n'.join(lines)
    if f'| "{i}" =>' not in s:
        s=s.replace('  | _ => "bad-prop"',f'  | "{i}" => Driver.{i}.handle toks\n  | _ => "bad-prop"')
open(p,'w').write(s)
# GoblVerif.lean
p='/verif/lean/GoblVerif.lean'; s=open(p).read()
for i in ids:
    if f'import GoblVerif.Props.{i}\n' not in s: s+=f'import GoblVerif.Props.{i}\n'
lines=s.strip('\n').split('\n'); head=[l for l in lines if not l.startswith('import')]; imps=sorted(set(l for l in lines if l.startswith('import')))
open(p,'w').write('\n'.join(head+imps)+'\n')
# drive main.go
p='/verif/harness/cmd/drive/main.go'; s=open(p).read()
for i in ids:
    lo=i.lower()
    if f'"verifharness/props/{lo}"' not in s:
        s=s.replace('\t"verifharness/internal/core"\n',f'\t"verifharness/internal/core"\n\t"verifharness/props/{lo}"\n')
    if f'"{i}": {lo}.Run' not in s:
        s=s.replace('var props = map[string]func(*core.Ctx) int{\n',f'var props = map[string]func(*core.Ctx) int{{\n\t"{i}": {lo}.Run,\n')
open(p,'w').write(s)
# MANIFEST
m=json.load(open('/verif/MANIFEST.json')); am=json.load(open(src+'/MANIFEST.json'))
for i in ids:
    e=[c for c in am['checks'] if c['property_id']==i]
    if not e: print('no manifest entry for',i); continue
    m['checks']=[c for c in m['checks'] if c['property_id']!=i]+e
    m['not_applicable']=[n for n in m['not_applicable'] if n['property_id']!=i]
    for en in m['engines']: en['serves_properties']=sorted(set(en['serves_properties'])|{i})
m['checks'].sort(key=lambda c:c['property_id'])
json.dump(m,open('/verif/MANIFEST.json','w'),indent=1)
# known findings
k=json.load(open('/verif/known_findings.json')); ak=json.load(open(src+'/known_findings.json'))
have={(f['property'],f['classifier']) for f in k['findings']}
for f in ak['findings']:
    if f['property'] in ids and (f['property'],f['classifier']) not in have:
        k['findings'].append(f); print('finding +',f['property'],f['classifier'])
json.dump(k,open('/verif/known_findings.json','w'),indent=1)
