#!/bin/bash
# eval_seed.sh <dir-with-patch.diff+meta.json+demo> <slot> <check-id>...
# Confirms a seeded change in a scratch worktree of /repo (demo passes without, fails with the change; the whole
# existing suite passes with it), then runs the named checks against that worktree from a scratch copy of /verif
# (VERIF_REPO), so that neither /repo nor /verif's build tree is touched and several seeds can be evaluated at once.
# Prints one line per step; removes the worktree at the end.
set -u
export GOFLAGS=-mod=mod GOPROXY=off GOSUMDB=off GOTOOLCHAIN=local
M=$(realpath "$1"); SLOT=$2; shift 2
S=/tmp/ev-$SLOT; V=/root/work/ev$SLOT
git -C /repo worktree remove --force $S 2>/dev/null; rm -rf $S
git -C /repo worktree add -q --detach $S HEAD || exit 2
DEMO=$(ls $M/*_test.go 2>/dev/null | head -1)
CMD=$(python3 -c "import json;print(json.load(open('$M/meta.json')).get('demo_cmd',''))" 2>/dev/null)
DF=$(python3 -c "import json;print(json.load(open('$M/meta.json')).get('demo_file',''))" 2>/dev/null)
pkgdir=$(dirname "$DF"); [ -z "$DF" ] && pkgdir=$(echo "$CMD" | grep -o 'go test \./[a-zA-Z0-9_/.-]*' | head -1 | sed 's/go test \.\///')
[ -z "$pkgdir" ] && pkgdir=.
run=$(echo "$CMD" | grep -o '\-run [^ ]*' | head -1)
echo "seed $M: demo in $pkgdir ($run)"
cp $DEMO $S/$pkgdir/zz_mutation_demo_test.go
( cd $S && go test ./$pkgdir $run -count=1 >/tmp/ev-$SLOT-orig.log 2>&1; echo "demo on clean tree rc=$? (want 0)" )
( cd $S && git apply $M/patch.diff ) || { echo "PATCH DOES NOT APPLY"; git -C /repo worktree remove --force $S; exit 1; }
( cd $S && go build ./... 2>&1 | tail -3; go test ./$pkgdir $run -count=1 >/tmp/ev-$SLOT-mut.log 2>&1; echo "demo with change rc=$? (want non-zero)" )
rm -f $S/$pkgdir/zz_mutation_demo_test.go
( cd $S && go test -count=1 ./... 2>&1 | grep -v "^ok\|no test files" | head -8; echo "existing suite with change: done (lines above = failures)" )
mkdir -p $V
rsync -a --delete --exclude .git --exclude replays --exclude 'evidence/*' /verif/ $V/
mkdir -p $V/evidence $V/replays
for c in "$@"; do
  out=$(cd $V && VERIF_REPO=$S timeout 3000 ./check $c 2>$V/replays/$c.stderr)
  n=$(echo "$out" | grep -c "^VIOLATION")
  w=$(echo "$out" | grep "^VIOLATION" | grep -vc "no-failing-input-found")
  echo "check $c: violations=$n with-witness=$w"
  grep "violation:\|tie broken\|broken obligations" $V/replays/$c.stderr | head -3 | cut -c1-400
done
git -C /repo worktree remove --force $S
