#!/bin/sh
# MANIFEST.setup_cmd: build the framework from files on disk only (offline).
set -e
cd "$(dirname "$0")"
export GOFLAGS=-mod=mod GOPROXY=off GOSUMDB=off GOTOOLCHAIN=local
mkdir -p harness/bin evidence replays lean/GoblVerif/Generated
cp /repo/go.sum harness/go.sum
(cd harness && go build -tags verif -o bin/ ./cmd/...)
./harness/bin/extract -repo /repo -out lean/GoblVerif/Generated
(cd lean && lake build GoblVerif gobl_model)
echo "setup done"
