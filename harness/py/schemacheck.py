#!/usr/bin/env python3-vt
"""
schemacheck.py — the independent JSON-Schema implementation used by C11.

  schemacheck.py meta <schemas_dir>
      one JSON line per schema file: is it a valid draft 2020-12 schema
      (checked against the meta-schema shipped in jsonschema_specifications),
      does every $ref resolve inside the local registry (no network), do the
      patterns compile.

  schemacheck.py serve <schemas_dir>
      reads JSON lines from stdin, writes one JSON line per request:
        {"n": i, "op": "val", "id": <schema $id>, "doc": <instance>}
            -> {"n": i, "ok": bool, "errors": [{"kw","path","schema_path","msg"}…]}
        {"n": i, "op": "pat", "pattern": p, "s": s}  -> {"n": i, "m": bool}   (re.search, `$` = end of input)
        {"n": i, "op": "fmt", "format": f, "s": s}   -> {"n": i, "m": bool}

The registry is built from the local files keyed by `$id`.  `pattern` is
evaluated with python `re` with one correction: `$` means end of input, as in
ECMA-262 (python's own `$` also matches before a trailing newline).  `format` is
asserted (date, uuid from jsonschema's own checkers; `uri` is not shipped
without extra packages, so a syntactic RFC 3986 check is registered here).
"""
import json
import os
import re
import sys

from jsonschema import Draft202012Validator, FormatChecker
from jsonschema.exceptions import SchemaError
from referencing import Registry, Resource
from referencing.jsonschema import DRAFT202012

_URI_CHARS = set("abcdefghijklmnopqrstuvwxyzABCDEFGHIJKLMNOPQRSTUVWXYZ0123456789-._~:/?#[]@!$&'()*+,;=%")
_SCHEME = re.compile(r"[A-Za-z][A-Za-z0-9+.\-]*\Z")
_HEX = set("0123456789abcdefABCDEF")


def is_uri(s):
    if not isinstance(s, str):
        return True
    if ":" not in s:
        return False
    if not _SCHEME.match(s.split(":", 1)[0]):
        return False
    if any(c not in _URI_CHARS for c in s):
        return False
    i = 0
    while i < len(s):
        if s[i] == "%":
            if len(s) - i < 3 or s[i + 1] not in _HEX or s[i + 2] not in _HEX:
                return False
            i += 3
        else:
            i += 1
    return True


def ecma_dollar(pattern):
    """python's `$` also matches before a final newline; ECMA-262 (and RE2) `$` is the end of
    input.  Rewrite every unescaped `$` outside a class to `\\Z`."""
    out, i, in_class = [], 0, False
    while i < len(pattern):
        c = pattern[i]
        if c == "\\" and i + 1 < len(pattern):
            out.append(pattern[i:i + 2])
            i += 2
            continue
        if in_class:
            if c == "]":
                in_class = False
        elif c == "[":
            in_class = True
        elif c == "$":
            out.append("\\Z")
            i += 1
            continue
        out.append(c)
        i += 1
    return "".join(out)


_COMPILED = {}


def ecma_search(pattern, s):
    r = _COMPILED.get(pattern)
    if r is None:
        r = _COMPILED[pattern] = re.compile(ecma_dollar(pattern))
    return r.search(s) is not None


def pattern_keyword(validator, patrn, instance, schema):
    if validator.is_type(instance, "string") and not ecma_search(patrn, instance):
        from jsonschema.exceptions import ValidationError
        yield ValidationError(f"{instance!r} does not match {patrn!r}")


def make_validator_class():
    from jsonschema import validators
    return validators.extend(Draft202012Validator, {"pattern": pattern_keyword})


def format_checker():
    fc = FormatChecker(formats=("date", "uuid"))
    fc.checks("uri")(is_uri)
    return fc


def load(schemas_dir):
    files = {}
    for root, _, names in os.walk(schemas_dir):
        for n in sorted(names):
            if n.endswith(".json"):
                p = os.path.join(root, n)
                rel = os.path.relpath(p, schemas_dir).replace(os.sep, "/")
                with open(p, encoding="utf-8") as f:
                    files[rel] = json.load(f)
    return files


def registry_of(files):
    res = []
    for rel, s in files.items():
        if isinstance(s, dict) and isinstance(s.get("$id"), str):
            res.append((s["$id"], Resource(contents=s, specification=DRAFT202012)))
    return Registry().with_resources(res)


SCHEMA_KW = {"items", "additionalProperties", "not", "if", "then", "else", "contains", "propertyNames",
             "unevaluatedItems", "unevaluatedProperties"}
SCHEMA_ARR_KW = {"oneOf", "anyOf", "allOf", "prefixItems"}
SCHEMA_MAP_KW = {"properties", "$defs", "patternProperties", "dependentSchemas"}


def walk(s, f):
    if not isinstance(s, dict):
        return
    f(s)
    for k, v in s.items():
        if k in SCHEMA_KW:
            walk(v, f)
        elif k in SCHEMA_ARR_KW and isinstance(v, list):
            for c in v:
                walk(c, f)
        elif k in SCHEMA_MAP_KW and isinstance(v, dict):
            for c in v.values():
                walk(c, f)


def meta(schemas_dir):
    files = load(schemas_dir)
    reg = registry_of(files)
    for rel in sorted(files):
        s = files[rel]
        out = {"file": rel, "id": s.get("$id") if isinstance(s, dict) else None, "valid": True, "errors": [],
               "unresolved": [], "bad_patterns": []}
        try:
            Draft202012Validator.check_schema(s, format_checker=Draft202012Validator.FORMAT_CHECKER)
        except SchemaError as e:
            out["valid"] = False
            v = Draft202012Validator(Draft202012Validator.META_SCHEMA, format_checker=Draft202012Validator.FORMAT_CHECKER)
            for err in sorted(v.iter_errors(s), key=lambda e: list(map(str, e.absolute_path))):
                out["errors"].append({"path": "/" + "/".join(map(str, err.absolute_path)), "msg": err.message[:300]})
            if not out["errors"]:
                out["errors"].append({"path": "", "msg": str(e)[:300]})
        except Exception as e:  # noqa: BLE001
            out["valid"] = False
            out["errors"].append({"path": "", "msg": "%s: %s" % (type(e).__name__, e)})
        refs, pats = [], []

        def visit(n):
            if isinstance(n.get("$ref"), str):
                refs.append(n["$ref"])
            if isinstance(n.get("pattern"), str):
                pats.append(n["pattern"])
            if isinstance(n.get("patternProperties"), dict):
                pats.extend(n["patternProperties"].keys())

        walk(s, visit)
        if out["id"]:
            resolver = reg.resolver(base_uri=out["id"])
            for r in sorted(set(refs)):
                try:
                    resolver.lookup(r)
                except Exception as e:  # noqa: BLE001
                    out["unresolved"].append({"ref": r, "msg": "%s" % type(e).__name__})
        else:
            out["valid"] = False
            out["errors"].append({"path": "/$id", "msg": "no $id"})
        for p in sorted(set(pats)):
            try:
                re.compile(p)
            except re.error as e:
                out["bad_patterns"].append({"pattern": p, "msg": str(e)})
        print(json.dumps(out), flush=True)


def serve(schemas_dir):
    files = load(schemas_dir)
    reg = registry_of(files)
    fc = format_checker()
    by_id = {s["$id"]: s for s in files.values() if isinstance(s, dict) and isinstance(s.get("$id"), str)}
    validators = {}
    Validator = make_validator_class()
    for line in sys.stdin:
        line = line.strip()
        if not line:
            continue
        q = json.loads(line)
        op = q.get("op", "val")
        out = {"n": q.get("n")}
        try:
            if op == "val":
                sid = q["id"]
                if sid not in by_id:
                    out.update(ok=False, errors=[{"kw": "$schema", "path": "", "schema_path": "", "msg": "no schema with $id " + sid}],
                               unknown_schema=True)
                else:
                    v = validators.get(sid)
                    if v is None:
                        v = validators[sid] = Validator(by_id[sid], registry=reg, format_checker=fc)
                    errs = []
                    for e in v.iter_errors(q["doc"]):
                        errs.append({"kw": str(e.validator), "path": "/" + "/".join(map(str, e.absolute_path)) if e.absolute_path else "",
                                     "schema_path": "/".join(map(str, e.absolute_schema_path)), "msg": e.message[:200]})
                        if len(errs) >= 8:
                            break
                    out.update(ok=not errs, errors=errs)
            elif op == "pat":
                out["m"] = ecma_search(q["pattern"], q["s"])
            elif op == "fmt":
                out["m"] = bool(fc.conforms(q["s"], q["format"]))
            else:
                out["error"] = "unknown op"
        except Exception as e:  # noqa: BLE001
            out["error"] = "%s: %s" % (type(e).__name__, str(e)[:300])
        sys.stdout.write(json.dumps(out) + "\n")
    sys.stdout.flush()


def main():
    if len(sys.argv) != 3 or sys.argv[1] not in ("meta", "serve"):
        sys.stderr.write(__doc__)
        return 2
    if sys.argv[1] == "meta":
        meta(sys.argv[2])
    else:
        serve(sys.argv[2])
    return 0


if __name__ == "__main__":
    sys.exit(main())
