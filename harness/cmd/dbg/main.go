package main

import (
	"encoding/json"
	"fmt"
	"os"

	"verifharness/internal/calcproto"
)

func main() {
	var rc struct {
		Case struct {
			Doc *calcproto.Doc `json:"doc"`
		} `json:"case"`
	}
	b, _ := os.ReadFile(os.Args[1])
	if err := json.Unmarshal(b, &rc); err != nil {
		panic(err)
	}
	inv := rc.Case.Doc.Invoice()
	fmt.Println("calc:", inv.Calculate())
	t, _ := json.Marshal(inv.Totals)
	fmt.Println(string(t))
	for _, l := range inv.Lines {
		fmt.Println("line", l.Index, "price", l.Item.Price, "qty", l.Quantity, "sum", l.Sum, "total", l.Total)
	}
	fmt.Println("remove:", inv.RemoveIncludedTaxes())
	t, _ = json.Marshal(inv.Totals)
	fmt.Println(string(t))
	for _, l := range inv.Lines {
		fmt.Println("line", l.Index, "price", l.Item.Price, "qty", l.Quantity, "sum", l.Sum, "total", l.Total)
	}
}
