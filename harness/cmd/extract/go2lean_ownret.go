package main

// go2lean, RETURNED CURSORS (task B24; builds on go2lean_own.go, ON only for
// configurations with `Own: true`): a function with in-out parameters that
// RETURNS a pointer into the tree of one of them, and a caller that writes
// through that pointer.  taxtotalssrc.go uses it for
//
//	rt := t.rateTotalFor(c, tc.zero)      // (*Total).rateTotalFor returns a found cursor
//	rt.Base = …                            // written through the returned alias
//
// THE READING (trusted; repeated in the generated header):
//   * CALLEE.  When every `return` of a function with in-out parameters returns
//     one and the same FOUND CURSOR p (go2lean_own.go), and the containers of the
//     found cursors lead from p up to an in-out parameter
//     (`p in q.Fs`, `q in io.Gs`: the pointee of p is `io.Gs[q_at].Fs[p_at]`),
//     a TWIN `<fn>_at` is emitted next to the definition: the same body, every
//     `return (p, io…)` replaced by `return (q_at, p_at)` — the index path of the
//     element the returned pointer aliases, outermost first (none at a level
//     means "aliases nothing there": never the case after the appends of a
//     function that publishes what it creates).  The twin is made from the TEXT
//     of the definition, line by line; any other `return` line cancels it.
//   * CALLER.  `x := f(args)` / `x := recv.f(args)` with f such a function and
//     the in-out argument that p lives in an in-out PARAMETER `io` of the caller
//     held as a value: emitted as
//         let r := f args                  -- (Option T) × io' …
//         let x_at := f_at args            -- the index path, computed from the SAME arguments
//         io := r.2 …
//         let mut x : Option T := r.1
//     and x becomes a cursor: every write through x (`x.g = v`) is followed at
//     once by the write-back `io := { io with Gs := io.Gs.set i { io.Gs[i]! with
//     Fs := (io.Gs[i]!).Fs.set j x.get! } }` under `if let some i := x_at.1`,
//     `if let some j := x_at.2`.  Between the call and the end of the enclosing
//     block the caller must not mention `io` again (checked): the alias is the
//     only way to the element.
// Facts emitted for review: `returnedCursors` (callee, path) and
// `returnedCursorUses` (caller, statement).

import (
	"fmt"
	"go/ast"
	"go/token"
	"go/types"
	"strings"
)

type g2lRetChain struct {
	fields  []string // Lean field names from the in-out root down, one per level
	rootIdx int      // index of the root among the in-out parameters of the callee
	elemT   string   // Lean type of the pointee
}

type g2lRetCursor struct {
	root   types.Object
	fields []string
	at     string
}

type g2lRetFacts struct {
	chains  map[string]*g2lRetChain
	callees [][2]string
	uses    [][2]string
}

var g2lRetRuns = map[*g2l]*g2lRetFacts{}
var g2lRetCursors = map[*g2lFn]map[types.Object]*g2lRetCursor{}

func (g *g2l) retFacts() *g2lRetFacts {
	if rf, ok := g2lRetRuns[g]; ok {
		return rf
	}
	rf := &g2lRetFacts{chains: map[string]*g2lRetChain{}}
	g2lRetRuns[g] = rf
	return rf
}

func g2lNamedOfPtr(t types.Type) *types.Named {
	t = types.Unalias(t)
	if p, ok := t.(*types.Pointer); ok {
		t = types.Unalias(p.Elem())
	}
	n, _ := t.(*types.Named)
	return n
}

// ownAtTwin: called at the end of translateFunc; appends the `_at` twin to the
// unit of a function that returns a found cursor below an in-out parameter.
func (f *g2lFn) ownAtTwin(u *g2lUnit, fd *ast.FuncDecl, params []string) {
	if f.own == nil || len(f.own.found) == 0 || len(f.inOut) == 0 || u.err != "" {
		return
	}
	var p types.Object
	ok := true
	ast.Inspect(fd.Body, func(n ast.Node) bool {
		if _, isLit := n.(*ast.FuncLit); isLit {
			return false
		}
		rs, isRet := n.(*ast.ReturnStmt)
		if !isRet {
			return true
		}
		if len(rs.Results) != 1 {
			ok = false
			return true
		}
		id, isId := ast.Unparen(rs.Results[0]).(*ast.Ident)
		if !isId {
			ok = false
			return true
		}
		o := f.g.info.Uses[id]
		if o == nil || f.own.found[o] == nil || (p != nil && p != o) {
			ok = false
			return true
		}
		p = o
		return true
	})
	if !ok || p == nil {
		return
	}
	var fields, ats []string
	cur := p
	rootIdx := -1
	for depth := 0; depth < 8 && rootIdx < 0; depth++ {
		c := f.own.found[cur]
		if c == nil || c.container == nil {
			return
		}
		se, isSel := ast.Unparen(c.container).(*ast.SelectorExpr)
		if !isSel {
			return
		}
		xid, isId := ast.Unparen(se.X).(*ast.Ident)
		if !isId {
			return
		}
		xo := f.g.info.Uses[xid]
		n := g2lNamedOfPtr(f.typeOf(se.X))
		if xo == nil || n == nil {
			return
		}
		fields = append([]string{f.fieldLean(n, se.Sel.Name)}, fields...)
		ats = append([]string{c.at}, ats...)
		for i, v := range f.inOut {
			if v == xo {
				rootIdx = i
			}
		}
		cur = xo
	}
	if rootIdx < 0 {
		return
	}
	lines := strings.Split(strings.TrimRight(u.text, "\n"), "\n")
	if len(lines) < 2 || !strings.HasSuffix(lines[0], ":= Id.run do") {
		return
	}
	retLine := "return (" + strings.Join(append([]string{f.names[p]}, f.inOutNames()...), ", ") + ")"
	newRet := "return (" + strings.Join(ats, ", ") + ")"
	if len(ats) == 1 {
		newRet = "return " + ats[0]
	}
	resT := strings.TrimSuffix(strings.Repeat("Option Nat × ", len(ats)), " × ")
	out := []string{fmt.Sprintf("def %s_at %s : %s := Id.run do", u.lean, strings.Join(params, " "), resT)}
	replaced := 0
	for _, l := range lines[1:] {
		tr := strings.TrimSpace(l)
		if tr == retLine {
			out = append(out, l[:len(l)-len(strings.TrimLeft(l, " "))]+newRet)
			replaced++
			continue
		}
		if strings.HasPrefix(tr, "return ") || tr == "return" {
			return
		}
		out = append(out, l)
	}
	if replaced == 0 {
		return
	}
	pt, isPtr := types.Unalias(p.Type()).(*types.Pointer)
	if !isPtr {
		return
	}
	rf := f.g.retFacts()
	rf.chains[f.key] = &g2lRetChain{fields: fields, rootIdx: rootIdx, elemT: f.lean(pt.Elem())}
	path := f.names[f.inOut[rootIdx]]
	for i, fl := range fields {
		path += "." + fl + "[" + ats[i] + "]"
	}
	rf.callees = append(rf.callees, [2]string{f.key, path})
	u.text = strings.TrimRight(u.text, "\n") + "\n\n" +
		fmt.Sprintf("/-- where the pointer returned by `%s` points: the index path `%s` (go2lean_ownret.go) -/\n", f.key, path) +
		strings.Join(out, "\n") + "\n"
}

// retCursorDefine: `x := f(args)` with f returning a cursor into one of its in-out arguments.
func (f *g2lFn) retCursorDefine(x *ast.AssignStmt, ind int) ([]string, bool) {
	if f.own == nil || f.fuelChk || x.Tok != token.DEFINE || len(x.Lhs) != 1 || len(x.Rhs) != 1 {
		return nil, false
	}
	c, ok := ast.Unparen(x.Rhs[0]).(*ast.CallExpr)
	if !ok {
		return nil, false
	}
	id, ok := x.Lhs[0].(*ast.Ident)
	if !ok || id.Name == "_" {
		return nil, false
	}
	if _, isConv := f.g.info.Types[c.Fun]; isConv && f.g.info.Types[c.Fun].IsType() {
		return nil, false
	}
	ios := f.inOutArgsOwn(c)
	if len(ios) == 0 {
		return nil, false
	}
	o := f.g.info.Defs[id]
	fn := f.funcOfCall(c)
	key, _ := f.calleeKey(fn)
	ch := f.g.retFacts().chains[key]
	if ch == nil || o == nil {
		f.fail("`%s`: `%s` has in-out parameters and is not known to return a cursor into them (it must be listed before its caller)", f.src(x), key)
	}
	sig := fn.Type().(*types.Signature)
	if sig.Variadic() || c.Ellipsis.IsValid() || sig.Results().Len() != 1 {
		f.fail("`%s`: variadic call or several results", f.src(x))
	}
	rid, isId := ast.Unparen(ios[ch.rootIdx]).(*ast.Ident)
	if !isId {
		f.fail("`%s`: the in-out argument `%s` is not a parameter of the caller", f.src(x), f.src(ios[ch.rootIdx]))
	}
	ro := f.g.info.Uses[rid]
	isIO := false
	for _, v := range f.inOut {
		if v == ro {
			isIO = true
		}
	}
	if !isIO || !f.ptrVal(rid) {
		f.fail("`%s`: the in-out argument `%s` is not an in-out parameter of the caller held as a value", f.src(x), rid.Name)
	}
	for _, e := range ios {
		if !f.ownWritable(e) {
			f.fail("`%s`: the in-out argument `%s` is not a writable path", f.src(x), f.src(e))
		}
	}
	if len(ios) != 1 {
		f.fail("`%s`: more than one in-out argument", f.src(x))
	}
	// the rest of the enclosing block must not mention the root again
	f.checkRootUnused(x, ro)
	var args []string
	if sig.Recv() != nil {
		se, ok := ast.Unparen(c.Fun).(*ast.SelectorExpr)
		if !ok {
			f.fail("method expression `%s`", f.src(c))
		}
		sel := f.g.info.Selections[se]
		if sel == nil || sel.Kind() != types.MethodVal {
			f.fail("method call `%s`", f.src(c))
		}
		args = append(args, f.recvArg(c, se, sel, fn, false))
	}
	args = append(args, f.callArgs(fn, c.Args, false)...)
	f.dep(key)
	name := f.names[o]
	if name == "" {
		f.fail("`%s`: no name for `%s`", f.src(x), id.Name)
	}
	at := name + "_at"
	if f.nameTaken(at) {
		f.fail("the name `%s` is taken", at)
	}
	r := f.fresh("r")
	callee := f.g.unitLeanName(key)
	out := []string{
		fmt.Sprintf("%slet %s := %s", g2lInd(ind), r, strings.Join(append([]string{callee}, args...), " ")),
		fmt.Sprintf("%slet %s := %s", g2lInd(ind), at, strings.Join(append([]string{callee + "_at"}, args...), " ")),
	}
	n := 1 + len(ios)
	for j, e := range ios {
		out = append(out, f.assignThrough(e, g2lProj(r, 1+j, n), ind)...)
	}
	out = append(out, fmt.Sprintf("%slet mut %s : Option %s := %s", g2lInd(ind), name, g2lPar(ch.elemT), g2lProj(r, 0, n)))
	f.mutated[o] = true
	f.own.found[o] = &g2lCursor{container: nil, at: at}
	if g2lRetCursors[f] == nil {
		g2lRetCursors[f] = map[types.Object]*g2lRetCursor{}
	}
	g2lRetCursors[f][o] = &g2lRetCursor{root: ro, fields: ch.fields, at: at}
	rf := f.g.retFacts()
	rf.uses = append(rf.uses, [2]string{f.key, f.src(x)})
	return out, true
}

// checkRootUnused: after the statement s, its enclosing block does not mention root.
func (f *g2lFn) checkRootUnused(s ast.Stmt, root types.Object) {
	var decl *ast.FuncDecl
	for _, file := range f.g.files {
		for _, d := range file.Decls {
			if fd, ok := d.(*ast.FuncDecl); ok && fd.Body != nil && fd.Body.Pos() <= s.Pos() && s.End() <= fd.Body.End() {
				decl = fd
			}
		}
	}
	if decl == nil {
		f.fail("no enclosing function for `%s`", f.src(s))
	}
	var block *ast.BlockStmt
	ast.Inspect(decl.Body, func(n ast.Node) bool {
		if b, ok := n.(*ast.BlockStmt); ok {
			for _, st := range b.List {
				if st == s {
					block = b
				}
			}
		}
		return true
	})
	if block == nil {
		f.fail("`%s` does not stand directly in a block", f.src(s))
	}
	after := false
	for _, st := range block.List {
		if st == s {
			after = true
			continue
		}
		if !after {
			continue
		}
		ast.Inspect(st, func(n ast.Node) bool {
			if id, ok := n.(*ast.Ident); ok && f.g.info.Uses[id] == root {
				f.fail("`%s` is mentioned while a pointer returned into it is live (`%s`)", root.Name(), f.src(st))
			}
			return true
		})
	}
}

// retWriteThrough: the write-back that follows a write through a returned cursor.
func (f *g2lFn) retWriteThrough(o types.Object, ind int) ([]string, bool) {
	rc := g2lRetCursors[f][o]
	if rc == nil {
		return nil, false
	}
	name := f.names[o]
	root := f.names[rc.root]
	n := len(rc.fields)
	var out []string
	var idx []string
	for k := 0; k < n; k++ {
		iv := f.fresh("i")
		idx = append(idx, iv)
		out = append(out, fmt.Sprintf("%sif let some %s := %s then", g2lInd(ind+k), iv, g2lProj(rc.at, k, n)))
	}
	// the elements on the path, outermost first
	elems := []string{root}
	for k := 0; k < n-1; k++ {
		elems = append(elems, fmt.Sprintf("(%s.%s[%s]!)", elems[k], rc.fields[k], idx[k]))
	}
	val := name + ".get!"
	for k := n - 1; k >= 0; k-- {
		val = fmt.Sprintf("{ %s with %s := %s.%s.set %s %s }", elems[k], rc.fields[k], elems[k], rc.fields[k], idx[k], g2lPar(val))
	}
	out = append(out, fmt.Sprintf("%s%s := %s", g2lInd(ind+n), root, val))
	return out, true
}

func (g *g2l) retUsed() bool {
	rf, ok := g2lRetRuns[g]
	return ok && len(rf.callees) > 0
}

func (g *g2l) emitRetFacts(w func(string, ...any), okUnits map[string]bool) {
	rf, ok := g2lRetRuns[g]
	if !ok || len(rf.callees) == 0 {
		return
	}
	defer delete(g2lRetRuns, g)
	pairs := func(l [][2]string) string {
		var parts []string
		for _, p := range l {
			if !okUnits[p[0]] {
				continue
			}
			parts = append(parts, fmt.Sprintf("(%s, %s)", leanStr(p[0]), leanStr(p[1])))
		}
		return "[" + strings.Join(parts, ", ") + "]"
	}
	w("/-- functions that return a pointer into an in-out parameter, with the path it aliases (an `_at` twin is emitted) -/\ndef returnedCursors : List (String × String) := %s\n\n", pairs(rf.callees))
	w("/-- statements that bind such a pointer; writes through it are written back along the path (function, statement) -/\ndef returnedCursorUses : List (String × String) := %s\n\n", pairs(rf.uses))
}
