package main

// go2lean, ERROR-RETURNING EFFECT FUNCTIONS (task B20; builds on go2lean_effects.go).
//
// OPT-IN: only for a configuration with `Effects: true` AND `ErrType` set
// (errFnOn below); every hook is behind it, so every other configuration is
// translated exactly as before.
//
//   * A function whose ONLY result is `error` ("error function") and that has
//     in-out parameters becomes a definition in the monad `Except ErrType`:
//         func f(p *T, a A) error      ⇒   def f … (p : T) (a : A) : Except ErrType T := do …
//     `return nil` returns the current values of the in-out parameters
//     (`return p`); `return E` with E one of the three error forms below becomes
//     `throw E'`.  WHAT THIS ASSUMES (stated in the header of the generated file
//     and listed in `errorFunctions`): when the Go function returns a non-nil
//     error, what it has written through its in-out parameters up to that point
//     is NOT part of the result — the translation of the caller forgets it.
//     That is sound for callers that themselves return an error at once (the
//     only callers the translator accepts, see below) as long as the outermost
//     caller treats the document as invalid after an error.
//   * ERROR VALUES: three forms, nothing else:
//       - `fmt.Errorf(lit, args…)` and `errors.New(lit)` with a constant format
//         ⇒ the template ErrMsg applied to the format string (the arguments are
//         DROPPED: listed in `errorMessages`);
//       - `validation.Errors{k: e}` (a one-entry literal of a named map type
//         with value type error; e again an error value) ⇒ ErrAt k' e';
//       - the variable bound by `if err := g(…); err != nil` (below).
//   * CALLS OF ERROR FUNCTIONS: only the statement form
//         if err := g(args); err != nil { return E }
//     (no else, the body a single return).  It becomes
//         let t ← g … args                                  when E is `err`
//         let t ← Except.mapError (fun err => E') (g … args)    otherwise
//     followed by the store-back of g's in-out results into the argument places
//     (as for every call of a function with in-out parameters).
//   * A `return E` that throws MAY stand inside an effect loop (the rebuilt list
//     is dropped with everything else); a `return nil` may not.
//   * `&T{…}` is `some {…}` (a fresh pointee nobody else holds).
//   * `&x` of a local: an assignment to x that comes later in the source is
//     harmless when the innermost block around the `&x` ends in a return and
//     contains no break / continue / goto (control never reaches the later
//     assignment); see addrSafe in go2lean_effects.go.

import (
	"fmt"
	"go/ast"
	"go/constant"
	"go/token"
	"go/types"
	"strings"
)

type g2lErrFacts struct {
	fns   []string
	msgs  [][2]string
	calls [][2]string
}

var g2lErrOf = map[*g2l]*g2lErrFacts{}

func (g *g2l) errFacts() *g2lErrFacts {
	if e, ok := g2lErrOf[g]; ok {
		return e
	}
	e := &g2lErrFacts{}
	g2lErrOf[g] = e
	return e
}

func (g *g2l) errFnOn() bool { return g.cfg.Effects && g.cfg.ErrType != "" }

// errFnSig: is sig the signature of an error function (sole result `error`)?
func (g *g2l) errFnSig(sig *types.Signature) bool {
	return g.errFnOn() && sig.Results().Len() == 1 && g2lIsErrorType(sig.Results().At(0).Type())
}

func (f *g2lFn) isErrFn() bool {
	return f.fnObj != nil && f.g.errFnSig(f.fnObj.Type().(*types.Signature))
}

// errResult wraps the tuple of in-out parameters.
func (f *g2lFn) errResult(resT string) string {
	if resT == "" {
		resT = "Unit"
	}
	for _, k := range f.g.errFacts().fns {
		if k == f.key {
			return "Except " + f.g.cfg.ErrType + " " + g2lPar(resT)
		}
	}
	f.g.errFacts().fns = append(f.g.errFacts().fns, f.key)
	return "Except " + f.g.cfg.ErrType + " " + g2lPar(resT)
}

// errExpr: one of the three error forms.
func (f *g2lFn) errExpr(e ast.Expr) string {
	switch x := ast.Unparen(e).(type) {
	case *ast.Ident:
		if o, ok := f.g.info.Uses[x].(*types.Var); ok && f.eff != nil && f.eff.errVars[o] {
			return f.names[o]
		}
	case *ast.CallExpr:
		if fn := f.funcOfCall(x); fn != nil && fn.Pkg() != nil && len(x.Args) >= 1 {
			k := fn.Pkg().Path() + "." + fn.Name()
			if k == "fmt.Errorf" || k == "errors.New" {
				if tv, ok := f.g.info.Types[x.Args[0]]; ok && tv.Value != nil && tv.Value.Kind() == constant.String {
					lit := constant.StringVal(tv.Value)
					f.note(&f.g.errFacts().msgs, f.src(x))
					return g2lTemplate(f.g.cfg.ErrMsg, []string{leanStr(lit)})
				}
			}
		}
	case *ast.CompositeLit:
		t := f.typeOf(x)
		if m, ok := t.Underlying().(*types.Map); ok && g2lIsErrorType(m.Elem()) && len(x.Elts) == 1 {
			if _, named := types.Unalias(t).(*types.Named); named {
				if kv, ok := x.Elts[0].(*ast.KeyValueExpr); ok {
					return g2lTemplate(f.g.cfg.ErrAt, []string{g2lPar(f.expr(kv.Key)), g2lPar(f.errExpr(kv.Value))})
				}
			}
		}
	}
	f.fail("error value `%s` (only fmt.Errorf / errors.New with a constant format, a one-entry validation.Errors literal, or the variable of `if err := f(…); err != nil`)", f.src(e))
	return ""
}

// retErrFn: the return statements of an error function.
func (f *g2lFn) retErrFn(x *ast.ReturnStmt, ind int) ([]string, bool) {
	if f.fuelChk || !f.isErrFn() {
		return nil, false
	}
	if len(x.Results) != 1 {
		f.fail("`%s` in a function whose result is an error", f.src(x))
	}
	if f.isNil(x.Results[0]) {
		io := f.inOutNames()
		switch len(io) {
		case 0:
			return []string{g2lInd(ind) + "return ()"}, true
		case 1:
			return []string{g2lInd(ind) + "return " + io[0]}, true
		}
		return []string{g2lInd(ind) + "return (" + strings.Join(io, ", ") + ")"}, true
	}
	return []string{g2lInd(ind) + "throw " + g2lPar(f.errExpr(x.Results[0]))}, true
}

// hasPlainReturn: a return in list that is not the throw of an error function.
func (f *g2lFn) hasPlainReturn(list []ast.Stmt) bool {
	if !f.isErrFn() {
		return g2lHasReturn(list)
	}
	found := false
	for _, s := range list {
		ast.Inspect(s, func(n ast.Node) bool {
			switch r := n.(type) {
			case *ast.FuncLit:
				return false
			case *ast.ReturnStmt:
				if len(r.Results) != 1 || f.isNil(r.Results[0]) {
					found = true
				}
			}
			return true
		})
	}
	return found
}

// ifErrCall: `if err := g(args); err != nil { return E }` with g an error function of this package.
func (f *g2lFn) ifErrCall(s ast.Stmt, ind int) ([]string, bool) {
	if f.eff == nil || !f.g.errFnOn() {
		return nil, false
	}
	x, ok := s.(*ast.IfStmt)
	if !ok || x.Init == nil {
		return nil, false
	}
	as, ok := x.Init.(*ast.AssignStmt)
	if !ok || as.Tok != token.DEFINE || len(as.Lhs) != 1 || len(as.Rhs) != 1 {
		return nil, false
	}
	c, ok := ast.Unparen(as.Rhs[0]).(*ast.CallExpr)
	if !ok {
		return nil, false
	}
	if tv, ok := f.g.info.Types[c.Fun]; ok && (tv.IsType() || tv.IsBuiltin()) {
		return nil, false
	}
	fn := f.funcOfCall(c)
	if fn == nil {
		return nil, false
	}
	sig, _ := fn.Type().(*types.Signature)
	key, local := f.calleeKey(fn)
	if sig == nil || !local || key == "" || !f.g.errFnSig(sig) {
		return nil, false
	}
	if _, isPrim := f.g.cfg.Prims[key]; isPrim {
		return nil, false
	}
	if !f.isErrFn() {
		f.fail("`%s`: a call of the error function `%s` in a function that does not itself return an error", f.src(c), key)
	}
	eid, ok := as.Lhs[0].(*ast.Ident)
	if !ok || eid.Name == "_" {
		f.fail("`%s`", f.src(x.Init))
	}
	eobj, _ := f.g.info.Defs[eid].(*types.Var)
	if eobj == nil {
		f.fail("`%s`", f.src(x.Init))
	}
	// the condition is `err != nil`
	okCond := false
	if b, isBin := ast.Unparen(x.Cond).(*ast.BinaryExpr); isBin && b.Op == token.NEQ {
		if id, isId := ast.Unparen(b.X).(*ast.Ident); isId && f.g.info.Uses[id] == eobj && f.isNil(b.Y) {
			okCond = true
		}
	}
	if !okCond || x.Else != nil || len(x.Body.List) != 1 {
		f.fail("`if %s; %s {…}`: only `if err := f(…); err != nil { return E }` is translated", f.src(x.Init), f.src(x.Cond))
	}
	rs, ok := x.Body.List[0].(*ast.ReturnStmt)
	if !ok || len(rs.Results) != 1 || f.isNil(rs.Results[0]) {
		f.fail("`if %s; %s {…}`: the body is not a single `return E`", f.src(x.Init), f.src(x.Cond))
	}
	io := f.g.inOutFor(key)
	if sig.Variadic() || c.Ellipsis.IsValid() {
		f.fail("variadic call `%s`", f.src(c))
	}
	ioArgs := f.inOutArgs(c, fn, io)
	for k, a := range ioArgs {
		if a == nil {
			f.fail("in-out parameter `%s` of `%s` has no argument in `%s`", io[k], key, f.src(c))
		}
		if !f.effPlace(a) {
			f.fail("`%s` is handed to `%s`, which writes through it, and is not reachable from an in-out parameter", f.src(a), key)
		}
	}
	var args []string
	if sig.Recv() != nil {
		se, ok := ast.Unparen(c.Fun).(*ast.SelectorExpr)
		if !ok {
			f.fail("method expression `%s`", f.src(c))
		}
		sel := f.g.info.Selections[se]
		if sel == nil || sel.Kind() != types.MethodVal || len(sel.Index()) != 1 {
			f.fail("method call `%s`", f.src(c))
		}
		args = append(args, f.recvArg(c, se, sel, fn, false))
	}
	args = append(args, f.callArgs(fn, c.Args, false)...)
	f.dep(key)
	f.note(&f.g.effFacts().calls, f.src(c))
	f.note(&f.g.errFacts().calls, f.src(x.Init)+"; "+f.src(x.Cond)+" { "+f.src(rs)+" }")
	callTerm := strings.Join(append([]string{f.g.callHead(key)}, args...), " ")
	ename := f.names[eobj]
	f.eff.errVars[eobj] = true
	thrown := f.errExpr(rs.Results[0])
	delete(f.eff.errVars, eobj)
	t := f.fresh("t")
	var out []string
	if thrown == ename {
		out = append(out, fmt.Sprintf("%slet %s ← %s", g2lInd(ind), t, callTerm))
	} else {
		out = append(out, fmt.Sprintf("%slet %s ← Except.mapError (fun %s => %s) (%s)", g2lInd(ind), t, ename, thrown, callTerm))
	}
	n := len(io)
	proj := func(i int) string {
		if n == 1 {
			return t
		}
		return g2lProj(t, i, n)
	}
	for k, a := range ioArgs {
		val := proj(k)
		if g2lIsPtr(f.typeOf(a)) {
			idx := -1
			if r := sig.Recv(); r == nil || r.Name() != io[k] {
				for i := 0; i < sig.Params().Len(); i++ {
					if sig.Params().At(i).Name() == io[k] {
						idx = i
					}
				}
			}
			out = append(out, f.storePtr(a, val, f.g.paramIsVal(fn, idx), ind)...)
		} else {
			out = append(out, f.assignTo(a, val, false, ind)...)
		}
	}
	return out, true
}

// addrOfEff: `&T{…}` is a fresh pointee.
func (f *g2lFn) addrOfEff(x *ast.UnaryExpr) (string, bool) {
	if f.eff == nil || !f.g.errFnOn() {
		return "", false
	}
	if cl, ok := ast.Unparen(x.X).(*ast.CompositeLit); ok && g2lKindOf(f.typeOf(cl)) == kStruct {
		return "some " + g2lPar(f.composite(cl)), true
	}
	return "", false
}

// addrSafeLimit: the end of the innermost block around `&x` when that block
// ends in a return and holds no break / continue / goto (0 otherwise): later
// assignments beyond it cannot be reached once the `&x` has been evaluated.
func (f *g2lFn) addrSafeLimit(stack []ast.Node) (token.Pos, token.Pos) {
	if !f.g.errFnOn() {
		return 0, 0
	}
	for i := len(stack) - 1; i >= 0; i-- {
		b, ok := stack[i].(*ast.BlockStmt)
		if !ok {
			continue
		}
		if len(b.List) == 0 {
			return 0, 0
		}
		if _, isRet := b.List[len(b.List)-1].(*ast.ReturnStmt); !isRet {
			return 0, 0
		}
		if g2lHasBranch(b.List, token.BREAK) || g2lHasBranch(b.List, token.CONTINUE) || g2lHasBranch(b.List, token.GOTO) {
			return 0, 0
		}
		return b.Pos(), b.End()
	}
	return 0, 0
}

func (g *g2l) headerErr() string {
	if !g.errFnOn() || len(g.errFacts().fns) == 0 {
		return ""
	}
	return "  Error functions (go2lean_errfn.go):\n" +
		"  * a function whose only result is `error` is a definition in Except " + g.cfg.ErrType + "\n" +
		"    that returns its in-out parameters (errorFunctions): `return nil` returns them,\n" +
		"    `return E` throws.  What the Go function wrote through its in-out parameters\n" +
		"    before it returned a non-nil error is NOT part of the result.\n" +
		"  * error values: fmt.Errorf / errors.New with a constant format (the arguments are\n" +
		"    dropped: errorMessages), a one-entry validation.Errors literal, or the variable of\n" +
		"    `if err := f(…); err != nil { return E }` — the only form in which an error\n" +
		"    function is called (errorCalls); such a return may stand inside an effect loop.\n" +
		"  * &T{…} is some {…}; &x may be followed in the source by assignments to x that\n" +
		"    control cannot reach (the block around &x ends in a return).\n"
}

func (g *g2l) emitErrFacts(w func(string, ...any), okUnits map[string]bool) {
	if !g.errFnOn() {
		return
	}
	e := g.errFacts()
	defer delete(g2lErrOf, g)
	if len(e.fns) == 0 {
		return
	}
	w("/-- functions whose only result is `error`: Except-valued, the writes before an error return are forgotten -/\ndef errorFunctions : List String := [")
	first := true
	for _, k := range e.fns {
		if !okUnits[k] {
			continue
		}
		if !first {
			w(", ")
		}
		first = false
		w("%s", leanStr(k))
	}
	w("]\n\n")
	pairs := func(name, doc string, xs [][2]string) {
		w("/-- %s -/\ndef %s : List (String × String) := [", doc, name)
		first := true
		for _, p := range xs {
			if !okUnits[p[0]] {
				continue
			}
			if !first {
				w(", ")
			}
			first = false
			w("(%s, %s)", leanStr(p[0]), leanStr(p[1]))
		}
		w("]\n\n")
	}
	pairs("errorMessages", "error values built from a constant format (function, call): the arguments are dropped", e.msgs)
	pairs("errorCalls", "calls of error functions (function, statement)", e.calls)
	w("/-- the Lean type of errors and the templates of the two constructors (message, nested under a key) -/\ndef errorType : String × String × String := (%s, %s, %s)\n\n", leanStr(g.cfg.ErrType), leanStr(g.cfg.ErrMsg), leanStr(g.cfg.ErrAt))
}
