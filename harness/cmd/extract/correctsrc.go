package main

// CorrectSrc (C16): the decision logic of correcting an invoice TRANSLATED to
// Lean by go2lean on every run, one namespace per Go package:
//
//	GoblVerif.Generated.CorrectSrc.Tax   /repo/tax/corrections.go   (*CorrectionDefinition).Merge
//	GoblVerif.Generated.CorrectSrc.Bill  /repo/bill/invoice_correct.go (*Invoice).validatePrecedingData
//
// Props/C16.lean (namespace Src) proves them equal to `CorrectionDef.merge` /
// `mergeOpt` and to the refusal part of `Invoice.correctCore` of
// Model/Correct.lean.  Primitives (trusted; Model/CorrectSrcPrims.lean):
//
//	cbc.Key.In(xs...)   membership in the list
//	cbc.Key.String      the identity
//	fmt.Errorf, errors.New   an error is its FORMAT / message text (the arguments are dropped)
//
// What is NOT translated (stays on the pins of Generated/CorrectionFacts and on
// the differential run): Invoice.Correct itself (option closures, cal.Today,
// the final Calculate), prepareCorrectionOptions (calls of function values,
// json.Unmarshal), correctionDef (the regime / addon registries),
// Envelope.Correct / Replicate (Document.Clone, Object.Correct are interface
// dispatch).

import (
	"fmt"
	"strings"
)

const corrSrcNS = "GoblVerif.Generated.CorrectSrc"

const corrStubFmt = `package fmt
func Errorf(format string, a ...any) error
func Sprintf(format string, a ...any) string
`

func correctSrcTaxConfig() *G2LConfig {
	cfg := &G2LConfig{
		Repo:      *repo,
		Module:    "github.com/invopop/gobl",
		Pkg:       "tax",
		Tags:      []string{"verif"},
		Namespace: corrSrcNS + ".Tax",
		Title:     "fragment",
		Structs: map[string]G2LStruct{
			"CorrectionDefinition": {Lean: "CorrectionDefinition", Emit: true, Deriving: []string{"DecidableEq", "Repr", "Inhabited"}},
		},
		Named: map[string]string{"cbc.Key": "String"},
		Funcs: []G2LFunc{{Name: "CorrectionDefinition.Merge"}},
	}
	return G2LEnvRegister(cfg, &G2LEnvOpts{PtrWrites: true, Variadic: true})
}

func correctSrcBillConfig() *G2LConfig {
	cfg := &G2LConfig{
		Repo:      *repo,
		Module:    "github.com/invopop/gobl",
		Pkg:       "bill",
		Tags:      []string{"verif"},
		Namespace: corrSrcNS + ".Bill",
		Title:     "fragment",
		Structs: map[string]G2LStruct{
			"tax.CorrectionDefinition": {Lean: corrSrcNS + ".Tax.CorrectionDefinition"},
			"head.Stamp":               {Lean: "Stamp", Emit: true, Deriving: []string{"DecidableEq", "Repr", "Inhabited"}},
			"CorrectionOptions":        {Lean: "CorrectionOptions", Emit: true, Fields: map[string]string{"Type": "Type_"}, Deriving: []string{"DecidableEq", "Repr", "Inhabited"}},
			"org.DocumentRef":          {Lean: "DocumentRef", Emit: true, Fields: map[string]string{"Type": "Type_"}, Deriving: []string{"DecidableEq", "Repr", "Inhabited"}},
			"Invoice":                  {Lean: "Invoice", Emit: true, Fields: map[string]string{"Type": "Type_"}},
		},
		Named: map[string]string{
			"cbc.Key":  "String",
			"cbc.Code": "String",
			"error":    "Option String",
		},
		Prims: map[string]string{
			"cbc.Key.In":     "decide ({0} ∈ {1})",
			"cbc.Key.String": "{0}",
			"fmt.Errorf":     "(some {0:lit} : Option String)",
			"errors.New":     "(some {0:lit} : Option String)",
		},
		Stubs: map[string]string{"fmt": corrStubFmt, "errors": envSrcStubErrors},
		Funcs: []G2LFunc{{Name: "Invoice.validatePrecedingData", InOut: []string{"pre"}}},
	}
	return G2LEnvRegister(cfg, &G2LEnvOpts{PtrWrites: true, Variadic: true})
}

func correctSrcText() string {
	var sb strings.Builder
	sb.WriteString("/-\n  CorrectSrc: (*tax.CorrectionDefinition).Merge of /repo/tax/corrections.go and\n  (*bill.Invoice).validatePrecedingData of /repo/bill/invoice_correct.go translated from Go,\n  one namespace per package.\n\n")
	sb.WriteString(g2lHeader)
	sb.WriteString(G2LEnvHeader)
	sb.WriteString("-/\n\nset_option linter.unusedVariables false\n\n")
	for _, p := range []struct {
		ns  string
		cfg *G2LConfig
		fns []string
	}{
		{"Tax", correctSrcTaxConfig(), []string{"CorrectionDefinition.Merge"}},
		{"Bill", correctSrcBillConfig(), []string{"Invoice.validatePrecedingData"}},
	} {
		text, err := G2LRun(p.cfg)
		frag, ok := "", false
		if err == nil {
			frag, ok = g2lFragment(text, p.cfg.Namespace)
		}
		if !ok {
			// never keep a stale translation: the obligations of Props/C16 must fail
			reason := "no namespace block"
			if err != nil {
				reason = err.Error()
			}
			frag = fmt.Sprintf("namespace %s\n-- the package could not be loaded: %s\ndef untranslated : List String := %s\ndef translated : List String := []\nend %s\n",
				p.cfg.Namespace, g2lComment(g2lOneLine(reason)), leanStrList(p.fns), p.cfg.Namespace)
		}
		fmt.Fprintf(&sb, "/-! # %s -/\n\n%s\n", p.cfg.Pkg, frag)
	}
	return sb.String()
}

func init() {
	register(func() (string, string, error) {
		return "CorrectSrc", correctSrcText(), nil
	})
}
