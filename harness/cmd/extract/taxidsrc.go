package main

// TaxIdSrc (C13): the tax-identity checkers of /repo/regimes/<cc>/tax_identity.go
// (nl, pt: tax_code.go) and regimes/common/luhn.go TRANSLATED to Lean by go2lean
// (with the string extension go2lean_string.go) on every run.  One Go package
// becomes one namespace GoblVerif.Generated.TaxIdSrc.<CC>.  Props/C13.lean
// (namespace Src) proves the definitions equal to the hand-written models of
// Model/TaxId.lean, so the theorems of C13 are re-checked against what the code
// says now; what the subset does not reach is listed in `untranslated`, which
// Props pins (it can only shrink).

import (
	"fmt"
	"strings"
)

const taxIdSrcNS = "GoblVerif.Generated.TaxIdSrc"

const (
	g2lStr    = "GoblVerif.GoStr.Str"
	g2lErrTy  = "Option GoblVerif.GoStr.Str"
	g2lAnyTy  = "Option GoblVerif.GoStr.Str"
	g2lReType = "String"
)

const taxIdStubErrors = `package errors
func New(text string) error
`
const taxIdStubFmt = `package fmt
func Sprintf(format string, a ...any) string
func Errorf(format string, a ...any) error
`
const taxIdStubStrconv = `package strconv
func Atoi(s string) (int, error)
func Itoa(i int) string
func ParseInt(s string, base int, bitSize int) (int64, error)
func FormatInt(i int64, base int) string
`
const taxIdStubRegexp = `package regexp
type Regexp struct{}
func MustCompile(str string) *Regexp
func (re *Regexp) MatchString(s string) bool
func (re *Regexp) FindStringSubmatch(s string) []string
func (re *Regexp) SubexpNames() []string
func (re *Regexp) ReplaceAllString(src, repl string) string
`
const taxIdStubUnicode = `package unicode
func IsDigit(r rune) bool
`
const taxIdStubStrings = `package strings
func HasPrefix(s, prefix string) bool
func Index(s, substr string) int
func ToUpper(s string) string
func TrimPrefix(s, prefix string) string
`
const taxIdStubMath = `package math
func Mod(x, y float64) float64
func Floor(x float64) float64
`

// taxIdSrcPkg describes one package of the run.
type taxIdSrcPkg struct {
	dir   string // under regimes/
	ns    string // namespace suffix
	funcs []G2LFunc
	vars  []string
	prims map[string]string // additional primitives (cross-package calls)
}

func taxIdSrcPkgs() []taxIdSrcPkg {
	luhn := map[string]string{"common.ComputeLuhnCheckDigit": taxIdSrcNS + ".Common.ComputeLuhnCheckDigit {0}"}
	return []taxIdSrcPkg{
		{dir: "common", ns: "Common", funcs: []G2LFunc{{Name: "ComputeLuhnCheckDigit", Fuel: []string{"number.length"}}}},
		{dir: "pl", ns: "PL", funcs: []G2LFunc{{Name: "validateNIPChecksum"}, {Name: "validateTaxCode"}}},
		{dir: "pt", ns: "PT", funcs: []G2LFunc{{Name: "validateTaxCode", Fuel: []string{"9"}}}},
		{dir: "nl", ns: "NL", funcs: []G2LFunc{{Name: "mod11", Fuel: []string{"8"}}, {Name: "checkMod97"}, {Name: "validateDigits"}, {Name: "validateTaxCode"}}},
		{dir: "it", ns: "IT", funcs: []G2LFunc{{Name: "validateTaxCode"}}, prims: luhn},
		{dir: "fr", ns: "FR", funcs: []G2LFunc{{Name: "calculateVATCheckDigit"}, {Name: "validateVATTaxCode"}, {Name: "validateSIRENTaxCode"}}, prims: luhn},
		{dir: "de", ns: "DE", funcs: []G2LFunc{{Name: "validateTaxCodeChecksum", Fuel: []string{"8"}}, {Name: "validateTaxCode"}}},
		{dir: "co", ns: "CO", funcs: []G2LFunc{{Name: "validateDigits"}, {Name: "validateTaxCode"}}},
		{dir: "gr", ns: "GR", funcs: []G2LFunc{{Name: "hasValidChecksum", Fuel: []string{"8"}}, {Name: "validateTaxCode"}}},
		{dir: "br", ns: "BR", funcs: []G2LFunc{{Name: "verifyDigit", Fuel: []string{"weights.length"}}, {Name: "validateTaxCode"}}},
		{dir: "in", ns: "IN", funcs: []G2LFunc{{Name: "charToValue"}, {Name: "valueToChar"}, {Name: "hasValidChecksum"}, {Name: "validateTaxCode"}}},
		{dir: "gb", ns: "GB", funcs: []G2LFunc{{Name: "governmentDepartmentCheck"}, {Name: "healthAuthorityCheck"},
			{Name: "commercialCheck", Fuel: []string{"Int.toNat checkDigit"}}, {Name: "validateTaxCode"}}},
		{dir: "ae", ns: "AE", funcs: []G2LFunc{{Name: "validateTRNCode"}}},
		{dir: "at", ns: "AT", funcs: []G2LFunc{{Name: "commercialCheck"}, {Name: "validateTaxCode"}}},
		{dir: "be", ns: "BE", funcs: []G2LFunc{{Name: "commercialCheck"}, {Name: "validateTaxCode"}}},
		{dir: "ch", ns: "CH", funcs: []G2LFunc{{Name: "commercialCheck"}, {Name: "validateTaxCode"}}},
		{dir: "mx", ns: "MX", funcs: []G2LFunc{{Name: "DetermineTaxCodeType"}, {Name: "ValidateTaxCode"}}},
		{dir: "es", ns: "ES", funcs: []G2LFunc{{Name: "verifyOrgCodeMatches"}, {Name: "verifyNationalCode"}, {Name: "verifyForeignCode"},
			{Name: "verifyOrgCode"}, {Name: "verifyOtherCode"}, {Name: "DetermineTaxCodeType"}, {Name: "validateTaxCode"}}},
	}
}

func taxIdSrcConfig(p taxIdSrcPkg) *G2LConfig {
	prims := map[string]string{
		"cbc.Code.String":           "{0}",
		"cbc.Key.String":            "{0}",
		"cbc.Key.IsEmpty":           "decide ({0} = ([] : " + g2lStr + "))",
		"errors.New":                "GoblVerif.GoStr.errNew {0:lit}",
		"strconv.Atoi":              "GoblVerif.GoStr.atoi {0}",
		"strconv.ParseInt":          "GoblVerif.GoStr.atoi {0}",
		"strconv.Itoa":              "GoblVerif.GoStr.itoa {0}",
		"strconv.FormatInt":         "GoblVerif.GoStr.itoa {0}",
		"unicode.IsDigit":           "GoblVerif.GoStr.isDigitRune {0}",
		"strings.HasPrefix":         "GoblVerif.GoStr.hasPrefix {0} {1}",
		"strings.Index":             "GoblVerif.GoStr.index {0} {1}",
		"regexp.MustCompile":        "{0:lit}",
		"regexp.Regexp.MatchString": "GoblVerif.TaxId.Re.reMatch {0} {1}",
		"math.Mod":                  "GoblVerif.GoMath.fmod {0} {1}",
		"math.Floor":                "GoblVerif.GoMath.ffloor {0}",
	}
	for k, v := range p.prims {
		prims[k] = v
	}
	return &G2LConfig{
		Repo:      *repo,
		Module:    "github.com/invopop/gobl",
		Pkg:       "regimes/" + p.dir,
		Tags:      []string{"verif"},
		Namespace: taxIdSrcNS + "." + p.ns,
		Title:     "fragment",
		Basic:     map[string]string{"string": g2lStr, "untyped string": g2lStr, "byte": "Nat", "rune": "Int"},
		Named: map[string]string{
			"cbc.Code":       g2lStr,
			"cbc.Key":        g2lStr,
			"error":          g2lErrTy,
			"interface{}":    g2lAnyTy,
			"*regexp.Regexp": g2lReType,
		},
		Prims: prims,
		Stubs: map[string]string{
			"errors": taxIdStubErrors, "fmt": taxIdStubFmt, "strconv": taxIdStubStrconv, "regexp": taxIdStubRegexp,
			"unicode": taxIdStubUnicode, "strings": taxIdStubStrings, "math": taxIdStubMath,
		},
		Funcs: p.funcs,
		Vars:  p.vars,
	}
}

// g2lFragment cuts the module text of one run down to its namespace block.
func g2lFragment(text, ns string) (string, bool) {
	i := strings.Index(text, "\nnamespace "+ns+"\n")
	if i < 0 {
		return "", false
	}
	return text[i+1:], true
}

func taxIdSrcText() string {
	var sb strings.Builder
	sb.WriteString("/-\n  TaxIdSrc: the tax-identity checkers of /repo/regimes/*/tax_identity.go, nl|pt/tax_code.go and\n  regimes/common/luhn.go translated from Go, one namespace per package.\n\n")
	sb.WriteString(g2lHeader)
	sb.WriteString(G2LStringHeader)
	sb.WriteString("\n-/\nimport GoblVerif.Model.GoMath\nimport GoblVerif.Model.GoStr\nimport GoblVerif.Model.TaxIdRe\n\nset_option linter.unusedVariables false\n\n")
	var nss []string
	luhnOK := false
	for _, p := range taxIdSrcPkgs() {
		if !luhnOK {
			// a caller of the Luhn function can only be translated when that function was
			delete(p.prims, "common.ComputeLuhnCheckDigit")
		}
		cfg := taxIdSrcConfig(p)
		text, err := G2LRun(cfg)
		frag, ok := "", false
		if err == nil {
			frag, ok = g2lFragment(text, cfg.Namespace)
		}
		if !ok {
			// never keep a stale translation: the obligations of Props/C13 must fail
			reason := "no namespace block"
			if err != nil {
				reason = err.Error()
			}
			var names []string
			for _, f := range p.funcs {
				names = append(names, f.Name)
			}
			frag = fmt.Sprintf("namespace %s\n-- the package regimes/%s could not be loaded: %s\ndef untranslated : List String := %s\ndef translated : List String := []\ndef fuelChecks : List String := []\ndef natSubs : List (String × String × List String) := []\nend %s\n",
				cfg.Namespace, p.dir, g2lComment(g2lOneLine(reason)), leanStrList(names), cfg.Namespace)
		}
		if p.dir == "common" && strings.Contains(frag, "\ndef ComputeLuhnCheckDigit ") {
			luhnOK = true
		}
		fmt.Fprintf(&sb, "/-! # regimes/%s -/\n\n%s\n", p.dir, frag)
		nss = append(nss, p.ns)
	}
	// the bookkeeping of all packages, qualified by the package
	fmt.Fprintf(&sb, "namespace %s\n\n", taxIdSrcNS)
	q := func(field string) string {
		var parts []string
		for _, ns := range nss {
			parts = append(parts, fmt.Sprintf("%s.%s.map (%s ++ ·)", ns, field, leanStr(strings.ToLower(ns)+".")))
		}
		return strings.Join(parts, " ++\n  ")
	}
	fmt.Fprintf(&sb, "/-- the packages translated, in order -/\ndef packages : List String := %s\n\n", leanStrList(nss))
	fmt.Fprintf(&sb, "/-- functions the translator was asked for (or met as callees) and could not translate, `package.function` -/\ndef untranslated : List String :=\n  %s\n\n", q("untranslated"))
	fmt.Fprintf(&sb, "/-- what was translated -/\ndef translated : List String :=\n  %s\n\n", q("translated"))
	fmt.Fprintf(&sb, "/-- the `_fuelOK` twins (each needs a theorem `∀ args, … = true`) -/\ndef fuelChecks : List String :=\n  %s\n\n", q("fuelChecks"))
	var parts []string
	for _, ns := range nss {
		parts = append(parts, fmt.Sprintf("%s.natSubs.map (fun x => (%s ++ x.1, x.2.1, x.2.2))", ns, leanStr(strings.ToLower(ns)+".")))
	}
	fmt.Fprintf(&sb, "/-- every subtraction on an unsigned type (bytes: `val[i] - '0'`), truncated here, wrapping in Go -/\ndef natSubs : List (String × String × List String) :=\n  %s\n\n", strings.Join(parts, " ++\n  "))
	fmt.Fprintf(&sb, "end %s\n", taxIdSrcNS)
	return sb.String()
}

func init() {
	register(func() (string, string, error) {
		return "TaxIdSrc", taxIdSrcText(), nil
	})
}
