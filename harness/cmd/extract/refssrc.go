package main

// RefsSrc (C18): the LEAF PREDICATES of /repo/cbc and /repo/tax that implement the
// generic reference rules — cbc.Key.Has / In / HasPrefix, hasKeyRule.Validate
// (HasValidKeyIn), cbc.Definition.HasCode / CodeDef / HasKey / KeyDef,
// GetKeyDefinition; tax.inCategoryRatesRule.Validate, (*RegimeDef).CategoryDef,
// tagValidation.Validate (TagsIn), Tags.HasTags, TagSetForSchema, (*TagSet).Keys,
// addonValidation.Validate (AddonRegistered), Regime.Validate,
// validateExtCodeValues.Validate (ExtensionsHasCodes), validateExtCodeMap.Validate
// (ExtensionsHas / Require / Exclude), Extensions.Validate — TRANSLATED to Lean by
// go2lean (string mode, go2lean_string.go) on every run, one namespace per package:
// GoblVerif.Generated.RefsSrc.Cbc / .Tax.  Props/C18.lean (namespace Src) proves each
// definition equal to the predicate of Model/Refs.lean it implements, for all
// arguments; what the subset does not reach is listed in `untranslated`, which Props
// pins.  The rules built from ozzo-validation combinators (validation.Field, In, Each,
// When, Skip, Empty) are NOT translated: where the leaves are applied stays on the
// pins of Generated/RefsFacts and RefsCtxFacts.
//
// Declared primitives (Model/RefsSrc.lean states what each stands for):
//
//	strings.Split / SplitN      Refs.Src.split / splitN (non-empty separator)
//	tax.ExtensionForKey         Registry.extensionForKey   } the package-level registries,
//	tax.AddonForKey != nil      Registry.addonDefined      } an instance-implicit parameter
//	Regime.RegimeDef != nil     Registry.regimeDefined     } of the functions that read them
//	regexp.Compile              Refs.Src.reCompile (never fails; a regexp is its pattern text)
//	(*Regexp).MatchString       the parameter `pm` of the model (Refs.PatternMatch), here the
//	                            section variable `reMatch`
//	cbc.Key.Validate, validation.Validate(ev, Required)   key / code SYNTAX: section variables
//	                            `keySyntax`, `codeSyntax` (C11's business)
//	validation.Errors           map[string]error → association list; as an `error` it is
//	                            non-nil (only returned behind `len(err) > 0`)
//	l10n.TaxCountryCode.Empty / Code / String   identity on the code text
//
// Cross-package calls from tax into cbc (Key.Has, Key.In, Key.String, Definition.HasCode)
// refer to the definitions generated for cbc in the same file.

import (
	"fmt"
	"strings"
)

const refsSrcNS = "GoblVerif.Generated.RefsSrc"

const refsStubStrings = `package strings
func Split(s, sep string) []string
func SplitN(s, sep string, n int) []string
func Join(elems []string, sep string) string
func HasPrefix(s, prefix string) bool
func Index(s, substr string) int
func ToUpper(s string) string
func ToLower(s string) string
func TrimSpace(s string) string
func TrimPrefix(s, prefix string) string
func ReplaceAll(s, old, new string) string
`

const refsStubValidation = `package validation
import "context"
type Rule interface{ Validate(value interface{}) error }
type RuleWithContext interface{ ValidateWithContext(ctx context.Context, value interface{}) error }
type Errors map[string]error
func (es Errors) Error() string
type Error interface{ Error() string }
type FieldRules struct{}
type RequiredRule struct{}
func (r RequiredRule) Validate(value interface{}) error
func (r RequiredRule) Error(message string) RequiredRule
var Required RequiredRule
type absentRule struct{}
func (r absentRule) Validate(value interface{}) error
func (r absentRule) Error(message string) absentRule
var Empty absentRule
var Nil absentRule
type skipRule struct{}
func (r skipRule) Validate(value interface{}) error
var Skip skipRule
type InRule struct{}
func (r InRule) Validate(value interface{}) error
func (r InRule) Error(message string) InRule
func In(values ...interface{}) InRule
type EachRule struct{}
func (r EachRule) Validate(value interface{}) error
func Each(rules ...Rule) EachRule
type MatchRule struct{}
func (r MatchRule) Validate(value interface{}) error
func (r MatchRule) Error(message string) MatchRule
type LengthRule struct{}
func (r LengthRule) Validate(value interface{}) error
func Length(min, max int) LengthRule
type WhenRule struct{}
func (r WhenRule) Validate(value interface{}) error
func (r WhenRule) Else(rules ...Rule) WhenRule
func When(condition bool, rules ...Rule) WhenRule
func By(f func(value interface{}) error) Rule
func Validate(value interface{}, rules ...Rule) error
func ValidateWithContext(ctx context.Context, value interface{}, rules ...Rule) error
func ValidateStruct(structPtr interface{}, fields ...*FieldRules) error
func ValidateStructWithContext(ctx context.Context, structPtr interface{}, fields ...*FieldRules) error
func Field(fieldPtr interface{}, rules ...Rule) *FieldRules
func NewError(code, message string) Error
`

type refsSrcPkg struct {
	dir     string
	ns      string
	cfg     func() *G2LConfig
	asked   []string
	preface string // Lean text put before the namespace block
}

func refsSrcBase(pkg, ns string) *G2LConfig {
	return &G2LConfig{
		Repo:      *repo,
		Module:    "github.com/invopop/gobl",
		Pkg:       pkg,
		Tags:      []string{"verif"},
		Namespace: refsSrcNS + "." + ns,
		Title:     "fragment",
		Basic:     map[string]string{"string": g2lStr, "untyped string": g2lStr, "byte": "Nat", "rune": "Int"},
		Stubs: map[string]string{
			"errors": taxIdStubErrors, "fmt": taxIdStubFmt, "strconv": taxIdStubStrconv, "regexp": refsStubRegexp,
			"strings": refsStubStrings, "time": g2lTimeStub, "cloud.google.com/go/civil": ratesCivilStub,
		},
		Maps: true,
	}
}

const refsStubRegexp = `package regexp
type Regexp struct{}
func MustCompile(str string) *Regexp
func Compile(expr string) (*Regexp, error)
func (re *Regexp) MatchString(s string) bool
func (re *Regexp) String() string
`

const refsCDef = "GoblVerif.Refs.Src.CDef"

func refsSrcCbc() *G2LConfig {
	c := G2LEnableRefs(refsSrcBase("cbc", "Cbc"))
	c.Named = map[string]string{
		"Key": g2lStr, "Code": g2lStr, "error": g2lErrTy, "interface{}": g2lAnyTy, "*regexp.Regexp": g2lReType,
	}
	c.Structs = map[string]G2LStruct{
		"Definition": {Lean: refsCDef, Fields: map[string]string{
			"Key": "key", "Code": "code", "Name": "-", "Desc": "-", "Meta": "-", "Sources": "-", "Values": "values", "Pattern": "pattern", "Map": "-"}},
		"hasKeyRule": {Lean: "hasKeyRule", Emit: true, Deriving: []string{"Inhabited"}},
	}
	c.NonNilElems = []string{"[]*Definition"}
	c.Prims = map[string]string{
		"errors.New":         "GoblVerif.GoStr.errNew {0:lit}",
		"strings.Split":      "GoblVerif.Refs.Src.split {0} {1}",
		"strings.SplitN":     "GoblVerif.Refs.Src.splitN {0} {1} {2}",
		"regexp.MustCompile": "{0:lit}",
	}
	c.Vars = []string{"KeySeparator"}
	c.Funcs = []G2LFunc{
		{Name: "Key.String"}, {Name: "Key.Has"}, {Name: "Key.HasPrefix"}, {Name: "Key.In"}, {Name: "Key.IsEmpty"},
		{Name: "hasKeyRule.Validate"},
		{Name: "Definition.CodeDef"}, {Name: "Definition.HasCode"}, {Name: "Definition.KeyDef"}, {Name: "Definition.HasKey"},
		{Name: "GetKeyDefinition"}, {Name: "GetCodeDefinition"},
	}
	return c
}

func refsSrcTax() *G2LConfig {
	c := G2LEnableRefs(refsSrcBase("tax", "Tax"))
	cbc := refsSrcNS + ".Cbc."
	c.Named = map[string]string{
		"cbc.Key": g2lStr, "cbc.Code": g2lStr, "error": g2lErrTy, "*regexp.Regexp": g2lStr,
		"l10n.TaxCountryCode": g2lStr, "l10n.Code": g2lStr,
		"validation.Errors": "List (" + g2lStr + " × " + g2lErrTy + ")",
		"interface{}":       "GoblVerif.Refs.Src.Dyn", "any": "GoblVerif.Refs.Src.Dyn",
		"*AddonDef": "Option Unit",
	}
	c.Structs = map[string]G2LStruct{
		"cbc.Definition": {Lean: refsCDef, Fields: map[string]string{
			"Key": "key", "Code": "code", "Name": "-", "Desc": "-", "Meta": "-", "Sources": "-", "Values": "values", "Pattern": "pattern", "Map": "-"}},
		"TagSet": {Lean: "GoblVerif.Refs.Src.TagSetDef", Fields: map[string]string{"Schema": "schema", "List": "list"}},
		"Tags":   {Lean: "GoblVerif.Refs.Src.TagsVal", Fields: map[string]string{"List": "list"}},
		"RateDef": {Lean: "GoblVerif.Refs.Src.RateD", Fields: map[string]string{
			"Key": "key", "Name": "-", "Description": "-", "Exempt": "-", "Values": "-", "Ext": "-", "Meta": "-"}},
		"CategoryDef": {Lean: "GoblVerif.Refs.Src.CategoryD", Fields: map[string]string{
			"Code": "code", "Name": "-", "Title": "-", "Description": "-", "Retained": "-", "Rates": "rates",
			"Extensions": "-", "Map": "-", "Sources": "-", "Ext": "-", "Meta": "-"}},
		"RegimeDef": {Lean: "GoblVerif.Refs.Src.RegimeD", Fields: map[string]string{
			"Name": "-", "Description": "-", "TimeZone": "-", "Country": "-", "AltCountryCodes": "-", "Zone": "-",
			"Currency": "-", "TaxScheme": "-", "CalculatorRoundingRule": "-", "Tags": "-", "Extensions": "-", "Identities": "-",
			"PaymentMeansKeys": "-", "InboxKeys": "-", "Scenarios": "-", "Corrections": "-", "Categories": "categories",
			"Validator": "-", "Normalizer": "-"}},
		"Regime":                {Lean: "Regime", Emit: true, Deriving: []string{"Inhabited"}},
		"inCategoryRatesRule":   {Lean: "inCategoryRatesRule", Emit: true, Deriving: []string{"Inhabited"}},
		"tagValidation":         {Lean: "tagValidation", Emit: true, Deriving: []string{"Inhabited"}},
		"addonValidation":       {Lean: "addonValidation", Emit: true, Deriving: []string{"Inhabited"}},
		"validateExtCodeValues": {Lean: "validateExtCodeValues", Emit: true, Deriving: []string{"Inhabited"}},
		"validateExtCodeMap":    {Lean: "validateExtCodeMap", Emit: true, Deriving: []string{"Inhabited"}},
	}
	c.NonNilElems = []string{"[]*cbc.Definition", "[]*TagSet", "[]*RateDef", "[]*CategoryDef"}
	c.Prims = map[string]string{
		"errors.New":                 "GoblVerif.GoStr.errNew {0:lit}",
		"cbc.Key.String":             "{0}",
		"cbc.Code.String":            "{0}",
		"cbc.Key.Has":                cbc + "Key_Has {0} {1}",
		"cbc.Key.In":                 cbc + "Key_In {0} {1}",
		"assert cbc.Key":             "GoblVerif.Refs.Src.Dyn.asKey {0}",
		"assert []cbc.Key":           "GoblVerif.Refs.Src.Dyn.asKeys {0}",
		"assert Tags":                "GoblVerif.Refs.Src.Dyn.asTags {0}",
		"assert Extensions":          "GoblVerif.Refs.Src.Dyn.asExt {0}",
		"error validation.Errors":    "GoblVerif.Refs.Src.errorsAsError",
		"AddonForKey":                "(if GoblVerif.Refs.Src.Registry.addonDefined {0} then some () else none : Option Unit)",
		"Regime.RegimeDef":           "(if GoblVerif.Refs.Src.Registry.regimeDefined {0}.Country then some default else none : Option GoblVerif.Refs.Src.RegimeD)",
		"validation.Validate":        "GoblVerif.Refs.Src.validateCode codeSyntax {0} [{1:src}]",
		"cbc.Key.IsEmpty":            cbc + "Key_IsEmpty {0}",
		"cbc.Definition.HasCode":     cbc + "Definition_HasCode ({0}.getD default) {1}",
		"cbc.Key.Validate":           "keySyntax {0}",
		"ExtensionForKey":            "GoblVerif.Refs.Src.Registry.extensionForKey {0}",
		"regexp.Compile":             "GoblVerif.Refs.Src.reCompile {0}",
		"regexp.Regexp.MatchString":  "reMatch {0} {1}",
		"l10n.TaxCountryCode.Empty":  "decide ({0} = ([] : " + g2lStr + "))",
		"l10n.TaxCountryCode.Code":   "{0}",
		"l10n.TaxCountryCode.String": "{0}",
	}
	c.Stubs["github.com/invopop/validation"] = refsStubValidation
	c.Funcs = []G2LFunc{
		{Name: "inCategoryRatesRule.Validate"}, {Name: "RegimeDef.CategoryDef"},
		{Name: "TagSetForSchema"}, {Name: "tagValidation.Validate"},
		{Name: "addonValidation.Validate"}, {Name: "Regime.Validate"},
		{Name: "validateExtCodeValues.Validate"}, {Name: "validateExtCodeMap.Validate"},
		{Name: "Extensions.Validate"},
	}
	return c
}

func refsSrcText() string {
	var sb strings.Builder
	sb.WriteString("/-\n  RefsSrc: the leaf predicates of /repo/cbc (key.go, definition.go) and /repo/tax (regime_def.go,\n  tags.go, addons.go, regime.go, extensions.go) that implement the generic reference rules of C18,\n  translated from Go, one namespace per package.\n\n")
	sb.WriteString(g2lHeader)
	sb.WriteString(refsSrcHeader)
	sb.WriteString("\n" + G2LRefsHeader)
	sb.WriteString("\n-/\nimport GoblVerif.Model.GoStr\nimport GoblVerif.Model.GoSem\nimport GoblVerif.Model.GoSemMap\nimport GoblVerif.Model.RefsSrc\n\nset_option linter.unusedVariables false\n\n")
	sb.WriteString("/- the registries, the regexp matcher and the key / code syntax checks are PARAMETERS of the\n    definitions that use them (Lean adds a section variable to a definition whose body mentions it) -/\n")
	sb.WriteString("variable [reg : GoblVerif.Refs.Src.Registry] (reMatch : GoblVerif.GoStr.Str → GoblVerif.GoStr.Str → Bool)\n  (keySyntax : GoblVerif.GoStr.Str → Option GoblVerif.GoStr.Str) (codeSyntax : GoblVerif.GoStr.Str → Bool)\n\n")
	var nss []string
	for _, p := range []struct {
		dir, ns string
		cfg     *G2LConfig
	}{{"cbc", "Cbc", refsSrcCbc()}, {"tax", "Tax", refsSrcTax()}} {
		text, err := G2LRun(p.cfg)
		frag, ok := "", false
		if err == nil {
			frag, ok = g2lFragment(text, p.cfg.Namespace)
		}
		if !ok {
			reason := "no namespace block"
			if err != nil {
				reason = err.Error()
			}
			var names []string
			for _, f := range p.cfg.Funcs {
				names = append(names, f.Name)
			}
			frag = fmt.Sprintf("namespace %s\n-- the package %s could not be loaded: %s\ndef untranslated : List String := %s\ndef translated : List String := []\ndef fuelChecks : List String := []\ndef natSubs : List (String × String × List String) := []\nend %s\n",
				p.cfg.Namespace, p.dir, g2lComment(g2lOneLine(reason)), leanStrList(names), p.cfg.Namespace)
		}
		fmt.Fprintf(&sb, "/-! # %s -/\n\n%s\n", p.dir, frag)
		nss = append(nss, p.ns)
	}
	fmt.Fprintf(&sb, "namespace %s\n\n", refsSrcNS)
	q := func(field string) string {
		var parts []string
		for _, ns := range nss {
			parts = append(parts, fmt.Sprintf("%s.%s.map (%s ++ ·)", ns, field, leanStr(strings.ToLower(ns)+".")))
		}
		return strings.Join(parts, " ++\n  ")
	}
	fmt.Fprintf(&sb, "def packages : List String := %s\n\n", leanStrList(nss))
	fmt.Fprintf(&sb, "/-- functions the translator was asked for (or met as callees) and could not translate -/\ndef untranslated : List String :=\n  %s\n\n", q("untranslated"))
	fmt.Fprintf(&sb, "def translated : List String :=\n  %s\n\n", q("translated"))
	fmt.Fprintf(&sb, "def fuelChecks : List String :=\n  %s\n\n", q("fuelChecks"))
	fmt.Fprintf(&sb, "end %s\n", refsSrcNS)
	return sb.String()
}

const refsSrcHeader = `  STRINGS: string / cbc.Key / cbc.Code / l10n codes → the List Char of the BYTES
  (go2lean_string.go, Model/GoStr.lean); error → Option Str (nil = none, only nil-ness is
  meant to be observed); interface{} in cbc → Option Str (some k = a cbc.Key k, none =
  any other dynamic type).
  PRIMITIVES (Model/RefsSrc.lean): strings.Split / SplitN = Refs.Src.split / splitN
  (non-empty separator); the registries of /repo/tax (ExtensionForKey, AddonForKey,
  Regimes().For) = the instance-implicit parameter reg : Refs.Src.Registry;
  regexp.Compile = reCompile (never fails, a regexp is its pattern text),
  (*Regexp).MatchString = the parameter reMatch; cbc.Key.Validate and
  validation.Validate(code, Required) = the parameters keySyntax / codeSyntax
  (syntax is C11's business); validation.Errors = an association list.`

func init() {
	register(func() (string, string, error) {
		return "RefsSrc", refsSrcText(), nil
	})
}
