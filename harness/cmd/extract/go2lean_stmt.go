package main

// go2lean, statements and whole functions.  See go2lean.go for the semantics.

import (
	"fmt"
	"go/ast"
	"go/token"
	"go/types"
	"sort"
	"strings"
)

func g2lInd(n int) string { return strings.Repeat("  ", n) }

// ---------------------------------------------------------------- naming of locals

// assignNames gives every parameter and local of fd a Lean name.  Go scopes
// that the translation flattens into one Lean block (bare blocks, the implicit
// scopes of if/switch/for headers) are merged; a name declared again in the
// same or an enclosing Lean block gets a numeric suffix.
func (f *g2lFn) assignNames(fd *ast.FuncDecl) {
	type decl struct {
		obj  types.Object
		path []int
		pos  token.Pos
	}
	var decls []decl
	var path []int
	next := 0
	add := func(id *ast.Ident) {
		if id == nil || id.Name == "_" {
			return
		}
		if o, ok := f.g.info.Defs[id].(*types.Var); ok && o != nil {
			decls = append(decls, decl{o, append([]int{}, path...), id.Pos()})
		}
	}
	fields := func(fl *ast.FieldList) {
		if fl == nil {
			return
		}
		for _, fd := range fl.List {
			for _, n := range fd.Names {
				add(n)
			}
		}
	}
	fields(fd.Recv)
	fields(fd.Type.Params)
	fields(fd.Type.Results)
	var walkBlock func(list []ast.Stmt, newBlock bool)
	var walkStmt func(s ast.Stmt)
	walkBlock = func(list []ast.Stmt, newBlock bool) {
		if newBlock {
			path = append(path, next)
			next++
		}
		for _, s := range list {
			walkStmt(s)
		}
		if newBlock {
			path = path[:len(path)-1]
		}
	}
	walkStmt = func(s ast.Stmt) {
		switch x := s.(type) {
		case *ast.AssignStmt:
			if x.Tok == token.DEFINE {
				for _, l := range x.Lhs {
					if id, ok := l.(*ast.Ident); ok {
						add(id)
					}
				}
			}
		case *ast.DeclStmt:
			if gd, ok := x.Decl.(*ast.GenDecl); ok {
				for _, sp := range gd.Specs {
					if vs, ok := sp.(*ast.ValueSpec); ok {
						for _, n := range vs.Names {
							add(n)
						}
					}
				}
			}
		case *ast.BlockStmt:
			walkBlock(x.List, false)
		case *ast.IfStmt:
			if x.Init != nil {
				walkStmt(x.Init)
			}
			walkBlock(x.Body.List, true)
			if x.Else != nil {
				if eb, ok := x.Else.(*ast.BlockStmt); ok {
					walkBlock(eb.List, true)
				} else {
					// `else if`: its header statement is emitted inside the else branch
					path = append(path, next)
					next++
					walkStmt(x.Else)
					path = path[:len(path)-1]
				}
			}
		case *ast.SwitchStmt:
			if x.Init != nil {
				walkStmt(x.Init)
			}
			for _, c := range x.Body.List {
				if cc, ok := c.(*ast.CaseClause); ok {
					walkBlock(cc.Body, true)
				}
			}
		case *ast.ForStmt:
			if x.Init != nil {
				walkStmt(x.Init)
			}
			path = append(path, next)
			next++
			for _, s := range x.Body.List {
				walkStmt(s)
			}
			if x.Post != nil {
				walkStmt(x.Post)
			}
			path = path[:len(path)-1]
		case *ast.RangeStmt:
			path = append(path, next)
			next++
			if x.Tok == token.DEFINE {
				if id, ok := x.Key.(*ast.Ident); ok {
					add(id)
				}
				if id, ok := x.Value.(*ast.Ident); ok {
					add(id)
				}
			}
			for _, s := range x.Body.List {
				walkStmt(s)
			}
			path = path[:len(path)-1]
		case *ast.LabeledStmt:
			walkStmt(x.Stmt)
		}
	}
	if fd.Body != nil {
		walkBlock(fd.Body.List, false)
	}
	sort.SliceStable(decls, func(i, j int) bool { return decls[i].pos < decls[j].pos })
	prefix := func(a, b []int) bool {
		if len(a) > len(b) {
			return false
		}
		for i := range a {
			if a[i] != b[i] {
				return false
			}
		}
		return true
	}
	all := map[string]bool{}
	for _, d := range decls {
		all[d.obj.Name()] = true
	}
	used := map[string]bool{}
	for i, d := range decls {
		base := g2lIdent(d.obj.Name())
		clash := 0
		for j := 0; j < i; j++ {
			if decls[j].obj.Name() == d.obj.Name() && (prefix(decls[j].path, d.path) || prefix(d.path, decls[j].path)) {
				clash++
			}
		}
		name := base
		for k := clash; ; k++ {
			if k > 0 {
				name = fmt.Sprintf("%s_%d", base, k)
			}
			// the plain name may be reused in a disjoint block; a suffixed one must be new
			if k == 0 || (!all[name] && !used[name]) {
				break
			}
		}
		used[name] = true
		f.names[d.obj] = name
	}
}

// findMutated records every local that is assigned after its declaration.
func (f *g2lFn) findMutated(fd *ast.FuncDecl) {
	mark := func(e ast.Expr) {
		for {
			switch x := e.(type) {
			case *ast.ParenExpr:
				e = x.X
				continue
			case *ast.SelectorExpr:
				e = x.X
				continue
			case *ast.IndexExpr:
				e = x.X
				continue
			}
			break
		}
		if id, ok := e.(*ast.Ident); ok {
			if o := f.g.info.Uses[id]; o != nil {
				f.mutated[o] = true
			}
		}
	}
	ast.Inspect(fd.Body, func(n ast.Node) bool {
		switch x := n.(type) {
		case *ast.AssignStmt:
			for _, l := range x.Lhs {
				if x.Tok == token.DEFINE {
					if id, ok := l.(*ast.Ident); ok && f.g.info.Defs[id] != nil {
						continue
					}
				}
				mark(l)
			}
		case *ast.IncDecStmt:
			mark(x.X)
		case *ast.ExprStmt:
			f.markExprStmt(x) // go2lean_buffer.go
		case *ast.RangeStmt:
			if x.Tok == token.ASSIGN {
				if x.Key != nil {
					mark(x.Key)
				}
				if x.Value != nil {
					mark(x.Value)
				}
			}
		}
		return true
	})
	f.findMutatedEnv(fd) // go2lean_env.go
}

// ---------------------------------------------------------------- statements

func (f *g2lFn) block(list []ast.Stmt, ind int) []string {
	var out []string
	for _, s := range list {
		out = append(out, f.stmt(s, ind)...)
	}
	if len(out) == 0 {
		out = append(out, g2lInd(ind)+"pure ()")
	}
	return out
}

func (f *g2lFn) letLine(ind int, obj types.Object, name string, t types.Type, val string) string {
	mut := ""
	if f.mutated[obj] {
		mut = "mut "
	}
	return fmt.Sprintf("%slet %s%s : %s := %s", g2lInd(ind), mut, name, f.leanVar(obj, t), val)
}

// proj gives the i-th component of an n-tuple held in variable t.
func g2lProj(t string, i, n int) string {
	s := t
	for k := 0; k < i; k++ {
		s += ".2"
	}
	if i < n-1 {
		s += ".1"
	}
	return s
}

// assignTo emits the assignment of the Lean term val to the Go left-hand side l.
func (f *g2lFn) assignTo(l ast.Expr, val string, define bool, ind int) []string {
	l = ast.Unparen(l)
	if out, ok := f.assignEff(l, val, ind); ok { // go2lean_effects.go: through pointer-typed places
		return out
	}
	switch x := l.(type) {
	case *ast.Ident:
		if x.Name == "_" {
			return nil
		}
		if define {
			if o, ok := f.g.info.Defs[x].(*types.Var); ok && o != nil {
				return []string{f.letLine(ind, o, f.names[o], o.Type(), val)}
			}
		}
		o, ok := f.g.info.Uses[x].(*types.Var)
		if !ok || f.names[o] == "" {
			f.fail("assignment to `%s` (not a local of this function)", x.Name)
		}
		return append([]string{fmt.Sprintf("%s%s := %s", g2lInd(ind), f.names[o], val)}, f.afterIdentAssign(o, ind)...) // go2lean_own.go: cursors write back
	case *ast.SelectorExpr:
		// x.f = v  ⇒  x = { x with f := v }   (x a struct VALUE, possibly itself a field or element)
		xt := f.typeOf(x.X)
		if out, ok := f.ptrFieldAssign(x, val, ind); ok { // go2lean_env.go
			return out
		}
		if g2lKindOf(xt) != kStruct && !f.inOutBase(x.X) && !(g2lIsPtr(xt) && f.ownWritable(x.X)) { // go2lean_own.go
			f.fail("assignment to `%s` (only fields of struct values; through a pointer the callee's caller would see it)", f.src(l))
		}
		n := f.namedOf(xt)
		if n == nil {
			f.fail("assignment to `%s`", f.src(l))
		}
		if sel := f.g.info.Selections[x]; sel == nil || sel.Kind() != types.FieldVal || len(sel.Index()) != 1 {
			f.fail("assignment to `%s`", f.src(l))
		}
		base, wrap := f.updateBase(x.X) // go2lean_own.go: the pointee of a pointer on a writable path
		return f.assignThrough(x.X, wrap(fmt.Sprintf("{ %s with %s := %s }", base, f.fieldLean(n, x.Sel.Name), val)), ind)
	case *ast.IndexExpr:
		// x[i] = v  ⇒  x = x.set i v   (x an ARRAY value; slices alias their backing array)
		if out, ok := f.mapAssign(x, val, ind); ok {
			return out
		}
		if _, isArr := f.typeOf(x.X).Underlying().(*types.Array); !isArr && !f.localSliceOK(x.X) && !f.ownWritable(x.X) { // go2lean_string.go, go2lean_own.go
			f.fail("assignment to an element of `%s` (not an array value: slices alias their backing array)", f.src(x.X))
		}
		i := f.expr(x.Index)
		if g2lKindOf(f.typeOf(x.Index)) == kInt {
			i = "Int.toNat " + g2lPar(i)
		}
		return f.assignThrough(x.X, fmt.Sprintf("%s.set %s %s", g2lPar(f.expr(x.X)), g2lPar(i), g2lPar(val)), ind)
	}
	if out, ok := f.assignOther(l, val, ind); ok { // go2lean_own.go: *p = v
		return out
	}
	if sx, ok := l.(*ast.StarExpr); ok { // go2lean_codec.go
		if out, ok := f.starAssign(sx, val, ind); ok {
			return out
		}
	}
	f.fail("assignment to `%s`", f.src(l))
	return nil
}

func (f *g2lFn) assign(x *ast.AssignStmt, ind int) []string {
	define := x.Tok == token.DEFINE
	if out, ok := f.outArgAssign(x, define, ind); ok { // go2lean_codec.go
		return out
	}
	switch {
	case x.Tok != token.ASSIGN && !define:
		// op=
		if len(x.Lhs) != 1 || len(x.Rhs) != 1 {
			f.fail("`%s`", f.src(x))
		}
		op, ok := map[token.Token]token.Token{
			token.ADD_ASSIGN: token.ADD, token.SUB_ASSIGN: token.SUB, token.MUL_ASSIGN: token.MUL,
			token.QUO_ASSIGN: token.QUO, token.REM_ASSIGN: token.REM, token.SHL_ASSIGN: token.SHL,
			token.SHR_ASSIGN: token.SHR, token.AND_ASSIGN: token.AND, token.OR_ASSIGN: token.OR,
			token.XOR_ASSIGN: token.XOR,
		}[x.Tok]
		if !ok {
			f.fail("`%s`", f.src(x))
		}
		t := f.typeOf(x.Lhs[0])
		val := f.arith(op, g2lPar(f.expr(x.Lhs[0])), g2lPar(f.expr(x.Rhs[0])), t, x.Rhs[0], x)
		return f.assignTo(x.Lhs[0], val, false, ind)
	case len(x.Lhs) == len(x.Rhs) && len(x.Lhs) == 1:
		return f.assignTo(x.Lhs[0], f.rhsFor(x.Lhs[0], x.Rhs[0], define), define, ind)
	case len(x.Lhs) == len(x.Rhs):
		// parallel assignment: all right-hand sides first
		var out []string
		tmps := make([]string, len(x.Rhs))
		for i, r := range x.Rhs {
			tmps[i] = f.fresh("t")
			rv := f.rhsFor(x.Lhs[i], r, define)
			rt := f.lean(f.typeOf(r))
			if id, ok := ast.Unparen(x.Lhs[i]).(*ast.Ident); ok && g2lIsPtr(f.typeOf(r)) {
				if o := f.g.info.ObjectOf(id); o != nil && f.valPtr[o] {
					rt = f.leanVar(o, f.typeOf(r))
				}
			}
			out = append(out, fmt.Sprintf("%slet %s : %s := %s", g2lInd(ind), tmps[i], rt, rv))
		}
		for i, l := range x.Lhs {
			out = append(out, f.assignTo(l, tmps[i], define, ind)...)
		}
		return out
	case len(x.Rhs) == 1:
		if out, ok := f.commaOk(x, define, ind); ok {
			return out
		}
		rhs := f.tupleRhs(x) // go2lean_string.go: a call, or a comma-ok form (type assertion, map literal)
		t := f.fresh("t")
		out := []string{fmt.Sprintf("%slet %s := %s", g2lInd(ind), t, rhs)}
		for i, l := range x.Lhs {
			out = append(out, f.assignTo(l, g2lProj(t, i, len(x.Lhs)), define, ind)...)
		}
		return out
	}
	f.fail("`%s`", f.src(x))
	return nil
}

func (f *g2lFn) ret(x *ast.ReturnStmt, ind int) []string {
	if f.fuelChk {
		return []string{g2lInd(ind) + "return true"}
	}
	if out, ok := f.retErrFn(x, ind); ok { // go2lean_errfn.go: return nil / return E of a function whose result is an error
		return out
	}
	switch len(x.Results) {
	case 0:
		if out, ok := f.voidReturn(ind); ok { // go2lean_own.go
			return out
		}
		if io := f.inOutNames(); f.g.effectsOn() && len(io) > 0 && f.fnObj != nil && f.fnObj.Type().(*types.Signature).Results().Len() == 0 { // go2lean_effects.go
			if len(io) == 1 {
				return []string{g2lInd(ind) + "return " + io[0]}
			}
			return []string{g2lInd(ind) + "return (" + strings.Join(io, ", ") + ")"}
		}
		if out, ok := f.retVoid(ind); ok { // go2lean_env.go
			return out
		}
		f.fail("bare return (named results are outside the subset)")
	case 1:
		if _, ok := f.typeOf(x.Results[0]).(*types.Tuple); ok {
			if len(f.inOutNames()) > 0 {
				f.fail("return of a multi-valued call in a function with in-out parameters")
			}
			return []string{g2lInd(ind) + "return " + f.exprNB(x.Results[0])}
		}
		if io := f.inOutNames(); len(io) > 0 {
			return []string{g2lInd(ind) + "return (" + strings.Join(append([]string{f.retExpr(x.Results[0], 0)}, io...), ", ") + ")"}
		}
		return []string{g2lInd(ind) + "return " + f.retExpr(x.Results[0], 0)}
	}
	var parts []string
	for i, r := range x.Results {
		parts = append(parts, f.retExpr(r, i))
	}
	parts = append(parts, f.inOutNames()...)
	return []string{g2lInd(ind) + "return (" + strings.Join(parts, ", ") + ")"}
}

func (f *g2lFn) withGuard(gd string, fn func()) {
	f.guards = append(f.guards, gd)
	fn()
	f.guards = f.guards[:len(f.guards)-1]
}

func (f *g2lFn) ifStmt(x *ast.IfStmt, ind int, elseIf bool) []string {
	var out []string
	if x.Init != nil {
		if elseIf {
			f.fail("`else if` with an init statement")
		}
		out = append(out, f.stmt(x.Init, ind)...)
	}
	cond := f.propExpr(x.Cond)
	head := g2lInd(ind) + "if "
	if elseIf {
		head = g2lInd(ind) + "else if "
	}
	out = append(out, head+cond+" then")
	cs := f.src(x.Cond)
	f.withGuard(cs, func() { out = append(out, f.block(x.Body.List, ind+1)...) })
	switch e := x.Else.(type) {
	case nil:
	case *ast.BlockStmt:
		out = append(out, g2lInd(ind)+"else")
		f.withGuard("!("+cs+")", func() { out = append(out, f.block(e.List, ind+1)...) })
	case *ast.IfStmt:
		f.withGuard("!("+cs+")", func() { out = append(out, f.ifStmt(e, ind, true)...) })
	default:
		f.fail("else branch `%s`", f.src(e))
	}
	return out
}

func (f *g2lFn) switchStmt(x *ast.SwitchStmt, ind int) []string {
	var out []string
	if x.Init != nil {
		out = append(out, f.stmt(x.Init, ind)...)
	}
	tag := ""
	var tagT types.Type
	if x.Tag != nil {
		tagT = f.typeOf(x.Tag)
		switch g2lKindOf(tagT) {
		case kInt, kUint, kBool, kString, kFloat:
		default:
			f.fail("switch on %s", f.g.typeKey(tagT))
		}
		tag = f.fresh("sw")
		out = append(out, fmt.Sprintf("%slet %s : %s := %s", g2lInd(ind), tag, f.lean(tagT), f.expr(x.Tag)))
	}
	var def *ast.CaseClause
	var cases []*ast.CaseClause
	for _, c := range x.Body.List {
		cc := c.(*ast.CaseClause)
		if cc.List == nil {
			def = cc
		} else {
			cases = append(cases, cc)
		}
		for _, s := range cc.Body {
			if b, ok := s.(*ast.BranchStmt); ok && b.Tok == token.FALLTHROUGH {
				f.fail("fallthrough")
			}
		}
	}
	f.inSw++
	defer func() { f.inSw-- }()
	var negs []string
	for i, cc := range cases {
		var alts, srcs []string
		for _, e := range cc.List {
			if tag != "" {
				alts = append(alts, tag+" = "+g2lPar(f.expr(e)))
				srcs = append(srcs, f.src(x.Tag)+" == "+f.src(e))
			} else {
				alts = append(alts, g2lPar(f.propExpr(e)))
				srcs = append(srcs, f.src(e))
			}
		}
		kw := "if "
		if i > 0 {
			kw = "else if "
		}
		out = append(out, g2lInd(ind)+kw+strings.Join(alts, " ∨ ")+" then")
		gs := strings.Join(srcs, " || ")
		f.guards = append(f.guards, negs...)
		f.withGuard(gs, func() { out = append(out, f.block(cc.Body, ind+1)...) })
		f.guards = f.guards[:len(f.guards)-len(negs)]
		negs = append(negs, "!("+gs+")")
	}
	if def != nil {
		f.guards = append(f.guards, negs...)
		if len(cases) == 0 {
			out = append(out, f.block(def.Body, ind)...)
		} else {
			out = append(out, g2lInd(ind)+"else")
			out = append(out, f.block(def.Body, ind+1)...)
		}
		f.guards = f.guards[:len(f.guards)-len(negs)]
	}
	return out
}

func (f *g2lFn) nextFuel() string {
	if f.loops >= len(f.fuel) {
		f.fail("loop %d has no fuel term in the configuration", f.loops+1)
	}
	s := f.fuel[f.loops]
	f.loops++
	f.hasLoop = true
	return s
}

func g2lHasBranch(list []ast.Stmt, tok token.Token) bool {
	found := false
	for _, s := range list {
		ast.Inspect(s, func(n ast.Node) bool {
			switch x := n.(type) {
			case *ast.ForStmt, *ast.RangeStmt, *ast.FuncLit:
				return false
			case *ast.BranchStmt:
				if x.Tok == tok {
					found = true
				}
			}
			return true
		})
	}
	return found
}

func (f *g2lFn) forStmt(x *ast.ForStmt, ind int) []string {
	var out []string
	if x.Init != nil {
		out = append(out, f.stmt(x.Init, ind)...)
	}
	if x.Post != nil && g2lHasBranch(x.Body.List, token.CONTINUE) && !f.continueWithPostOK() { // go2lean_buffer.go
		f.fail("`continue` in a loop with a post statement")
	}
	if x.Cond == nil && g2lHasBranch(x.Body.List, token.BREAK) {
		f.fail("`break` in a loop without a condition (fuel exhaustion would not be detectable)")
	}
	fuel := f.nextFuel()
	out = append(out, fmt.Sprintf("%sfor _ in [0:%s] do", g2lInd(ind), fuel))
	cs := "true"
	if x.Cond != nil {
		cs = f.src(x.Cond)
		out = append(out, fmt.Sprintf("%sif ¬ %s then break", g2lInd(ind+1), g2lPar(f.propExpr(x.Cond))))
	}
	f.pushPost(x.Post) // go2lean_buffer.go: emitted before each `continue` of this loop
	defer f.popPost()
	f.inLoop++
	sw := f.inSw
	f.inSw = 0
	f.withGuard(cs, func() {
		var body []string
		for _, s := range x.Body.List {
			body = append(body, f.stmt(s, ind+1)...)
		}
		if x.Post != nil {
			body = append(body, f.stmt(x.Post, ind+1)...)
		}
		if len(body) == 0 && x.Cond == nil {
			body = append(body, g2lInd(ind+1)+"pure ()")
		}
		out = append(out, body...)
	})
	f.inSw = sw
	f.inLoop--
	if f.fuelChk {
		if x.Cond != nil {
			out = append(out, fmt.Sprintf("%sif %s then", g2lInd(ind), f.propExpr(x.Cond)), g2lInd(ind+1)+"return false")
		} else {
			out = append(out, g2lInd(ind)+"return false")
		}
	}
	return out
}

func (f *g2lFn) rangeStmt(x *ast.RangeStmt, ind int) []string {
	if x.Tok != token.DEFINE && (x.Key != nil || x.Value != nil) {
		f.fail("range assigning to existing variables")
	}
	if out, ok := f.rangeEff(x, ind); ok { // go2lean_effects.go: loops that write through their elements
		return out
	}
	t := f.typeOf(x.X)
	var out []string
	keyObj := func(e ast.Expr) *types.Var {
		id, ok := e.(*ast.Ident)
		if !ok || id.Name == "_" {
			return nil
		}
		o, _ := f.g.info.Defs[id].(*types.Var)
		return o
	}
	var k, v *types.Var
	if x.Key != nil {
		k = keyObj(x.Key)
	}
	if x.Value != nil {
		v = keyObj(x.Value)
	}
	var head []string
	switch g2lKindOf(t) {
	case kList:
		if o2, h2, ok := f.rangeCursor(x, k, v, t, ind); ok { // go2lean_own.go
			out, head = o2, h2
			break
		}
		it := f.fresh("it")
		if k == nil {
			out = append(out, fmt.Sprintf("%sfor %s in %s do", g2lInd(ind), it, f.expr(x.X)))
			if v != nil {
				f.rangeVarMode(v, t)
				head = append(head, f.letLine(ind+1, v, f.names[v], v.Type(), it))
			}
		} else {
			out = append(out, fmt.Sprintf("%sfor %s in %s.zipIdx do", g2lInd(ind), it, g2lPar(f.expr(x.X))))
			head = append(head, f.letLine(ind+1, k, f.names[k], k.Type(), "("+it+".2 : Int)"))
			if v != nil {
				f.rangeVarMode(v, t)
				head = append(head, f.letLine(ind+1, v, f.names[v], v.Type(), it+".1"))
			}
		}
	case kInt, kUint:
		it := f.fresh("it")
		n := f.expr(x.X)
		if g2lKindOf(t) == kInt {
			n = "Int.toNat " + g2lPar(n)
		}
		out = append(out, fmt.Sprintf("%sfor %s in [0:%s] do", g2lInd(ind), it, n))
		if k != nil {
			val := it
			if g2lKindOf(k.Type()) == kInt {
				val = "(" + it + " : Int)"
			}
			head = append(head, f.letLine(ind+1, k, f.names[k], k.Type(), val))
		}
	case kString:
		out, head = f.rangeString(x, k, v, ind) // go2lean_string.go
	default:
		out, head = f.rangeOther(x, t, k, v, ind)
	}
	f.inLoop++
	sw := f.inSw
	f.inSw = 0
	body := head
	for _, s := range x.Body.List {
		body = append(body, f.stmt(s, ind+1)...)
	}
	if len(body) == 0 {
		body = append(body, g2lInd(ind+1)+"pure ()")
	}
	f.inSw = sw
	f.inLoop--
	return append(out, body...)
}

func (f *g2lFn) stmt(s ast.Stmt, ind int) []string {
	if out, ok := f.stmtEff(s, ind); ok { // go2lean_effects.go: calls of functions with in-out parameters
		return out
	}
	if out, ok := f.stmtEnv(s, ind); ok { // go2lean_env.go: calls with in-out parameters, out-parameter primitives
		return out
	}
	switch x := s.(type) {
	case *ast.EmptyStmt:
		return nil
	case *ast.BlockStmt:
		var out []string
		for _, s := range x.List {
			out = append(out, f.stmt(s, ind)...)
		}
		return out
	case *ast.AssignStmt:
		return f.assignOwn(x, ind) // go2lean_own.go
	case *ast.IncDecStmt:
		op := token.ADD
		if x.Tok == token.DEC {
			op = token.SUB
		}
		t := f.typeOf(x.X)
		one := "(1 : " + f.lean(t) + ")"
		return f.assignTo(x.X, f.arith(op, g2lPar(f.expr(x.X)), one, t, nil, x), false, ind)
	case *ast.DeclStmt:
		gd, ok := x.Decl.(*ast.GenDecl)
		if !ok || gd.Tok != token.VAR {
			if ok && gd.Tok == token.CONST {
				return nil // constants are folded where they are used
			}
			f.fail("declaration `%s`", f.src(x))
		}
		var out []string
		for _, sp := range gd.Specs {
			vs := sp.(*ast.ValueSpec)
			if len(vs.Values) != 0 && len(vs.Values) != len(vs.Names) {
				f.fail("`%s`", f.src(x))
			}
			for i, n := range vs.Names {
				if n.Name == "_" {
					continue
				}
				o, _ := f.g.info.Defs[n].(*types.Var)
				if o == nil {
					f.fail("`%s`", f.src(x))
				}
				var val string
				if len(vs.Values) > 0 {
					val = f.expr(vs.Values[i])
				} else {
					z, err := f.g.zero(o.Type())
					if err != nil {
						f.fail("%v", err)
					}
					val = z
				}
				out = append(out, f.letLine(ind, o, f.names[o], o.Type(), val))
				out = append(out, f.foundDecl(o, ind)...) // go2lean_own.go
			}
		}
		return out
	case *ast.ExprStmt:
		if f.g.bytesOn() { // go2lean_buffer.go (byte mode): buffer writes, copy, sort.SliceStable
			return f.exprStmt(x, ind)
		}
		// otherwise: stmtOwn below, or outside the subset
	case *ast.ReturnStmt:
		return f.ret(x, ind)
	case *ast.IfStmt:
		return f.ifStmt(x, ind, false)
	case *ast.SwitchStmt:
		return f.switchStmt(x, ind)
	case *ast.ForStmt:
		return f.forStmt(x, ind)
	case *ast.RangeStmt:
		return f.rangeStmt(x, ind)
	case *ast.BranchStmt:
		if x.Label != nil {
			f.fail("labelled %s", x.Tok)
		}
		switch x.Tok {
		case token.BREAK:
			if f.inSw > 0 || f.inLoop == 0 {
				f.fail("`break` out of a switch")
			}
			return []string{g2lInd(ind) + "break"}
		case token.CONTINUE:
			if f.inLoop == 0 {
				f.fail("`continue` outside a loop")
			}
			return append(f.beforeContinue(ind), g2lInd(ind)+"continue") // go2lean_buffer.go
		}
	}
	if out, ok := f.stmtOwn(s, ind); ok { // go2lean_own.go: call statements of functions with in-out parameters
		return out
	}
	f.fail("statement `%s` (%T) is outside the subset", g2lOneLine(f.src(s)), s)
	return nil
}

// terminates: a conservative version of Go's "terminating statement".
func g2lTerminates(list []ast.Stmt) bool {
	if len(list) == 0 {
		return false
	}
	switch x := list[len(list)-1].(type) {
	case *ast.ReturnStmt:
		return true
	case *ast.BlockStmt:
		return g2lTerminates(x.List)
	case *ast.IfStmt:
		if x.Else == nil || !g2lTerminates(x.Body.List) {
			return false
		}
		return g2lTerminates([]ast.Stmt{x.Else})
	case *ast.SwitchStmt:
		hasDef := false
		for _, c := range x.Body.List {
			cc := c.(*ast.CaseClause)
			if cc.List == nil {
				hasDef = true
			}
			if !g2lTerminates(cc.Body) {
				return false
			}
		}
		return hasDef
	}
	return false
}

// ---------------------------------------------------------------- functions

func (g *g2l) findFunc(key string) *ast.FuncDecl {
	for _, f := range g.files {
		if fd := funcDecl(f, key); fd != nil {
			return fd
		}
	}
	return nil
}

func (g *g2l) fuelFor(key string) []string {
	for _, fc := range g.cfg.Funcs {
		if fc.Name == key {
			return fc.Fuel
		}
	}
	return nil
}

func (g *g2l) translateFunc(key string) (u *g2lUnit) {
	u = &g2lUnit{key: key, lean: g.unitLeanName(key)}
	fd := g.findFunc(key)
	if fd == nil {
		u.err = "function not found in package " + g.cfg.Pkg
		return u
	}
	f := &g2lFn{g: g, key: key, names: map[types.Object]string{}, mutated: map[types.Object]bool{}, depSeen: map[string]bool{}, fuel: g.fuelFor(key)}
	defer func() {
		if r := recover(); r != nil {
			if us, ok := r.(g2lUnsupported); ok {
				u.err = us.msg
			} else {
				// a construct the translator did not foresee must not stop the extractor
				u.err = fmt.Sprintf("translator panic: %v", r)
			}
			u.text, u.fuelOK = "", ""
		}
	}()
	sigText := *fd
	sigText.Body = nil
	sigText.Doc = nil
	u.sig = f.src(&sigText)
	if fd.Body == nil {
		f.fail("no body")
	}
	if fd.Type.TypeParams != nil {
		f.fail("type parameters")
	}
	ast.Inspect(fd.Body, func(n ast.Node) bool {
		switch x := n.(type) {
		case *ast.FuncLit:
			if !f.allowedFuncLit(fd, x) { // go2lean_buffer.go: the comparator of sort.SliceStable
				f.fail("function literal")
			}
		case *ast.GoStmt, *ast.DeferStmt, *ast.SelectStmt, *ast.SendStmt, *ast.TypeSwitchStmt, *ast.LabeledStmt:
			f.fail("statement %T", n)
		}
		return true
	})
	obj, _ := g.info.Defs[fd.Name].(*types.Func)
	if obj == nil {
		f.fail("no type information")
	}
	sig := obj.Type().(*types.Signature)
	if sig.Variadic() && !g.refsOn() && !g.env().Variadic { // go2lean_refs.go: the last parameter is the slice; go2lean_env.go
		f.fail("variadic function")
	}
	// a function without result: four extensions translate it, each for the configurations that ask for it
	void := sig.Results().Len() == 0 && g.effectsOn() // go2lean_effects.go: the in-out parameters alone are the result
	unitVoid := sig.Results().Len() == 0 && g.ownOn() // go2lean_own.go: Unit × the in-out parameters
	envVoid := sig.Results().Len() == 0 && g.envOn()  // go2lean_env.go: the in-out parameters alone, a return appended to the body
	effectOnly := f.effectOnlyOK(sig)                 // go2lean_buffer.go (byte mode): Unit × the in-out parameters
	if sig.Results().Len() == 0 && (!(void || unitVoid || envVoid || effectOnly) || len(g.inOutFor(key)) == 0) {
		f.fail("no result (a function without result is only called for its effect)")
	}
	if fd.Type.Results != nil {
		for _, r := range fd.Type.Results.List {
			if len(r.Names) > 0 && !f.namedResultsOK() { // go2lean_codec.go
				f.fail("named results")
			}
		}
	}
	f.assignNames(fd)
	f.findMutated(fd)
	f.initEff(fd) // go2lean_effects.go (Effects configurations)
	// parameters, receiver first
	var params, remut []string
	f.initPtrModes(obj)
	f.initInOut(obj, g.inOutFor(key))
	f.initOwned(fd) // go2lean_own.go (Own configurations)
	addParam := func(v *types.Var, ptrRecv bool) {
		name := f.names[v]
		if name == "" {
			name = f.fresh("x")
			f.names[v] = name
		}
		params = append(params, fmt.Sprintf("(%s : %s)", name, f.leanVar(v, v.Type())))
		if f.mutated[v] {
			remut = append(remut, fmt.Sprintf("let mut %s := %s", name, name))
		}
	}
	if r := sig.Recv(); r != nil {
		_, ptr := types.Unalias(r.Type()).(*types.Pointer)
		addParam(r, ptr)
	}
	for i := 0; i < sig.Params().Len(); i++ {
		addParam(sig.Params().At(i), false)
	}
	params = append(g.ctxParams(), params...)
	remut = append(remut, f.namedResultDecls(fd)...) // go2lean_codec.go
	var resT string
	errFn := g.errFnSig(sig) && len(g.inOutFor(key)) > 0 // go2lean_errfn.go: Except-valued, returns its in-out parameters
	if void || errFn {
		resT = ""
	} else if sig.Results().Len() == 1 {
		resT = f.lean(sig.Results().At(0).Type())
	} else {
		resT = f.lean(sig.Results())
	}
	if errFn {
		resT = f.errResult(f.inOutResult(resT, 0))
	} else {
		resT = f.inOutResult(resT, sig.Results().Len())
	}
	if envVoid { // go2lean_env.go: the end of the body returns the in-out parameters
		resT = f.voidResult()
		if !g2lTerminates(fd.Body.List) {
			body := *fd.Body
			body.List = append(append([]ast.Stmt{}, fd.Body.List...), &ast.ReturnStmt{})
			fdc := *fd
			fdc.Body = &body
			fd = &fdc
		}
	}
	if !void && !unitVoid && !effectOnly && !g2lTerminates(fd.Body.List) {
		f.fail("the body does not end in a return on every path the translator recognises")
	}
	head := fmt.Sprintf("def %s %s : %s :=", u.lean, strings.Join(params, " "), resT)
	if len(params) == 0 {
		head = fmt.Sprintf("def %s : %s :=", u.lean, resT)
	}
	// single return statement: a plain term
	if rs, ok := fd.Body.List[0].(*ast.ReturnStmt); ok && len(fd.Body.List) == 1 && len(remut) == 0 && !errFn {
		line := f.ret(rs, 1)[0]
		u.text = head + "\n  " + strings.TrimPrefix(strings.TrimSpace(line), "return ") + "\n"
	} else {
		var lines []string
		for _, r := range remut {
			lines = append(lines, g2lInd(1)+r)
		}
		lines = append(lines, f.block(fd.Body.List, 1)...)
		if void && !g2lTerminates(fd.Body.List) {
			lines = append(lines, f.ret(&ast.ReturnStmt{}, 1)...)
		}
		if unitVoid {
			vr, _ := f.voidReturn(1)
			lines = append(lines, vr...)
		}
		if effectOnly {
			lines = append(lines, f.effectOnlyReturn()) // go2lean_buffer.go
		}
		if errFn { // go2lean_errfn.go: in the monad Except ErrType
			u.text = head + " do\n" + strings.Join(lines, "\n") + "\n"
		} else {
			u.text = head + " Id.run do\n" + strings.Join(lines, "\n") + "\n"
		}
	}
	if f.loops != len(f.fuel) {
		f.fail("%d fuel terms configured, %d loops found", len(f.fuel), f.loops)
	}
	u.deps = f.deps
	u.subs = f.subs
	if f.hasLoop {
		// the twin that reports whether a loop ran out of fuel
		f2 := &g2lFn{g: g, key: key, names: f.names, mutated: f.mutated, valPtr: f.valPtr, fnObj: f.fnObj, inOut: f.inOut, depSeen: map[string]bool{}, fuel: f.fuel, fuelChk: true, tmp: 0}
		var lines []string
		for _, r := range remut {
			lines = append(lines, g2lInd(1)+r)
		}
		func() {
			defer func() {
				if r := recover(); r != nil {
					lines = nil
				}
			}()
			lines = append(lines, f2.block(fd.Body.List, 1)...)
		}()
		if lines != nil {
			h := fmt.Sprintf("def %s_fuelOK %s : Bool :=", u.lean, strings.Join(params, " "))
			u.fuelOK = h + " Id.run do\n" + strings.Join(lines, "\n") + "\n"
		}
	}
	f.ownAtTwin(u, fd, params) // go2lean_ownret.go (Own configurations): the `_at` twin of a function that returns a found cursor
	return u
}

// translateVar emits a package-level variable as a definition, provided it is
// never assigned (nor has its address taken) anywhere in the package.
func (g *g2l) translateVar(key string) (u *g2lUnit) {
	name := strings.TrimPrefix(key, "var ")
	u = &g2lUnit{key: key, lean: g.unitLeanName(key)}
	obj, _ := g.pkg.Scope().Lookup(name).(*types.Var)
	if obj == nil {
		u.err = "package variable not found"
		return u
	}
	var init ast.Expr
	for _, file := range g.files {
		for _, d := range file.Decls {
			gd, ok := d.(*ast.GenDecl)
			if !ok || gd.Tok != token.VAR {
				continue
			}
			for _, sp := range gd.Specs {
				vs := sp.(*ast.ValueSpec)
				for i, n := range vs.Names {
					if g.info.Defs[n] == obj && len(vs.Values) == len(vs.Names) {
						init = vs.Values[i]
					}
				}
			}
		}
	}
	f := &g2lFn{g: g, key: key, names: map[types.Object]string{}, mutated: map[types.Object]bool{}, depSeen: map[string]bool{}}
	defer func() {
		if r := recover(); r != nil {
			if us, ok := r.(g2lUnsupported); ok {
				u.err = us.msg
			} else {
				u.err = fmt.Sprintf("translator panic: %v", r)
			}
			u.text = ""
		}
	}()
	if init == nil {
		f.fail("no single initialiser")
	}
	u.sig = "var " + name + " = " + f.src(init)
	for _, file := range g.files {
		ast.Inspect(file, func(n ast.Node) bool {
			check := func(e ast.Expr) {
				for {
					switch x := e.(type) {
					case *ast.ParenExpr:
						e = x.X
						continue
					case *ast.SelectorExpr:
						if _, isSel := g.info.Selections[x]; isSel {
							e = x.X
							continue
						}
					case *ast.IndexExpr:
						e = x.X
						continue
					}
					break
				}
				if id, ok := e.(*ast.Ident); ok && g.info.Uses[id] == obj {
					f.fail("the variable is assigned or has its address taken somewhere in the package")
				}
			}
			switch x := n.(type) {
			case *ast.AssignStmt:
				for _, l := range x.Lhs {
					check(l)
				}
			case *ast.IncDecStmt:
				check(x.X)
			case *ast.UnaryExpr:
				if x.Op == token.AND {
					check(x.X)
				}
			}
			return true
		})
	}
	u.text = fmt.Sprintf("def %s : %s :=\n  %s\n", u.lean, f.lean(obj.Type()), f.expr(init))
	u.deps = f.deps
	u.subs = f.subs
	return u
}
