package main

// Key sets the JSON schemas publish for reference positions of C18 (emitted into
// Generated/Defs.lean by defs.go): the `const` members of the `anyOf` / `oneOf`
// of a `key` property.
//
//	pay/means        data/schemas/pay/instructions.json  $defs.Instructions.properties.key
//	pay/means-advance data/schemas/pay/advance.json      $defs.Advance.properties.key  (Props: the same list)
//	pay/terms        data/schemas/pay/terms.json         $defs.Terms.properties.key
//	org/note         data/schemas/org/note.json          $defs.Note.properties.key

import (
	"encoding/json"
	"fmt"
	"os"
	"path/filepath"
	"strings"
)

func schemaKeyConsts(root, file, def, prop string) []string {
	b, err := os.ReadFile(filepath.Join(root, filepath.FromSlash(file)))
	if err != nil {
		return nil
	}
	var sch struct {
		Defs map[string]struct {
			Properties map[string]struct {
				OneOf []struct {
					Const *string `json:"const"`
				} `json:"oneOf"`
				AnyOf []struct {
					Const *string `json:"const"`
				} `json:"anyOf"`
			} `json:"properties"`
		} `json:"$defs"`
	}
	if err := json.Unmarshal(b, &sch); err != nil {
		return nil
	}
	var out []string
	pr := sch.Defs[def].Properties[prop]
	for _, c := range pr.OneOf {
		if c.Const != nil {
			out = append(out, *c.Const)
		}
	}
	for _, c := range pr.AnyOf {
		if c.Const != nil {
			out = append(out, *c.Const)
		}
	}
	return out
}

func defsKeySets(root string) string {
	var sb strings.Builder
	sb.WriteString("/-- key sets published by the schemas: name ↦ the `const`s of the `key` property -/\ndef keySets : List (String × List String) := [\n")
	rows := []struct{ name, file, def, prop string }{
		{"pay/means", "pay/instructions.json", "Instructions", "key"},
		{"pay/means-advance", "pay/advance.json", "Advance", "key"},
		{"pay/terms", "pay/terms.json", "Terms", "key"},
		{"org/note", "org/note.json", "Note", "key"},
	}
	for i, r := range rows {
		sep := ","
		if i == len(rows)-1 {
			sep = ""
		}
		fmt.Fprintf(&sb, "  (%s, %s)%s\n", leanStr(r.name), leanStrList(schemaKeyConsts(root, r.file, r.def, r.prop)), sep)
	}
	sb.WriteString("]\n\n")
	return sb.String()
}
