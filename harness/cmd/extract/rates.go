package main

import (
	"encoding/json"
	"fmt"
	"os"
	"path/filepath"
	"sort"
	"strings"

	_ "github.com/invopop/gobl" // registers every regime, addon and catalogue
	"github.com/invopop/gobl/cal"
	"github.com/invopop/gobl/num"
	"github.com/invopop/gobl/tax"
)

// RateTables: every registered regime's categories / rate keys / values, once
// from the in-code registry (tax.AllRegimeDefs) and once from the published
// /repo/data/regimes/*.json files (parsed with plain encoding/json into local
// structs, not with GOBL's own types), as Lean data for Props/C12.lean and the
// C12 driver.

type xValue struct {
	Tags      []string
	Ext       [][2]string // sorted by key
	Since     *[3]int
	Pct       [2]int64 // value, exp
	Surcharge *[2]int64
	Disabled  bool
}

type xRate struct {
	Key    string
	Exempt bool
	Ext    [][2]string
	Values []xValue
}

type xCat struct {
	Code     string
	Retained bool
	Rates    []xRate
}

type xRegime struct {
	Country string
	Alt     []string
	Zone    string
	Cats    []xCat
}

func sortedExt(m map[string]string) [][2]string {
	out := make([][2]string, 0, len(m))
	for k, v := range m {
		out = append(out, [2]string{k, v})
	}
	sort.Slice(out, func(i, j int) bool { return out[i][0] < out[j][0] })
	return out
}

// normPct brings a (value, exp) pair to at least two decimals, the smallest
// exponent the published "x%" text can carry.
func normPct(v int64, e uint32) [2]int64 {
	for e < 2 {
		v *= 10
		e++
	}
	return [2]int64{v, int64(e)}
}

func pctOf(p num.Percentage) [2]int64 { return normPct(p.Value(), p.Exp()) }

func registryTables() []xRegime {
	var out []xRegime
	for _, r := range tax.AllRegimeDefs() {
		xr := xRegime{Country: string(r.Country), Zone: string(r.Zone)}
		for _, a := range r.AltCountryCodes {
			xr.Alt = append(xr.Alt, string(a))
		}
		for _, c := range r.Categories {
			xc := xCat{Code: string(c.Code), Retained: c.Retained}
			for _, rt := range c.Rates {
				x := xRate{Key: string(rt.Key), Exempt: rt.Exempt}
				em := map[string]string{}
				for k, v := range rt.Ext {
					em[string(k)] = string(v)
				}
				x.Ext = sortedExt(em)
				for _, v := range rt.Values {
					xv := xValue{Disabled: v.Disabled, Pct: pctOf(v.Percent)}
					for _, t := range v.Tags {
						xv.Tags = append(xv.Tags, string(t))
					}
					vm := map[string]string{}
					for k, val := range v.Ext {
						vm[string(k)] = string(val)
					}
					xv.Ext = sortedExt(vm)
					if v.Since != nil {
						xv.Since = dateTriple(*v.Since)
					}
					if v.Surcharge != nil {
						s := pctOf(*v.Surcharge)
						xv.Surcharge = &s
					}
					x.Values = append(x.Values, xv)
				}
				xc.Rates = append(xc.Rates, x)
			}
			xr.Cats = append(xr.Cats, xc)
		}
		out = append(out, xr)
	}
	sort.Slice(out, func(i, j int) bool { return regimeFileName(out[i]) < regimeFileName(out[j]) })
	return out
}

func dateTriple(d cal.Date) *[3]int { return &[3]int{d.Year, int(d.Month), d.Day} }

func regimeFileName(r xRegime) string {
	n := r.Country
	if r.Zone != "" {
		n += "_" + r.Zone
	}
	return strings.ToLower(n)
}

// parsePctText parses the published "21.0%" / "0.21" text into (value, exp)
// the way a non-Go consumer would: digits, optional fraction, optional '%'.
func parsePctText(s string) ([2]int64, error) {
	pc := strings.HasSuffix(s, "%")
	t := strings.TrimSuffix(s, "%")
	neg := strings.HasPrefix(t, "-")
	t = strings.TrimPrefix(t, "-")
	ip, fp, _ := strings.Cut(t, ".")
	if ip == "" && fp == "" {
		return [2]int64{}, fmt.Errorf("bad percentage %q", s)
	}
	var v int64
	for _, ch := range ip + fp {
		if ch < '0' || ch > '9' {
			return [2]int64{}, fmt.Errorf("bad percentage %q", s)
		}
		v = v*10 + int64(ch-'0')
	}
	if neg {
		v = -v
	}
	e := uint32(len(fp))
	if pc {
		e += 2
	}
	return normPct(v, e), nil
}

func parseDateText(s string) (*[3]int, error) {
	var y, m, d int
	if _, err := fmt.Sscanf(s, "%4d-%2d-%2d", &y, &m, &d); err != nil || len(s) != 10 {
		return nil, fmt.Errorf("bad date %q", s)
	}
	return &[3]int{y, m, d}, nil
}

type jValue struct {
	Tags      []string          `json:"tags"`
	Ext       map[string]string `json:"ext"`
	Since     *string           `json:"since"`
	Percent   string            `json:"percent"`
	Surcharge *string           `json:"surcharge"`
	Disabled  bool              `json:"disabled"`
}
type jRate struct {
	Key    string            `json:"key"`
	Exempt bool              `json:"exempt"`
	Ext    map[string]string `json:"ext"`
	Values []jValue          `json:"values"`
}
type jCat struct {
	Code     string  `json:"code"`
	Retained bool    `json:"retained"`
	Rates    []jRate `json:"rates"`
}
type jRegime struct {
	Country    string   `json:"country"`
	Alt        []string `json:"alt_country_codes"`
	Zone       string   `json:"zone"`
	Categories []jCat   `json:"categories"`
}

func jsonTables() ([]xRegime, []string, error) {
	files, err := filepath.Glob(filepath.Join(*repo, "data", "regimes", "*.json"))
	if err != nil {
		return nil, nil, err
	}
	sort.Strings(files)
	var out []xRegime
	var names []string
	for _, f := range files {
		b, err := os.ReadFile(f)
		if err != nil {
			return nil, nil, err
		}
		var jr jRegime
		if err := json.Unmarshal(b, &jr); err != nil {
			return nil, nil, fmt.Errorf("%s: %w", f, err)
		}
		xr := xRegime{Country: jr.Country, Zone: jr.Zone, Alt: jr.Alt}
		for _, c := range jr.Categories {
			xc := xCat{Code: c.Code, Retained: c.Retained}
			for _, rt := range c.Rates {
				x := xRate{Key: rt.Key, Exempt: rt.Exempt, Ext: sortedExt(rt.Ext)}
				for _, v := range rt.Values {
					xv := xValue{Tags: v.Tags, Ext: sortedExt(v.Ext), Disabled: v.Disabled}
					if xv.Pct, err = parsePctText(v.Percent); err != nil {
						return nil, nil, fmt.Errorf("%s: %w", f, err)
					}
					if v.Since != nil {
						if xv.Since, err = parseDateText(*v.Since); err != nil {
							return nil, nil, fmt.Errorf("%s: %w", f, err)
						}
					}
					if v.Surcharge != nil {
						s, err := parsePctText(*v.Surcharge)
						if err != nil {
							return nil, nil, fmt.Errorf("%s: %w", f, err)
						}
						xv.Surcharge = &s
					}
					x.Values = append(x.Values, xv)
				}
				xc.Rates = append(xc.Rates, x)
			}
			xr.Cats = append(xr.Cats, xc)
		}
		out = append(out, xr)
		names = append(names, strings.TrimSuffix(filepath.Base(f), ".json"))
	}
	return out, names, nil
}

func leanExt(e [][2]string) string {
	parts := make([]string, len(e))
	for i, kv := range e {
		parts[i] = "(" + leanStr(kv[0]) + ", " + leanStr(kv[1]) + ")"
	}
	return "[" + strings.Join(parts, ", ") + "]"
}

func leanPct(p [2]int64) string {
	if p[0] < 0 {
		return fmt.Sprintf("((%d : Int), %d)", p[0], p[1])
	}
	return fmt.Sprintf("(%d, %d)", p[0], p[1])
}

func leanRegime(sb *strings.Builder, name string, r xRegime) {
	fmt.Fprintf(sb, "def %s : RegimeTable :=\n  { country := %s, alt := %s, zone := %s, categories := [", name, leanStr(r.Country), leanStrList(r.Alt), leanStr(r.Zone))
	for ci, c := range r.Cats {
		if ci > 0 {
			sb.WriteString(",")
		}
		fmt.Fprintf(sb, "\n    { code := %s, retained := %v, rates := [", leanStr(c.Code), c.Retained)
		for ri, rt := range c.Rates {
			if ri > 0 {
				sb.WriteString(",")
			}
			fmt.Fprintf(sb, "\n      { key := %s, exempt := %v, ext := %s, values := [", leanStr(rt.Key), rt.Exempt, leanExt(rt.Ext))
			for vi, v := range rt.Values {
				if vi > 0 {
					sb.WriteString(",")
				}
				since := "none"
				if v.Since != nil {
					since = fmt.Sprintf("some ⟨%d, %d, %d⟩", v.Since[0], v.Since[1], v.Since[2])
				}
				sur := "none"
				if v.Surcharge != nil {
					sur = "some " + leanPct(*v.Surcharge)
				}
				fmt.Fprintf(sb, "\n        { tags := %s, ext := %s, since := %s, percent := %s, surcharge := %s, disabled := %v }",
					leanStrList(v.Tags), leanExt(v.Ext), since, leanPct(v.Pct), sur, v.Disabled)
			}
			sb.WriteString("] }")
		}
		sb.WriteString("] }")
	}
	sb.WriteString("] }\n\n")
}

func init() {
	register(func() (string, string, error) {
		name := "RateTables"
		reg := registryTables()
		js, jnames, err := jsonTables()
		if err != nil {
			return name, "", err
		}
		var sb strings.Builder
		sb.WriteString("/- REGENERATED by harness/cmd/extract from the tax regime registry of /repo and from /repo/data/regimes/*.json — do not edit -/\n")
		sb.WriteString("import GoblVerif.Model.Rates\nnamespace GoblVerif.Generated.Rates\nopen GoblVerif.Rates\n\n")
		var regNames, jsNames []string
		for _, r := range reg {
			n := "reg_" + leanIdent(regimeFileName(r))
			regNames = append(regNames, n)
			leanRegime(&sb, n, r)
		}
		for i, r := range js {
			n := "json_" + leanIdent(jnames[i])
			jsNames = append(jsNames, n)
			leanRegime(&sb, n, r)
		}
		sb.WriteString("/-- the in-code registry (tax.AllRegimeDefs), by published file name -/\n")
		fmt.Fprintf(&sb, "def registry : List RegimeTable := [%s]\n\n", strings.Join(regNames, ", "))
		sb.WriteString("/-- /repo/data/regimes/*.json, by file name -/\n")
		fmt.Fprintf(&sb, "def json : List RegimeTable := [%s]\n\n", strings.Join(jsNames, ", "))
		var rn []string
		for _, r := range reg {
			rn = append(rn, regimeFileName(r))
		}
		fmt.Fprintf(&sb, "def registryFiles : List String := %s\n", leanStrList(rn))
		fmt.Fprintf(&sb, "def jsonFiles : List String := %s\n", leanStrList(jnames))
		sb.WriteString("\nend GoblVerif.Generated.Rates\n")
		return name, sb.String(), nil
	})
}
