package main

// go2lean, strings (and what the string-handling code of /repo/regimes needs
// around them).  Everything here is OFF unless the configuration maps the
// basic type `string` (G2LConfig.Basic["string"]) to a Lean type of byte
// lists — Model/GoStr.lean's `GoblVerif.GoStr.Str` = List Char; with the
// default configuration (`string` → `String`, used for literals only) the
// translator behaves exactly as before.
//
// The three files of the translator call into this one at marked places
// (`// go2lean_string.go`): leanTypeExt, strConst, g2lIsErrorType (go2lean.go);
// callExt, indexExt, compositeExt, sliceExpr (go2lean_expr.go); tupleRhs,
// localSliceOK, rangeString (go2lean_stmt.go).
//
// TRUSTED SEMANTICS added by this file (G2LStringHeader is put into the header
// of every generated file that uses it):
//   * string, and named string types mapped by the configuration → the List
//     Char of the BYTES; constants are emitted byte by byte;
//   * len(s) = s.length; s[i] = GoStr.byteAt s i (a byte, i.e. a Nat; out of
//     range: a panic in Go, 0 here); s[a:b], s[a:], s[:b] = GoStr.slice / drop /
//     take (out of range: a panic in Go, clamped here); s + t = s ++ t; == and
//     != are equality of the lists;
//   * for i, r := range s iterates the BYTES (i = position, r = GoStr.runeOf c);
//     string(r), string(b), []rune(s) = GoStr.ofRune / ofByte / runes.  These
//     four agree with Go exactly on strings whose bytes are all < 0x80
//     (ASSUMPTION "ASCII"; the functions translated run behind an ASCII format
//     gate);
//   * error → Option Str (nil = none); errors.New(m) = GoStr.errNew m (with the
//     primitive "errors.New": "GoblVerif.GoStr.errNew {0:lit}"); fmt.Errorf(f, …)
//     = GoStr.errNew f (the FORMAT text: only nil-ness of an error is meant to
//     be observed);
//   * interface{} → Option T for the one type T the configuration names
//     (Named["interface{}"] = "Option T"): `v, ok := x.(T)` = (x.getD zero,
//     x.isSome); a dynamic value of any other type is `none`;
//   * a map that is a package-level LITERAL and is only read → association
//     list; m[k] = GoStr.mapGet m k zero (Go rejects duplicate constant keys);
//   * make([]T, n) = List.replicate n zero; x[i] = v on a local slice made by
//     `make` in the same function and never aliased (every use of the variable
//     is an index, a len, a range or a slice expression inside those) = List.set;
//   * l[a:b] on a slice/array that is only read afterwards = take/drop;
//   * fmt.Sprintf with the verbs %s (string arguments), %d and %02d (signed
//     integers) = concatenation with GoStr.itoa / GoStr.fmt02d;
//   * v, err := f(x) = a pair; primitives (Prims) may have pointer receivers
//     (the receiver is argument {0}); `{i:lit}` in a template stands for
//     argument i, which must be a constant string, as a Lean String literal
//     (used for regexp patterns: a compiled regexp is its pattern text).

import (
	"fmt"
	"go/ast"
	"go/constant"
	"go/types"
	"strconv"
	"strings"
)

// G2LStringHeader is the text a configuration that switches strings on puts into its Title.
const G2LStringHeader = `  STRINGS (go2lean_string.go, Model/GoStr.lean; trusted):
  * string / cbc.Code / cbc.Key → the List Char of the BYTES; len, s[i] (a Nat;
    out of range: panic in Go, 0 here), s[a:b] (out of range: panic in Go,
    clamped here), +, ==.
  * ASSUMPTION "ASCII": for i, r := range s, []rune(s), string(r), string(b)
    are translated BYTE-wise; they agree with Go's rune-wise meaning exactly on
    strings all of whose bytes are < 0x80.  The checkers below are consulted
    behind an ASCII format gate (tax: ^[A-Z0-9]+$; MX: its own patterns, which
    are primitives here).
  * regexp: a compiled regexp is its pattern text (a Lean String);
    re.MatchString(s) is the DECLARED PRIMITIVE GoblVerif.TaxId.Re.reMatch
    (Model/TaxIdRe.lean: a table from the pattern texts to the matchers of
    Model/TaxId.lean; an unknown pattern matches nothing and is listed by
    reKnown = false).  The pattern texts are pinned by Generated/TaxIdFacts.
  * strconv.Atoi / ParseInt(_,10,64) = GoStr.atoi (sign, then ASCII digits;
    range errors not modelled: at most 18 digits), strconv.Itoa / FormatInt(_,10)
    = GoStr.itoa, unicode.IsDigit = GoStr.isDigitRune (ASCII digits only),
    strings.HasPrefix / Index = GoStr.hasPrefix / index, fmt.Sprintf with
    %s %d %02d = concatenation.
  * error → Option Str (nil = none; errors.New m = some m, fmt.Errorf f … =
    some f: only nil-ness is meant to be observed); interface{} → Option Str
    (some c = a cbc.Code c, none = any other dynamic type).
  * read-only map literals → association lists (GoStr.mapGet); make([]T, n) →
    List.replicate; element assignment only on un-aliased local make-slices.
  * float64 in AT, BE, CH: see the float lines above; math.Mod, math.Floor are
    the primitives GoMath.fmod / GoMath.ffloor (Model/GoMath.lean) (exact on the values met here).`

func (g *g2l) strOn() bool { return g.cfg.Basic["string"] != "" }

func g2lIsErrorType(t types.Type) bool {
	return types.Identical(t, types.Universe.Lookup("error").Type())
}

// leanTypeExt: types the configuration names by their text (pointers, the
// empty interface), and — with strings on — maps.
func (g *g2l) leanTypeExt(t types.Type) (string, bool, error) {
	t0 := types.Unalias(t)
	if _, isNamed := t0.(*types.Named); !isNamed {
		if _, isBasic := t0.(*types.Basic); !isBasic {
			if l, ok := g.cfg.Named[g.typeKey(t0)]; ok {
				return l, true, nil
			}
			if it, ok := t0.(*types.Interface); ok && it.Empty() {
				for _, k := range []string{"interface{}", "any"} {
					if l, ok := g.cfg.Named[k]; ok {
						return l, true, nil
					}
				}
			}
		}
	}
	if !g.strOn() {
		return "", false, nil
	}
	if m, ok := t0.(*types.Map); ok {
		k, err := g.leanType(m.Key())
		if err != nil {
			return "", true, err
		}
		v, err := g.leanType(m.Elem())
		if err != nil {
			return "", true, err
		}
		return "List (" + g2lPar(k) + " × " + g2lPar(v) + ")", true, nil
	}
	return "", false, nil
}

// nilExt: `nil` in a position whose type is an interface keeps the type
// "untyped nil" in go/types; the only interface with a Lean counterpart is
// `error` (an Option), and interface{} when configured as an Option: `none`.
func (f *g2lFn) nilExt(t types.Type) (string, bool) {
	if !f.g.strOn() {
		return "", false
	}
	if b, ok := t.(*types.Basic); ok && b.Kind() == types.UntypedNil {
		return "none", true
	}
	return "", false
}

func g2lCharLit(b byte) string {
	switch {
	case b == '\'':
		return `'\''`
	case b == '\\':
		return `'\\'`
	case b >= 0x20 && b < 0x7f:
		return "'" + string(rune(b)) + "'"
	}
	return fmt.Sprintf("(Char.ofNat %d)", b)
}

// strConst renders a Go string constant.
func (g *g2l) strConst(s string) string {
	if !g.strOn() {
		return leanStr(s)
	}
	if g.bytesOn() { // go2lean_buffer.go
		return g.bytesConst(s)
	}
	parts := make([]string, len(s))
	for i := 0; i < len(s); i++ {
		parts[i] = g2lCharLit(s[i])
	}
	return "([" + strings.Join(parts, ", ") + "] : " + g.cfg.Basic["string"] + ")"
}

// natIndex renders an index / bound expression as a Nat term.
func (f *g2lFn) natIndex(e ast.Expr) string {
	if tv, ok := f.g.info.Types[e]; ok && tv.Value != nil {
		if iv := constant.ToInt(tv.Value); iv.Kind() == constant.Int && constant.Sign(iv) >= 0 {
			return iv.ExactString()
		}
	}
	i := f.expr(e)
	if g2lKindOf(f.typeOf(e)) == kInt {
		return "(Int.toNat " + g2lPar(i) + ")"
	}
	return g2lPar(i)
}

func (f *g2lFn) isRune(t types.Type) bool {
	b, ok := t.Underlying().(*types.Basic)
	return ok && (b.Kind() == types.Int32 || b.Kind() == types.UntypedRune)
}

func (f *g2lFn) isByte(t types.Type) bool {
	b, ok := t.Underlying().(*types.Basic)
	return ok && b.Kind() == types.Uint8
}

// ---------------------------------------------------------------- calls

func (f *g2lFn) callExt(c *ast.CallExpr) (string, bool) {
	ftv := f.g.info.Types[c.Fun]
	if ftv.IsType() {
		if !f.g.strOn() || len(c.Args) != 1 {
			return "", false
		}
		return f.strConversion(ftv.Type, c.Args[0], c)
	}
	if ftv.IsBuiltin() {
		if !f.g.strOn() {
			return "", false
		}
		return f.strBuiltin(c)
	}
	fn := f.funcOfCall(c)
	if fn == nil {
		return "", false
	}
	key, _ := f.calleeKey(fn)
	if key == "" {
		return "", false
	}
	if f.g.strOn() {
		switch key {
		case "fmt.Sprintf":
			return f.sprintf(c), true
		case "fmt.Errorf":
			if len(c.Args) == 0 || c.Ellipsis.IsValid() {
				f.fail("`%s`", f.src(c))
			}
			tv := f.g.info.Types[c.Args[0]]
			if tv.Value == nil || tv.Value.Kind() != constant.String {
				f.fail("fmt.Errorf with a format that is not a constant in `%s`", f.src(c))
			}
			for _, a := range c.Args[1:] {
				_ = f.expr(a) // the arguments must be inside the subset, though only the format is kept
			}
			_ = f.lean(types.Universe.Lookup("error").Type()) // `error` must be configured
			return "GoblVerif.GoStr.errNew " + leanStr(constant.StringVal(tv.Value)), true
		case "strconv.ParseInt":
			if len(c.Args) != 3 {
				f.fail("`%s`", f.src(c))
			}
			for i, want := range []int64{10, 64} {
				tv := f.g.info.Types[c.Args[i+1]]
				if tv.Value == nil {
					f.fail("strconv.ParseInt with a base / bit size that is not a constant in `%s`", f.src(c))
				}
				if v, ok := constant.Int64Val(constant.ToInt(tv.Value)); !ok || v != want {
					f.fail("strconv.ParseInt is only modelled for base 10 and 64 bits: `%s`", f.src(c))
				}
			}
			t, ok := f.g.cfg.Prims[key]
			if !ok {
				return "", false
			}
			return g2lTemplate(t, []string{g2lPar(f.expr(c.Args[0]))}), true
		case "strconv.FormatInt":
			if len(c.Args) != 2 {
				f.fail("`%s`", f.src(c))
			}
			tv := f.g.info.Types[c.Args[1]]
			if tv.Value == nil {
				f.fail("strconv.FormatInt with a base that is not a constant in `%s`", f.src(c))
			}
			if v, ok := constant.Int64Val(constant.ToInt(tv.Value)); !ok || v != 10 {
				f.fail("strconv.FormatInt is only modelled for base 10: `%s`", f.src(c))
			}
			t, ok := f.g.cfg.Prims[key]
			if !ok {
				return "", false
			}
			return g2lTemplate(t, []string{g2lPar(f.expr(c.Args[0]))}), true
		}
	}
	// primitives that the plain path cannot take: pointer receivers, literal arguments
	tmpl, ok := f.g.cfg.Prims[key]
	if !ok {
		return "", false
	}
	sig := fn.Type().(*types.Signature)
	recvPtr := false
	if r := sig.Recv(); r != nil {
		_, recvPtr = types.Unalias(r.Type()).(*types.Pointer)
	}
	if !strings.Contains(tmpl, ":lit}") && !(recvPtr && f.g.strOn()) {
		return "", false // the plain path (and go2lean_ptr.go for receivers of other configurations) takes it
	}
	if c.Ellipsis.IsValid() || (sig.Variadic() && !f.g.env().Variadic) { // go2lean_env.go: arguments the template does not mention are dropped
		f.fail("variadic primitive `%s`", f.src(c))
	}
	var argEs []ast.Expr
	if sig.Recv() != nil {
		se, ok := ast.Unparen(c.Fun).(*ast.SelectorExpr)
		if !ok {
			f.fail("method expression `%s`", f.src(c))
		}
		sel := f.g.info.Selections[se]
		if sel == nil || sel.Kind() != types.MethodVal || len(sel.Index()) != 1 {
			f.fail("method call `%s` (interface, promoted or expression form)", f.src(c))
		}
		argEs = append(argEs, se.X)
	}
	argEs = append(argEs, c.Args...)
	out := tmpl
	for i := len(argEs) - 1; i >= 0; i-- {
		lit := fmt.Sprintf("{%d:lit}", i)
		if strings.Contains(out, lit) {
			tv := f.g.info.Types[argEs[i]]
			if tv.Value == nil || tv.Value.Kind() != constant.String {
				f.fail("argument %d of `%s` must be a constant string", i, f.src(c))
			}
			out = strings.ReplaceAll(out, lit, leanStr(constant.StringVal(tv.Value)))
		}
		plain := fmt.Sprintf("{%d}", i)
		if strings.Contains(out, plain) {
			out = strings.ReplaceAll(out, plain, g2lPar(f.expr(argEs[i])))
		}
	}
	return out, true
}

func (f *g2lFn) strConversion(to types.Type, arg ast.Expr, c *ast.CallExpr) (string, bool) {
	if s, ok := f.bytesConversionBuf(to, arg); ok { // go2lean_buffer.go: []byte(s), string(b)
		return s, true
	}
	from := f.typeOf(arg)
	tk, fk := g2lKindOf(to), g2lKindOf(from)
	if out, ok := f.bytesConversion(to, arg); ok { // go2lean_codec.go
		return out, true
	}
	switch {
	case tk == kString && (fk == kInt || fk == kUint):
		if tv, ok := f.g.info.Types[c]; ok && tv.Value != nil {
			return "", false // a constant: folded by the caller
		}
		a := g2lPar(f.expr(arg))
		switch {
		case f.isByte(from):
			return "GoblVerif.GoStr.ofByte " + a, true
		case fk == kInt:
			return "GoblVerif.GoStr.ofRune " + a, true
		}
		f.fail("conversion `%s` (string of an unsigned integer wider than a byte)", f.src(c))
	case tk == kList && fk == kString:
		if sl, ok := to.Underlying().(*types.Slice); ok && f.isRune(sl.Elem()) {
			return "GoblVerif.GoStr.runes " + g2lPar(f.expr(arg)), true
		}
		f.fail("conversion `%s` (only []rune(s))", f.src(c))
	case tk == kString && fk == kString:
		// string ↔ named string type (cbc.Code(s), string(code)): the same list
		return f.expr(arg), true
	case tk == kInt && fk == kUint:
		// `int(b - '0')`: the plain path writes `((b - 48) : Int)`, which Lean
		// elaborates as `↑b - ↑48` (the ascription reaches the leaves of the
		// arithmetic), i.e. an Int subtraction; the stated meaning of an unsigned
		// `-` is the TRUNCATED one, so the cast must stay outside
		if _, ok := to.Underlying().(*types.Basic); ok {
			return "Int.ofNat " + g2lPar(f.expr(arg)), true
		}
	}
	return "", false
}

func (f *g2lFn) strBuiltin(c *ast.CallExpr) (string, bool) {
	id, _ := ast.Unparen(c.Fun).(*ast.Ident)
	if id == nil {
		return "", false
	}
	switch id.Name {
	case "len":
		if len(c.Args) == 1 && g2lKindOf(f.typeOf(c.Args[0])) == kString {
			if tv, ok := f.g.info.Types[c]; ok && tv.Value != nil {
				return "", false
			}
			return "(" + g2lPar(f.expr(c.Args[0])) + ".length : Int)", true
		}
	case "make":
		if len(c.Args) < 2 || len(c.Args) > 3 {
			return "", false
		}
		t := f.typeOf(c.Args[0])
		sl, ok := t.Underlying().(*types.Slice)
		if !ok {
			f.fail("`%s` (only make([]T, n))", f.src(c))
		}
		z, err := f.g.zero(sl.Elem())
		if err != nil {
			f.fail("%v", err)
		}
		return fmt.Sprintf("(List.replicate %s %s : %s)", f.natIndex(c.Args[1]), z, f.lean(t)), true
	}
	return "", false
}

// sprintf: %s with string arguments, %d and %02d with signed integers, %%.
func (f *g2lFn) sprintf(c *ast.CallExpr) string {
	if len(c.Args) == 0 || c.Ellipsis.IsValid() {
		f.fail("`%s`", f.src(c))
	}
	tv := f.g.info.Types[c.Args[0]]
	if tv.Value == nil || tv.Value.Kind() != constant.String {
		f.fail("fmt.Sprintf with a format that is not a constant in `%s`", f.src(c))
	}
	format := constant.StringVal(tv.Value)
	args := c.Args[1:]
	var parts []string
	lit := ""
	flush := func() {
		if lit != "" {
			parts = append(parts, f.g.strConst(lit))
			lit = ""
		}
	}
	next := func(verb string) ast.Expr {
		if len(args) == 0 {
			f.fail("fmt.Sprintf: no argument for %s in `%s`", verb, f.src(c))
		}
		a := args[0]
		args = args[1:]
		return a
	}
	for i := 0; i < len(format); i++ {
		if format[i] != '%' {
			lit += string(format[i])
			continue
		}
		rest := format[i+1:]
		switch {
		case strings.HasPrefix(rest, "%"):
			lit += "%"
			i++
		case strings.HasPrefix(rest, "s"):
			a := next("%s")
			if g2lKindOf(f.typeOf(a)) != kString {
				f.fail("fmt.Sprintf: %%s with an argument that is not a string in `%s`", f.src(c))
			}
			flush()
			parts = append(parts, g2lPar(f.expr(a)))
			i++
		case strings.HasPrefix(rest, "d"), strings.HasPrefix(rest, "02d"):
			verb, fn := "%d", "GoblVerif.GoStr.itoa "
			if rest[0] == '0' {
				verb, fn = "%02d", "GoblVerif.GoStr.fmt02d "
			}
			a := next(verb)
			if g2lKindOf(f.typeOf(a)) != kInt {
				f.fail("fmt.Sprintf: %s with an argument that is not a signed integer in `%s`", verb, f.src(c))
			}
			flush()
			parts = append(parts, g2lPar(fn+g2lPar(f.expr(a))))
			i += len(verb) - 1
		default:
			if p, n, ok := f.sprintfVerbExt(rest, next, c); ok { // go2lean_codec.go
				flush()
				parts = append(parts, g2lPar(p))
				i += n
				continue
			}
			f.fail("fmt.Sprintf: verb at `%s` of %s is outside the subset", rest, strconv.Quote(format))
		}
	}
	flush()
	if len(args) != 0 {
		f.fail("fmt.Sprintf: extra arguments in `%s`", f.src(c))
	}
	if len(parts) == 0 {
		return f.g.strConst("")
	}
	return strings.Join(parts, " ++ ")
}

// ---------------------------------------------------------------- index, slice, literals

func (f *g2lFn) indexExt(x *ast.IndexExpr, t types.Type) (string, bool) {
	if !f.g.strOn() {
		return "", false
	}
	if g2lKindOf(t) == kString && f.g.bytesOn() { // go2lean_buffer.go
		return "GoblVerif.GoBytes.byteAt " + g2lPar(f.expr(x.X)) + " " + f.natIndex(x.Index), true
	}
	if g2lKindOf(t) == kString {
		return "GoblVerif.GoStr.byteAt " + g2lPar(f.expr(x.X)) + " " + f.natIndex(x.Index), true
	}
	if m, ok := t.Underlying().(*types.Map); ok {
		f.readOnlyMap(x.X)
		z, err := f.g.zero(m.Elem())
		if err != nil {
			f.fail("%v", err)
		}
		return "GoblVerif.GoStr.mapGet " + g2lPar(f.expr(x.X)) + " " + g2lPar(f.expr(x.Index)) + " " + g2lPar(z), true
	}
	return "", false
}

// readOnlyMap: the map must be a package-level variable (emitted from its
// literal, and rejected by translateVar if it is assigned anywhere) or a parameter.
func (f *g2lFn) readOnlyMap(e ast.Expr) {
	id, ok := ast.Unparen(e).(*ast.Ident)
	if !ok {
		f.fail("map expression `%s` (only package-level map literals and parameters)", f.src(e))
	}
	o, _ := f.g.info.Uses[id].(*types.Var)
	if o == nil {
		f.fail("map `%s`", id.Name)
	}
	if o.Pkg() == f.g.pkg && o.Parent() == f.g.pkg.Scope() {
		return
	}
	if f.mutated[o] {
		f.fail("map `%s` is written in this function", id.Name)
	}
}

func (f *g2lFn) compositeExt(x *ast.CompositeLit, t types.Type) (string, bool) {
	if !f.g.strOn() {
		return "", false
	}
	if _, ok := t.Underlying().(*types.Map); !ok {
		return "", false
	}
	var parts []string
	seen := map[string]bool{}
	for _, el := range x.Elts {
		kv, ok := el.(*ast.KeyValueExpr)
		if !ok {
			f.fail("map literal `%s`", f.src(x))
		}
		ktv := f.g.info.Types[kv.Key]
		if ktv.Value == nil {
			f.fail("map literal with a key that is not a constant in `%s`", f.src(x))
		}
		ks := ktv.Value.ExactString()
		if seen[ks] {
			f.fail("duplicate key in `%s`", f.src(x))
		}
		seen[ks] = true
		parts = append(parts, "("+f.expr(kv.Key)+", "+f.expr(kv.Value)+")")
	}
	return "([" + strings.Join(parts, ", ") + "] : " + f.lean(t) + ")", true
}

func (f *g2lFn) sliceExpr(x *ast.SliceExpr) string {
	if !f.g.strOn() {
		f.fail("slice expression `%s` is outside the subset", f.src(x))
	}
	if x.Slice3 {
		f.fail("three-index slice `%s`", f.src(x))
	}
	t := f.typeOf(x.X)
	k := g2lKindOf(t)
	if k != kString && k != kList {
		f.fail("slice of %s in `%s`", f.g.typeKey(t), f.src(x))
	}
	if k == kList {
		// value semantics: the result must not be written through, nor the
		// operand afterwards seen through it; element assignment is only
		// allowed on un-aliased make-slices (localSliceOK), which excludes both
		if id, ok := ast.Unparen(x.X).(*ast.Ident); ok {
			if o, _ := f.g.info.Uses[id].(*types.Var); o != nil && f.mutated[o] && !f.localSliceOK(x.X) && !f.sliceOfAssignedOK(x.X) { // go2lean_buffer.go: owned slices
				f.fail("slice of `%s`, which is assigned in this function (aliasing is not modelled)", id.Name)
			}
		}
	}
	s := g2lPar(f.expr(x.X))
	switch {
	case x.Low == nil && x.High == nil:
		return s
	case x.Low == nil:
		return "List.take " + f.natIndex(x.High) + " " + s
	case x.High == nil:
		return "List.drop " + f.natIndex(x.Low) + " " + s
	}
	if f.g.bytesOn() { // go2lean_buffer.go
		return "GoblVerif.GoBytes.slice " + s + " " + f.natIndex(x.Low) + " " + f.natIndex(x.High)
	}
	return "GoblVerif.GoStr.slice " + s + " " + f.natIndex(x.Low) + " " + f.natIndex(x.High)
}

// ---------------------------------------------------------------- statements

// tupleRhs: the right-hand side of `a, b := e` as a Lean pair.
func (f *g2lFn) tupleRhs(x *ast.AssignStmt) string {
	switch r := ast.Unparen(x.Rhs[0]).(type) {
	case *ast.CallExpr:
		return f.exprNB(r)
	case *ast.TypeAssertExpr:
		if s, ok := f.typeAssertEnv(x, r); ok { // go2lean_env.go
			return s
		}
		if !f.g.strOn() || len(x.Lhs) != 2 || r.Type == nil {
			break
		}
		if s, ok := f.assertPrim(r); ok { // go2lean_buffer.go: an assertion named by a primitive
			return s
		}
		it, ok := f.typeOf(r.X).Underlying().(*types.Interface)
		if !ok || !it.Empty() {
			f.fail("type assertion on %s in `%s` (only the empty interface)", f.g.typeKey(f.typeOf(r.X)), f.src(x))
		}
		to := f.g.info.Types[r.Type].Type
		if to == nil {
			f.fail("`%s`", f.src(x))
		}
		if s, ok := f.assertExt(to, r.X); ok { // go2lean_refs.go: interface{} as a sum type
			return s
		}
		want := "Option " + g2lPar(f.lean(to))
		if got := f.lean(f.typeOf(r.X)); got != want {
			f.fail("type assertion to %s, but interface{} is configured as %s", f.g.typeKey(to), got)
		}
		z, err := f.g.zero(to)
		if err != nil {
			f.fail("%v", err)
		}
		v := g2lPar(f.expr(r.X))
		return "(" + v + ".getD " + g2lPar(z) + ", " + v + ".isSome)"
	case *ast.IndexExpr:
		if !f.g.strOn() || len(x.Lhs) != 2 {
			break
		}
		m, ok := f.typeOf(r.X).Underlying().(*types.Map)
		if !ok {
			break
		}
		f.readOnlyMap(r.X)
		z, err := f.g.zero(m.Elem())
		if err != nil {
			f.fail("%v", err)
		}
		return "GoblVerif.GoStr.mapGet2 " + g2lPar(f.expr(r.X)) + " " + g2lPar(f.expr(r.Index)) + " " + g2lPar(z)
	}
	f.fail("`%s` (this comma-ok form is outside the subset)", f.src(x))
	return ""
}

// localSliceOK: e is a local variable declared `x := make([]T, n)` in this
// function, and every other use of it is `x[i]`, `len(x)`, `range x`, or
// `x[a:b]` directly under a range or an index — so nothing can alias it and
// `x[i] = v` is `x := x.set i v`.
func (f *g2lFn) localSliceOK(e ast.Expr) bool {
	if !f.g.strOn() {
		return false
	}
	id, ok := ast.Unparen(e).(*ast.Ident)
	if !ok {
		return false
	}
	obj, _ := f.g.info.Uses[id].(*types.Var)
	if obj == nil || f.names[obj] == "" {
		return false
	}
	if _, isSlice := obj.Type().Underlying().(*types.Slice); !isSlice {
		return false
	}
	fd := f.g.findFunc(f.key)
	if fd == nil || fd.Body == nil {
		return false
	}
	declared, ok2 := false, true
	var stack []ast.Node
	ast.Inspect(fd.Body, func(n ast.Node) bool {
		if n == nil {
			stack = stack[:len(stack)-1]
			return true
		}
		stack = append(stack, n)
		u, isId := n.(*ast.Ident)
		if !isId {
			return true
		}
		if f.g.info.Defs[u] == obj {
			// the declaration: must be `x := make(…)` (alone on its side)
			if len(stack) >= 2 {
				if as, ok := stack[len(stack)-2].(*ast.AssignStmt); ok && len(as.Lhs) == 1 && len(as.Rhs) == 1 {
					if call, ok := ast.Unparen(as.Rhs[0]).(*ast.CallExpr); ok {
						if fid, ok := ast.Unparen(call.Fun).(*ast.Ident); ok && fid.Name == "make" && f.g.info.Types[call.Fun].IsBuiltin() {
							declared = true
							return true
						}
					}
				}
			}
			ok2 = false
			return true
		}
		if f.g.info.Uses[u] != obj {
			return true
		}
		// a use: look at the parent (through parentheses)
		p := len(stack) - 2
		for p >= 0 {
			if _, isPar := stack[p].(*ast.ParenExpr); !isPar {
				break
			}
			p--
		}
		if p < 0 {
			ok2 = false
			return true
		}
		child := stack[p+1]
		switch par := stack[p].(type) {
		case *ast.IndexExpr:
			if par.X != child {
				ok2 = false
			}
		case *ast.RangeStmt:
			if par.X != child {
				ok2 = false
			}
		case *ast.CallExpr:
			fid, isId := ast.Unparen(par.Fun).(*ast.Ident)
			if !isId || fid.Name != "len" || !f.g.info.Types[par.Fun].IsBuiltin() {
				ok2 = false
			}
		case *ast.SliceExpr:
			if par.X != child || p == 0 {
				ok2 = false
				break
			}
			switch gp := stack[p-1].(type) {
			case *ast.RangeStmt:
				if gp.X != par {
					ok2 = false
				}
			case *ast.IndexExpr:
				if gp.X != par {
					ok2 = false
				}
			default:
				ok2 = false
			}
		default:
			ok2 = false
		}
		return true
	})
	return declared && ok2
}

// rangeString: `for i, r := range s` over the BYTES of s (see the header).
func (f *g2lFn) rangeString(x *ast.RangeStmt, k, v *types.Var, ind int) (out, head []string) {
	if !f.g.strOn() {
		f.fail("range over %s", f.g.typeKey(f.typeOf(x.X)))
	}
	it := f.fresh("it")
	s := f.expr(x.X)
	if k == nil {
		out = append(out, fmt.Sprintf("%sfor %s in %s do", g2lInd(ind), it, s))
		if v != nil {
			head = append(head, f.letLine(ind+1, v, f.names[v], v.Type(), "GoblVerif.GoStr.runeOf "+it))
		}
		return out, head
	}
	out = append(out, fmt.Sprintf("%sfor %s in %s.zipIdx do", g2lInd(ind), it, g2lPar(s)))
	head = append(head, f.letLine(ind+1, k, f.names[k], k.Type(), "("+it+".2 : Int)"))
	if v != nil {
		head = append(head, f.letLine(ind+1, v, f.names[v], v.Type(), "GoblVerif.GoStr.runeOf "+it+".1"))
	}
	return out, head
}
