// Package sample exercises the go2lean subset beyond what package num needs.
package sample

import "math"

type Rate struct {
	Since   int64
	Percent int64
	Disable bool
}

type Def struct {
	Rates []*Rate
	Base  *Rate
	Tags  []string
}

type Counter struct {
	n    uint32
	hits [3]int
}

const limit = 10

var weights = []int{2, 3, 4, 5, 6, 7}

// range over a slice of pointers, nil checks, early return inside the loop
func (d Def) Value(date int64) *Rate {
	for _, r := range d.Rates {
		if r == nil || r.Disable {
			continue
		}
		if r.Since <= date {
			return r
		}
	}
	return d.Base
}

// index and value, accumulation, modulo
func CheckDigit(digits []int) int {
	sum := 0
	for i, v := range digits {
		sum += v * weights[i%len(weights)]
	}
	rem := sum % 11
	if rem < 2 {
		return 0
	}
	return 11 - rem
}

// three-clause loop, switch without tag, nested loop, range over an integer
func Grid(n int) int {
	total := 0
	for i := 0; i < n; i++ {
		for j := range n {
			switch {
			case i == j:
				total += 2
			case i < j && j-i > limit:
				total--
			default:
				total++
			}
		}
	}
	return total
}

// field assignment on a local struct value, array element assignment
func (c Counter) Hit(k int) Counter {
	c.n++
	if k >= 0 && k < 3 {
		c.hits[k] = c.hits[k] + 1
	}
	return c
}

// parallel assignment, string concatenation, multiple results
func Swap(a, b string) (string, string, bool) {
	a, b = b, a
	return a + "-", b, a == b
}

// var declaration, else-if chain with an init statement, float arithmetic
func Clamp(x float64) float64 {
	var y float64
	if z := math.Floor(x); z < 0 {
		y = 0
	} else if z > 100 {
		y = 100
	} else {
		y = z + 0.5
	}
	return y
}

// shadowing: the inner `v` must get a name of its own
func Shadow(v int) int {
	if v > 0 {
		v := v * 2
		if v > 10 {
			v := v - 10
			return v
		}
		return v
	}
	return v
}

// ---- outside the subset: each must be reported, none may be guessed

func (c *Counter) Reset() int { c.n = 0; return 0 }

func UsesMap(m map[string]int) int { return m["a"] }

func UsesClosure(x int) int {
	f := func(y int) int { return y + 1 }
	return f(x)
}

func UsesDefer(x int) (r int) {
	defer func() { r++ }()
	return x
}

func Recursive(n int) int {
	if n <= 0 {
		return 0
	}
	return 1 + Recursive(n-1)
}

func CallsRecursive(n int) int { return Recursive(n) + 1 }

func StringBytes(s string) int { return len(s) }

func NoFuel(n int) int {
	for n > 0 {
		n--
	}
	return n
}
