// Package ptrmap exercises the go2lean extensions of task B5: pointers that
// are only read, nil-free slices, maps, promoted members, in-out parameters.
package ptrmap

import "example.test/g2l/inner"

type When struct {
	inner.Stamp
}

type Row struct {
	Tags  []string
	Attrs map[string]string
	Since *When
	Rate  int
}

type Table struct {
	Key  string
	Rows []*Row
}

type Box struct {
	Name  string
	Rate  *int
	Attrs map[string]string
	seen  bool
}

const ErrNone inner.Fail = "none"

// read-only pointer receiver, nil-free slice, promoted method through a
// pointer field, field primitive for the embedded struct, returned element
func (t *Table) Pick(on When, attrs map[string]string) *Row {
	for _, r := range t.Rows {
		if len(r.Attrs) > 0 && !r.matches(attrs) {
			continue
		}
		if r.Since == nil || !r.Since.Valid() || !r.Since.After(on.Stamp) {
			return r
		}
	}
	return nil
}

// range over a map (listed in mapRanges), comma-ok lookup
func (r *Row) matches(attrs map[string]string) bool {
	for k, v := range r.Attrs {
		got, ok := attrs[k]
		if !ok || got != v {
			return false
		}
	}
	return true
}

// single-value map index, index into a nil-free slice, a nil test decided by the assumption
func (t *Table) First(k string) string {
	if len(t.Rows) == 0 || t.Rows[0] == nil {
		return ""
	}
	return t.Rows[0].Attrs[k]
}

// a pointer that is nil-tested stays an Option; calling on with it keeps the mode
func (t *Table) KeyOr(def string) string {
	if t == nil {
		return def
	}
	return t.Key
}

func Lookup(t *Table, def string) string { return t.KeyOr(def) }

// in-out receiver: field writes, map write, make, map nil test, &local, error result
func (b *Box) Fill(t *Table, on When) error {
	row := t.Pick(on, b.Attrs)
	if row == nil {
		return ErrNone.With("no row for %s", b.Name)
	}
	if b.Attrs == nil {
		b.Attrs = make(map[string]string)
	}
	for k, v := range row.Attrs {
		b.Attrs[k] = v
	}
	n := row.Rate
	b.Rate = &n
	return nil
}

// ---- outside the subset: each must be reported

// a write through a pointer that the configuration does not declare in-out
func (r *Row) Bump() int { r.Rate++; return r.Rate }

// the address of a field (aliasing)
func (r *Row) RatePtr() *int { return &r.Rate }

// a caller of a function with in-out parameters
func FillTwice(b *Box, t *Table, on When) error {
	if err := b.Fill(t, on); err != nil {
		return err
	}
	return b.Fill(t, on)
}

// a write to a map that belongs to somebody else
func (t *Table) Poison(k string) int {
	t.Rows[0].Attrs[k] = "x"
	return 0
}
