// Package inner is imported by the ptrmap fixture: an embedded struct with methods.
package inner

type Stamp struct {
	Day int
}

func (s Stamp) Valid() bool { return s.Day > 0 }

func (s Stamp) After(o Stamp) bool { return s.Day > o.Day }

type Fail string

func (f Fail) With(msg string, args ...any) error { return nil }
