package main

// EnvelopeSrc (C10, and through it C09): the decision logic of /repo/envelope.go
// TRANSLATED to Lean by go2lean on every run.

const envSrcNS = "GoblVerif.Generated.EnvelopeSrc"
const envSrcP = "GoblVerif.EnvSrc."

const envSrcStubContext = `package context
type Context interface{ Value(key any) any }
func Background() Context
`
const envSrcStubValidation = `package validation
import "context"
type Errors map[string]error
func (es Errors) Error() string
type Rule interface{ Validate(value interface{}) error }
type FieldRules struct{}
type RequiredRule struct{}
func (r RequiredRule) Validate(value interface{}) error
func (r RequiredRule) Error(message string) RequiredRule
var Required = RequiredRule{}
type EachRule struct{}
func (r EachRule) Validate(value interface{}) error
func Each(rules ...Rule) EachRule
func Field(fieldPtr interface{}, rules ...Rule) *FieldRules
func ValidateStructWithContext(ctx context.Context, structPtr interface{}, fields ...*FieldRules) error
func ValidateStruct(structPtr interface{}, fields ...*FieldRules) error
`
const envSrcStubErrors = `package errors
func New(text string) error
func Is(err, target error) bool
`
const envSrcStubStrconv = `package strconv
func Itoa(i int) string
`

func envelopeSrcConfig() *G2LConfig {
	cfg := &G2LConfig{
		Repo:      *repo,
		Module:    "github.com/invopop/gobl",
		Pkg:       ".",
		Tags:      []string{"verif"},
		Namespace: envSrcNS,
		Title:     "EnvelopeSrc: the decision logic of /repo/envelope.go translated from Go.",
		Imports:   []string{"GoblVerif.Model.EnvelopeSrcPrims", "GoblVerif.Model.GoSem", "GoblVerif.Model.GoSemMap"},
		Structs: map[string]G2LStruct{
			"Envelope": {Lean: envSrcP + "Envelope"},
			"head.Header": {Lean: "GoblVerif.Header", Fields: map[string]string{
				"UUID": "uuid", "Digest": "dig", "Stamps": "stamps", "Links": "links", "Tags": "tags", "Meta": "metas", "Notes": "notes"}},
			"head.Stamp": {Lean: "GoblVerif.Stamp", Fields: map[string]string{"Provider": "prv", "Value": "val"}},
			"head.Link": {Lean: "GoblVerif.Link", Fields: map[string]string{
				"Key": "key", "Title": "title", "Description": "description", "MIME": "mime", "URL": "url"}},
			"dsig.Digest": {Lean: "GoblVerif.Digest", Fields: map[string]string{"Algorithm": "alg", "Value": "val"}},
		},
		Named: map[string]string{
			"schema.ID":       "String",
			"uuid.UUID":       "String",
			"schema.Object":   envSrcP + "Obj",
			"dsig.Signature":  "GoblVerif.Sig",
			"dsig.PrivateKey": "GoblVerif.Key",
			"dsig.PublicKey":  "GoblVerif.Key",
			"error":           "Option " + envSrcP + "Err",
			"*Error":          "Option " + envSrcP + "Err",
			"context.Context": "Bool",
			"interface{}":     envSrcP + "AnyDoc",
		},
		NonNilElems: []string{"[]*head.Stamp", "[]*head.Link"},
		Maps:        true,
		Prims: map[string]string{
			"Error.WithReason":                     "{0}",
			"Error.WithCause":                      envSrcP + "withCause {0} {1}",
			"wrapError":                            envSrcP + "wrapError {0}",
			"NewError":                             "(some (" + envSrcP + "Err.gobl {0:lit}))",
			"errors.New":                           envSrcP + "errNew {0:lit}",
			"strconv.Itoa":                         "(toString {0})",
			"context.Background":                   "false",
			"internal.SignedContext":               "true",
			"validation.ValidateStructWithContext": envSrcP + "validateStruct {0} {1}",
			"Envelope.Digest":                      envSrcP + "digestPrim {0}",
			"dsig.Digest.Equals":                   envSrcP + "digestEquals {0} {1}",
			"dsig.PrivateKey.Sign":                 envSrcP + "keySign {0} {1}",
			"dsig.Signature.UnsafePayload":         envSrcP + "sigPayload {0}",
			"dsig.Signature.VerifyPayload":         envSrcP + "sigVerifyPayload {0} {1}",
			"schema.CheckNullElements":             envSrcP + "checkNull {0}",
			"head.Header.Contains":                 "GoblVerif.Header.contains ({0}.get!) ({1}.get!)",
			"schema.Object.IsEmpty":                envSrcP + "objIsEmpty {0}",
			"schema.Object.Calculate":              envSrcP + "objCalculate {0}",
			"schema.NewObject":                     envSrcP + "newObject {0}",
			"head.NewHeader":                       envSrcP + "newHeader",
			"uuid.UUID.IsZero":                     envSrcP + "uuidIsZero {0}",
			"uuid.V7":                              envSrcP + "freshUUID",
			"schema.ID.Add":                        envSrcP + "envelopeSchemaId",
		},
		Stubs: map[string]string{
			"context": envSrcStubContext, "github.com/invopop/validation": envSrcStubValidation,
			"errors": envSrcStubErrors, "strconv": envSrcStubStrconv,
		},
		Funcs: []G2LFunc{
			{Name: "Envelope.Signed"},
			{Name: "Envelope.verifyDigest"},
			{Name: "Envelope.ValidateWithContext"},
			{Name: "Envelope.Validate"},
			{Name: "Envelope.Unsign", InOut: []string{"e"}},
			{Name: "Envelope.Sign", InOut: []string{"e"}},
			{Name: "Envelope.calculate", InOut: []string{"e"}},
			{Name: "Envelope.Calculate", InOut: []string{"e"}},
			{Name: "Envelope.Insert", InOut: []string{"e"}},
			{Name: "Envelope.verifySignature"},
			{Name: "Envelope.Verify"},
		},
		Vars: []string{"ErrNoDocument", "ErrValidation", "ErrCalculation", "ErrSignature", "ErrDigest", "ErrInternal"},
	}
	return G2LEnvRegister(cfg, &G2LEnvOpts{
		PrimDeref:     map[string]bool{"validation.ValidateStructWithContext": true, "Envelope.Digest": true},
		PtrWrites:     true,
		OutPrims:      map[string]int{"dsig.Signature.UnsafePayload": 0, "dsig.Signature.VerifyPayload": 1},
		IfaceNil:      envSrcP + "AnyDoc.isNil {0}",
		TypeAssert:    map[string]string{"*schema.Object": envSrcP + "AnyDoc.asObj {0}"},
		Variadic:      true,
		AddrRecvPrims: true,
	})
}

func init() {
	register(func() (string, string, error) {
		name := "EnvelopeSrc"
		cfg := envelopeSrcConfig()
		text, err := G2LRun(cfg)
		if err != nil {
			// never keep a stale translation: the obligations of Props/C10 must fail
			text = "/- REGENERATED — the gobl package could not be loaded: " + g2lComment(g2lOneLine(err.Error())) + " -/\nnamespace " + cfg.Namespace +
				"\ndef untranslated : List String := [\"*\"]\nend " + cfg.Namespace + "\n"
		}
		return name, text, nil
	})
}
