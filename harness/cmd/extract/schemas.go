package main

import (
	"bytes"
	"encoding/json"
	"fmt"
	"io"
	"io/fs"
	"math/big"
	"os"
	"path/filepath"
	"sort"
	"strings"
)

// Schemas: every file under /repo/data/schemas dumped as Lean data (the
// generic JSON value type `GoblVerif.Schema.JVal`), one def per `$defs`
// entry and one per file, plus the keyword / pattern / format inventories.
// Nothing is interpreted here: an ill-typed keyword value is emitted as it
// stands, so that it breaks `keywords_well_typed` in Lean, not the extractor.
// One economy: the *text* of string-valued `description` keywords is elided
// (70% of the bytes; no check looks at it), the value stays a string.

type jnode struct {
	kind byte // n b d s a o
	b    bool
	num  string
	s    string
	arr  []*jnode
	keys []string
	vals []*jnode
}

func parseOrdered(data []byte) (*jnode, error) {
	dec := json.NewDecoder(bytes.NewReader(data))
	dec.UseNumber()
	n, err := parseValue(dec)
	if err != nil {
		return nil, err
	}
	if _, err := dec.Token(); err != io.EOF {
		return nil, fmt.Errorf("trailing data")
	}
	return n, nil
}

func parseValue(dec *json.Decoder) (*jnode, error) {
	t, err := dec.Token()
	if err != nil {
		return nil, err
	}
	switch v := t.(type) {
	case nil:
		return &jnode{kind: 'n'}, nil
	case bool:
		return &jnode{kind: 'b', b: v}, nil
	case json.Number:
		return &jnode{kind: 'd', num: v.String()}, nil
	case string:
		return &jnode{kind: 's', s: v}, nil
	case json.Delim:
		switch v {
		case '[':
			n := &jnode{kind: 'a'}
			for dec.More() {
				c, err := parseValue(dec)
				if err != nil {
					return nil, err
				}
				n.arr = append(n.arr, c)
			}
			_, err := dec.Token()
			return n, err
		case '{':
			n := &jnode{kind: 'o'}
			for dec.More() {
				kt, err := dec.Token()
				if err != nil {
					return nil, err
				}
				k, ok := kt.(string)
				if !ok {
					return nil, fmt.Errorf("object key is not a string")
				}
				c, err := parseValue(dec)
				if err != nil {
					return nil, err
				}
				n.keys = append(n.keys, k)
				n.vals = append(n.vals, c)
			}
			_, err := dec.Token()
			return n, err
		}
	}
	return nil, fmt.Errorf("unexpected token %v", t)
}

func (n *jnode) get(k string) *jnode {
	if n == nil || n.kind != 'o' {
		return nil
	}
	for i, kk := range n.keys {
		if kk == k {
			return n.vals[i]
		}
	}
	return nil
}

// decNumber turns a JSON number literal into mantissa * 10^exp.
func decNumber(lit string) (string, string, error) {
	r, ok := new(big.Rat).SetString(lit)
	if !ok {
		return "", "", fmt.Errorf("bad number %q", lit)
	}
	exp := 0
	ten := big.NewRat(10, 1)
	for !r.IsInt() {
		r.Mul(r, ten)
		exp--
		if exp < -400 {
			return "", "", fmt.Errorf("number %q out of range", lit)
		}
	}
	return r.Num().String(), fmt.Sprint(exp), nil
}

// leanS renders a string as the `NStr` number of Model/NStr.lean: 0x1 followed by six hex digits per code point.
func leanS(s string) string {
	var sb strings.Builder
	sb.WriteString("0x1")
	for _, r := range s {
		fmt.Fprintf(&sb, "%06x", r)
	}
	return sb.String()
}

// leanSC is leanS followed by the text as a comment (for keys and other short strings).
func leanSC(s string) string {
	if len(s) <= 48 && !strings.ContainsAny(s, "\n\r") && !strings.Contains(s, "-/") && !strings.Contains(s, "/-") {
		return leanS(s) + " /- " + s + " -/"
	}
	return leanS(s)
}

func leanSList(xs []string) string {
	q := make([]string, len(xs))
	for i, x := range xs {
		q[i] = leanSC(x)
	}
	return "[" + strings.Join(q, ", ") + "]"
}

func leanInt(s string) string {
	if strings.HasPrefix(s, "-") {
		return "(" + s + ")"
	}
	return s
}

// leanJ renders a node as a Lean term; hoist maps node pointers to names of
// defs emitted separately.
func leanJ(n *jnode, hoist map[*jnode]string, sb *strings.Builder) error {
	if name, ok := hoist[n]; ok {
		sb.WriteString(name)
		return nil
	}
	if elided[n] {
		// the text of a `description` annotation is of no consequence to any check; only its kind is kept
		fmt.Fprintf(sb, ".str 0x1 /- text elided: %d code points -/", len([]rune(n.s)))
		return nil
	}
	switch n.kind {
	case 'n':
		sb.WriteString(".null")
	case 'b':
		if n.b {
			sb.WriteString(".bool true")
		} else {
			sb.WriteString(".bool false")
		}
	case 'd':
		m, e, err := decNumber(n.num)
		if err != nil {
			return err
		}
		sb.WriteString(".num " + leanInt(m) + " " + leanInt(e))
	case 's':
		sb.WriteString(".str " + strRef(n.s))
	case 'a':
		sb.WriteString(".arr [")
		for i, c := range n.arr {
			if i > 0 {
				sb.WriteString(", ")
			}
			if err := leanJ(c, hoist, sb); err != nil {
				return err
			}
		}
		sb.WriteString("]")
	case 'o':
		sb.WriteString(".obj [")
		for i, k := range n.keys {
			if i > 0 {
				sb.WriteString(", ")
			}
			sb.WriteString("(" + strRef(k) + ", ")
			if err := leanJ(n.vals[i], hoist, sb); err != nil {
				return err
			}
			sb.WriteString(")")
		}
		sb.WriteString("]")
	}
	return nil
}

// schema-position walk (only used for the inventories printed beside the data;
// the Lean side recomputes them from the data itself).
var kwSchema = map[string]bool{"items": true, "additionalProperties": true, "not": true, "if": true, "then": true, "else": true,
	"contains": true, "propertyNames": true, "unevaluatedItems": true, "unevaluatedProperties": true}
var kwSchemaArr = map[string]bool{"oneOf": true, "anyOf": true, "allOf": true, "prefixItems": true}
var kwSchemaMap = map[string]bool{"properties": true, "$defs": true, "patternProperties": true, "dependentSchemas": true}

func walkSchema(n *jnode, f func(*jnode)) {
	if n == nil || n.kind != 'o' {
		return
	}
	f(n)
	for i, k := range n.keys {
		v := n.vals[i]
		switch {
		case kwSchema[k]:
			walkSchema(v, f)
		case kwSchemaArr[k]:
			if v.kind == 'a' {
				for _, c := range v.arr {
					walkSchema(c, f)
				}
			}
		case kwSchemaMap[k]:
			if v.kind == 'o' {
				for _, c := range v.vals {
					walkSchema(c, f)
				}
			}
		}
	}
}

// interned strings: texts occurring several times get one def each (`t_<n>`).
var (
	internCount = map[string]int{}
	internName  = map[string]string{}
)

func countStrings(n *jnode) {
	switch n.kind {
	case 's':
		if !elided[n] {
			internCount[n.s]++
		}
	case 'a':
		for _, c := range n.arr {
			countStrings(c)
		}
	case 'o':
		for i, k := range n.keys {
			internCount[k]++
			countStrings(n.vals[i])
		}
	}
}

func strRef(s string) string {
	if nm, ok := internName[s]; ok {
		return nm
	}
	return leanSC(s)
}

// elided marks the string values of `description` keywords at schema positions.
var elided = map[*jnode]bool{}

func markElided(root *jnode) {
	walkSchema(root, func(n *jnode) {
		for i, k := range n.keys {
			if k == "description" && n.vals[i].kind == 's' {
				elided[n.vals[i]] = true
			}
		}
	})
}

type schemaFile struct {
	rel  string
	root *jnode
}

func loadSchemaFiles() ([]schemaFile, error) {
	base := filepath.Join(*repo, "data", "schemas")
	var files []schemaFile
	err := filepath.WalkDir(base, func(p string, d fs.DirEntry, err error) error {
		if err != nil {
			return err
		}
		if d.IsDir() || !strings.HasSuffix(p, ".json") {
			return nil
		}
		b, err := os.ReadFile(p)
		if err != nil {
			return err
		}
		n, err := parseOrdered(b)
		if err != nil {
			return fmt.Errorf("%s: %w", p, err)
		}
		rel, _ := filepath.Rel(base, p)
		files = append(files, schemaFile{rel: filepath.ToSlash(rel), root: n})
		return nil
	})
	sort.Slice(files, func(i, j int) bool { return files[i].rel < files[j].rel })
	return files, err
}

func schemaIdent(rel string) string {
	return "f_" + leanIdent(strings.TrimSuffix(rel, ".json"))
}

func init() {
	register(func() (string, string, error) {
		name := "Schemas"
		files, err := loadSchemaFiles()
		if err != nil {
			return name, "", err
		}
		var sb strings.Builder
		sb.WriteString("/- REGENERATED by harness/cmd/extract from /repo/data/schemas — do not edit -/\nimport GoblVerif.Model.Schema\nset_option maxRecDepth 100000\nset_option linter.all false\nnamespace GoblVerif.Generated.Schemas\nopen GoblVerif GoblVerif.Schema\n\n")
		kws := map[string]bool{}
		pats := map[string]bool{}
		fmts := map[string]bool{}
		typs := map[string]bool{}
		var idents []string
		for _, sf := range files {
			markElided(sf.root)
			countStrings(sf.root)
		}
		for i, t := range sortedKeys(internCount) {
			if internCount[t] >= 3 {
				nm := fmt.Sprintf("t_%d", i)
				internName[t] = nm
				sb.WriteString(fmt.Sprintf("def %s : NStr := %s\n", nm, leanSC(t)))
			}
		}
		sb.WriteString("\n")
		for _, sf := range files {
			id := schemaIdent(sf.rel)
			hoist := map[*jnode]string{}
			if defs := sf.root.get("$defs"); defs != nil && defs.kind == 'o' {
				for i, k := range defs.keys {
					dn := fmt.Sprintf("%s__%s", id, leanIdent(k))
					// hoist each property of a big definition as well
					if props := defs.vals[i].get("properties"); props != nil && props.kind == 'o' && len(props.keys) > 12 {
						for j, pk := range props.keys {
							pn := fmt.Sprintf("%s__p%d_%s", dn, j, leanIdent(strings.TrimPrefix(pk, "$")))
							var ps strings.Builder
							if err := leanJ(props.vals[j], hoist, &ps); err != nil {
								return name, "", err
							}
							sb.WriteString(fmt.Sprintf("def %s : JVal := %s\n", pn, ps.String()))
							hoist[props.vals[j]] = pn
						}
					}
					var ds strings.Builder
					if err := leanJ(defs.vals[i], hoist, &ds); err != nil {
						return name, "", err
					}
					sb.WriteString(fmt.Sprintf("def %s : JVal := %s\n", dn, ds.String()))
					hoist[defs.vals[i]] = dn
				}
			}
			var fs strings.Builder
			if err := leanJ(sf.root, hoist, &fs); err != nil {
				return name, "", err
			}
			sb.WriteString(fmt.Sprintf("def %s : JVal := %s\n\n", id, fs.String()))
			idents = append(idents, id)
			walkSchema(sf.root, func(n *jnode) {
				for i, k := range n.keys {
					kws[k] = true
					v := n.vals[i]
					switch k {
					case "pattern":
						if v.kind == 's' {
							pats[v.s] = true
						}
					case "patternProperties":
						if v.kind == 'o' {
							for _, pk := range v.keys {
								pats[pk] = true
							}
						}
					case "format":
						if v.kind == 's' {
							fmts[v.s] = true
						}
					case "type":
						if v.kind == 's' {
							typs[v.s] = true
						}
					}
				}
			})
		}
		sb.WriteString("/-- every schema file: path under data/schemas and content -/\ndef files : List (NStr × JVal) := [\n")
		for i, sf := range files {
			sep := ","
			if i == len(files)-1 {
				sep = ""
			}
			sb.WriteString(fmt.Sprintf("  (%s, %s)%s\n", leanSC(sf.rel), idents[i], sep))
		}
		sb.WriteString("]\n\n")
		sb.WriteString(fmt.Sprintf("def fileCount : Nat := %d\n", len(files)))
		sb.WriteString("/-- inventories as seen by the extractor's walk (recomputed in Lean from `files` as well) -/\n")
		sb.WriteString(fmt.Sprintf("def keywordInventory : List NStr := %s\n", leanSList(sortedKeys(kws))))
		sb.WriteString(fmt.Sprintf("def patternInventory : List NStr := %s\n", leanSList(sortedKeys(pats))))
		sb.WriteString(fmt.Sprintf("def formatInventory : List NStr := %s\n", leanSList(sortedKeys(fmts))))
		sb.WriteString(fmt.Sprintf("def typeInventory : List NStr := %s\n", leanSList(sortedKeys(typs))))
		sb.WriteString("\nend GoblVerif.Generated.Schemas\n")
		return name, sb.String(), nil
	})
}
