package main

// CodecSrc (C06): the text codec of /repo/num/amount.go and percentage.go
// TRANSLATED to Lean by go2lean (string mode, go2lean_string.go +
// go2lean_codec.go) on every run.  Props/C06.lean (namespace Src) proves every
// definition equal to the corresponding function of the hand-written
// Model/Codec.lean, so the theorems of C06 are statements about what the code
// says now.
//
// Declared primitives (Model/GoStrings.lean; each is compared with the real Go
// function on generated strings by the `prims` family of harness/props/c06):
//
//	strconv.ParseInt(s, 10, 64)  GoStrings.parseInt   (value, syntax / range error)
//	strings.HasPrefix            GoStr.hasPrefix
//	strings.Split                GoStrings.split      (separator not empty)
//	strings.TrimPrefix           GoStrings.trimPrefix
//	strings.TrimSuffix           GoStrings.trimSuffix
//	strings.TrimRight            GoStrings.trimRight  (ASCII cutset)
//	strings.Contains             GoStrings.contains
//	fmt.Sprintf %d / %0*d        GoStr.itoa / GoStrings.fmtPad0
//	json.Unmarshal(value, &text) GoJson.unmarshalString  (Model/GoJson.lean: one JSON string
//	                             token into a string; = Codec.jsonDecodeString)
//	string([]byte) / []byte(s)   GoStrings.ofBytes / toBytes

const codecSrcNS = "GoblVerif.Generated.CodecSrc"

const codecStubStrconv = `package strconv
func ParseInt(s string, base int, bitSize int) (int64, error)
`
const codecStubStrings = `package strings
func HasPrefix(s, prefix string) bool
func Split(s, sep string) []string
func TrimPrefix(s, prefix string) string
func TrimSuffix(s, suffix string) string
func TrimRight(s, cutset string) string
func Contains(s, substr string) bool
`
const codecStubJSON = `package json
func Unmarshal(data []byte, v any) error
`

const codecSrcHeader = `  CODEC (go2lean_codec.go, Model/GoStrings.lean; trusted, each primitive is
  compared with the real Go function by the prims family of harness/props/c06):
  * strconv.ParseInt(s, 10, 64) = GoStrings.parseInt s: optional sign, one or
    more ASCII digits; (0, syntax error) otherwise; beyond int64 the nearest
    bound and a range error.
  * strings.Split / TrimPrefix / TrimSuffix / Contains / HasPrefix on byte
    lists (Split: separator not empty); strings.TrimRight for a cutset of ASCII
    bytes.
  * fmt.Sprintf: %s, %d and %0*d (width argument, then the integer; zero
    padding, the sign counts and comes first).
  * string(b) for b []byte = GoStrings.ofBytes b, []byte(s) = GoStrings.toBytes s
    (a []byte is a List Nat of values below 256).
  * json.Unmarshal(value, &text) with text a local string = the declared
    primitive GoJson.unmarshalString value text : Str × Option Str (the text
    afterwards, the error; Model/GoJson.lean, for a value that starts with a
    quote); named results are locals that start with their zero values; *p = v
    on an in-out parameter replaces the pointee.
  * int64 arithmetic is UNBOUNDED here (see above): AmountFromString guards
    every product and sum (Props/C06 proves the unbounded and the wrapped
    computation equal for every text); Amount.String is faithful for
    exp ≤ 18 and values inside int64 only (10^exp wraps beyond).`

func codecSrcConfig() *G2LConfig {
	return &G2LConfig{
		Repo:      *repo,
		Module:    "github.com/invopop/gobl",
		Pkg:       "num",
		Tags:      []string{"verif"},
		Namespace: codecSrcNS,
		Title:     "CodecSrc: the text codec of /repo/num/amount.go and percentage.go translated from Go.\n\n" + codecSrcHeader,
		Imports:   []string{"GoblVerif.Model.Num", "GoblVerif.Model.GoSem", "GoblVerif.Model.GoStr", "GoblVerif.Model.GoStrings", "GoblVerif.Model.GoJson"},
		Codec:     true,
		OutPrims:  map[string]string{"json.Unmarshal": "GoblVerif.GoJson.unmarshalString {0} {1}"},
		Basic:     map[string]string{"string": g2lStr, "untyped string": g2lStr, "byte": "Nat", "rune": "Int"},
		Named: map[string]string{
			"error": g2lErrTy,
		},
		Structs: map[string]G2LStruct{
			"Amount":     {Lean: "GoblVerif.Amount"},
			"Percentage": {Lean: "GoblVerif.Pct"},
		},
		Prims: map[string]string{
			"int64(math.Round)":  "GoblVerif.goRound {0}",
			"math.Round":         "((GoblVerif.goRound {0} : Int) : Rat)",
			"errors.New":         "GoblVerif.GoStr.errNew {0:lit}",
			"strconv.ParseInt":   "GoblVerif.GoStrings.parseInt {0}",
			"strings.HasPrefix":  "GoblVerif.GoStr.hasPrefix {0} {1}",
			"strings.Split":      "GoblVerif.GoStrings.split {0} {1}",
			"strings.TrimPrefix": "GoblVerif.GoStrings.trimPrefix {0} {1}",
			"strings.TrimSuffix": "GoblVerif.GoStrings.trimSuffix {0} {1}",
			"strings.TrimRight":  "GoblVerif.GoStrings.trimRight {0} {1}",
			"strings.Contains":   "GoblVerif.GoStrings.contains {0} {1}",
		},
		Stubs: map[string]string{
			"math": G2LMathStub, "errors": taxIdStubErrors, "fmt": taxIdStubFmt,
			"strconv": codecStubStrconv, "strings": codecStubStrings, "encoding/json": codecStubJSON,
		},
		Funcs: []G2LFunc{
			{Name: "intPow", Fuel: []string{"exp"}},
			{Name: "isDigits", Fuel: []string{"s.length"}},
			{Name: "AmountFromString"},
			{Name: "Amount.String"},
			{Name: "Amount.MinimalString"},
			{Name: "Amount.MarshalText"},
			{Name: "jsonText"},
			{Name: "Amount.UnmarshalText", InOut: []string{"a"}},
			{Name: "Amount.UnmarshalJSON", InOut: []string{"a"}},
			{Name: "PercentageFromAmount"},
			{Name: "PercentageFromString"},
			{Name: "Amount.Rescale"},
			{Name: "Amount.RescaleUp"},
			{Name: "Percentage.Amount"},
			{Name: "Percentage.StringWithoutSymbol"},
			{Name: "Percentage.String"},
			{Name: "Percentage.MarshalText"},
			{Name: "Percentage.UnmarshalText", InOut: []string{"p"}},
			{Name: "Percentage.UnmarshalJSON", InOut: []string{"p"}},
		},
	}
}

func init() {
	register(func() (string, string, error) {
		name := "CodecSrc"
		cfg := codecSrcConfig()
		text, err := G2LRun(cfg)
		if err != nil {
			// never keep a stale translation: the obligations of Props/C06 must fail
			text = "/- REGENERATED — the num package could not be loaded: " + g2lComment(g2lOneLine(err.Error())) + " -/\nnamespace " + cfg.Namespace +
				"\ndef untranslated : List String := [\"*\"]\nend " + cfg.Namespace + "\n"
		}
		return name, text, nil
	})
}
