package main

import (
	"os"
	"path/filepath"
	"strings"
	"testing"
)

func g2lSampleConfig(t *testing.T) *G2LConfig {
	root, err := filepath.Abs("testdata/g2l")
	if err != nil {
		t.Fatal(err)
	}
	return &G2LConfig{
		Repo:      root,
		Module:    "example.test/g2l",
		Pkg:       "sample",
		Namespace: "GoblVerif.Generated.SampleSrc",
		Title:     "SampleSrc: the go2lean fixture (harness/cmd/extract/testdata/g2l/sample).",
		Imports:   []string{"GoblVerif.Model.GoSem"},
		Structs: map[string]G2LStruct{
			"Rate":    {Lean: "Rate", Emit: true, Deriving: []string{"Repr", "Inhabited", "DecidableEq"}},
			"Def":     {Lean: "Def", Emit: true, Deriving: []string{"Repr", "Inhabited"}},
			"Counter": {Lean: "Counter", Emit: true, Deriving: []string{"Repr", "Inhabited"}},
		},
		Prims: map[string]string{"math.Floor": "((Rat.floor {0} : Int) : Rat)"},
		Stubs: map[string]string{"math": G2LMathStub},
		Funcs: []G2LFunc{
			{Name: "Def.Value"}, {Name: "CheckDigit"}, {Name: "Grid", Fuel: []string{"Int.toNat n"}},
			{Name: "Counter.Hit"}, {Name: "Swap"}, {Name: "Clamp"}, {Name: "Shadow"},
			{Name: "Counter.Reset"}, {Name: "UsesMap"}, {Name: "UsesClosure"}, {Name: "UsesDefer"},
			{Name: "CallsRecursive"}, {Name: "StringBytes"}, {Name: "NoFuel"}, {Name: "Missing"},
		},
		Vars: []string{"weights"},
	}
}

// The translation of the fixture is pinned by a golden file (which is also
// compiled by Lean once: lean/GoblVerif/…/SampleSrc is not part of the
// library; see the report of task B1).  UPDATE_GOLDEN=1 rewrites it.
func TestGo2LeanSample(t *testing.T) {
	got, err := G2LRun(g2lSampleConfig(t))
	if err != nil {
		t.Fatal(err)
	}
	again, _ := G2LRun(g2lSampleConfig(t))
	if got != again {
		t.Fatal("translation is not deterministic")
	}
	golden := "testdata/g2l/SampleSrc.lean.golden"
	if os.Getenv("UPDATE_GOLDEN") != "" {
		if err := os.WriteFile(golden, []byte(got), 0o644); err != nil {
			t.Fatal(err)
		}
	}
	want, err := os.ReadFile(golden)
	if err != nil {
		t.Fatal(err)
	}
	if string(want) != got {
		t.Fatalf("translation differs from %s (UPDATE_GOLDEN=1 to accept)", golden)
	}
	for _, k := range []string{"Counter.Reset", "UsesMap", "UsesClosure", "UsesDefer", "Recursive", "CallsRecursive", "StringBytes", "NoFuel", "Missing"} {
		if !strings.Contains(got, "-- untranslated "+k+":") {
			t.Errorf("%s should be reported as untranslated", k)
		}
	}
	for _, k := range []string{"Def_Value", "CheckDigit", "Grid", "Counter_Hit", "Swap", "Clamp", "Shadow"} {
		if !strings.Contains(got, "\ndef "+k+" ") {
			t.Errorf("%s should be translated", k)
		}
	}
}
