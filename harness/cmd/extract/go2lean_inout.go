package main

// go2lean, the outermost function may WRITE (task B5): in-out parameters, map
// writes, and primitives that swallow arguments.  See go2lean_ptr.go and
// go2lean_map.go for the read-only part.
//
//   * IN-OUT PARAMETERS (G2LFunc.InOut): a pointer receiver / parameter that
//     the function writes through is, on request of the configuration,
//     translated as a value that the function also RETURNS: `func (c *T) f(…) R`
//     becomes `f (c : T) … : R × T`, `c.x = v` becomes `c := { c with x := v }`
//     and every `return r` becomes `return (r, c)`.  Such a parameter must be
//     used by dereference only (never nil-tested, stored, passed on), and a
//     function with in-out parameters cannot be called from translated code.
//     What the translation does not model: other holders of the same pointee.
//   * MAP WRITES `m[k] = v` (with Maps enabled) → `GoSem.mapSet m k v` on a local
//     or on a field of an in-out parameter; `make(map…)` → [].  A Go map is a
//     reference: other holders of the same map see the write in Go and not here;
//     every site is listed in `mapWrites`.
//   * `m == nil` for a map → `m.isEmpty`: nil and empty are the same list, so
//     this is faithful only where the guarded code does the same for an empty
//     non-nil map; every site is listed in `mapNilTests`.
//   * PRIMITIVES decide which arguments matter: an argument whose placeholder
//     {i} does not occur in the template is not translated at all (so a
//     primitive may be variadic, and may take messages, contexts, …).
//   * nil of an interface type whose configured Lean type is `Option …` is `none`.

import (
	"fmt"
	"go/ast"
	"go/token"
	"go/types"
	"strings"
)

func (g *g2l) inOutFor(key string) []string {
	for _, fc := range g.cfg.Funcs {
		if fc.Name == key {
			return fc.InOut
		}
	}
	return nil
}

// initInOut marks the in-out parameters of the function being translated.
func (f *g2lFn) initInOut(fn *types.Func, names []string) {
	if len(names) == 0 {
		return
	}
	sig := fn.Type().(*types.Signature)
	var vars []*types.Var
	if r := sig.Recv(); r != nil {
		vars = append(vars, r)
	}
	for i := 0; i < sig.Params().Len(); i++ {
		vars = append(vars, sig.Params().At(i))
	}
	for _, n := range names {
		var v *types.Var
		idx := -2
		for i, c := range vars {
			if c.Name() == n {
				v = c
				idx = i
				if sig.Recv() != nil {
					idx = i - 1
				}
			}
		}
		if v != nil && f.g.effectsOn() && f.g.nonNilSlice(v.Type()) { // go2lean_effects.go: an in-out slice of pointees
			f.mutated[v] = true
			f.inOut = append(f.inOut, v)
			continue
		}
		if v == nil || !g2lIsPtr(v.Type()) {
			f.fail("in-out parameter `%s` is not a pointer parameter of the function", n)
		}
		if !f.g.paramIsVal(fn, idx) {
			if !f.g.effectsOn() {
				f.fail("in-out parameter `%s` is used other than by dereference (nil test, stored, passed on)", n)
			}
			if !f.g.onlyNilTested(fn, v) { // go2lean_effects.go: a nil-tested in-out pointer stays an Option
				f.fail("in-out parameter `%s` is used other than by dereference or nil test (stored, passed on)", n)
			}
			f.mutated[v] = true
			f.inOut = append(f.inOut, v)
			continue
		}
		f.setVal(v)
		f.mutated[v] = true
		f.inOut = append(f.inOut, v)
	}
}

func (f *g2lFn) inOutNames() []string {
	if f.fuelChk {
		return nil
	}
	var out []string
	for _, v := range f.inOut {
		out = append(out, f.names[v])
	}
	return out
}

func (f *g2lFn) inOutResult(resT string, nres int) string {
	if len(f.inOut) == 0 {
		return resT
	}
	parts := []string{resT}
	if nres == 1 {
		parts = []string{g2lPar(resT)}
	}
	if nres == 0 && f.g.effectsOn() { // go2lean_effects.go: a function without result returns its in-out parameters only (go2lean_own.go: Unit × them)
		parts = nil
	}
	for _, v := range f.inOut {
		parts = append(parts, g2lPar(f.leanVar(v, v.Type())))
	}
	return strings.Join(parts, " × ")
}

// inOutBase: is e (the X of an assigned selector) an in-out parameter?
func (f *g2lFn) inOutBase(e ast.Expr) bool {
	id, ok := ast.Unparen(e).(*ast.Ident)
	if !ok {
		return false
	}
	o := f.g.info.Uses[id]
	for _, v := range f.inOut {
		if o == v {
			return true
		}
	}
	return false
}

// writableRoot: does the assignable expression e live in a local variable or
// in an in-out parameter (through fields of struct values only)?
func (f *g2lFn) writableRoot(e ast.Expr) bool {
	for {
		switch x := ast.Unparen(e).(type) {
		case *ast.Ident:
			o, _ := f.g.info.Uses[x].(*types.Var)
			if o == nil || f.names[o] == "" || o.Parent() == f.g.pkg.Scope() {
				return false
			}
			if g2lIsPtr(o.Type()) {
				return f.inOutBase(x)
			}
			return true
		case *ast.SelectorExpr:
			e = x.X
			continue
		}
		return false
	}
}

// mapAssign: m[k] = v.
func (f *g2lFn) mapAssign(x *ast.IndexExpr, val string, ind int) ([]string, bool) {
	tv, ok := f.g.info.Types[x.X]
	if !ok || tv.Type == nil || g2lMapOf(tv.Type) == nil || !f.g.cfg.Maps {
		return nil, false
	}
	if !f.writableRoot(x.X) {
		f.fail("write to the map `%s`, which is not held by a local variable or an in-out parameter", f.src(x.X))
	}
	if !f.fuelChk {
		f.g.x.mapWrites = append(f.g.x.mapWrites, [2]string{f.key, f.src(x)})
	}
	nv := fmt.Sprintf("GoblVerif.GoSem.mapSet %s %s %s", g2lPar(f.expr(x.X)), g2lPar(f.expr(x.Index)), g2lPar(val))
	return f.assignTo(x.X, nv, false, ind), true
}

// builtinOther: make(map[K]V) and make(map[K]V, n).
func (f *g2lFn) builtinOther(name string, c *ast.CallExpr) (string, bool) {
	if s, ok := f.builtinOwn(name, c); ok { // go2lean_own.go (Own configurations): new(T), make([]T, n)
		return s, true
	}
	if name != "make" || len(c.Args) < 1 || !f.g.cfg.Maps {
		return "", false
	}
	tv, ok := f.g.info.Types[c.Args[0]]
	if !ok || !tv.IsType() || g2lMapOf(tv.Type) == nil {
		return "", false
	}
	return "([] : " + f.lean(tv.Type) + ")", true
}

// relationOther: comparisons the base translator does not know (map == nil).
func (f *g2lFn) relationOther(x *ast.BinaryExpr, lt, rt types.Type) (string, bool) {
	if !f.g.cfg.Maps || (x.Op != token.EQL && x.Op != token.NEQ) {
		return "", false
	}
	var other ast.Expr
	switch {
	case f.isNil(x.Y) && g2lMapOf(lt) != nil:
		other = x.X
	case f.isNil(x.X) && g2lMapOf(rt) != nil:
		other = x.Y
	default:
		return "", false
	}
	if !f.fuelChk {
		f.g.x.mapNilTests = append(f.g.x.mapNilTests, [2]string{f.key, f.src(x)})
	}
	if x.Op == token.EQL {
		return g2lPar(f.expr(other)) + ".isEmpty = true", true
	}
	return g2lPar(f.expr(other)) + ".isEmpty = false", true
}

// primCall: a call of a primitive; only the arguments its template mentions are translated.
func (f *g2lFn) primCall(c *ast.CallExpr, fn *types.Func) (string, bool) {
	key, _ := f.calleeKey(fn)
	if key == "" {
		return "", false
	}
	tmpl, ok := f.g.cfg.Prims[key]
	if !ok {
		return "", false
	}
	sig := fn.Type().(*types.Signature)
	uses := func(i int) bool { return strings.Contains(tmpl, fmt.Sprintf("{%d}", i)) }
	var args []string
	if sig.Recv() != nil {
		se, ok := ast.Unparen(c.Fun).(*ast.SelectorExpr)
		if !ok {
			f.fail("method expression `%s`", f.src(c))
		}
		sel := f.g.info.Selections[se]
		if sel == nil || sel.Kind() != types.MethodVal {
			f.fail("method call `%s` (interface or expression form)", f.src(c))
		}
		if uses(0) {
			args = append(args, f.recvArg(c, se, sel, fn, true))
		} else {
			args = append(args, "_")
		}
	}
	off := len(args)
	ps := sig.Params()
	for i := range c.Args {
		if !uses(off + i) {
			args = append(args, "_")
			continue
		}
		if sig.Variadic() && i >= ps.Len()-1 && !(f.g.refsOn() && c.Ellipsis.IsValid() && i == ps.Len()-1) && // go2lean_refs.go: f(xs...) passes the slice
			!(c.Ellipsis.IsValid() && f.ellipsisOK(c)) { // go2lean_env.go
			f.fail("the template of primitive `%s` mentions a variadic argument", key)
		}
		args = append(args, f.callArgs(fn, c.Args[i:i+1], true)[0])
	}
	return g2lTemplate(f.srcArgs(tmpl, c, off), args), true // go2lean_refs.go: {i:src}
}

// emitInOutFacts writes the bookkeeping of this file.
func (g *g2l) emitInOutFacts(w func(string, ...any), okUnits map[string]bool) {
	pairs := func(name, doc string, xs [][2]string) {
		w("/-- %s -/\ndef %s : List (String × String) := [", doc, name)
		first := true
		for _, p := range xs {
			if !okUnits[p[0]] {
				continue
			}
			if !first {
				w(", ")
			}
			first = false
			w("(%s, %s)", leanStr(p[0]), leanStr(p[1]))
		}
		w("]\n\n")
	}
	pairs("mapWrites", "every write to a map (function, statement target): other holders of the same Go map are not modelled", g.x.mapWrites)
	pairs("mapNilTests", "every nil test of a map (function, condition): translated as emptiness", g.x.mapNilTests)
	w("/-- functions whose listed pointer parameters are returned as extra results (function, parameter) -/\n")
	w("def inOutParams : List (String × String) := [")
	first := true
	for _, fc := range g.cfg.Funcs {
		if !okUnits[fc.Name] {
			continue
		}
		for _, n := range fc.InOut {
			if !first {
				w(", ")
			}
			first = false
			w("(%s, %s)", leanStr(fc.Name), leanStr(n))
		}
	}
	w("]\n\n")
}
