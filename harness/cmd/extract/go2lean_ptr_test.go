package main

import (
	"os"
	"path/filepath"
	"strings"
	"testing"
)

func g2lPtrMapConfig(t *testing.T) *G2LConfig {
	root, err := filepath.Abs("testdata/g2l")
	if err != nil {
		t.Fatal(err)
	}
	return &G2LConfig{
		Repo:      root,
		Module:    "example.test/g2l",
		Pkg:       "ptrmap",
		Namespace: "GoblVerif.Generated.PtrMapSrc",
		Title:     "PtrMapSrc: the go2lean fixture for pointers, maps and in-out parameters (harness/cmd/extract/testdata/g2l/ptrmap).",
		Imports:   []string{"GoblVerif.Model.GoSem", "GoblVerif.Model.GoSemMap"},
		Structs: map[string]G2LStruct{
			"Row":   {Lean: "Row", Emit: true, Deriving: []string{"Repr", "Inhabited"}},
			"Table": {Lean: "Table", Emit: true, Deriving: []string{"Repr", "Inhabited"}},
			"Box":   {Lean: "Box", Emit: true, Fields: map[string]string{"seen": "-"}, Deriving: []string{"Repr", "Inhabited"}},
		},
		Named:       map[string]string{"When": "Int", "inner.Stamp": "Int", "error": "Option String"},
		NonNilElems: []string{"[]*Row"},
		Maps:        true,
		Prims: map[string]string{
			"When.Stamp":        "{0}",
			"inner.Stamp.Valid": "decide ({0} > 0)",
			"inner.Stamp.After": "decide ({0} > {1})",
			"inner.Fail.With":   "(some {0} : Option String)",
		},
		Funcs: []G2LFunc{
			{Name: "Table.Pick"}, {Name: "Table.First"}, {Name: "Lookup"},
			{Name: "Box.Fill", InOut: []string{"b"}},
			{Name: "Row.Bump"}, {Name: "Row.RatePtr"}, {Name: "FillTwice"}, {Name: "Table.Poison"},
		},
	}
}

// The fixture of task B5: read-only pointers, nil-free slices, maps, promoted
// members, in-out parameters.  Pinned by a golden file (compiled by Lean once:
// not part of the library).  UPDATE_GOLDEN=1 rewrites it.
func TestGo2LeanPtrMap(t *testing.T) {
	got, err := G2LRun(g2lPtrMapConfig(t))
	if err != nil {
		t.Fatal(err)
	}
	again, _ := G2LRun(g2lPtrMapConfig(t))
	if got != again {
		t.Fatal("translation is not deterministic")
	}
	golden := "testdata/g2l/PtrMapSrc.lean.golden"
	if os.Getenv("UPDATE_GOLDEN") != "" {
		if err := os.WriteFile(golden, []byte(got), 0o644); err != nil {
			t.Fatal(err)
		}
	}
	want, err := os.ReadFile(golden)
	if err != nil {
		t.Fatal(err)
	}
	if string(want) != got {
		t.Fatalf("translation differs from %s (UPDATE_GOLDEN=1 to accept)", golden)
	}
	for _, k := range []string{"Row.Bump", "Row.RatePtr", "FillTwice", "Table.Poison"} {
		if !strings.Contains(got, "-- untranslated "+k+":") {
			t.Errorf("%s should be reported as untranslated", k)
		}
	}
	for _, k := range []string{"Table_Pick", "Row_matches", "Table_First", "Table_KeyOr", "Lookup", "Box_Fill"} {
		if !strings.Contains(got, "\ndef "+k+" ") {
			t.Errorf("%s should be translated", k)
		}
	}
	for _, s := range []string{
		`def mapRanges : List (String × String) := [("Row.matches", "r.Attrs"), ("Box.Fill", "row.Attrs")]`,
		`def mapWrites : List (String × String) := [("Box.Fill", "b.Attrs[k]")]`,
		`def mapNilTests : List (String × String) := [("Box.Fill", "b.Attrs == nil")]`,
		`def inOutParams : List (String × String) := [("Box.Fill", "b")]`,
		`(t : Option Table) (def_ : String)`, // the nil-tested receiver stays an Option
		`(t : Table) (on : Int)`,             // the read-only one is a value
	} {
		if !strings.Contains(got, s) {
			t.Errorf("missing in the translation: %s", s)
		}
	}
}
