package main

import (
	"fmt"
	"go/ast"
	"go/printer"
	"go/token"
	"strings"
)

// nodeText renders an expression / statement as normalised source text.
func nodeText(fset *token.FileSet, n ast.Node) string {
	var sb strings.Builder
	cfg := printer.Config{Mode: printer.RawFormat}
	_ = cfg.Fprint(&sb, fset, n)
	return strings.Join(strings.Fields(sb.String()), " ")
}

// ifConds lists the conditions of every `if` in fd, in source order.
func ifConds(fset *token.FileSet, fd *ast.FuncDecl) []string {
	out := []string{}
	if fd == nil || fd.Body == nil {
		return out
	}
	ast.Inspect(fd.Body, func(n ast.Node) bool {
		if is, ok := n.(*ast.IfStmt); ok {
			c := nodeText(fset, is.Cond)
			if is.Init != nil {
				c = nodeText(fset, is.Init) + "; " + c
			}
			out = append(out, c)
		}
		return true
	})
	return out
}

// rangeExprs lists the ranged-over expressions of fd, in source order.
func rangeExprs(fset *token.FileSet, fd *ast.FuncDecl) []string {
	out := []string{}
	if fd == nil || fd.Body == nil {
		return out
	}
	ast.Inspect(fd.Body, func(n ast.Node) bool {
		if rs, ok := n.(*ast.RangeStmt); ok {
			out = append(out, nodeText(fset, rs.X))
		}
		return true
	})
	return out
}

// returnExprs lists the returned expressions of fd, in source order.
func returnExprs(fset *token.FileSet, fd *ast.FuncDecl) []string {
	out := []string{}
	if fd == nil || fd.Body == nil {
		return out
	}
	ast.Inspect(fd.Body, func(n ast.Node) bool {
		if _, ok := n.(*ast.FuncLit); ok {
			return false
		}
		if rs, ok := n.(*ast.ReturnStmt); ok {
			parts := make([]string, len(rs.Results))
			for i, r := range rs.Results {
				parts[i] = nodeText(fset, r)
			}
			out = append(out, strings.Join(parts, ", "))
		}
		return true
	})
	return out
}

// assignTexts lists the assignment statements of fd, in source order.
func assignTexts(fset *token.FileSet, fd *ast.FuncDecl) []string {
	out := []string{}
	if fd == nil || fd.Body == nil {
		return out
	}
	ast.Inspect(fd.Body, func(n ast.Node) bool {
		if as, ok := n.(*ast.AssignStmt); ok {
			out = append(out, nodeText(fset, as))
		}
		return true
	})
	return out
}

// hdrStructFields lists the field names of a struct type declaration.
func hdrStructFields(f *ast.File, name string) []string {
	out := []string{}
	for _, d := range f.Decls {
		gd, ok := d.(*ast.GenDecl)
		if !ok {
			continue
		}
		for _, sp := range gd.Specs {
			ts, ok := sp.(*ast.TypeSpec)
			if !ok || ts.Name.Name != name {
				continue
			}
			st, ok := ts.Type.(*ast.StructType)
			if !ok {
				continue
			}
			for _, fl := range st.Fields.List {
				for _, n := range fl.Names {
					out = append(out, n.Name)
				}
			}
		}
	}
	return out
}

// selectorsOn lists, in order of first occurrence, the selector names used on
// any of the identifiers in vars inside node (x.Name with x in vars).
func selectorsOn(node ast.Node, vars ...string) []string {
	set := map[string]bool{}
	for _, v := range vars {
		set[v] = true
	}
	seen := map[string]bool{}
	out := []string{}
	if node == nil {
		return out
	}
	ast.Inspect(node, func(n ast.Node) bool {
		if se, ok := n.(*ast.SelectorExpr); ok {
			if id, ok := se.X.(*ast.Ident); ok && set[id.Name] && !seen[se.Sel.Name] {
				seen[se.Sel.Name] = true
				out = append(out, se.Sel.Name)
			}
		}
		return true
	})
	return out
}

// fieldRuleArgs finds validation.Field(&<recv>.<field>, args...) inside fd and
// returns the text of the rule arguments.
func fieldRuleArgs(fset *token.FileSet, fd *ast.FuncDecl, recv, field string) ([]string, bool) {
	var out []string
	found := false
	if fd == nil || fd.Body == nil {
		return nil, false
	}
	ast.Inspect(fd.Body, func(n ast.Node) bool {
		ce, ok := n.(*ast.CallExpr)
		if !ok || len(ce.Args) == 0 {
			return true
		}
		se, ok := ce.Fun.(*ast.SelectorExpr)
		if !ok || se.Sel.Name != "Field" {
			return true
		}
		if nodeText(fset, ce.Args[0]) != "&"+recv+"."+field {
			return true
		}
		found = true
		out = []string{}
		for _, a := range ce.Args[1:] {
			out = append(out, nodeText(fset, a))
		}
		return false
	})
	return out, found
}

// validatedFields lists the fields named in validation.Field(&recv.X, …) calls of fd.
func validatedFields(fset *token.FileSet, fd *ast.FuncDecl, recv string) []string {
	out := []string{}
	if fd == nil || fd.Body == nil {
		return out
	}
	ast.Inspect(fd.Body, func(n ast.Node) bool {
		ce, ok := n.(*ast.CallExpr)
		if !ok || len(ce.Args) == 0 {
			return true
		}
		se, ok := ce.Fun.(*ast.SelectorExpr)
		if !ok || se.Sel.Name != "Field" {
			return true
		}
		t := nodeText(fset, ce.Args[0])
		if strings.HasPrefix(t, "&"+recv+".") {
			out = append(out, strings.TrimPrefix(t, "&"+recv+"."))
		}
		return true
	})
	return out
}

// recvAndParam returns the receiver name and the first parameter name of fd.
func recvAndParam(fd *ast.FuncDecl) (string, string) {
	r, p := "", ""
	if fd.Recv != nil && len(fd.Recv.List) > 0 && len(fd.Recv.List[0].Names) > 0 {
		r = fd.Recv.List[0].Names[0].Name
	}
	if fd.Type.Params != nil && len(fd.Type.Params.List) > 0 && len(fd.Type.Params.List[0].Names) > 0 {
		p = fd.Type.Params.List[0].Names[0].Name
	}
	return r, p
}

// rangeVars returns, for each `for _, v := range X`, the pair (text of X, v).
func rangeVars(fset *token.FileSet, fd *ast.FuncDecl) [][2]string {
	var out [][2]string
	ast.Inspect(fd.Body, func(n ast.Node) bool {
		if rs, ok := n.(*ast.RangeStmt); ok {
			v := ""
			if id, ok := rs.Value.(*ast.Ident); ok {
				v = id.Name
			}
			out = append(out, [2]string{nodeText(fset, rs.X), v})
		}
		return true
	})
	return out
}

// HeaderFacts: the shape of head.Header and of Header.Contains (which fields,
// which components of stamps and links, every condition), AddStamp /
// AppendLink and the header validation rules.
func init() {
	register(func() (string, string, error) {
		name := "HeaderFacts"
		fset, f, err := parseFile("head/header.go")
		if err != nil {
			return name, "", err
		}
		fsetS, fs, err := parseFile("head/stamps.go")
		if err != nil {
			return name, "", err
		}
		fsetL, fl, err := parseFile("head/link.go")
		if err != nil {
			return name, "", err
		}
		var sb strings.Builder
		sb.WriteString("/- REGENERATED by harness/cmd/extract from /repo/head — do not edit -/\nnamespace GoblVerif.Generated.Head\n\n")
		w := func(n string, xs []string) {
			sb.WriteString(fmt.Sprintf("def %s : List String := %s\n", n, leanStrList(xs)))
		}
		w("headerFields", hdrStructFields(f, "Header"))
		w("stampFields", hdrStructFields(fs, "Stamp"))
		w("linkFields", hdrStructFields(fl, "Link"))

		fd := funcDecl(f, "Header.Contains")
		if fd == nil {
			return name, "", fmt.Errorf("Header.Contains not found")
		}
		recv, par := recvAndParam(fd)
		hdr := map[string]bool{}
		for _, x := range hdrStructFields(f, "Header") {
			hdr[x] = true
		}
		var cf []string
		for _, s := range selectorsOn(fd.Body, recv, par) {
			if hdr[s] {
				cf = append(cf, s)
			}
		}
		w("containsFields", cf)
		// fields of the *signed* header (the parameter) that are looked at
		var pf []string
		for _, s := range selectorsOn(fd.Body, par) {
			if hdr[s] {
				pf = append(pf, s)
			}
		}
		w("containsParamFields", pf)
		w("containsConds", ifConds(fset, fd))
		w("containsRanges", rangeExprs(fset, fd))
		w("containsReturns", returnExprs(fset, fd))
		// components compared for the elements of Stamps and Links: selectors on
		// the loop variables ranging over h.Stamps/h2.Stamps and h.Links/h2.Links
		var sv, lv []string
		for _, rv := range rangeVars(fset, fd) {
			if strings.HasSuffix(rv[0], ".Stamps") {
				sv = append(sv, rv[1])
			}
			if strings.HasSuffix(rv[0], ".Links") {
				lv = append(lv, rv[1])
			}
		}
		w("stampCompared", selectorsOn(fd.Body, sv...))
		w("linkCompared", selectorsOn(fd.Body, lv...))

		// AddStamp / AppendLink
		as := funcDecl(fs, "AddStamp")
		al := funcDecl(fl, "AppendLink")
		if as == nil || al == nil {
			return name, "", fmt.Errorf("AddStamp / AppendLink not found")
		}
		w("addStampConds", ifConds(fsetS, as))
		w("addStampReturns", returnExprs(fsetS, as))
		w("addStampAssigns", assignTexts(fsetS, as))
		w("appendLinkConds", ifConds(fsetL, al))
		w("appendLinkReturns", returnExprs(fsetL, al))
		w("appendLinkAssigns", assignTexts(fsetL, al))
		w("calls_Header_AddStamp", methodCalls(funcDecl(f, "Header.AddStamp")))
		w("calls_Header_AddLink", methodCalls(funcDecl(f, "Header.AddLink")))
		w("stampInConds", ifConds(fsetS, funcDecl(fs, "Stamp.In")))
		w("dupStampConds", ifConds(fsetS, funcDecl(fs, "detectDuplicateStamps")))
		w("dupLinkConds", ifConds(fsetL, funcDecl(fl, "detectDuplicateLinks")))

		// validation rules of the header
		hv := funcDecl(f, "Header.ValidateWithContext")
		if hv == nil {
			return name, "", fmt.Errorf("Header.ValidateWithContext not found")
		}
		r, _ := recvAndParam(hv)
		w("validatedFields", validatedFields(fset, hv, r))
		for _, fld := range []string{"UUID", "Digest", "Stamps", "Links"} {
			args, ok := fieldRuleArgs(fset, hv, r, fld)
			if !ok {
				args = []string{"<missing>"}
			}
			w("rules_"+fld, args)
		}
		sb.WriteString("\nend GoblVerif.Generated.Head\n")
		return name, sb.String(), nil
	})
}
