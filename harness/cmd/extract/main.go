// extract regenerates lean/GoblVerif/Generated/*.lean from the current /repo
// tree.  It emits Lean *data* only (constants, tables, call shapes); files are
// rewritten only when their bytes change so that lake sees an unchanged tree
// as a no-op.
package main

import (
	"flag"
	"fmt"
	"os"
	"path/filepath"
)

var (
	repo = flag.String("repo", "/repo", "repository root")
	out  = flag.String("out", "/verif/lean/GoblVerif/Generated", "output directory")
)

type emitter func() (name string, content string, err error)

var emitters []emitter

func register(e emitter) { emitters = append(emitters, e) }

func main() {
	flag.Parse()
	if err := os.MkdirAll(*out, 0o755); err != nil {
		fatal(err)
	}
	only := map[string]bool{}
	for _, a := range flag.Args() {
		only[a] = true
	}
	for _, e := range emitters {
		name, content, err := e()
		if err != nil {
			fatal(fmt.Errorf("%s: %w", name, err))
		}
		if len(only) > 0 && !only[name] {
			continue
		}
		path := filepath.Join(*out, name+".lean")
		old, _ := os.ReadFile(path)
		if string(old) == content {
			continue
		}
		if err := os.WriteFile(path, []byte(content), 0o644); err != nil {
			fatal(err)
		}
		fmt.Fprintf(os.Stderr, "extract: rewrote %s\n", path)
	}
}

func fatal(err error) {
	fmt.Fprintln(os.Stderr, "extract:", err)
	os.Exit(2)
}
