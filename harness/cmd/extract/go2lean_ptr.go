package main

// go2lean, pointers that are only READ (task B5).  See go2lean.go for the rest.
//
// The base translator maps `*T` to `Option T` and refuses pointer receivers.
// This file adds, without any knowledge of a particular package:
//
//   * VALUE MODE for a pointer receiver / parameter `p`: when every use of `p`
//     in the body dereferences it (`p.f`, `*p`, a method call on it whose own
//     receiver is a value or in value mode, an argument in value mode), `p` is
//     translated as the pointee `T` itself.  A nil `p` makes Go panic at the
//     first such use; here the caller passes `default` (the convention the
//     translator already has for an index out of range).  A pointer that is
//     compared with nil, returned, stored, reassigned or handed to something
//     that may test it stays `Option T`.
//   * WRITES through a pointer (`p.f = v`, `*p = v`, `p.f[i] = v`, `p.f++`)
//     remain outside the subset: the function is reported as untranslated.
//   * NIL-FREE SLICES: a slice type listed in G2LConfig.NonNilElems (e.g.
//     "[]*RateValueDef") is a `List T`, its elements are in value mode, and a
//     nil test of an element is decided by the assumption (`r != nil` is
//     True).  The assumption is emitted as the fact `nonNilElems` so that
//     Props can pin it.
//   * the pointee, not the address: `return p` of a value-mode pointer is
//     `some p`; pointer identity is not modelled (comparisons of two pointers
//     are refused by the base translator);
//   * `&x` of a local `x` that is never assigned after its declaration is
//     `some x` (nothing in the subset can write through the pointer);
//   * PROMOTED methods and fields (through embedded structs) and FIELD
//     PRIMITIVES: a Prims entry "T.Field" (or "pkg.T.Field") replaces the
//     projection of that field; embedded fields, which the Lean structures
//     leave out, are reachable only that way;
//   * methods with a pointer receiver may be primitives: the template receives
//     the receiver as an `Option` ({0}), like every pointer argument of a
//     primitive.

import (
	"fmt"
	"go/ast"
	"go/token"
	"go/types"
	"sort"
	"strings"
)

// g2lExt is the per-run state of the extensions (one field of g2l).
type g2lExt struct {
	valParam               map[*types.Func]map[int]bool // -1 = receiver
	busy                   map[*types.Func]bool
	mapRanges              map[string][]string // unit key → range expressions over maps
	namedUsed              map[string]string   // Go type key → underlying type text (for the facts)
	mapWrites, mapNilTests [][2]string         // (unit key, source text), go2lean_inout.go
}

// ---------------------------------------------------------------- nil-free slices

func (g *g2l) nonNilSlice(t types.Type) bool {
	t = types.Unalias(t)
	var elem types.Type
	switch u := t.Underlying().(type) {
	case *types.Slice:
		elem = u.Elem()
	case *types.Array:
		elem = u.Elem()
	default:
		return false
	}
	if _, ok := types.Unalias(elem).(*types.Pointer); !ok {
		return false
	}
	for _, k := range g.cfg.NonNilElems {
		if k == g.typeKey(t) || k == g.typeKey(t.Underlying()) {
			return true
		}
	}
	return false
}

// leanElem gives the Lean type of the elements of a slice or array type.
func (g *g2l) leanElem(container, elem types.Type) (string, error) {
	if g.nonNilSlice(container) {
		return g.leanType(types.Unalias(elem).(*types.Pointer).Elem())
	}
	return g.leanType(elem)
}

// ---------------------------------------------------------------- value mode of parameters

func (g *g2l) funcDeclOf(fn *types.Func) *ast.FuncDecl {
	if fn == nil || fn.Pkg() != g.pkg {
		return nil
	}
	for _, file := range g.files {
		for _, d := range file.Decls {
			if fd, ok := d.(*ast.FuncDecl); ok && g.info.Defs[fd.Name] == fn {
				return fd
			}
		}
	}
	return nil
}

// paramIsVal: is parameter idx (-1 = the receiver) of the local function fn a
// pointer that is translated as its pointee?
func (g *g2l) paramIsVal(fn *types.Func, idx int) bool {
	if fn == nil {
		return false
	}
	if g.x.valParam == nil {
		g.x.valParam = map[*types.Func]map[int]bool{}
		g.x.busy = map[*types.Func]bool{}
	}
	if m, ok := g.x.valParam[fn]; ok {
		return m[idx]
	}
	if g.x.busy[fn] {
		return false // recursion: outside the subset anyway
	}
	fd := g.funcDeclOf(fn)
	if fd == nil || fd.Body == nil {
		return false
	}
	g.x.busy[fn] = true
	defer delete(g.x.busy, fn)
	sig := fn.Type().(*types.Signature)
	cand := map[types.Object]int{}
	isPtr := func(v *types.Var) bool {
		_, ok := types.Unalias(v.Type()).(*types.Pointer)
		return ok
	}
	if r := sig.Recv(); r != nil && isPtr(r) {
		cand[r] = -1
	}
	for i := 0; i < sig.Params().Len(); i++ {
		if p := sig.Params().At(i); isPtr(p) {
			cand[p] = i
		}
	}
	res := map[int]bool{}
	for _, i := range cand {
		res[i] = true
	}
	// every use must dereference
	var stack []ast.Node
	ast.Inspect(fd.Body, func(n ast.Node) bool {
		if n == nil {
			stack = stack[:len(stack)-1]
			return true
		}
		stack = append(stack, n)
		id, ok := n.(*ast.Ident)
		if !ok {
			return true
		}
		obj := g.info.Uses[id]
		idx, isCand := cand[obj]
		if !isCand || !res[idx] {
			return true
		}
		if !g.derefUse(stack) {
			res[idx] = false
		}
		return true
	})
	g.x.valParam[fn] = res
	return res[idx]
}

// derefUse: stack ends with an identifier of pointer type; is this use one
// that dereferences the pointer (so that nil can never go unnoticed)?
func (g *g2l) derefUse(stack []ast.Node) bool {
	n := len(stack)
	id := stack[n-1].(ast.Expr)
	k := n - 2
	for k >= 0 {
		if p, ok := stack[k].(*ast.ParenExpr); ok {
			id = p
			k--
			continue
		}
		break
	}
	if k < 0 {
		return false
	}
	switch p := stack[k].(type) {
	case *ast.StarExpr:
		return true
	case *ast.SelectorExpr:
		if p.X != id {
			return false
		}
		sel := g.info.Selections[p]
		if sel == nil {
			return false
		}
		switch sel.Kind() {
		case types.FieldVal:
			return true
		case types.MethodVal:
			fn, _ := sel.Obj().(*types.Func)
			if fn == nil {
				return false
			}
			sig := fn.Type().(*types.Signature)
			if _, ptr := types.Unalias(sig.Recv().Type()).(*types.Pointer); !ptr {
				return true // (*p).M(): automatic dereference
			}
			if len(sel.Index()) != 1 {
				return true // a promoted method: the path to the embedded field dereferences p
			}
			// must be the callee of a call, and the callee's receiver in value mode
			if k-1 >= 0 {
				if c, ok := stack[k-1].(*ast.CallExpr); ok && ast.Unparen(c.Fun) == ast.Expr(p) {
					return g.paramIsVal(fn, -1)
				}
			}
			return false
		}
		return false
	case *ast.CallExpr:
		for i, a := range p.Args {
			if a != id {
				continue
			}
			var fid *ast.Ident
			switch fx := ast.Unparen(p.Fun).(type) {
			case *ast.Ident:
				fid = fx
			case *ast.SelectorExpr:
				fid = fx.Sel
			}
			if fid == nil {
				return false
			}
			fn, _ := g.info.Uses[fid].(*types.Func)
			if g.primDerefArg(fn) { // go2lean_env.go
				return true
			}
			if fn == nil || fn.Type().(*types.Signature).Variadic() {
				return false
			}
			return g.paramIsVal(fn, i)
		}
	}
	return false
}

// ---------------------------------------------------------------- modes of expressions

func (f *g2lFn) setVal(o types.Object) {
	if f.valPtr == nil {
		f.valPtr = map[types.Object]bool{}
	}
	f.valPtr[o] = true
}

func g2lIsPtr(t types.Type) bool {
	_, ok := types.Unalias(t).(*types.Pointer)
	return ok
}

// ptrVal: is the pointer-typed expression e held as its pointee?
func (f *g2lFn) ptrVal(e ast.Expr) bool {
	switch x := ast.Unparen(e).(type) {
	case *ast.Ident:
		o := f.g.info.Uses[x]
		if o == nil {
			o = f.g.info.Defs[x]
		}
		return o != nil && f.valPtr[o]
	case *ast.IndexExpr:
		if tv, ok := f.g.info.Types[x.X]; ok && tv.Type != nil {
			return f.g.nonNilSlice(tv.Type)
		}
	default:
		return f.ptrValOwn(e) // go2lean_own.go: new(T), &T{…}
	}
	return false
}

// asOpt: the pointer-typed expression e as an `Option T`.
func (f *g2lFn) asOpt(e ast.Expr) string {
	if f.ptrVal(e) {
		return "some " + g2lPar(f.expr(e))
	}
	return f.expr(e)
}

// asVal: the pointee of the pointer-typed expression e.
func (f *g2lFn) asVal(e ast.Expr) string {
	if f.ptrVal(e) {
		return f.expr(e)
	}
	return g2lPar(f.expr(e)) + ".get!"
}

// exprFor: e as the representation of a location of Go type `want` inside
// `container` (nil, or the slice type whose element the location is).
func (f *g2lFn) exprFor(e ast.Expr, container, want types.Type) string {
	if f.isNil(e) {
		if want == nil && container != nil {
			switch u := types.Unalias(container).Underlying().(type) {
			case *types.Slice:
				want = u.Elem()
			case *types.Array:
				want = u.Elem()
			}
		}
		if container != nil && f.g.nonNilSlice(container) {
			f.fail("nil stored in %s, which the configuration declares free of nil", f.g.typeKey(container))
		}
		return f.nilOf(want, e)
	}
	tv, ok := f.g.info.Types[e]
	if !ok || tv.Type == nil || !g2lIsPtr(tv.Type) {
		return f.expr(e)
	}
	if container != nil && f.g.nonNilSlice(container) {
		return f.asVal(e)
	}
	return f.asOpt(e)
}

// leanVar: the Lean type of a variable of Go type t.
func (f *g2lFn) leanVar(o types.Object, t types.Type) string {
	if o != nil && f.valPtr[o] {
		if p, ok := types.Unalias(t).(*types.Pointer); ok {
			return f.lean(p.Elem())
		}
	}
	return f.lean(t)
}

// rhsFor: the right-hand side r for the left-hand side l of an assignment;
// for `l := r` with l a pointer the mode of l becomes that of r.
func (f *g2lFn) rhsFor(l, r ast.Expr, define bool) string {
	if f.isNil(r) && !define {
		if id, ok := ast.Unparen(l).(*ast.Ident); ok {
			if o := f.g.info.Uses[id]; o != nil && f.valPtr[o] {
				f.fail("nil assigned to `%s`, which is translated as its pointee", id.Name)
			}
		}
		if tv, ok := f.g.info.Types[l]; ok && tv.Type != nil {
			return f.nilOf(tv.Type, r)
		}
	}
	tv, ok := f.g.info.Types[r]
	if !ok || tv.Type == nil || !g2lIsPtr(tv.Type) {
		return f.expr(r)
	}
	lid, isId := ast.Unparen(l).(*ast.Ident)
	if isId && lid.Name == "_" {
		return f.expr(r)
	}
	if isId && define {
		if o, ok := f.g.info.Defs[lid].(*types.Var); ok && o != nil {
			if f.ptrVal(r) && !f.mutated[o] {
				f.setVal(o)
			}
			if f.valPtr[o] {
				return f.asVal(r)
			}
			return f.asOpt(r)
		}
	}
	if isId {
		if o := f.g.info.Uses[lid]; o != nil && f.valPtr[o] {
			return f.asVal(r)
		}
		return f.asOpt(r)
	}
	// a field or an element
	if ix, ok := ast.Unparen(l).(*ast.IndexExpr); ok {
		return f.exprFor(r, f.typeOf(ix.X), nil)
	}
	return f.asOpt(r)
}

// retExpr: one result of a return statement (pointer results are Options).
func (f *g2lFn) retExpr(r ast.Expr, i int) string {
	if f.isNil(r) && f.fnObj != nil {
		if res := f.fnObj.Type().(*types.Signature).Results(); i < res.Len() {
			return f.nilOf(res.At(i).Type(), r)
		}
	}
	if tv, ok := f.g.info.Types[r]; ok && tv.Type != nil && g2lIsPtr(tv.Type) {
		return f.asOpt(r)
	}
	if s, ok := f.errorConv(r, i); ok { // go2lean_refs.go: a concrete value returned as an error
		return s
	}
	return f.expr(r)
}

// nilTest decides `e == nil` / `e != nil` for a pointer held as its pointee: it
// comes from a slice the configuration declares free of nil (a parameter in
// value mode is never nil-tested: the test would have kept it an Option).
func (f *g2lFn) nilTest(e ast.Expr, op token.Token) (string, bool) {
	if !f.ptrVal(e) {
		return "", false
	}
	if op == token.EQL {
		return "False", true
	}
	return "True", true
}

// addrOf translates `&x`.
func (f *g2lFn) addrOf(x *ast.UnaryExpr) string {
	if s, ok := f.addrOfOwn(x); ok { // go2lean_own.go: &T{…}, &x after the last assignment to x
		return s
	}
	if s, ok := f.addrOfEnv(x); ok { // go2lean_env.go: &T{…}
		return s
	}
	if s, ok := f.addrOfEff(x); ok { // go2lean_errfn.go: &T{…}
		return s
	}
	id, ok := ast.Unparen(x.X).(*ast.Ident)
	if !ok {
		f.fail("`%s`: the address of something other than a local variable (aliasing is outside the subset)", f.src(x))
	}
	o, _ := f.g.info.Uses[id].(*types.Var)
	if o == nil || f.names[o] == "" || o.Parent() == f.g.pkg.Scope() {
		f.fail("`%s`: the address of something other than a local variable", f.src(x))
	}
	if f.mutated[o] && !(f.g.effectsOn() && f.addrSafe(x, o)) { // go2lean_effects.go: assigned only before this point
		f.fail("`%s`: the variable is assigned after its declaration (the pointer would see the change)", f.src(x))
	}
	if f.inLoop > 0 {
		// still fine: a fresh variable per iteration or one never reassigned
	}
	return "some " + g2lPar(f.ident(id))
}

// ---------------------------------------------------------------- fields, promoted members

// fieldAccess projects Go field `name` of the named struct n out of the Lean term base.
func (f *g2lFn) fieldAccess(base string, n *types.Named, name string) string {
	if t, ok := f.g.cfg.Prims[f.g.typeKey(n)+"."+name]; ok {
		return g2lTemplate(t, []string{g2lPar(base)})
	}
	return g2lPar(base) + "." + f.fieldLean(n, name)
}

// walkEmbedded follows the implicit part of a selection (all of path but its
// last index) from the Lean term cur of Go type t; it returns the term and
// type of the struct that has the selected member itself.  Pointers on the way
// are dereferenced.
func (f *g2lFn) walkEmbedded(cur string, t types.Type, path []int, what ast.Node) (string, types.Type) {
	for _, ix := range path {
		t = types.Unalias(t)
		if p, ok := t.(*types.Pointer); ok {
			t = types.Unalias(p.Elem())
		}
		n, _ := t.(*types.Named)
		st, _ := t.Underlying().(*types.Struct)
		if n == nil || st == nil || ix >= st.NumFields() {
			f.fail("embedded member in `%s`", f.src(what))
		}
		fld := st.Field(ix)
		if _, ok := f.g.cfg.Prims[f.g.typeKey(n)+"."+fld.Name()]; !ok {
			f.fail("`%s` goes through the embedded field %s.%s, which has no field primitive in this configuration", f.src(what), f.g.typeKey(n), fld.Name())
		}
		cur = f.fieldAccess(cur, n, fld.Name())
		t = fld.Type()
		if g2lIsPtr(t) {
			cur = g2lPar(cur) + ".get!"
		}
	}
	return cur, t
}

// selectorX: field selection, also promoted and through pointers.
func (f *g2lFn) selectorX(x *ast.SelectorExpr, sel *types.Selection) string {
	rt := f.typeOf(x.X)
	var base string
	if g2lIsPtr(rt) {
		base = f.asVal(x.X)
	} else {
		base = f.expr(x.X)
	}
	path := sel.Index()
	cur, t := f.walkEmbedded(base, rt, path[:len(path)-1], x)
	n := f.namedOf(t)
	if n == nil {
		f.fail("field of an unnamed type in `%s`", f.src(x))
	}
	return f.fieldAccess(cur, n, x.Sel.Name)
}

// recvArg builds the receiver argument of a method call se.X.M(…).
func (f *g2lFn) recvArg(c *ast.CallExpr, se *ast.SelectorExpr, sel *types.Selection, fn *types.Func, isPrim bool) string {
	sig := fn.Type().(*types.Signature)
	recvPtr := g2lIsPtr(sig.Recv().Type())
	xt := f.typeOf(se.X)
	path := sel.Index()
	if len(path) == 1 {
		switch {
		case recvPtr && g2lIsPtr(xt):
			if !isPrim && f.g.paramIsVal(fn, -1) {
				return g2lPar(f.asVal(se.X))
			}
			return g2lPar(f.asOpt(se.X))
		case recvPtr:
			// x.M() with x addressable: (&x).M()
			if !isPrim && f.g.paramIsVal(fn, -1) {
				return g2lPar(f.expr(se.X))
			}
			if isPrim && f.g.env().AddrRecvPrims { // go2lean_env.go
				return "(some " + g2lPar(f.expr(se.X)) + ")"
			}
			f.fail("`%s` takes the address of its receiver", f.src(c))
		case g2lIsPtr(xt):
			return g2lPar(f.asVal(se.X))
		}
		return g2lPar(f.expr(se.X))
	}
	// promoted method
	var base string
	if g2lIsPtr(xt) {
		base = f.asVal(se.X)
	} else {
		base = f.expr(se.X)
	}
	cur, t := f.walkEmbedded(base, xt, path[:len(path)-1], c)
	switch {
	case recvPtr && g2lIsPtr(t):
		// walkEmbedded has dereferenced it
		if !isPrim && f.g.paramIsVal(fn, -1) {
			return g2lPar(cur)
		}
		return "(some " + g2lPar(cur) + ")"
	case recvPtr:
		if !isPrim && f.g.paramIsVal(fn, -1) {
			return g2lPar(cur)
		}
		f.fail("`%s` takes the address of an embedded field", f.src(c))
	}
	return g2lPar(cur)
}

// callArgs builds the arguments of a call; pointer arguments follow the mode of
// the callee's parameter (an Option for a primitive).
func (f *g2lFn) callArgs(fn *types.Func, as []ast.Expr, isPrim bool) []string {
	out := make([]string, len(as))
	ps := fn.Type().(*types.Signature).Params()
	for i, a := range as {
		if f.isNil(a) && i < ps.Len() {
			if !isPrim && f.g.paramIsVal(fn, i) {
				out[i] = "default"
			} else {
				out[i] = g2lPar(f.nilOf(ps.At(i).Type(), a))
			}
			continue
		}
		tv, ok := f.g.info.Types[a]
		if ok && tv.Type != nil && g2lIsPtr(tv.Type) {
			if !isPrim && f.g.paramIsVal(fn, i) {
				out[i] = g2lPar(f.asVal(a))
			} else {
				out[i] = g2lPar(f.asOpt(a))
			}
			continue
		}
		out[i] = g2lPar(f.expr(a))
	}
	return out
}

// initPtrModes marks the receiver and the parameters of fn that are in value mode.
func (f *g2lFn) initPtrModes(fn *types.Func) {
	f.fnObj = fn
	sig := fn.Type().(*types.Signature)
	if r := sig.Recv(); r != nil && g2lIsPtr(r.Type()) && f.g.paramIsVal(fn, -1) {
		f.setVal(r)
	}
	for i := 0; i < sig.Params().Len(); i++ {
		if p := sig.Params().At(i); g2lIsPtr(p.Type()) && f.g.paramIsVal(fn, i) {
			f.setVal(p)
		}
	}
}

// ---------------------------------------------------------------- facts and header

// lookupType finds a named type by its configuration key ("T" or "pkg.T").
func (g *g2l) lookupType(k string) *types.TypeName {
	if i := strings.LastIndexByte(k, '.'); i >= 0 {
		for _, p := range g.importedPkgs() {
			if p.Name() == k[:i] {
				if tn, _ := p.Scope().Lookup(k[i+1:]).(*types.TypeName); tn != nil {
					return tn
				}
			}
		}
		return nil
	}
	tn, _ := g.pkg.Scope().Lookup(k).(*types.TypeName)
	return tn
}

func (g *g2l) importedPkgs() []*types.Package {
	var ps []*types.Package
	for _, k := range sortedKeys(g.imp.pkgs) {
		if p := g.imp.pkgs[k]; p != nil {
			ps = append(ps, p)
		}
	}
	return ps
}

// noteNamed records that a configured Named type was used, with its Go declaration.
func (g *g2l) noteNamed(k string, t *types.Named) {
	if g.x.namedUsed == nil {
		g.x.namedUsed = map[string]string{}
	}
	g.x.namedUsed[k] = types.TypeString(t.Underlying(), g.qual)
}

func (g *g2l) noteMapRange(unit, expr string) {
	if g.x.mapRanges == nil {
		g.x.mapRanges = map[string][]string{}
	}
	g.x.mapRanges[unit] = append(g.x.mapRanges[unit], expr)
}

// headerExtra: the part of the header comment about the extensions in use.
func (g *g2l) headerExtra() string {
	var b strings.Builder
	b.WriteString("  Pointers, maps and opaque types (go2lean_ptr.go, go2lean_map.go):\n")
	b.WriteString("  * a pointer receiver or parameter whose every use dereferences it is\n" +
		"    translated as the pointee (a nil one panics in Go at that use; default\n" +
		"    here); writes through pointers are not translated; a returned pointer is\n" +
		"    the pointee's value (no identity); &x of a never-reassigned local is some x.\n")
	if len(g.cfg.NonNilElems) > 0 {
		b.WriteString("  * the slice types in nonNilElems hold no nil: they are lists of pointees\n" +
			"    (a nil test of an element is decided by that).\n")
	}
	if g.cfg.Maps {
		b.WriteString("  * map[K]V → List (K × V), an association list with DISTINCT keys (nil =\n" +
			"    empty): len = length, m[k] = lookup (zero value when absent), v, ok :=\n" +
			"    m[k], range in LIST order — Go's order is unspecified, so every range over\n" +
			"    a map is listed in mapRanges and the result must be shown independent of\n" +
			"    the order.  m[k] = v → GoSem.mapSet on a local or an in-out parameter\n" +
			"    (other holders of the same Go map are not modelled: mapWrites); m == nil →\n" +
			"    m.isEmpty (mapNilTests).\n")
	}
	for _, fc := range g.cfg.Funcs {
		if len(fc.InOut) > 0 {
			b.WriteString("  * the pointer parameters in inOutParams are written through: they are values\n" +
				"    that the function also returns (r, p); other holders of the pointee are not modelled.\n")
			break
		}
	}
	if g.ownUsed() {
		b.WriteString(g2lOwnHeader) // go2lean_own.go
		if g.retUsed() {
			b.WriteString(g2lOwnRetHeader) // go2lean_ownret.go
		}
	}
	if len(g.cfg.Named) > 0 {
		b.WriteString("  * the named types in namedTypes are opaque: values of the Lean type given\n" +
			"    there, touched only by the primitives of the configuration.\n")
	}
	b.WriteString(g.headerEff()) // go2lean_effects.go
	if g.envOn() {               // go2lean_env.go
		b.WriteString(G2LEnvHeader)
	}
	return b.String()
}

func (g *g2l) extensionsOn() bool {
	return len(g.cfg.NonNilElems) > 0 || g.cfg.Maps || len(g.cfg.Named) > 0
}

// emitExtra writes the bookkeeping of the extensions.
func (g *g2l) emitExtra(w func(string, ...any), okUnits []string) {
	if !g.extensionsOn() {
		return
	}
	w("/-- slice types assumed to hold no nil pointer (their elements are translated as the pointees) -/\n")
	ne := append([]string{}, g.cfg.NonNilElems...)
	sort.Strings(ne)
	w("def nonNilElems : List String := %s\n\n", leanStrList(ne))
	w("/-- every `range` over a map (function, expression): translated in list order, unspecified in Go -/\n")
	w("def mapRanges : List (String × String) := [")
	first := true
	for _, k := range okUnits {
		for _, e := range g.x.mapRanges[k] {
			if !first {
				w(", ")
			}
			first = false
			w("(%s, %s)", leanStr(k), leanStr(e))
		}
	}
	w("]\n\n")
	okSet := map[string]bool{}
	for _, k := range okUnits {
		okSet[k] = true
	}
	g.emitInOutFacts(w, okSet)
	g.emitEffFacts(w, okSet) // go2lean_effects.go
	if g.ownUsed() {
		g.emitOwnFacts(w, okSet) // go2lean_own.go
	}
	g.emitEnvFacts(w, okSet) // go2lean_env.go
	w("/-- opaque named types in use: Go type, its Go declaration, the Lean type that stands for it -/\n")
	w("def namedTypes : List (String × String × String) := [")
	for i, k := range sortedKeys(g.x.namedUsed) {
		if i > 0 {
			w(",")
		}
		w("\n  (%s, %s, %s)", leanStr(k), leanStr(g.x.namedUsed[k]), leanStr(g.cfg.Named[k]))
	}
	w("]\n\n")
	w("/-- the primitives of the configuration (calls and fields the translator does not look into) -/\n")
	w("def primitives : List (String × String) := [")
	for i, k := range sortedKeys(g.cfg.Prims) {
		if i > 0 {
			w(",")
		}
		w("\n  (%s, %s)", leanStr(k), leanStr(g.cfg.Prims[k]))
	}
	w("]\n\n")
}

// mappingCheckAnyOrder: the order-independent form of the mapping check.
func g2lMappingCheckAnyOrder(lean, goName string, fs []g2lField) string {
	var xs, bind, proj, tys []string
	i := 0
	for _, f := range fs {
		if f.leanType == "" {
			continue
		}
		xs = append(xs, fmt.Sprintf("(x%d : %s)", i, f.leanType))
		bind = append(bind, fmt.Sprintf("%s := x%d", f.leanName, i))
		proj = append(proj, fmt.Sprintf("s.%s", f.leanName))
		tys = append(tys, fmt.Sprintf("x%d", i))
		i++
	}
	return fmt.Sprintf("/-- mapping check: `%s` has exactly the represented fields of Go `%s` (in some order) -/\n"+
		"example %s : (fun (s : %s) => (%s)) { %s } = (%s) := rfl\n",
		lean, goName, strings.Join(xs, " "), lean, strings.Join(proj, ", "), strings.Join(bind, ", "), strings.Join(tys, ", "))
}

var _ = token.NoPos

// rangeVarMode: the value variable of a range over a nil-free slice is in value mode.
func (f *g2lFn) rangeVarMode(v *types.Var, container types.Type) {
	if g2lIsPtr(v.Type()) && f.g.nonNilSlice(container) {
		if f.mutated[v] {
			f.fail("the range variable `%s` over a nil-free slice is assigned in the loop", v.Name())
		}
		f.setVal(v)
	}
}

// isNil: is e the predeclared nil?
func (f *g2lFn) isNil(e ast.Expr) bool {
	id, ok := ast.Unparen(e).(*ast.Ident)
	if !ok {
		return false
	}
	_, ok = f.g.info.Uses[id].(*types.Nil)
	return ok
}

// nilOf: nil at Go type t (the type checker records `untyped nil` for a nil
// in a return statement, an assignment or an argument).
func (f *g2lFn) nilOf(t types.Type, at ast.Node) string {
	if t == nil {
		f.fail("nil of unknown type in `%s`", f.src(at))
	}
	switch g2lKindOf(t) {
	case kPtr:
		return "(none : " + f.lean(t) + ")"
	case kList:
		return "([] : " + f.lean(t) + ")"
	}
	if z, ok := f.g.zeroOther(t, f.lean(t)); ok {
		return z
	}
	f.fail("nil of type %s", f.g.typeKey(t))
	return ""
}

func g2lFieldType(st *types.Struct, name string) types.Type {
	for i := 0; i < st.NumFields(); i++ {
		if st.Field(i).Name() == name {
			return st.Field(i).Type()
		}
	}
	return nil
}
