package main

// TaxTotalsSrc (C20, C02): the tax summary of /repo/tax/totals.go —
// (*RateTotal).matches / Matches / clone, newCategoryTotal, newRateTotal,
// (*Total).Category / Clone / Negate / Merge / rateTotalFor /
// calculateBaseCategoryTotal / calculateFinalSum / round, matchRoundingPrecision,
// PreciseAmount, PreciseSum — TRANSLATED to Lean by go2lean on every run.
// Props/C20.lean and Props/C02.lean (namespaces Src) prove each definition equal
// to the hand-written model function (Model/Merge.lean, Model/Calc.lean), so the
// theorems of C20 and C02 are re-checked against what the code says now.
//
// The Go structs are mapped onto the records of Model/Merge.lean (the generated
// `example`s check the field types; Props pins the Go declarations):
//
//	Total → Merge.Total   CategoryTotal → Merge.CategoryTotal
//	RateTotal → Merge.RateTotal   RateTotalSurcharge → Merge.Surcharge
//	Combo → TaxTotals.Combo (Model/TaxOps.lean)
//
// Declared primitives: the methods of num.Amount and num.Percentage are the
// fields of the class TaxTotals.NumOps (Model/TaxOps.lean); the generated module
// declares `variable [NumOps]`, so every definition is parametric in what those
// methods mean: C20 instantiates it with the faithful operations of
// Model/Num.lean (tied to /repo/num by C05), C02 with the operations of
// Model/Calc.lean over its rounding primitives.  Extensions.Equals is
// Merge.extEquals (equality of the canonical association lists);
// num.Amount.Exp is the exponent field.
//
// The functions write in place through pointers: see go2lean_own.go for the
// reading (value semantics of an unshared object tree, element cursors).

func taxTotalsSrcConfig() *G2LConfig {
	return &G2LConfig{
		Repo:      *repo,
		Module:    "github.com/invopop/gobl",
		Pkg:       "tax",
		Tags:      []string{"verif"},
		Namespace: "GoblVerif.Generated.TaxTotalsSrc",
		Title:     "TaxTotalsSrc: the tax summary of /repo/tax/totals.go translated from Go.",
		Imports:   []string{"GoblVerif.Model.TaxOps", "GoblVerif.Model.GoSem"},
		Opens:     []string{"GoblVerif.TaxTotals (NumOps)"},
		Preamble:  []string{"variable [NumOps]"},
		Own:       true,
		Structs: map[string]G2LStruct{
			"Total": {Lean: "GoblVerif.Merge.Total", Fields: map[string]string{
				"Categories": "categories", "Sum": "sum", "sum": "sumP"}},
			"CategoryTotal": {Lean: "GoblVerif.Merge.CategoryTotal", Fields: map[string]string{
				"Code": "code", "Retained": "retained", "Rates": "rates", "Amount": "amount", "Surcharge": "surcharge", "amount": "amountP"}},
			"RateTotal": {Lean: "GoblVerif.Merge.RateTotal", Fields: map[string]string{
				"Key": "key", "Country": "country", "Ext": "ext", "Base": "base", "Percent": "percent", "Surcharge": "surcharge", "Amount": "amount"}},
			"RateTotalSurcharge": {Lean: "GoblVerif.Merge.Surcharge", Fields: map[string]string{
				"Percent": "percent", "Amount": "amount"}},
			"Combo": {Lean: "GoblVerif.TaxTotals.Combo", Fields: map[string]string{
				"Category": "category", "Country": "country", "Rate": "rate", "Percent": "percent", "Surcharge": "surcharge",
				"Ext": "ext", "retained": "retained"}},
			"taxLine": {Lean: "GoblVerif.TaxTotals.TaxLine", Fields: map[string]string{"total": "total", "taxes": "taxes"}},
			"TotalCalculator": {Lean: "GoblVerif.TaxTotals.Calculator", Fields: map[string]string{
				"Country": "country", "Rounding": "rounding", "Currency": "currency", "Tags": "tags", "Date": "date",
				"Lines": "lines", "Includes": "includes", "zero": "zero"}},
		},
		Named: map[string]string{
			"num.Amount":          "GoblVerif.Amount",
			"num.Percentage":      "GoblVerif.Pct",
			"cbc.Code":            "String",
			"cbc.Key":             "String",
			"l10n.TaxCountryCode": "String",
			"Extensions":          "List (String × String)",
			"Set":                 "List GoblVerif.TaxTotals.Combo",
			"TaxableLine":         "GoblVerif.TaxTotals.TaxLine",
			"currency.Code":       "String",
			"cal.Date":            "GoblVerif.TaxTotals.CalDate",
		},
		NonNilElems: []string{"[]*CategoryTotal", "[]*RateTotal", "[]*taxLine", "[]*Combo"},
		Prims: map[string]string{
			"num.Amount.Add":            "NumOps.add {0} {1}",
			"num.Amount.Subtract":       "NumOps.sub {0} {1}",
			"num.Amount.Negate":         "NumOps.negate {0}",
			"num.Amount.Rescale":        "NumOps.rescale {0} {1}",
			"num.Amount.RescaleUp":      "NumOps.rescaleUp {0} {1}",
			"num.Amount.MatchPrecision": "NumOps.matchPrecision {0} {1}",
			"num.Amount.IsZero":         "NumOps.isZero {0}",
			"num.Amount.Remove":         "NumOps.remove {0} {1}",
			"num.Amount.Exp":            "GoblVerif.Amount.exp {0}",
			"num.Percentage.Of":         "NumOps.pctOf {0} {1}",
			"num.Percentage.Equals":     "NumOps.pctEquals {0} {1}",
			"Extensions.Equals":         "GoblVerif.Merge.extEquals {0} {1}",
		},
		Funcs: []G2LFunc{
			{Name: "RateTotal.matches"},
			{Name: "RateTotal.Matches"},
			{Name: "RateTotal.clone"},
			{Name: "newCategoryTotal"},
			{Name: "newRateTotal"},
			{Name: "matchRoundingPrecision"},
			{Name: "CategoryTotal.PreciseAmount"},
			{Name: "Total.PreciseSum"},
			{Name: "Total.Category"},
			{Name: "Total.Clone"},
			{Name: "Total.Negate"},
			{Name: "Total.Merge"},
			{Name: "Total.calculateBaseCategoryTotal", InOut: []string{"ct"}},
			{Name: "Total.calculateFinalSum", InOut: []string{"t"}},
			{Name: "Total.round", InOut: []string{"t"}},
			{Name: "Total.rateTotalFor", InOut: []string{"t"}},
			{Name: "TotalCalculator.calculateBaseRateTotals", InOut: []string{"t"}},
		},
	}
}

func init() {
	register(func() (string, string, error) {
		name := "TaxTotalsSrc"
		cfg := taxTotalsSrcConfig()
		text, err := G2LRun(cfg)
		if err != nil {
			// never keep a stale translation: the obligations of Props/C20 and C02 must fail
			text = "/- REGENERATED — the tax package could not be loaded: " + g2lComment(g2lOneLine(err.Error())) + " -/\nnamespace " + cfg.Namespace +
				"\ndef untranslated : List String := [\"*\"]\nend " + cfg.Namespace + "\n"
		}
		return name, text, nil
	})
}
