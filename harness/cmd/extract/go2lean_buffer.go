package main

// go2lean, BYTE mode: strings, []byte and bytes.Buffer as one type, the list of
// their bytes (Model/GoBytes.lean: `GoblVerif.GoBytes.Str` = List Nat), and the
// handful of statement forms the writers of /repo/c14n need.  Everything here
// is OFF unless the configuration maps the basic type `string` to
// GoblVerif.GoBytes.Str (then `bytesOn`); c14nsrc.go is the configuration that
// uses it.  The other files of the translator call into this one at places
// marked `// go2lean_buffer.go`.
//
// TRUSTED SEMANTICS added by this file (G2LBytesHeader goes into the header of
// the generated file):
//   * string, []byte → List Nat (the bytes); a string constant is emitted byte
//     by byte as numerals; s[i] = GoBytes.byteAt (out of range: panic in Go, 0
//     here); x[a:b] = GoBytes.slice, x[a:] / x[:b] = drop / take (out of range:
//     panic in Go, clamped here); []byte(s) and string(b) are the identity (Go
//     copies: no sharing); `<` on strings = GoBytes.ltBytes (bytewise);
//   * bytes.Buffer (a local declared `var buf bytes.Buffer`, whose only uses
//     are the statements buf.WriteByte(c) / buf.Write(p) / buf.WriteString(s)
//     and the expression buf.Bytes() as an operand of a return statement) → a
//     mutable List Nat; the three writes are `buf := buf ++ …` (their results,
//     which are always nil errors, must be discarded as the code does);
//   * OWNED SLICES.  Go slices share backing arrays; the translation has values.
//     A local slice variable v (not a parameter) is *owned* when every
//     occurrence of it in the function is one of: `v := fresh` / `v = fresh`
//     (make, a composite literal, a conversion from a string); `v = v[a:b]`;
//     `v = append(F, …)` with F fresh, v, or v[a:b]; `v = P(v, …)` for a
//     primitive P; `copy(v, src)` as a statement; a read: v[i], len(v), range v
//     (with no write to v inside that loop), v or v[a:b] as a NON-first argument
//     of append, as the source of copy, as an argument of a primitive that
//     returns no slice, as an operand of a return statement.  Then no other
//     variable ever refers to v's backing array, so writes into it (append
//     within capacity, copy) are visible through v only, and v is reassigned by
//     the very statement that makes them: the list value is exact.  append and
//     copy have memmove semantics (overlap inside one array is harmless):
//     append(x, y...) = x ++ y, copy(dst, src) makes dst = GoBytes.copy dst src.
//     Only owned slices may be sliced after having been assigned, appended to
//     with `...`, or be the destination of copy;
//   * for init; cond; post { … continue … } : the post statement is emitted in
//     front of every `continue` that belongs to that loop (and at the end of
//     the body), which is what Go does;
//   * [N]T{k: v, …} with constant keys → the list of length N with the zero
//     value at the positions not named;
//   * x | y and x & y on SIGNED integers → GoBytes.intOr / intAnd, which compute
//     on the natural numbers: exact for non-negative operands only;
//   * Prims["&pkg.T"] : the Lean term for the composite literal `&pkg.T{…}`
//     whatever its fields (used for an error value: only nil-ness is observed);
//   * Prims["I.(T)"] : the Lean term for the comma-ok type assertion `x.(T)` on
//     the interface type I ({0} = x); it must be a pair (value, ok);
//   * sort.SliceStable(x.f, func(i, j int) bool { return E }) as the last
//     effect of a method whose only in-out parameter is x, where E reads x.f
//     only as x.f[i] and x.f[j] → x.f := GoBytes.stableSort (fun a b => E with
//     x.f[i] := a, x.f[j] := b) x.f — see `sortStmt`.

import (
	"fmt"
	"go/ast"
	"go/constant"
	"go/token"
	"go/types"
	"strings"
)

const g2lBytesTy = "GoblVerif.GoBytes.Str"

// G2LBytesHeader is the text a configuration in byte mode puts into its Title.
const G2LBytesHeader = `  BYTES (go2lean_buffer.go, Model/GoBytes.lean; trusted):
  * string, []byte, bytes.Buffer → List Nat, the BYTES; constants byte by byte;
    s[i] = GoBytes.byteAt (out of range: panic in Go, 0 here), x[a:b] =
    GoBytes.slice / take / drop (out of range: panic in Go, clamped here);
    []byte(s), string(b) = identity (Go copies); string < = GoBytes.ltBytes.
  * var buf bytes.Buffer; buf.WriteByte(c) / Write(p) / WriteString(s) →
    buf := buf ++ …; buf.Bytes() (only as a returned operand) → buf.
  * OWNED slices only (a local that is the sole reference to its backing array:
    made fresh, re-derived from itself only, never stored or handed on — the
    rule is spelled out in go2lean_buffer.go): append(x, y...) = x ++ y,
    copy(dst, src) → dst := GoBytes.copy dst src (memmove semantics).
  * for i; c; post { … continue … }: post is emitted before each such continue.
  * [N]T{k: v, …} → the list of length N, zero where no key names the position.
  * | and & on signed integers → GoBytes.intOr / intAnd (non-negative operands).
  * runes are Int; utf8.DecodeRuneInString, utf16.IsSurrogate, utf16.DecodeRune
    are GoBytes.decodeRune / isSurrogate / decodeRune16 (written out from the Go
    standard library), utf8.Valid is C14n.utf8Valid (the table of RFC 3629),
    strconv.FormatInt(_, 10) is GoblVerif.formatInt, bytes.IndexByte is
    GoBytes.indexByte.
  * c14n.Float → the TEXT strconv.AppendFloat(nil, f, 'E', -1, 64) yields for it
    (strconv's digits are trusted; the shape assumed of them is C14n.strconvE),
    so that call is dst ++ text (GoBytes.appendFloat).
  * c14n.Canonicalable (an interface) → GoBytes.Canon: whether the dynamic type
    is Null, and what MarshalJSON returns.  The methods of Array, Object and
    Attribute are thereby translated one level deep; Props ties the recursion.
  * error → Option (List Char); only nil-ness is observed.
`

func (g *g2l) bytesOn() bool { return g.cfg.Basic["string"] == g2lBytesTy }

// per-function state of this file (the extractor is single-threaded)
type g2lBufFn struct {
	posts  []g2lPost             // enclosing for-loops with a post statement
	owned  map[types.Object]bool // cache of ownedSlice
	ownedD map[types.Object]bool
	repl   map[ast.Expr]string // comparator translation: expression → variable
}

type g2lPost struct {
	post  ast.Stmt
	depth int // f.inLoop inside the body of that loop
}

var g2lBufState = map[*g2lFn]*g2lBufFn{}

func (f *g2lFn) buf() *g2lBufFn {
	s := g2lBufState[f]
	if s == nil {
		s = &g2lBufFn{owned: map[types.Object]bool{}, ownedD: map[types.Object]bool{}}
		g2lBufState[f] = s
	}
	return s
}

// ---------------------------------------------------------------- constants, conversions, operators

func (g *g2l) bytesConst(s string) string {
	parts := make([]string, len(s))
	for i := 0; i < len(s); i++ {
		parts[i] = fmt.Sprintf("%d", s[i])
	}
	return "([" + strings.Join(parts, ", ") + "] : " + g2lBytesTy + ")"
}

func (f *g2lFn) isByteSlice(t types.Type) bool {
	sl, ok := t.Underlying().(*types.Slice)
	return ok && f.isByte(sl.Elem())
}

// bytesConversionBuf: []byte(s) and string(b).
func (f *g2lFn) bytesConversionBuf(to types.Type, arg ast.Expr) (string, bool) {
	if !f.g.bytesOn() {
		return "", false
	}
	from := f.typeOf(arg)
	switch {
	case f.isByteSlice(to) && g2lKindOf(from) == kString:
		return f.expr(arg), true
	case g2lKindOf(to) == kString && f.isByteSlice(from):
		return f.expr(arg), true
	}
	return "", false
}

// intBitOp: | and & on signed integers.
func (f *g2lFn) intBitOp(op token.Token, a, b string) (string, bool) {
	if !f.g.bytesOn() {
		return "", false
	}
	switch op {
	case token.OR:
		return "GoblVerif.GoBytes.intOr " + a + " " + b, true
	case token.AND:
		return "GoblVerif.GoBytes.intAnd " + a + " " + b, true
	}
	return "", false
}

// strOrder: `<`, `<=`, `>`, `>=` on strings.
func (f *g2lFn) strOrder(x *ast.BinaryExpr) (string, bool) {
	if !f.g.bytesOn() {
		return "", false
	}
	a, b := g2lPar(f.expr(x.X)), g2lPar(f.expr(x.Y))
	switch x.Op {
	case token.LSS:
		return "GoblVerif.GoBytes.ltBytes " + a + " " + b + " = true", true
	case token.GTR:
		return "GoblVerif.GoBytes.ltBytes " + b + " " + a + " = true", true
	case token.LEQ:
		return "GoblVerif.GoBytes.ltBytes " + b + " " + a + " = false", true
	case token.GEQ:
		return "GoblVerif.GoBytes.ltBytes " + a + " " + b + " = false", true
	}
	return "", false
}

// zeroBuf: the zero value of a bytes.Buffer.
func (g *g2l) zeroBuf(t types.Type) (string, bool) {
	if !g.bytesOn() || !g.isBuffer(t) {
		return "", false
	}
	return "([] : " + g2lBytesTy + ")", true
}

func (g *g2l) isBuffer(t types.Type) bool {
	n, ok := types.Unalias(t).(*types.Named)
	return ok && n.Obj().Pkg() != nil && n.Obj().Pkg().Path() == "bytes" && n.Obj().Name() == "Buffer"
}

// keyedArray: [N]T{k: v, …} with constant keys.
func (f *g2lFn) keyedArray(x *ast.CompositeLit, t types.Type) (string, bool) {
	if !f.g.bytesOn() {
		return "", false
	}
	arr, ok := t.Underlying().(*types.Array)
	if !ok {
		return "", false
	}
	keyed := false
	for _, el := range x.Elts {
		if _, ok := el.(*ast.KeyValueExpr); ok {
			keyed = true
		}
	}
	if !keyed {
		return "", false
	}
	n := int(arr.Len())
	if n > 4096 {
		f.fail("array literal `%s` is too long", f.src(x))
	}
	z, err := f.g.zero(arr.Elem())
	if err != nil {
		f.fail("%v", err)
	}
	vals := make([]string, n)
	for i := range vals {
		vals[i] = z
	}
	pos := 0
	for _, el := range x.Elts {
		v := el
		if kv, ok := el.(*ast.KeyValueExpr); ok {
			ktv := f.g.info.Types[kv.Key]
			if ktv.Value == nil {
				f.fail("array literal with a key that is not a constant in `%s`", f.src(x))
			}
			k, ok := constant.Int64Val(constant.ToInt(ktv.Value))
			if !ok || k < 0 {
				f.fail("array literal key in `%s`", f.src(x))
			}
			pos = int(k)
			v = kv.Value
		}
		if pos >= n {
			f.fail("array literal `%s` beyond its length", f.src(x))
		}
		vals[pos] = f.exprFor(v, t, nil)
		pos++
	}
	return "([" + strings.Join(vals, ", ") + "] : " + f.lean(t) + ")", true
}

// addrLit: `&pkg.T{…}` named by a primitive.
func (f *g2lFn) addrLit(x *ast.UnaryExpr) (string, bool) {
	if !f.g.bytesOn() {
		return "", false
	}
	cl, ok := ast.Unparen(x.X).(*ast.CompositeLit)
	if !ok {
		return "", false
	}
	tv, ok := f.g.info.Types[cl]
	if !ok || tv.Type == nil {
		return "", false
	}
	t, ok := f.g.cfg.Prims["&"+f.g.typeKey(tv.Type)]
	return t, ok
}

// assertPrim: `v, ok := x.(T)` named by a primitive "I.(T)".
func (f *g2lFn) assertPrim(r *ast.TypeAssertExpr) (string, bool) {
	if !f.g.bytesOn() || r.Type == nil {
		return "", false
	}
	to := f.g.info.Types[r.Type].Type
	if to == nil {
		return "", false
	}
	t, ok := f.g.cfg.Prims[f.g.typeKey(f.typeOf(r.X))+".("+f.g.typeKey(to)+")"]
	if !ok {
		return "", false
	}
	return g2lTemplate(t, []string{g2lPar(f.expr(r.X))}), true
}

// ---------------------------------------------------------------- owned slices

func (f *g2lFn) localVarOf(e ast.Expr) *types.Var {
	id, ok := ast.Unparen(e).(*ast.Ident)
	if !ok {
		return nil
	}
	o, _ := f.g.info.Uses[id].(*types.Var)
	if o == nil {
		o, _ = f.g.info.Defs[id].(*types.Var)
	}
	if o == nil || f.names[o] == "" || o.Parent() == f.g.pkg.Scope() {
		return nil
	}
	return o
}

func (f *g2lFn) isParam(o *types.Var) bool {
	if f.fnObj == nil {
		return true
	}
	sig := f.fnObj.Type().(*types.Signature)
	if sig.Recv() == o {
		return true
	}
	for i := 0; i < sig.Params().Len(); i++ {
		if sig.Params().At(i) == o {
			return true
		}
	}
	return false
}

func (f *g2lFn) isBuiltinCall(c *ast.CallExpr, name string) bool {
	id, ok := ast.Unparen(c.Fun).(*ast.Ident)
	return ok && id.Name == name && f.g.info.Types[c.Fun].IsBuiltin()
}

// selfOrSlice: e is `v` or `v[a:b]` (v not occurring in a, b other than in len(v)).
func (f *g2lFn) selfOrSlice(e ast.Expr, v *types.Var) bool {
	e = ast.Unparen(e)
	if se, ok := e.(*ast.SliceExpr); ok && !se.Slice3 {
		e = ast.Unparen(se.X)
	}
	return f.localVarOf(e) == v && v != nil
}

// freshSlice: an expression whose value is a newly allocated slice.
func (f *g2lFn) freshSlice(e ast.Expr) bool {
	switch x := ast.Unparen(e).(type) {
	case *ast.CompositeLit:
		return true
	case *ast.CallExpr:
		if f.isBuiltinCall(x, "make") {
			return true
		}
		if f.g.info.Types[x.Fun].IsType() && len(x.Args) == 1 {
			return g2lKindOf(f.typeOf(x.Args[0])) == kString // []byte(s) copies
		}
	}
	return false
}

func (f *g2lFn) isPrimCall(c *ast.CallExpr) bool {
	fn := f.funcOfCall(c)
	if fn == nil {
		return false
	}
	key, _ := f.calleeKey(fn)
	_, ok := f.g.cfg.Prims[key]
	return ok
}

func g2lHasSliceResult(t types.Type) bool {
	switch tt := t.(type) {
	case *types.Tuple:
		for i := 0; i < tt.Len(); i++ {
			if g2lHasSliceResult(tt.At(i).Type()) {
				return true
			}
		}
		return false
	}
	_, ok := t.Underlying().(*types.Slice)
	return ok
}

// ownedSlice: see the header.  Conservative: anything not recognised disowns v.
func (f *g2lFn) ownedSlice(v *types.Var) bool {
	if !f.g.bytesOn() || v == nil {
		return false
	}
	st := f.buf()
	if st.ownedD[v] {
		return st.owned[v]
	}
	st.ownedD[v] = true
	st.owned[v] = f.computeOwned(v)
	return st.owned[v]
}

func (f *g2lFn) computeOwned(v *types.Var) bool {
	if _, isSlice := v.Type().Underlying().(*types.Slice); !isSlice || f.isParam(v) {
		return false
	}
	fd := f.g.findFunc(f.key)
	if fd == nil || fd.Body == nil {
		return false
	}
	ok := true
	var stack []ast.Node
	ast.Inspect(fd.Body, func(n ast.Node) bool {
		if n == nil {
			stack = stack[:len(stack)-1]
			return true
		}
		stack = append(stack, n)
		id, isId := n.(*ast.Ident)
		if !isId {
			return true
		}
		if f.g.info.Defs[id] != types.Object(v) && f.g.info.Uses[id] != types.Object(v) {
			return true
		}
		if !f.ownedUse(stack, v) {
			ok = false
		}
		return true
	})
	return ok
}

// ownedUse judges one occurrence of v; stack ends with the identifier.
func (f *g2lFn) ownedUse(stack []ast.Node, v *types.Var) bool {
	p := len(stack) - 2
	for p >= 0 {
		if _, isPar := stack[p].(*ast.ParenExpr); !isPar {
			break
		}
		p--
	}
	if p < 0 {
		return false
	}
	child := stack[p+1]
	// writes to v inside a `range v` loop would be seen by the loop in Go
	inRangeOfV := func() bool {
		for q := p; q >= 0; q-- {
			if rs, ok := stack[q].(*ast.RangeStmt); ok && f.selfOrSlice(rs.X, v) && q+1 < len(stack) && stack[q+1] == ast.Node(rs.Body) {
				return true
			}
		}
		return false
	}
	switch par := stack[p].(type) {
	case *ast.ValueSpec:
		// `var v []T` (nil) or with a fresh initialiser
		for i, n := range par.Names {
			if ast.Node(n) == child {
				return len(par.Values) == 0 || (i < len(par.Values) && f.freshSlice(par.Values[i]))
			}
		}
		return false
	case *ast.AssignStmt:
		if len(par.Lhs) != 1 || len(par.Rhs) != 1 {
			return false
		}
		if ast.Node(par.Lhs[0]) != child && ast.Unparen(par.Lhs[0]) != child {
			return false // v alone on a right-hand side: an alias
		}
		if par.Tok != token.ASSIGN && par.Tok != token.DEFINE {
			return false
		}
		if inRangeOfV() {
			return false
		}
		return f.ownedRhs(par.Rhs[0], v)
	case *ast.IndexExpr:
		if par.X != child {
			return false
		}
		// a read; an element assignment is not in the subset for such a variable
		if p > 0 {
			if as, ok := stack[p-1].(*ast.AssignStmt); ok {
				for _, l := range as.Lhs {
					if ast.Node(l) == ast.Node(par) {
						return false
					}
				}
			}
			if _, ok := stack[p-1].(*ast.IncDecStmt); ok {
				return false
			}
			if u, ok := stack[p-1].(*ast.UnaryExpr); ok && u.Op == token.AND {
				return false
			}
		}
		return true
	case *ast.RangeStmt:
		return par.X == child
	case *ast.ReturnStmt:
		return true
	case *ast.SliceExpr:
		if par.X != child || par.Slice3 || p == 0 {
			return false
		}
		// v[a:b]: judged like v in the position of the slice expression
		q := p - 1
		for q >= 0 {
			if _, isPar := stack[q].(*ast.ParenExpr); !isPar {
				break
			}
			q--
		}
		if q < 0 {
			return false
		}
		switch gp := stack[q].(type) {
		case *ast.AssignStmt:
			if len(gp.Lhs) != 1 || len(gp.Rhs) != 1 || ast.Unparen(gp.Rhs[0]) != ast.Expr(par) {
				return false
			}
			return f.localVarOf(gp.Lhs[0]) == v && !inRangeOfV()
		case *ast.RangeStmt:
			return ast.Unparen(gp.X) == ast.Expr(par)
		case *ast.IndexExpr:
			return ast.Unparen(gp.X) == ast.Expr(par)
		case *ast.CallExpr:
			return f.ownedArg(stack, q, par, v, inRangeOfV())
		}
		return false
	case *ast.CallExpr:
		return f.ownedArg(stack, p, child, v, inRangeOfV())
	}
	return false
}

// ownedRhs: the right-hand side of `v = rhs` / `v := rhs`.
func (f *g2lFn) ownedRhs(rhs ast.Expr, v *types.Var) bool {
	rhs = ast.Unparen(rhs)
	if f.freshSlice(rhs) || f.selfOrSlice(rhs, v) {
		return true
	}
	c, ok := rhs.(*ast.CallExpr)
	if !ok {
		return false
	}
	if f.isBuiltinCall(c, "append") && len(c.Args) >= 1 {
		return f.freshSlice(c.Args[0]) || f.selfOrSlice(c.Args[0], v)
	}
	if f.isPrimCall(c) {
		// v = P(v, …): slice arguments must be v itself or fresh
		for _, a := range c.Args {
			if _, isSlice := f.typeOf(a).Underlying().(*types.Slice); isSlice && !f.freshSlice(a) && !f.selfOrSlice(a, v) {
				return false
			}
		}
		return true
	}
	return false
}

// ownedArg: v (or v[a:b]) as the argument `arg` of the call stack[q].
func (f *g2lFn) ownedArg(stack []ast.Node, q int, arg ast.Node, v *types.Var, inRange bool) bool {
	c := stack[q].(*ast.CallExpr)
	idx := -1
	for i, a := range c.Args {
		if ast.Node(a) == arg || ast.Node(ast.Unparen(a)) == arg {
			idx = i
		}
	}
	if idx < 0 {
		return false
	}
	// the statement the call sits in
	assignedToV := func() bool {
		r := q - 1
		for r >= 0 {
			if _, isPar := stack[r].(*ast.ParenExpr); !isPar {
				break
			}
			r--
		}
		if r < 0 {
			return false
		}
		as, ok := stack[r].(*ast.AssignStmt)
		return ok && len(as.Lhs) == 1 && len(as.Rhs) == 1 && ast.Unparen(as.Rhs[0]) == ast.Expr(c) && f.localVarOf(as.Lhs[0]) == v
	}
	switch {
	case f.isBuiltinCall(c, "len"), f.isBuiltinCall(c, "cap"):
		return true
	case f.isBuiltinCall(c, "append"):
		if idx == 0 {
			return assignedToV() && !inRange
		}
		return true
	case f.isBuiltinCall(c, "copy"):
		if idx == 0 {
			// the destination: copy(v, src) as a statement, v itself
			_, isStmt := stack[q-1].(*ast.ExprStmt)
			_, isId := arg.(*ast.Ident)
			return q > 0 && isStmt && isId && !inRange
		}
		return true
	case f.g.info.Types[c.Fun].IsType():
		return g2lKindOf(f.g.info.Types[c.Fun].Type) == kString // string(v) copies
	case f.isPrimCall(c):
		tv := f.g.info.Types[c]
		if tv.Type == nil {
			return false
		}
		if !g2lHasSliceResult(tv.Type) {
			return true
		}
		return assignedToV() && !inRange
	}
	return false
}

// sliceOfAssignedOK: may `x[a:b]` be taken of the assigned variable x?
func (f *g2lFn) sliceOfAssignedOK(e ast.Expr) bool {
	return f.ownedSlice(f.localVarOf(e))
}

// appendSpreadBuf: append(x, y...).
func (f *g2lFn) appendSpreadBuf(c *ast.CallExpr) (string, bool) {
	if !f.g.bytesOn() || !c.Ellipsis.IsValid() || !f.isBuiltinCall(c, "append") || len(c.Args) != 2 {
		return "", false
	}
	// the first argument: fresh, or (a slice of) an owned variable
	first := ast.Unparen(c.Args[0])
	if !f.freshSlice(first) {
		base := first
		if se, ok := first.(*ast.SliceExpr); ok {
			base = ast.Unparen(se.X)
		}
		v := f.localVarOf(base)
		if v == nil || !f.ownedSlice(v) {
			f.fail("`%s`: the first argument of append is neither fresh nor an owned slice (another variable could see the write)", f.src(c))
		}
	}
	return g2lPar(f.expr(c.Args[0])) + " ++ " + g2lPar(f.expr(c.Args[1])), true
}

// ---------------------------------------------------------------- statements

// bufferVar: e is a local `var buf bytes.Buffer` used only as the header allows.
func (f *g2lFn) bufferVar(e ast.Expr) *types.Var {
	v := f.localVarOf(e)
	if v == nil || !f.g.isBuffer(v.Type()) || f.isParam(v) {
		return nil
	}
	fd := f.g.findFunc(f.key)
	if fd == nil || fd.Body == nil {
		return nil
	}
	ok := true
	var stack []ast.Node
	ast.Inspect(fd.Body, func(n ast.Node) bool {
		if n == nil {
			stack = stack[:len(stack)-1]
			return true
		}
		stack = append(stack, n)
		id, isId := n.(*ast.Ident)
		if !isId {
			return true
		}
		if f.g.info.Defs[id] == types.Object(v) {
			// var buf bytes.Buffer (no initialiser)
			if vs, isVS := stack[len(stack)-2].(*ast.ValueSpec); !isVS || len(vs.Values) != 0 {
				ok = false
			}
			return true
		}
		if f.g.info.Uses[id] != types.Object(v) {
			return true
		}
		// buf.M(…)
		if len(stack) < 4 {
			ok = false
			return true
		}
		se, isSel := stack[len(stack)-2].(*ast.SelectorExpr)
		call, isCall := stack[len(stack)-3].(*ast.CallExpr)
		if !isSel || !isCall || se.X != ast.Expr(id) || call.Fun != ast.Expr(se) {
			ok = false
			return true
		}
		switch se.Sel.Name {
		case "WriteByte", "Write", "WriteString":
			if _, isStmt := stack[len(stack)-4].(*ast.ExprStmt); !isStmt || len(call.Args) != 1 {
				ok = false
			}
		case "Bytes":
			if _, isRet := stack[len(stack)-4].(*ast.ReturnStmt); !isRet || len(call.Args) != 0 {
				ok = false
			}
		default:
			ok = false
		}
		return true
	})
	if !ok {
		return nil
	}
	return v
}

// bufferBytes: buf.Bytes().
func (f *g2lFn) bufferBytes(c *ast.CallExpr) (string, bool) {
	if !f.g.bytesOn() || len(c.Args) != 0 {
		return "", false
	}
	se, ok := ast.Unparen(c.Fun).(*ast.SelectorExpr)
	if !ok || se.Sel.Name != "Bytes" {
		return "", false
	}
	tv, ok := f.g.info.Types[se.X]
	if !ok || tv.Type == nil || !f.g.isBuffer(tv.Type) {
		return "", false
	}
	v := f.bufferVar(se.X)
	if v == nil {
		f.fail("`%s`: a bytes.Buffer used beyond WriteByte / Write / WriteString statements and a returned Bytes()", f.src(c))
	}
	return f.names[v], true
}

// callBytes: calls this file translates (before the plain path sees them).
func (f *g2lFn) callBytes(c *ast.CallExpr) (string, bool) {
	if !f.g.bytesOn() {
		return "", false
	}
	if s, ok := f.appendSpreadBuf(c); ok {
		return s, true
	}
	return f.bufferBytes(c)
}

// exprStmt: an expression statement.
func (f *g2lFn) exprStmt(x *ast.ExprStmt, ind int) []string {
	if !f.g.bytesOn() {
		f.fail("statement `%s` (%T) is outside the subset", g2lOneLine(f.src(x)), x)
	}
	c, ok := ast.Unparen(x.X).(*ast.CallExpr)
	if !ok {
		f.fail("statement `%s`", f.src(x))
	}
	if f.isBuiltinCall(c, "copy") && len(c.Args) == 2 {
		v := f.localVarOf(c.Args[0])
		if v == nil || !f.ownedSlice(v) {
			f.fail("`%s`: the destination of copy is not an owned slice", f.src(x))
		}
		n := f.names[v]
		return []string{fmt.Sprintf("%s%s := GoblVerif.GoBytes.copy %s %s", g2lInd(ind), n, n, g2lPar(f.expr(c.Args[1])))}
	}
	if out, ok := f.sortStmt(c, ind); ok {
		return out
	}
	if se, ok := ast.Unparen(c.Fun).(*ast.SelectorExpr); ok && len(c.Args) == 1 {
		if tv, ok := f.g.info.Types[se.X]; ok && tv.Type != nil && f.g.isBuffer(tv.Type) {
			v := f.bufferVar(se.X)
			if v == nil {
				f.fail("`%s`: a bytes.Buffer used beyond WriteByte / Write / WriteString statements and a returned Bytes()", f.src(x))
			}
			n := f.names[v]
			a := f.expr(c.Args[0])
			switch se.Sel.Name {
			case "WriteByte":
				return []string{fmt.Sprintf("%s%s := %s ++ [%s]", g2lInd(ind), n, n, a)}
			case "Write", "WriteString":
				return []string{fmt.Sprintf("%s%s := %s ++ %s", g2lInd(ind), n, n, g2lPar(a))}
			}
		}
	}
	f.fail("statement `%s` is outside the subset", f.src(x))
	return nil
}

// markExprStmt: the variables an expression statement writes (for findMutated).
func (f *g2lFn) markExprStmt(x *ast.ExprStmt) {
	if !f.g.bytesOn() {
		return
	}
	c, ok := ast.Unparen(x.X).(*ast.CallExpr)
	if !ok {
		return
	}
	mark := func(e ast.Expr) {
		if id, ok := ast.Unparen(e).(*ast.Ident); ok {
			if o := f.g.info.Uses[id]; o != nil {
				f.mutated[o] = true
			}
		}
	}
	if f.isBuiltinCall(c, "copy") && len(c.Args) == 2 {
		mark(c.Args[0])
		return
	}
	if se, ok := ast.Unparen(c.Fun).(*ast.SelectorExpr); ok {
		if tv, ok := f.g.info.Types[se.X]; ok && tv.Type != nil && f.g.isBuffer(tv.Type) {
			mark(se.X)
		}
	}
}

// ---------------------------------------------------------------- continue in a loop with a post statement

func (f *g2lFn) continueWithPostOK() bool { return f.g.bytesOn() }

func (f *g2lFn) pushPost(post ast.Stmt) {
	st := f.buf()
	st.posts = append(st.posts, g2lPost{post, f.inLoop + 1})
}

func (f *g2lFn) popPost() {
	st := f.buf()
	st.posts = st.posts[:len(st.posts)-1]
}

// beforeContinue: the post statement of the loop a `continue` at this point belongs to.
func (f *g2lFn) beforeContinue(ind int) []string {
	st := f.buf()
	if len(st.posts) == 0 {
		return nil
	}
	top := st.posts[len(st.posts)-1]
	if top.post == nil || top.depth != f.inLoop {
		return nil
	}
	return f.stmt(top.post, ind)
}

// ---------------------------------------------------------------- sort.SliceStable with a comparator literal

// allowedFuncLit: the only function literal in the subset is the comparator of
// a sort.SliceStable statement (see sortStmt).
func (f *g2lFn) allowedFuncLit(fd *ast.FuncDecl, lit *ast.FuncLit) bool {
	if !f.g.bytesOn() {
		return false
	}
	found := false
	ast.Inspect(fd.Body, func(n ast.Node) bool {
		es, ok := n.(*ast.ExprStmt)
		if !ok {
			return true
		}
		if c, ok := ast.Unparen(es.X).(*ast.CallExpr); ok && f.isSortSliceStable(c) && len(c.Args) == 2 && ast.Unparen(c.Args[1]) == ast.Expr(lit) {
			found = true
		}
		return true
	})
	return found
}

func (f *g2lFn) isSortSliceStable(c *ast.CallExpr) bool {
	fn := f.funcOfCall(c)
	return fn != nil && fn.Pkg() != nil && fn.Pkg().Path() == "sort" && fn.Name() == "SliceStable"
}

// sortStmt: sort.SliceStable(x.f, func(i, j int) bool { return E }).  E may
// mention x.f only as x.f[i] and x.f[j], and i, j nowhere else; then the call
// is the stable sort of x.f by `fun a b => E[x.f[i] := a, x.f[j] := b]`.
func (f *g2lFn) sortStmt(c *ast.CallExpr, ind int) ([]string, bool) {
	if !f.isSortSliceStable(c) || len(c.Args) != 2 {
		return nil, false
	}
	lit, ok := ast.Unparen(c.Args[1]).(*ast.FuncLit)
	if !ok {
		f.fail("`%s`: the comparator is not a function literal", f.src(c))
	}
	if len(lit.Body.List) != 1 {
		f.fail("`%s`: the comparator is not a single return", f.src(c))
	}
	rs, ok := lit.Body.List[0].(*ast.ReturnStmt)
	if !ok || len(rs.Results) != 1 {
		f.fail("`%s`: the comparator is not a single return", f.src(c))
	}
	var ps []*types.Var
	for _, fl := range lit.Type.Params.List {
		for _, n := range fl.Names {
			if o, _ := f.g.info.Defs[n].(*types.Var); o != nil {
				ps = append(ps, o)
			}
		}
	}
	if len(ps) != 2 {
		f.fail("`%s`: the comparator does not have two named parameters", f.src(c))
	}
	target := f.src(c.Args[0])
	elemT := f.typeOf(c.Args[0])
	sl, isSlice := elemT.Underlying().(*types.Slice)
	if !isSlice {
		f.fail("`%s`: not a slice", f.src(c))
	}
	// every use of i, j must be target[i] / target[j]; every use of target must be so indexed
	a, b := f.fresh("a"), f.fresh("b")
	repl := map[ast.Expr]string{}
	okUses := true
	var stack []ast.Node
	ast.Inspect(rs.Results[0], func(n ast.Node) bool {
		if n == nil {
			stack = stack[:len(stack)-1]
			return true
		}
		stack = append(stack, n)
		if ix, isIx := n.(*ast.IndexExpr); isIx && f.src(ix.X) == target {
			if id, isId := ast.Unparen(ix.Index).(*ast.Ident); isId {
				switch f.g.info.Uses[id] {
				case types.Object(ps[0]):
					repl[ix] = a
					stack = stack[:len(stack)-1]
					return false
				case types.Object(ps[1]):
					repl[ix] = b
					stack = stack[:len(stack)-1]
					return false
				}
			}
			okUses = false
			return true
		}
		if id, isId := n.(*ast.Ident); isId {
			if o := f.g.info.Uses[id]; o == types.Object(ps[0]) || o == types.Object(ps[1]) {
				okUses = false
			}
		}
		if e, isE := n.(ast.Expr); isE && f.src(e) == target {
			okUses = false
		}
		return true
	})
	if !okUses {
		f.fail("`%s`: the comparator reads the slice other than at its two indices", f.src(c))
	}
	st := f.buf()
	if st.repl == nil {
		st.repl = map[ast.Expr]string{}
	}
	for k, v := range repl {
		st.repl[k] = v
	}
	body := f.boolExpr(rs.Results[0])
	for k := range repl {
		delete(st.repl, k)
	}
	et := f.lean(sl.Elem())
	if f.g.nonNilSlice(elemT) {
		if p, ok := types.Unalias(sl.Elem()).(*types.Pointer); ok {
			et = f.lean(p.Elem())
		}
	}
	val := fmt.Sprintf("GoblVerif.GoBytes.stableSort (fun (%s %s : %s) => %s) %s", a, b, et, body, g2lPar(f.expr(c.Args[0])))
	return f.assignTo(c.Args[0], val, false, ind), true
}

// replaced: an expression the comparator translation substitutes.
func (f *g2lFn) replaced(e ast.Expr) (string, bool) {
	st := g2lBufState[f]
	if st == nil || st.repl == nil {
		return "", false
	}
	s, ok := st.repl[e]
	return s, ok
}

// ---------------------------------------------------------------- functions without a result

// effectOnlyOK: a function without result whose effect is on its in-out
// parameters becomes a function returning ((), the in-out parameters).
func (f *g2lFn) effectOnlyOK(sig *types.Signature) bool {
	return f.g.bytesOn() && sig.Results().Len() == 0 && len(f.g.inOutFor(f.key)) > 0
}

func (f *g2lFn) effectOnlyReturn() string {
	return g2lInd(1) + "return (" + strings.Join(append([]string{"()"}, f.inOutNames()...), ", ") + ")"
}
