package main

// RatesSrc (C12): the rate lookup of /repo/tax — (*RateDef).Value,
// (*RateValueDef).hasAnyTag, Extensions.Contains, (*CategoryDef).RateDef,
// (*RegimeDef).CategoryDef, (*Combo).prepareRate (which writes to its receiver:
// translated with the receiver as an in-out parameter) —
// TRANSLATED to Lean by go2lean on every run.  Props/C12.lean (namespace Src)
// proves each definition equal to the hand-written model of Model/Rates.lean,
// so the theorems of C12 are re-checked against what the code says now.
//
// The Go structs are mapped onto the records of the model (the generated
// `example`s check the field types; Props pins the Go declarations):
//
//	RateValueDef → Rates.RateValue   RateDef → Rates.RateDef
//	CategoryDef  → Rates.CategoryDef RegimeDef → Rates.RegimeTable
//	Combo        → Rates.Combo
//
// Declared primitives (their meaning is the model's, stated in Model/Rates.lean):
//
//	cal.Date, civil.Date  opaque, both Rates.Date (cal.Date embeds civil.Date
//	                      and nothing else: the field primitive cal.Date.Date is
//	                      the identity)
//	civil.Date.IsValid / After / Before   Rates.Date.isValid / after / before
//	cbc.Key.Has           Rates.keyHas (one of the "+"-separated parts equals the argument)
//	error                 Option String: nil = none, an error = the key of the tax.Error it wraps
//	Error.WithMessage     some <key> (the message is dropped: `fmt.Errorf("%w: %v", e, msg)`,
//	                      so errors.Is(err, e) holds exactly for that key)
//	num.Percentage        opaque, Rates.Pct (only copied)
//
// cloud.google.com/go/civil is not part of the repository: the translator
// sees it through the stub below (signatures only).

const ratesCivilStub = `package civil
import "time"
type Date struct {
	Year  int
	Month time.Month
	Day   int
}
func (d Date) IsValid() bool
func (d1 Date) Before(d2 Date) bool
func (d1 Date) After(d2 Date) bool
func (d Date) IsZero() bool
func (d Date) String() string
`

const g2lTimeStub = `package time
type Month int
type Time struct{}
type Location struct{}
type Duration int64
var UTC *Location
`

func ratesSrcConfig() *G2LConfig {
	return &G2LConfig{
		Repo:      *repo,
		Module:    "github.com/invopop/gobl",
		Pkg:       "tax",
		Tags:      []string{"verif"},
		Namespace: "GoblVerif.Generated.RatesSrc",
		Title:     "RatesSrc: the rate lookup of /repo/tax/regime_def.go, regimes.go, extensions.go translated from Go.",
		Imports:   []string{"GoblVerif.Model.Rates", "GoblVerif.Model.GoSem", "GoblVerif.Model.GoSemMap"},
		Structs: map[string]G2LStruct{
			"RateValueDef": {Lean: "GoblVerif.Rates.RateValue", Fields: map[string]string{
				"Tags": "tags", "Ext": "ext", "Since": "since", "Percent": "percent", "Surcharge": "surcharge", "Disabled": "disabled"}},
			"RateDef": {Lean: "GoblVerif.Rates.RateDef", AnyOrder: true, Fields: map[string]string{
				"Key": "key", "Name": "-", "Description": "-", "Exempt": "exempt", "Values": "values", "Ext": "ext", "Meta": "-"}},
			"CategoryDef": {Lean: "GoblVerif.Rates.CategoryDef", Fields: map[string]string{
				"Code": "code", "Name": "-", "Title": "-", "Description": "-", "Retained": "retained", "Rates": "rates",
				"Extensions": "-", "Map": "-", "Sources": "-", "Ext": "-", "Meta": "-"}},
			"RegimeDef": {Lean: "GoblVerif.Rates.RegimeTable", Fields: map[string]string{
				"Name": "-", "Description": "-", "TimeZone": "-", "Country": "country", "AltCountryCodes": "alt", "Zone": "zone",
				"Currency": "-", "TaxScheme": "-", "CalculatorRoundingRule": "-", "Tags": "-", "Extensions": "-", "Identities": "-",
				"PaymentMeansKeys": "-", "InboxKeys": "-", "Scenarios": "-", "Corrections": "-", "Categories": "categories",
				"Validator": "-", "Normalizer": "-"}},
			"Combo": {Lean: "GoblVerif.Rates.Combo", Fields: map[string]string{
				"Category": "category", "Country": "country", "Rate": "rate", "Percent": "percent", "Surcharge": "surcharge",
				"Ext": "ext", "retained": "-"}},
		},
		Named: map[string]string{
			"cal.Date":       "GoblVerif.Rates.Date",
			"civil.Date":     "GoblVerif.Rates.Date",
			"num.Percentage": "GoblVerif.Rates.Pct",
			"error":          "Option String",
		},
		NonNilElems: []string{"[]*RateValueDef", "[]*RateDef", "[]*CategoryDef"},
		Maps:        true,
		Prims: map[string]string{
			"cal.Date.Date":      "{0}",
			"civil.Date.IsValid": "GoblVerif.Rates.Date.isValid {0}",
			"civil.Date.After":   "GoblVerif.Rates.Date.after {0} {1}",
			"civil.Date.Before":  "GoblVerif.Rates.Date.before {0} {1}",
			"cbc.Key.Has":        "GoblVerif.Rates.keyHas {0} {1}",
			"Error.WithMessage":  "(some {0} : Option String)",
		},
		Stubs: map[string]string{"cloud.google.com/go/civil": ratesCivilStub, "time": g2lTimeStub},
		Funcs: []G2LFunc{
			{Name: "RateValueDef.hasAnyTag"},
			{Name: "Extensions.Contains"},
			{Name: "RateDef.Value"},
			{Name: "CategoryDef.RateDef"},
			{Name: "RegimeDef.CategoryDef"},
			{Name: "Combo.prepareRate", InOut: []string{"c"}},
		},
	}
}

func init() {
	register(func() (string, string, error) {
		name := "RatesSrc"
		cfg := ratesSrcConfig()
		text, err := G2LRun(cfg)
		if err != nil {
			// never keep a stale translation: the obligations of Props/C12 must fail
			text = "/- REGENERATED — the tax package could not be loaded: " + g2lComment(g2lOneLine(err.Error())) + " -/\nnamespace " + cfg.Namespace +
				"\ndef untranslated : List String := [\"*\"]\nend " + cfg.Namespace + "\n"
		}
		return name, text, nil
	})
}
