package main

// go2lean, expressions.  See go2lean.go for the semantics.

import (
	"bytes"
	"fmt"
	"go/ast"
	"go/constant"
	"go/printer"
	"go/token"
	"go/types"
	"math/big"
	"strings"
)

// g2lFn is the state of the translation of one function.
type g2lFn struct {
	g       *g2l
	key     string
	names   map[types.Object]string
	mutated map[types.Object]bool
	deps    []string
	depSeen map[string]bool
	subs    []g2lNatSub
	guards  []string
	tmp     int
	loops   int
	fuel    []string
	inLoop  int
	inSw    int
	fuelChk bool // emitting the _fuelOK twin
	hasLoop bool
	valPtr  map[types.Object]bool // pointer variables held as their pointee (go2lean_ptr.go)
	fnObj   *types.Func           // the function being translated (go2lean_ptr.go)
	inOut   []*types.Var          // pointer parameters returned as extra results (go2lean_inout.go)
	eff     *g2lEffFn             // writes through pointers, effect loops (go2lean_effects.go)
	own     *g2lOwnState          // owned locals, cursors (go2lean_own.go)
}

func (f *g2lFn) fail(format string, a ...any) {
	panic(g2lUnsupported{fmt.Sprintf(format, a...)})
}

func (f *g2lFn) src(n ast.Node) string {
	var b bytes.Buffer
	_ = printer.Fprint(&b, f.g.fset, n)
	return g2lOneLine(b.String())
}

func (f *g2lFn) dep(key string) {
	if !f.depSeen[key] {
		f.depSeen[key] = true
		f.deps = append(f.deps, key)
	}
}

func (f *g2lFn) typeOf(e ast.Expr) types.Type {
	tv, ok := f.g.info.Types[e]
	if !ok || tv.Type == nil {
		f.fail("no type for `%s`", f.src(e))
	}
	if b, ok := tv.Type.(*types.Basic); ok && b.Kind() == types.Invalid {
		f.fail("`%s` does not type-check (unresolved import or outside the subset)", f.src(e))
	}
	return tv.Type
}

func (f *g2lFn) lean(t types.Type) string {
	s, err := f.g.leanType(t)
	if err != nil {
		f.fail("%v", err)
	}
	return s
}

func (f *g2lFn) fresh(prefix string) string {
	for {
		n := fmt.Sprintf("%s%d", prefix, f.tmp)
		f.tmp++
		if !f.nameTaken(n) {
			return n
		}
	}
}

func (f *g2lFn) nameTaken(n string) bool {
	for _, v := range f.names {
		if v == n {
			return true
		}
	}
	return false
}

// ---------------------------------------------------------------- constants

func (f *g2lFn) constant(tv types.TypeAndValue, e ast.Expr) string {
	t := tv.Type
	v := tv.Value
	switch g2lKindOf(t) {
	case kBool:
		if constant.BoolVal(v) {
			return "true"
		}
		return "false"
	case kString:
		return f.g.strConst(constant.StringVal(v)) // go2lean_string.go
	case kInt, kUint:
		iv := constant.ToInt(v)
		if iv.Kind() != constant.Int {
			f.fail("constant `%s` is not an integer", f.src(e))
		}
		return "(" + iv.ExactString() + " : " + f.lean(t) + ")"
	case kFloat:
		num, den := constant.Num(v), constant.Denom(v)
		if num.Kind() != constant.Int || den.Kind() != constant.Int {
			f.fail("constant `%s` has no exact fraction", f.src(e))
		}
		n, _ := new(big.Int).SetString(num.ExactString(), 10)
		d, _ := new(big.Int).SetString(den.ExactString(), 10)
		if n == nil || d == nil {
			f.fail("constant `%s`", f.src(e))
		}
		lim := new(big.Int).Lsh(big.NewInt(1), 53)
		if d.Cmp(big.NewInt(1)) == 0 && new(big.Int).Abs(n).Cmp(lim) < 0 {
			return "(" + n.String() + " : Rat)"
		}
		return "(GoblVerif.rnd53 ((" + n.String() + " : Rat) / " + d.String() + "))"
	}
	f.fail("constant `%s` of type %s", f.src(e), f.g.typeKey(t))
	return ""
}

// ---------------------------------------------------------------- expressions

// expr translates a single-valued expression to a Lean term (not necessarily atomic).
func (f *g2lFn) expr(e ast.Expr) string {
	tv, ok := f.g.info.Types[e]
	if ok && tv.Value != nil && tv.Type != nil {
		return f.constant(tv, e)
	}
	if ok && tv.Type != nil && g2lKindOf(tv.Type) == kBool {
		if _, isTuple := tv.Type.(*types.Tuple); !isTuple {
			return f.boolExpr(e)
		}
	}
	return f.exprNB(e)
}

// exprNB: expression translation proper (no Bool dispatch)
func (f *g2lFn) exprNB(e ast.Expr) string {
	switch x := e.(type) {
	case *ast.ParenExpr:
		return g2lPar(f.expr(x.X))
	case *ast.Ident:
		return f.ident(x)
	case *ast.BasicLit:
		f.fail("literal `%s` without a constant value", x.Value)
	case *ast.SelectorExpr:
		return f.selector(x)
	case *ast.CallExpr:
		return f.call(x)
	case *ast.CompositeLit:
		return f.composite(x)
	case *ast.UnaryExpr:
		return f.unary(x)
	case *ast.BinaryExpr:
		return f.binary(x.Op, x.X, x.Y, f.typeOf(x.X), x)
	case *ast.StarExpr:
		if g2lKindOf(f.typeOf(x.X)) != kPtr {
			f.fail("`%s`", f.src(e))
		}
		return f.asVal(x.X)
	case *ast.IndexExpr:
		return f.index(x)
	case *ast.SliceExpr:
		return f.sliceExpr(x) // go2lean_string.go
	}
	f.fail("expression `%s` (%T) is outside the subset", f.src(e), e)
	return ""
}

func (f *g2lFn) ident(id *ast.Ident) string {
	obj := f.g.info.Uses[id]
	if obj == nil {
		obj = f.g.info.Defs[id]
	}
	switch o := obj.(type) {
	case *types.Var:
		if n, ok := f.names[o]; ok {
			return n
		}
		if o.Pkg() == f.g.pkg && o.Parent() == f.g.pkg.Scope() {
			key := "var " + o.Name()
			f.dep(key)
			return f.g.unitLeanName(key)
		}
		f.fail("variable `%s` is not a local, a parameter or a package variable of this package", id.Name)
	case *types.Nil:
		t := f.typeOf(id)
		switch g2lKindOf(t) {
		case kPtr:
			return "(none : " + f.lean(t) + ")"
		case kList:
			return "([] : " + f.lean(t) + ")"
		}
		if s, ok := f.nilExt(t); ok { // go2lean_string.go: nil as an `error` stays untyped in go/types
			return s
		}
		if z, ok := f.g.zeroOther(t, f.lean(t)); ok {
			return z
		}
		f.fail("nil of type %s", f.g.typeKey(t))
	}
	f.fail("identifier `%s` is outside the subset", id.Name)
	return ""
}

func (f *g2lFn) namedOf(t types.Type) *types.Named {
	t = types.Unalias(t)
	if p, ok := t.(*types.Pointer); ok {
		t = types.Unalias(p.Elem())
	}
	n, _ := t.(*types.Named)
	return n
}

func (f *g2lFn) fieldLean(n *types.Named, goField string) string {
	fs, _, err := f.g.structFields(n)
	if err != nil {
		f.fail("%v", err)
	}
	for _, fd := range fs {
		if fd.goName == goField {
			if fd.leanType == "" {
				f.fail("field %s.%s has a type outside the subset", f.g.typeKey(n), goField)
			}
			return fd.leanName
		}
	}
	f.fail("field %s.%s not found (promoted fields are outside the subset)", f.g.typeKey(n), goField)
	return ""
}

func (f *g2lFn) selector(x *ast.SelectorExpr) string {
	sel, ok := f.g.info.Selections[x]
	if !ok {
		f.fail("qualified identifier `%s` is neither a constant nor a primitive", f.src(x))
	}
	if sel.Kind() != types.FieldVal {
		f.fail("method value `%s`", f.src(x))
	}
	return f.selectorX(x, sel)
}

func (f *g2lFn) args(as []ast.Expr) []string {
	out := make([]string, len(as))
	for i, a := range as {
		out[i] = g2lPar(f.expr(a))
	}
	return out
}

func g2lTemplate(t string, args []string) string {
	for i := len(args) - 1; i >= 0; i-- {
		t = strings.ReplaceAll(t, fmt.Sprintf("{%d}", i), args[i])
	}
	return t
}

// calleeKey gives the primitive key of a call to a package-level function or
// a method: "pkg.Func", "Func", "Recv.Method", "pkg.Recv.Method".
func (f *g2lFn) calleeKey(fn *types.Func) (key string, local bool) {
	sig := fn.Type().(*types.Signature)
	q := ""
	if fn.Pkg() != nil && fn.Pkg() != f.g.pkg {
		q = fn.Pkg().Name() + "."
	}
	if r := sig.Recv(); r != nil {
		n := f.namedOf(r.Type())
		if n == nil {
			return "", false
		}
		return q + n.Obj().Name() + "." + fn.Name(), q == ""
	}
	return q + fn.Name(), q == ""
}

func (f *g2lFn) funcOfCall(c *ast.CallExpr) *types.Func {
	var id *ast.Ident
	switch fx := ast.Unparen(c.Fun).(type) {
	case *ast.Ident:
		id = fx
	case *ast.SelectorExpr:
		id = fx.Sel
	}
	if id == nil {
		return nil
	}
	fn, _ := f.g.info.Uses[id].(*types.Func)
	return fn
}

func (f *g2lFn) call(c *ast.CallExpr) string {
	if s, ok := f.callExt(c); ok { // go2lean_string.go: strings, make, Sprintf, primitives with pointer receivers
		return s
	}
	if s, ok := f.callBytes(c); ok { // go2lean_buffer.go: append(x, y...), buf.Bytes()
		return s
	}
	if c.Ellipsis.IsValid() && !f.g.refsOn() && !f.ellipsisOK(c) { // go2lean_refs.go: variadic functions; go2lean_env.go
		f.fail("variadic call `%s`", f.src(c))
	}
	ftv := f.g.info.Types[c.Fun]
	if ftv.IsType() {
		if len(c.Args) != 1 {
			f.fail("conversion `%s`", f.src(c))
		}
		return f.conversion(ftv.Type, c.Args[0], c)
	}
	if ftv.IsBuiltin() {
		return f.builtin(c)
	}
	fn := f.funcOfCall(c)
	if fn == nil {
		f.fail("call of a function value `%s`", f.src(c))
	}
	if s, ok := f.primCall(c, fn); ok {
		return s
	}
	sig := fn.Type().(*types.Signature)
	if sig.Variadic() && f.g.refsOn() { // go2lean_refs.go
		return f.variadicCall(c, fn)
	}
	if sig.Variadic() && !(c.Ellipsis.IsValid() && f.ellipsisOK(c)) { // go2lean_env.go: a spread slice is passed as it is
		f.fail("variadic function in `%s`", f.src(c))
	}
	key, local := f.calleeKey(fn)
	if key == "" {
		f.fail("call `%s`", f.src(c))
	}
	var args []string
	if sig.Recv() != nil {
		se, ok := ast.Unparen(c.Fun).(*ast.SelectorExpr)
		if !ok {
			f.fail("method expression `%s`", f.src(c))
		}
		sel := f.g.info.Selections[se]
		if sel == nil || sel.Kind() != types.MethodVal {
			f.fail("method call `%s` (interface or expression form)", f.src(c))
		}
		if _, isIface := sig.Recv().Type().Underlying().(*types.Interface); isIface {
			f.fail("interface method call `%s`", f.src(c))
		}
		_, isPrim := f.g.cfg.Prims[key]
		args = append(args, f.recvArg(c, se, sel, fn, isPrim))
	}
	_, isPrim := f.g.cfg.Prims[key]
	args = append(args, f.callArgs(fn, c.Args, isPrim)...)
	if t, ok := f.g.cfg.Prims[key]; ok {
		return g2lTemplate(t, args)
	}
	if !local {
		f.fail("call of `%s` (not a primitive of this configuration)", key)
	}
	if len(f.g.inOutFor(key)) > 0 {
		f.fail("call of `%s`, which has in-out parameters (only the outermost function may have them)", key)
	}
	f.dep(key)
	return strings.Join(append([]string{f.g.callHead(key)}, args...), " ") // go2lean_effects.go: the context arguments first
}

func (f *g2lFn) builtin(c *ast.CallExpr) string {
	id, _ := ast.Unparen(c.Fun).(*ast.Ident)
	if id == nil {
		f.fail("builtin `%s`", f.src(c))
	}
	switch id.Name {
	case "len":
		t := f.typeOf(c.Args[0])
		if s, ok := f.lenOther(c.Args[0], t); ok {
			return s
		}
		if g2lKindOf(t) != kList {
			f.fail("len of %s (only slices and arrays; strings are byte sequences in Go)", f.g.typeKey(t))
		}
		return "(" + g2lPar(f.expr(c.Args[0])) + ".length : Int)"
	case "min", "max":
		if len(c.Args) != 2 {
			f.fail("`%s` with %d arguments", id.Name, len(c.Args))
		}
		a := f.args(c.Args)
		return id.Name + " " + a[0] + " " + a[1]
	case "append":
		if s, ok := f.appendSpread(c); ok { // go2lean_env.go
			return s
		}
		if c.Ellipsis.IsValid() || len(c.Args) < 1 {
			f.fail("`%s`", f.src(c))
		}
		a := f.args(c.Args[:1])
		for _, e := range c.Args[1:] {
			a = append(a, g2lPar(f.exprFor(e, f.typeOf(c.Args[0]), nil)))
		}
		return a[0] + " ++ [" + strings.Join(a[1:], ", ") + "]"
	}
	if s, ok := f.builtinOther(id.Name, c); ok {
		return s
	}
	if s, ok := f.builtinEnv(id.Name, c); ok { // go2lean_env.go
		return s
	}
	f.fail("builtin `%s`", id.Name)
	return ""
}

func (f *g2lFn) conversion(to types.Type, arg ast.Expr, c *ast.CallExpr) string {
	// primitive patterns of the form T(pkg.F(x))
	if inner, ok := ast.Unparen(arg).(*ast.CallExpr); ok && !f.g.info.Types[inner.Fun].IsType() {
		if fn := f.funcOfCall(inner); fn != nil {
			if ik, _ := f.calleeKey(fn); ik != "" {
				if t, ok := f.g.cfg.Prims[f.g.typeKey(to)+"("+ik+")"]; ok {
					return g2lTemplate(t, f.args(inner.Args))
				}
			}
		}
	}
	from := f.typeOf(arg)
	a := f.expr(arg)
	fk, tk := g2lKindOf(from), g2lKindOf(to)
	if _, ok := to.Underlying().(*types.Basic); !ok {
		f.fail("conversion `%s` to a non-basic type", f.src(c))
	}
	switch {
	case fk == tk && (fk == kInt || fk == kUint || fk == kFloat || fk == kBool || fk == kString):
		// int ↔ int64, uint32 ↔ uint64 …: the unbounded model has one type per signedness
		return a
	case fk == kUint && tk == kInt:
		return "(" + g2lPar(a) + " : Int)"
	case fk == kInt && tk == kUint:
		return "Int.toNat " + g2lPar(a)
	case fk == kInt && tk == kFloat:
		return "GoblVerif.ofInt64 " + g2lPar(a)
	case fk == kUint && tk == kFloat:
		return "GoblVerif.ofInt64 (" + g2lPar(a) + " : Int)"
	case fk == kFloat && tk == kInt:
		return "GoblVerif.GoSem.truncToInt " + g2lPar(a)
	case fk == kFloat && tk == kUint:
		return "Int.toNat (GoblVerif.GoSem.truncToInt " + g2lPar(a) + ")"
	}
	f.fail("conversion `%s` (%s to %s)", f.src(c), f.g.typeKey(from), f.g.typeKey(to))
	return ""
}

func (f *g2lFn) composite(x *ast.CompositeLit) string {
	t := f.typeOf(x)
	if s, ok := f.compositeExt(x, t); ok { // go2lean_string.go: map literals
		return s
	}
	if s, ok := f.compositeEnv(x, t); ok { // go2lean_env.go: map literals
		return s
	}
	switch g2lKindOf(t) {
	case kStruct:
		n := f.namedOf(t)
		if n == nil {
			f.fail("anonymous struct literal `%s`", f.src(x))
		}
		st := n.Underlying().(*types.Struct)
		vals := map[string]string{}
		for i, el := range x.Elts {
			if kv, ok := el.(*ast.KeyValueExpr); ok {
				k, ok := kv.Key.(*ast.Ident)
				if !ok {
					f.fail("struct literal key in `%s`", f.src(x))
				}
				vals[k.Name] = f.exprFor(kv.Value, nil, g2lFieldType(st, k.Name))
			} else {
				if i >= st.NumFields() {
					f.fail("struct literal `%s`", f.src(x))
				}
				vals[st.Field(i).Name()] = f.exprFor(el, nil, st.Field(i).Type())
			}
		}
		s, err := f.g.structLit(n, vals)
		if err != nil {
			f.fail("%v", err)
		}
		return s
	case kList:
		if s, ok := f.keyedArray(x, t); ok { // go2lean_buffer.go: [N]T{k: v, …}
			return s
		}
		var parts []string
		for _, el := range x.Elts {
			if _, ok := el.(*ast.KeyValueExpr); ok {
				f.fail("indexed element in `%s`", f.src(x))
			}
			parts = append(parts, f.exprFor(el, t, nil))
		}
		if a, ok := t.Underlying().(*types.Array); ok && int(a.Len()) != len(parts) {
			f.fail("array literal `%s` shorter than its type", f.src(x))
		}
		return "([" + strings.Join(parts, ", ") + "] : " + f.lean(t) + ")"
	}
	f.fail("composite literal `%s`", f.src(x))
	return ""
}

func (f *g2lFn) index(x *ast.IndexExpr) string {
	if s, ok := f.replaced(x); ok { // go2lean_buffer.go: the comparator of sort.SliceStable
		return s
	}
	t := f.typeOf(x.X)
	if s, ok := f.indexExt(x, t); ok { // go2lean_string.go: s[i] on strings, m[k] on map literals
		return s
	}
	if s, ok := f.indexOther(x, t); ok {
		return s
	}
	if g2lKindOf(t) != kList {
		f.fail("index into %s in `%s`", f.g.typeKey(t), f.src(x))
	}
	i := f.expr(x.Index)
	if g2lKindOf(f.typeOf(x.Index)) == kInt {
		i = "Int.toNat " + g2lPar(i)
	}
	return g2lPar(f.expr(x.X)) + "[" + i + "]!"
}

func (f *g2lFn) unary(x *ast.UnaryExpr) string {
	t := f.typeOf(x)
	switch x.Op {
	case token.SUB:
		switch g2lKindOf(t) {
		case kInt, kFloat:
			return "-" + g2lPar(f.expr(x.X))
		}
		f.fail("negation of %s in `%s` (wraps around in Go)", f.g.typeKey(t), f.src(x))
	case token.ADD:
		return f.expr(x.X)
	case token.NOT:
		return f.boolExpr(x)
	case token.AND:
		if s, ok := f.addrLit(x); ok { // go2lean_buffer.go: &pkg.T{…} named by a primitive
			return s
		}
		return f.addrOf(x)
	}
	f.fail("operator %s in `%s`", x.Op, f.src(x))
	return ""
}

// binary builds `l op r` for the arithmetic operators, at the Go type t of the operands.
func (f *g2lFn) binary(op token.Token, l, r ast.Expr, t types.Type, whole ast.Node) string {
	switch op {
	case token.LAND, token.LOR, token.EQL, token.NEQ, token.LSS, token.LEQ, token.GTR, token.GEQ:
		return f.boolExpr(whole.(ast.Expr))
	}
	a, b := g2lPar(f.expr(l)), g2lPar(f.expr(r))
	return f.arith(op, a, b, t, r, whole)
}

func (f *g2lFn) arith(op token.Token, a, b string, t types.Type, r ast.Expr, whole ast.Node) string {
	k := g2lKindOf(t)
	switch k {
	case kInt:
		switch op {
		case token.ADD:
			return a + " + " + b
		case token.SUB:
			return a + " - " + b
		case token.MUL:
			return a + " * " + b
		case token.QUO:
			return "Int.tdiv " + a + " " + b
		case token.REM:
			return "Int.tmod " + a + " " + b
		case token.SHL, token.SHR:
			n := b
			if r != nil && g2lKindOf(f.typeOf(r)) == kInt {
				n = "(Int.toNat " + b + ")"
			}
			if op == token.SHL {
				return a + " * 2 ^ " + n
			}
			return a + " / 2 ^ " + n
		}
		if s, ok := f.intBitOp(op, a, b); ok { // go2lean_buffer.go: | and & on signed integers
			return s
		}
	case kUint:
		switch op {
		case token.ADD:
			return a + " + " + b
		case token.SUB:
			f.subs = append(f.subs, g2lNatSub{f.key, f.src(whole), append([]string{}, f.guards...)})
			return a + " - " + b
		case token.MUL:
			return a + " * " + b
		case token.QUO:
			return a + " / " + b
		case token.REM:
			return a + " % " + b
		case token.AND:
			return a + " &&& " + b
		case token.OR:
			return a + " ||| " + b
		case token.XOR:
			return a + " ^^^ " + b
		case token.SHR:
			n := b
			if r != nil && g2lKindOf(f.typeOf(r)) == kInt {
				n = "(Int.toNat " + b + ")"
			}
			return a + " >>> " + n
		}
	case kFloat:
		switch op {
		case token.ADD:
			return "GoblVerif.rnd53 (" + a + " + " + b + ")"
		case token.SUB:
			return "GoblVerif.rnd53 (" + a + " - " + b + ")"
		case token.MUL:
			return "GoblVerif.fmul " + a + " " + b
		case token.QUO:
			return "GoblVerif.fdiv " + a + " " + b
		}
	case kString:
		if op == token.ADD {
			return a + " ++ " + b
		}
	}
	f.fail("operator %s on %s in `%s`", op, f.g.typeKey(t), f.src(whole))
	return ""
}

// ---------------------------------------------------------------- Bool and Prop

func g2lRel(op token.Token) string {
	switch op {
	case token.EQL:
		return "="
	case token.NEQ:
		return "≠"
	case token.LSS:
		return "<"
	case token.LEQ:
		return "≤"
	case token.GTR:
		return ">"
	case token.GEQ:
		return "≥"
	}
	return ""
}

// relation builds the (decidable) proposition of a comparison.
func (f *g2lFn) relation(x *ast.BinaryExpr) string {
	lt, rt := f.typeOf(x.X), f.typeOf(x.Y)
	if s, ok := f.relationOther(x, lt, rt); ok {
		return s
	}
	if s, ok := f.relationEnv(x, lt, rt); ok { // go2lean_env.go
		return s
	}
	// comparison with nil
	if g2lKindOf(lt) == kPtr || g2lKindOf(rt) == kPtr {
		isNil := func(e ast.Expr) bool {
			id, ok := ast.Unparen(e).(*ast.Ident)
			if !ok {
				return false
			}
			_, ok = f.g.info.Uses[id].(*types.Nil)
			return ok
		}
		var other ast.Expr
		switch {
		case isNil(x.Y):
			other = x.X
		case isNil(x.X):
			other = x.Y
		default:
			f.fail("pointer comparison `%s` (identity is not modelled)", f.src(x))
		}
		if s, ok := f.nilTest(other, x.Op); ok {
			return s
		}
		if x.Op == token.EQL {
			return g2lPar(f.expr(other)) + ".isNone = true"
		}
		return g2lPar(f.expr(other)) + ".isSome = true"
	}
	switch g2lKindOf(lt) {
	case kInt, kUint, kFloat, kBool, kString:
	case kStruct:
		if x.Op != token.EQL && x.Op != token.NEQ {
			f.fail("`%s`", f.src(x))
		}
	default:
		f.fail("comparison of %s in `%s`", f.g.typeKey(lt), f.src(x))
	}
	if g2lKindOf(lt) == kString && x.Op != token.EQL && x.Op != token.NEQ {
		if s, ok := f.strOrder(x); ok { // go2lean_buffer.go: bytewise order
			return s
		}
		f.fail("string ordering in `%s` (bytewise in Go)", f.src(x))
	}
	return g2lPar(f.expr(x.X)) + " " + g2lRel(x.Op) + " " + g2lPar(f.expr(x.Y))
}

// propExpr translates a Go bool expression to a decidable Lean proposition.
func (f *g2lFn) propExpr(e ast.Expr) string {
	if tv, ok := f.g.info.Types[e]; ok && tv.Value != nil && tv.Value.Kind() == constant.Bool {
		if constant.BoolVal(tv.Value) {
			return "True"
		}
		return "False"
	}
	switch x := e.(type) {
	case *ast.ParenExpr:
		return g2lPar(f.propExpr(x.X))
	case *ast.UnaryExpr:
		if x.Op == token.NOT {
			return "¬ " + g2lPar(f.propExpr(x.X))
		}
	case *ast.BinaryExpr:
		switch x.Op {
		case token.LAND:
			return g2lPar(f.propExpr(x.X)) + " ∧ " + g2lPar(f.propExpr(x.Y))
		case token.LOR:
			return g2lPar(f.propExpr(x.X)) + " ∨ " + g2lPar(f.propExpr(x.Y))
		case token.EQL, token.NEQ, token.LSS, token.LEQ, token.GTR, token.GEQ:
			return f.relation(x)
		}
	}
	return g2lPar(f.boolExpr(e)) + " = true"
}

// boolExpr translates a Go bool expression to a Lean Bool term.
func (f *g2lFn) boolExpr(e ast.Expr) string {
	if tv, ok := f.g.info.Types[e]; ok && tv.Value != nil && tv.Value.Kind() == constant.Bool {
		if constant.BoolVal(tv.Value) {
			return "true"
		}
		return "false"
	}
	switch x := e.(type) {
	case *ast.ParenExpr:
		return g2lPar(f.boolExpr(x.X))
	case *ast.UnaryExpr:
		if x.Op == token.NOT {
			return "!" + g2lPar(f.boolExpr(x.X))
		}
	case *ast.BinaryExpr:
		switch x.Op {
		case token.LAND:
			return g2lPar(f.boolExpr(x.X)) + " && " + g2lPar(f.boolExpr(x.Y))
		case token.LOR:
			return g2lPar(f.boolExpr(x.X)) + " || " + g2lPar(f.boolExpr(x.Y))
		case token.EQL, token.NEQ, token.LSS, token.LEQ, token.GTR, token.GEQ:
			return "decide (" + f.relation(x) + ")"
		}
	}
	return f.exprNB(e)
}
