package main

// HeaderSrc (C09, and through it C10): (*Header).Contains of
// /repo/head/header.go TRANSLATED to Lean by go2lean on every run.
// Props/C09.lean (namespace Src) proves the definition equal to
// `Header.contains` of Model/Header.lean for all headers, so the containment
// theorems of C09 are statements about what the code says now.
//
// The Go structs are mapped onto the records of the model (the generated
// `example`s check the field types; Props pins the Go declarations):
//
//	Header → GoblVerif.Header   Stamp → GoblVerif.Stamp   Link → GoblVerif.Link
//	dsig.Digest → GoblVerif.Digest
//
// Declared primitives (methods of other packages of the repository):
//
//	uuid.UUID.String    the identity (`return string(u)`)
//	dsig.Digest.String  Digest.str: alg ++ ";" ++ val (`fmt.Sprintf("%s;%s", …)`)

func headerSrcConfig() *G2LConfig {
	return &G2LConfig{
		Repo:      *repo,
		Module:    "github.com/invopop/gobl",
		Pkg:       "head",
		Tags:      []string{"verif"},
		Namespace: "GoblVerif.Generated.HeaderSrc",
		Title:     "HeaderSrc: (*Header).Contains of /repo/head/header.go translated from Go.",
		Imports:   []string{"GoblVerif.Model.Header", "GoblVerif.Model.GoSem"},
		Structs: map[string]G2LStruct{
			"Header": {Lean: "GoblVerif.Header", Fields: map[string]string{
				"UUID": "uuid", "Digest": "dig", "Stamps": "stamps", "Links": "links", "Tags": "tags", "Meta": "metas", "Notes": "notes"}},
			"Stamp": {Lean: "GoblVerif.Stamp", Fields: map[string]string{"Provider": "prv", "Value": "val"}},
			"Link": {Lean: "GoblVerif.Link", Fields: map[string]string{
				"Key": "key", "Title": "title", "Description": "description", "MIME": "mime", "URL": "url"}},
			"dsig.Digest": {Lean: "GoblVerif.Digest", Fields: map[string]string{"Algorithm": "alg", "Value": "val"}},
		},
		NonNilElems: []string{"[]*Stamp", "[]*Link"},
		Maps:        true,
		Prims: map[string]string{
			"uuid.UUID.String":   "{0}",
			"dsig.Digest.String": "GoblVerif.Digest.str ({0}.get!)",
		},
		Funcs: []G2LFunc{
			{Name: "Header.Contains"},
		},
	}
}

func init() {
	register(func() (string, string, error) {
		name := "HeaderSrc"
		cfg := headerSrcConfig()
		text, err := G2LRun(cfg)
		if err != nil {
			// never keep a stale translation: the obligations of Props/C09 must fail
			text = "/- REGENERATED — the head package could not be loaded: " + g2lComment(g2lOneLine(err.Error())) + " -/\nnamespace " + cfg.Namespace +
				"\ndef untranslated : List String := [\"*\"]\nend " + cfg.Namespace + "\n"
		}
		return name, text, nil
	})
}
