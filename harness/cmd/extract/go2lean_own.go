package main

// go2lean, OBJECT TREES THAT ARE WRITTEN IN PLACE (task B11): fresh objects,
// elements of slices of pointers updated through the range variable or through
// a pointer found by a search loop, functions without result that write through
// their parameters.  taxtotalssrc.go is the configuration that uses it.
//
// THE READING (trusted; repeated in the header of the generated file): the
// object graph reachable from a FRESH local (`p := new(T)`, `p := &T{…}`,
// `p := f(…)` with f returning a fresh object) or from an IN-OUT parameter is
// given VALUE semantics — a pointer field is an `Option` of the pointee, a
// nil-free slice of pointers a `List` of pointees, a write through any path
// into the graph rebuilds the value around it.  That is what the Go code does
// PROVIDED the graph is a tree (no pointee and no backing array reachable by
// two paths) and nobody else holds a reference into it.  Sharing between
// objects is NOT visible in the translation (it is what the harness checks on
// the real objects: operands unaltered, results independent).  Within one
// function the translator refuses what would create a second path, except the
// forms below, which it follows exactly:
//
//   * OWNED LOCAL: `p := <fresh>`; every use of p dereferences it (`p.f`, `*p`,
//     also on the left of an assignment) or returns it; p is held as the pointee
//     (`let mut p : T`), `p.f = v` is `p := { p with f := v }`, `return p` is
//     `some p`.  new(T) / &T{…} are the zero value / the literal.
//   * WRITABLE PATH: an owned local, an in-out parameter or a cursor (below),
//     followed by fields, `[i]` into slices, `*`.  `path.f = v`, `path[i] = v`,
//     `*path = v` rebuild the root.  `*path = v` with path nil panics in Go and
//     stores `some v` here; an index out of range panics in Go and leaves the
//     list as it is here.
//   * RANGE CURSOR: `for i, rv := range C` with C a writable path of a nil-free
//     slice type and rv written through in the body: rv is a copy of element i
//     (`let mut rv := it.1`) and EVERY write through rv is followed at once by
//     `C := C.set i rv` (so `continue`, `break` and `return` need nothing
//     special).  The body must not reach C except through rv: every other
//     mention of the root of C must leave C's path at a field (checked).
//   * FOUND CURSOR: `var p *T` (nil), assigned inside `for _, rv := range C`
//     (C writable, nil-free) by `p = rv` directly followed by `break`, or
//     assigned a fresh object; held as `p : Option T` together with
//     `p_at : Option Nat` (the index in C it aliases, none while fresh).  A
//     write through p updates p and, when `p_at = some i`, C at i.
//     `C = append(C, p)` of a fresh p makes `p_at = some (old length)`.
//     Between the search loop and the last use of p the function must not reach
//     C except through p or by that append (checked as for range cursors, over
//     the statements that follow the search loop in its block).
//   * `&x` of a local assigned after its declaration is `some x` when every
//     assignment to x lies before the `&x` in the source and x is declared
//     inside the innermost loop that contains the `&x`.
//   * IN-OUT CALLS: a statement `f(a, …)` / `a.f(…)` whose callee has in-out
//     parameters (G2LFunc.InOut) passes writable paths for them and assigns the
//     returned values back.  A function WITHOUT result that has in-out
//     parameters is translated with result type `Unit × …`.
//   * `make([]*T, n)` of a nil-free slice type is n zero pointees: the nil
//     pointers it really holds must all be overwritten before they are read
//     (listed in `nilFreeMakes` for review).
//   * a pointer copied from one object into another (`a.p = b.p`) is a copy of
//     the pointee (listed in `ptrCopies` for review: faithful while nobody
//     writes through either).
//
// OPT-IN: all of this is ON only for a configuration with `Own: true` (ownOn
// below).  Every hook in the shared files is behind it, directly (zeroOpaque,
// builtinOwn, ptrValOwn, addrOfOwn, ownUsed) or through `f.own == nil`
// (initOwned leaves it nil; then ownWritable, updateBase, assignThrough,
// assignOther, afterIdentAssign, assignOwn, rangeCursor, foundDecl, stmtOwn and
// voidReturn do what the base translator does).  go2lean_effects.go (Effects)
// covers some of the same Go forms in another way and the two never run together.

import (
	"fmt"
	"go/ast"
	"go/token"
	"go/types"
	"sort"
	"strings"
)

type g2lCursor struct {
	container ast.Expr
	idx       string // Lean Nat term of the element's index (range cursor)
	at        string // name of the `Option Nat` variable (found cursor)
}

type g2lOwnState struct {
	owned   map[types.Object]bool
	cursors map[types.Object]*g2lCursor
	found   map[types.Object]*g2lCursor // found cursors (declared `var p *T`), container known after analysis
	rangeIdx map[types.Object]string    // value variable of a range emitted with indices → Lean term of the index
	through int                         // > 0 while an assignment is rebuilding the value around a written path
	void    bool
}

// per-run bookkeeping of this file
type g2lOwnFacts struct {
	ptrCopies, nilFreeMakes, ownedLocals, elemCursors, elemFound, lateAddr, opaqueZeros [][2]string
	fresh                                                    map[*types.Func]int // 0 unknown, 1 busy, 2 yes, 3 no
}

var g2lOwnRuns = map[*g2l]*g2lOwnFacts{}

// ownOn: does the configuration ask for this file?
func (g *g2l) ownOn() bool { return g.cfg.Own }

func (g *g2l) ownFacts() *g2lOwnFacts {
	if of, ok := g2lOwnRuns[g]; ok {
		return of
	}
	of := &g2lOwnFacts{fresh: map[*types.Func]int{}}
	g2lOwnRuns[g] = of
	return of
}

func (f *g2lFn) noteOwn(list *[][2]string, what string) {
	if f.fuelChk {
		return
	}
	for _, p := range *list {
		if p[0] == f.key && p[1] == what {
			return
		}
	}
	*list = append(*list, [2]string{f.key, what})
}

// ---------------------------------------------------------------- fresh expressions, owned locals

func g2lIsBuiltinCall(info *types.Info, e ast.Expr, name string) *ast.CallExpr {
	c, ok := ast.Unparen(e).(*ast.CallExpr)
	if !ok {
		return nil
	}
	id, ok := ast.Unparen(c.Fun).(*ast.Ident)
	if !ok || id.Name != name {
		return nil
	}
	if tv, ok := info.Types[c.Fun]; !ok || !tv.IsBuiltin() {
		return nil
	}
	return c
}

func g2lAddrOfLit(e ast.Expr) *ast.CompositeLit {
	u, ok := ast.Unparen(e).(*ast.UnaryExpr)
	if !ok || u.Op != token.AND {
		return nil
	}
	cl, _ := ast.Unparen(u.X).(*ast.CompositeLit)
	return cl
}

// freshExpr: does e evaluate to a pointer to an object nobody else holds?
func (g *g2l) freshExpr(e ast.Expr) bool {
	if g2lIsBuiltinCall(g.info, e, "new") != nil || g2lAddrOfLit(e) != nil {
		return true
	}
	if c, ok := ast.Unparen(e).(*ast.CallExpr); ok && !g.info.Types[c.Fun].IsType() && !g.info.Types[c.Fun].IsBuiltin() {
		var id *ast.Ident
		switch fx := ast.Unparen(c.Fun).(type) {
		case *ast.Ident:
			id = fx
		case *ast.SelectorExpr:
			id = fx.Sel
		}
		if id != nil {
			if fn, _ := g.info.Uses[id].(*types.Func); fn != nil {
				return g.returnsFresh(fn)
			}
		}
	}
	return false
}

// returnsFresh: every return of the local function fn gives nil, a fresh
// expression or an owned local.
func (g *g2l) returnsFresh(fn *types.Func) bool {
	of := g.ownFacts()
	switch of.fresh[fn] {
	case 1, 3:
		return false
	case 2:
		return true
	}
	of.fresh[fn] = 1
	res := func() bool {
		fd := g.funcDeclOf(fn)
		if fd == nil || fd.Body == nil {
			return false
		}
		sig := fn.Type().(*types.Signature)
		if sig.Results().Len() != 1 || !g2lIsPtr(sig.Results().At(0).Type()) {
			return false
		}
		owned := g.ownedLocals(fd)
		ok := true
		ast.Inspect(fd.Body, func(n ast.Node) bool {
			if _, isLit := n.(*ast.FuncLit); isLit {
				ok = false
				return false
			}
			r, isRet := n.(*ast.ReturnStmt)
			if !isRet || len(r.Results) != 1 {
				return true
			}
			e := ast.Unparen(r.Results[0])
			if id, isId := e.(*ast.Ident); isId {
				if _, isNil := g.info.Uses[id].(*types.Nil); isNil {
					return true
				}
				if owned[g.info.Uses[id]] {
					return true
				}
			}
			if !g.freshExpr(e) {
				ok = false
			}
			return true
		})
		return ok
	}()
	if res {
		of.fresh[fn] = 2
	} else {
		of.fresh[fn] = 3
	}
	return res
}

// ownedLocals: the locals of fd declared `p := <fresh>` whose every use
// dereferences p or returns it.
func (g *g2l) ownedLocals(fd *ast.FuncDecl) map[types.Object]bool {
	cand := map[types.Object]bool{}
	ast.Inspect(fd.Body, func(n ast.Node) bool {
		as, ok := n.(*ast.AssignStmt)
		if !ok || as.Tok != token.DEFINE || len(as.Lhs) != 1 || len(as.Rhs) != 1 {
			return true
		}
		id, ok := as.Lhs[0].(*ast.Ident)
		if !ok || id.Name == "_" {
			return true
		}
		o, _ := g.info.Defs[id].(*types.Var)
		if o == nil || !g2lIsPtr(o.Type()) {
			return true
		}
		if g.freshExpr(as.Rhs[0]) {
			cand[o] = true
		}
		return true
	})
	if len(cand) == 0 {
		return cand
	}
	var stack []ast.Node
	ast.Inspect(fd.Body, func(n ast.Node) bool {
		if n == nil {
			stack = stack[:len(stack)-1]
			return true
		}
		stack = append(stack, n)
		id, ok := n.(*ast.Ident)
		if !ok {
			return true
		}
		o := g.info.Uses[id]
		if o == nil || !cand[o] {
			return true
		}
		if g.derefUse(stack) {
			return true
		}
		k := len(stack) - 2
		for k >= 0 {
			if _, isPar := stack[k].(*ast.ParenExpr); !isPar {
				break
			}
			k--
		}
		if k >= 0 {
			if _, isRet := stack[k].(*ast.ReturnStmt); isRet {
				return true
			}
		}
		delete(cand, o)
		return true
	})
	return cand
}

// initOwned prepares the state of this file for the function fd.
func (f *g2lFn) initOwned(fd *ast.FuncDecl) {
	if !f.g.ownOn() {
		return // f.own stays nil
	}
	f.own = &g2lOwnState{owned: map[types.Object]bool{}, cursors: map[types.Object]*g2lCursor{}, found: map[types.Object]*g2lCursor{}, rangeIdx: map[types.Object]string{}}
	if f.fnObj != nil {
		f.own.void = f.fnObj.Type().(*types.Signature).Results().Len() == 0
	}
	owned := f.g.ownedLocals(fd)
	var names []string
	for o := range owned {
		f.own.owned[o] = true
		f.setVal(o)
		names = append(names, o.Name())
	}
	sort.Strings(names)
	for _, n := range names {
		f.noteOwn(&f.g.ownFacts().ownedLocals, n)
	}
	f.initFound(fd)
}

// ptrValOwn: pointer expressions held as their pointee by this file.
func (f *g2lFn) ptrValOwn(e ast.Expr) bool {
	if !f.g.ownOn() {
		return false
	}
	return g2lIsBuiltinCall(f.g.info, e, "new") != nil || g2lAddrOfLit(e) != nil
}

// builtinOwn: new(T) (the zero pointee) and make([]T, n).
func (f *g2lFn) builtinOwn(name string, c *ast.CallExpr) (string, bool) {
	if !f.g.ownOn() {
		return "", false
	}
	switch name {
	case "new":
		if len(c.Args) != 1 {
			return "", false
		}
		tv, ok := f.g.info.Types[c.Args[0]]
		if !ok || !tv.IsType() {
			return "", false
		}
		z, err := f.g.zero(tv.Type)
		if err != nil {
			f.fail("%v", err)
		}
		return z, true
	case "make":
		if len(c.Args) < 2 || len(c.Args) > 3 || f.g.strOn() {
			return "", false
		}
		tv, ok := f.g.info.Types[c.Args[0]]
		if !ok || !tv.IsType() {
			return "", false
		}
		sl, ok := tv.Type.Underlying().(*types.Slice)
		if !ok {
			return "", false
		}
		var z string
		var err error
		if f.g.nonNilSlice(tv.Type) {
			z, err = f.g.zero(types.Unalias(sl.Elem()).(*types.Pointer).Elem())
			f.noteOwn(&f.g.ownFacts().nilFreeMakes, f.src(c))
		} else {
			z, err = f.g.zero(sl.Elem())
		}
		if err != nil {
			f.fail("%v", err)
		}
		if len(c.Args) == 3 {
			// make([]T, n, cap): the capacity is not observable in the value reading
			_ = c.Args[2]
		}
		return fmt.Sprintf("(List.replicate %s %s : %s)", f.natIndex(c.Args[1]), z, f.lean(tv.Type)), true
	}
	return "", false
}

// addrOfOwn: &T{…} (the pointee; see ptrValOwn) and &x of a local whose
// assignments all precede the expression.
func (f *g2lFn) addrOfOwn(x *ast.UnaryExpr) (string, bool) {
	if !f.g.ownOn() {
		return "", false
	}
	if cl := g2lAddrOfLit(x); cl != nil {
		return f.expr(cl), true
	}
	id, ok := ast.Unparen(x.X).(*ast.Ident)
	if !ok {
		return "", false
	}
	o, _ := f.g.info.Uses[id].(*types.Var)
	if o == nil || f.names[o] == "" || o.Parent() == f.g.pkg.Scope() || !f.mutated[o] {
		return "", false
	}
	fd := f.g.findFunc(f.key)
	if fd == nil {
		return "", false
	}
	// every assignment to o lies before x; o is declared inside the innermost loop around x
	okAll := true
	var loop ast.Node
	var stack []ast.Node
	ast.Inspect(fd.Body, func(n ast.Node) bool {
		if n == nil {
			stack = stack[:len(stack)-1]
			return true
		}
		stack = append(stack, n)
		if n == ast.Node(x) {
			for i := len(stack) - 1; i >= 0; i-- {
				switch stack[i].(type) {
				case *ast.ForStmt, *ast.RangeStmt:
					if loop == nil {
						loop = stack[i]
					}
				}
			}
		}
		root := func(e ast.Expr) types.Object {
			for {
				switch y := e.(type) {
				case *ast.ParenExpr:
					e = y.X
					continue
				case *ast.SelectorExpr:
					e = y.X
					continue
				case *ast.IndexExpr:
					e = y.X
					continue
				case *ast.StarExpr:
					e = y.X
					continue
				}
				break
			}
			if id, ok := e.(*ast.Ident); ok {
				return f.g.info.Uses[id]
			}
			return nil
		}
		switch s := n.(type) {
		case *ast.AssignStmt:
			for _, l := range s.Lhs {
				if root(l) == o && s.Pos() > x.Pos() {
					okAll = false
				}
			}
		case *ast.IncDecStmt:
			if root(s.X) == o && s.Pos() > x.Pos() {
				okAll = false
			}
		case *ast.UnaryExpr:
			if s.Op == token.AND && s != x && root(s.X) == o {
				okAll = false // a second pointer to the same variable
			}
		}
		return true
	})
	if !okAll {
		return "", false
	}
	if loop != nil && !(o.Pos() > loop.Pos() && o.Pos() < loop.End()) {
		return "", false
	}
	f.noteOwn(&f.g.ownFacts().lateAddr, f.src(x))
	return "some " + g2lPar(f.ident(id)), true
}

// ---------------------------------------------------------------- writable paths

func (f *g2lFn) cursorOf(o types.Object) *g2lCursor {
	if f.own == nil || o == nil {
		return nil
	}
	if c := f.own.cursors[o]; c != nil {
		return c
	}
	return f.own.found[o]
}

// pathRoot: the variable an assignable expression starts from, and its steps
// (field names; "[]" for an index; "*" for a dereference).
func (f *g2lFn) pathRoot(e ast.Expr) (types.Object, []string) {
	var steps []string
	for {
		switch x := ast.Unparen(e).(type) {
		case *ast.Ident:
			o := f.g.info.Uses[x]
			if o == nil {
				o = f.g.info.Defs[x]
			}
			for i, j := 0, len(steps)-1; i < j; i, j = i+1, j-1 {
				steps[i], steps[j] = steps[j], steps[i]
			}
			return o, steps
		case *ast.SelectorExpr:
			sel := f.g.info.Selections[x]
			if sel == nil || sel.Kind() != types.FieldVal || len(sel.Index()) != 1 {
				return nil, nil
			}
			steps = append(steps, x.Sel.Name)
			e = x.X
		case *ast.IndexExpr:
			steps = append(steps, "[]")
			e = x.X
		case *ast.StarExpr:
			steps = append(steps, "*")
			e = x.X
		default:
			return nil, nil
		}
	}
}

// ownRoot: is o an owned local, an in-out parameter or a cursor?
func (f *g2lFn) ownRoot(o types.Object) bool {
	if o == nil || f.own == nil {
		return false
	}
	if f.own.owned[o] || f.cursorOf(o) != nil {
		return true
	}
	for _, v := range f.inOut {
		if v == o {
			return true
		}
	}
	return false
}

// ownWritable: does the assignable expression e lie in the tree of an owned
// local, an in-out parameter or a cursor?
func (f *g2lFn) ownWritable(e ast.Expr) bool {
	o, _ := f.pathRoot(e)
	return f.ownRoot(o)
}

// updateBase: for `X.f = v` with X a pointer: the pointee of X, and what to
// store back into X for a new pointee.
func (f *g2lFn) updateBase(X ast.Expr) (base string, wrap func(string) string) {
	if f.own == nil || !g2lIsPtr(f.typeOf(X)) {
		return f.expr(X), func(s string) string { return s }
	}
	if f.ptrVal(X) {
		return f.expr(X), func(s string) string { return s }
	}
	return f.asVal(X), func(s string) string { return "some " + g2lPar(s) }
}

// assignOther: left-hand sides the base translator does not know (`*p = v`).
func (f *g2lFn) assignOther(l ast.Expr, val string, ind int) ([]string, bool) {
	st, ok := ast.Unparen(l).(*ast.StarExpr)
	if !ok || !f.ownWritable(st.X) {
		return nil, false
	}
	if f.ptrVal(st.X) {
		return f.assignThrough(st.X, val, ind), true
	}
	return f.assignThrough(st.X, "some "+g2lPar(val), ind), true
}

// writeThrough: after `name := …` of a cursor, the element it aliases is updated.
func (f *g2lFn) writeThrough(o types.Object, ind int) []string {
	c := f.cursorOf(o)
	if c == nil {
		return nil
	}
	if out, ok := f.retWriteThrough(o, ind); ok { // go2lean_ownret.go: a pointer returned into an in-out parameter
		return out
	}
	name := f.names[o]
	if c.at == "" {
		return f.assignTo(c.container, fmt.Sprintf("%s.set %s %s", g2lPar(f.expr(c.container)), g2lPar(c.idx), name), false, ind)
	}
	// found cursor: only while it aliases an element
	iv := f.fresh("i")
	inner := f.assignTo(c.container, fmt.Sprintf("%s.set %s %s.get!", g2lPar(f.expr(c.container)), iv, name), false, ind+1)
	out := []string{fmt.Sprintf("%sif let some %s := %s then", g2lInd(ind), iv, c.at)}
	return append(out, inner...)
}

// noteCopy records a pointer copied from another object.
func (f *g2lFn) noteCopy(l, r ast.Expr) {
	tv, ok := f.g.info.Types[r]
	if !ok || tv.Type == nil || !g2lIsPtr(tv.Type) || f.isNil(r) {
		return
	}
	if f.g.freshExpr(r) {
		return
	}
	if u, ok := ast.Unparen(r).(*ast.UnaryExpr); ok && u.Op == token.AND {
		return
	}
	if _, isSel := ast.Unparen(l).(*ast.SelectorExpr); !isSel {
		if _, isIdx := ast.Unparen(l).(*ast.IndexExpr); !isIdx {
			return
		}
	}
	f.noteOwn(&f.g.ownFacts().ptrCopies, f.src(l)+" = "+f.src(r))
}

// ---------------------------------------------------------------- range cursors

// checkOutside: between/inside the given statements the root of `container`
// must not be reached except along a path that leaves container's path at a field.
func (f *g2lFn) checkOutside(stmts []ast.Stmt, container ast.Expr, skip ast.Node, what string) {
	root, cpath := f.pathRoot(container)
	if root == nil {
		f.fail("%s: `%s` is not a path from a variable", what, f.src(container))
	}
	for _, s := range stmts {
		var stack []ast.Node
		ast.Inspect(s, func(n ast.Node) bool {
			if n == nil {
				stack = stack[:len(stack)-1]
				return true
			}
			if n == skip {
				return false
			}
			stack = append(stack, n)
			id, ok := n.(*ast.Ident)
			if !ok || f.g.info.Uses[id] != root {
				return true
			}
			// climb to the maximal path
			var top ast.Expr = id
			k := len(stack) - 2
			for k >= 0 {
				switch p := stack[k].(type) {
				case *ast.ParenExpr:
					top = p
					k--
					continue
				case *ast.SelectorExpr:
					if p.X == top {
						if sel := f.g.info.Selections[p]; sel != nil && sel.Kind() == types.FieldVal && len(sel.Index()) == 1 {
							top = p
							k--
							continue
						}
						// a method call on the root whose receiver the callee never uses
						if sel := f.g.info.Selections[p]; sel != nil && sel.Kind() == types.MethodVal {
							if fn, _ := sel.Obj().(*types.Func); fn != nil && f.g.paramUnused(fn, -1) {
								return true
							}
						}
					}
				case *ast.IndexExpr:
					if p.X == top {
						top = p
						k--
						continue
					}
				case *ast.StarExpr:
					top = p
					k--
					continue
				}
				break
			}
			_, upath := f.pathRoot(top)
			for i := 0; i < len(upath) && i < len(cpath); i++ {
				if upath[i] != cpath[i] {
					if upath[i] != "[]" && upath[i] != "*" && cpath[i] != "[]" && cpath[i] != "*" {
						return true // leaves at a field
					}
					break
				}
			}
			f.fail("%s: `%s` reaches `%s` other than through the cursor", what, f.src(top), f.src(container))
			return true
		})
	}
}

// paramUnused: parameter idx (-1 = receiver) of the local function fn is never mentioned in its body.
func (g *g2l) paramUnused(fn *types.Func, idx int) bool {
	fd := g.funcDeclOf(fn)
	if fd == nil || fd.Body == nil {
		return false
	}
	sig := fn.Type().(*types.Signature)
	var v *types.Var
	if idx < 0 {
		v = sig.Recv()
	} else if idx < sig.Params().Len() {
		v = sig.Params().At(idx)
	}
	if v == nil {
		return false
	}
	used := false
	ast.Inspect(fd.Body, func(n ast.Node) bool {
		if id, ok := n.(*ast.Ident); ok && g.info.Uses[id] == v {
			used = true
		}
		return true
	})
	return !used
}

// writtenThrough: is there an assignment in body whose left-hand side starts at o
// (with at least one step), or an in-out call that receives o?
func (f *g2lFn) writtenThrough(o types.Object, body *ast.BlockStmt) (through, direct bool) {
	ast.Inspect(body, func(n ast.Node) bool {
		check := func(l ast.Expr) {
			r, steps := f.pathRoot(l)
			if r == o {
				if len(steps) == 0 {
					direct = true
				} else {
					through = true
				}
			}
		}
		switch s := n.(type) {
		case *ast.AssignStmt:
			if s.Tok == token.DEFINE {
				return true
			}
			for _, l := range s.Lhs {
				check(l)
			}
		case *ast.IncDecStmt:
			check(s.X)
		case *ast.ExprStmt:
			if c, ok := s.X.(*ast.CallExpr); ok {
				for _, e := range f.inOutArgsOwn(c) {
					if r, _ := f.pathRoot(e); r == o {
						through = true
					}
				}
			}
		}
		return true
	})
	return
}

// searchLoopFor: the found cursors that the body of the range x sets to its value variable.
func (f *g2lFn) searchLoopFor(x *ast.RangeStmt) []types.Object {
	if f.own == nil {
		return nil
	}
	var out []types.Object
	for o, c := range f.own.found {
		if f.src(c.container) != f.src(x.X) {
			continue
		}
		hit := false
		ast.Inspect(x.Body, func(n ast.Node) bool {
			if as, ok := n.(*ast.AssignStmt); ok && as.Tok == token.ASSIGN {
				for _, l := range as.Lhs {
					if id, ok := ast.Unparen(l).(*ast.Ident); ok && f.g.info.Uses[id] == o {
						hit = true
					}
				}
			}
			return true
		})
		if hit {
			out = append(out, o)
		}
	}
	return out
}

// rangeCursor: `for k, v := range C` whose value variable is written through
// (a range cursor), or which is the search loop of a found cursor (read only,
// but emitted with indices).
func (f *g2lFn) rangeCursor(x *ast.RangeStmt, k, v *types.Var, t types.Type, ind int) (out, head []string, ok bool) {
	if v == nil || f.own == nil || !g2lIsPtr(v.Type()) || !f.g.nonNilSlice(t) {
		return nil, nil, false
	}
	through, direct := f.writtenThrough(v, x.Body)
	search := len(f.searchLoopFor(x)) > 0
	if !through && !search {
		return nil, nil, false
	}
	if direct {
		f.fail("the range variable `%s` is both assigned and written through", v.Name())
	}
	if through && search {
		f.fail("the range variable `%s` is written through in the search loop of a found pointer", v.Name())
	}
	if f.fuelChk {
		f.fail("a condition-controlled loop in a function with cursors")
	}
	if !f.ownWritable(x.X) {
		f.fail("the loop writes through `%s`, an element of `%s`, which is not in the tree of an owned local or an in-out parameter", v.Name(), f.src(x.X))
	}
	it := f.fresh("it")
	out = append(out, fmt.Sprintf("%sfor %s in %s.zipIdx do", g2lInd(ind), it, g2lPar(f.expr(x.X))))
	if k != nil {
		head = append(head, f.letLine(ind+1, k, f.names[k], k.Type(), "("+it+".2 : Int)"))
	}
	f.setVal(v)
	f.own.rangeIdx[v] = it + ".2"
	if through {
		f.checkOutside(x.Body.List, x.X, nil, "range cursor `"+v.Name()+"`")
		f.mutated[v] = true
		f.own.cursors[v] = &g2lCursor{container: x.X, idx: it + ".2"}
		f.noteOwn(&f.g.ownFacts().elemCursors, v.Name()+" := range "+f.src(x.X))
	}
	head = append(head, f.letLine(ind+1, v, f.names[v], v.Type(), it+".1"))
	return out, head, true
}

// assignThrough: assignTo for the root of a path that was written through.
func (f *g2lFn) assignThrough(l ast.Expr, val string, ind int) []string {
	if f.own == nil {
		return f.assignTo(l, val, false, ind)
	}
	f.own.through++
	defer func() { f.own.through-- }()
	return f.assignTo(l, val, false, ind)
}

// afterIdentAssign: what follows `name := val` for the local o.
func (f *g2lFn) afterIdentAssign(o types.Object, ind int) []string {
	if f.own == nil || f.own.through == 0 {
		return nil
	}
	t := f.own.through
	f.own.through = 0 // the container is assigned as a path of its own
	defer func() { f.own.through = t }()
	return f.writeThrough(o, ind)
}

// assignOwn: an assignment statement, with the bookkeeping of found cursors around it.
func (f *g2lFn) assignOwn(x *ast.AssignStmt, ind int) []string {
	if out, ok := f.retCursorDefine(x, ind); ok { // go2lean_ownret.go: `x := f(…)` with f returning a cursor into an in-out argument
		return out
	}
	var pre, post []string
	if f.own != nil && len(x.Lhs) == 1 && len(x.Rhs) == 1 {
		pre = f.foundAppend(x, ind)
		if id, ok := ast.Unparen(x.Lhs[0]).(*ast.Ident); ok && x.Tok == token.ASSIGN {
			if o := f.g.info.Uses[id]; o != nil && f.own.found[o] != nil {
				post = f.foundAssign(o, x.Rhs[0], ind)
			}
		}
		if x.Tok == token.ASSIGN {
			f.noteCopy(x.Lhs[0], x.Rhs[0])
		}
	}
	return append(append(pre, f.assign(x, ind)...), post...)
}

// ---------------------------------------------------------------- found cursors

// initFound recognises `var p *T` locals that a search loop sets to an element.
func (f *g2lFn) initFound(fd *ast.FuncDecl) {
	// candidates: `var p *T` without initialiser
	cand := map[types.Object]bool{}
	ast.Inspect(fd.Body, func(n ast.Node) bool {
		ds, ok := n.(*ast.DeclStmt)
		if !ok {
			return true
		}
		gd, ok := ds.Decl.(*ast.GenDecl)
		if !ok || gd.Tok != token.VAR {
			return true
		}
		for _, sp := range gd.Specs {
			vs := sp.(*ast.ValueSpec)
			if len(vs.Values) != 0 {
				continue
			}
			for _, n := range vs.Names {
				if o, _ := f.g.info.Defs[n].(*types.Var); o != nil && g2lIsPtr(o.Type()) {
					cand[o] = true
				}
			}
		}
		return true
	})
	if len(cand) == 0 {
		return
	}
	// every assignment `p = e`: e is the value variable of the innermost range
	// (followed by break), or fresh
	container := map[types.Object]ast.Expr{}
	bad := map[types.Object]string{}
	var walk func(list []ast.Stmt, rng *ast.RangeStmt)
	var walkStmt func(s ast.Stmt, next ast.Stmt, rng *ast.RangeStmt)
	walk = func(list []ast.Stmt, rng *ast.RangeStmt) {
		for i, s := range list {
			var next ast.Stmt
			if i+1 < len(list) {
				next = list[i+1]
			}
			walkStmt(s, next, rng)
		}
	}
	walkStmt = func(s ast.Stmt, next ast.Stmt, rng *ast.RangeStmt) {
		switch x := s.(type) {
		case *ast.AssignStmt:
			if x.Tok == token.DEFINE {
				return
			}
			for i, l := range x.Lhs {
				id, ok := ast.Unparen(l).(*ast.Ident)
				if !ok {
					continue
				}
				o := f.g.info.Uses[id]
				if !cand[o] {
					continue
				}
				if len(x.Lhs) != len(x.Rhs) {
					bad[o] = "assigned from a multi-valued expression"
					continue
				}
				r := ast.Unparen(x.Rhs[i])
				if f.g.freshExpr(r) {
					continue
				}
				rid, isId := r.(*ast.Ident)
				var rv types.Object
				if rng != nil {
					if vid, ok := rng.Value.(*ast.Ident); ok && rng.Tok == token.DEFINE {
						rv = f.g.info.Defs[vid]
					}
				}
				if !isId || rv == nil || f.g.info.Uses[rid] != rv {
					bad[o] = "assigned `" + f.src(r) + "`, which is neither fresh nor the value variable of the enclosing range"
					continue
				}
				br, isBr := next.(*ast.BranchStmt)
				if !isBr || br.Tok != token.BREAK || br.Label != nil {
					bad[o] = "`" + f.src(x) + "` is not directly followed by break"
					continue
				}
				if prev, ok := container[o]; ok && f.src(prev) != f.src(rng.X) {
					bad[o] = "aliases elements of two containers"
					continue
				}
				container[o] = rng.X
			}
		case *ast.BlockStmt:
			walk(x.List, rng)
		case *ast.IfStmt:
			walk(x.Body.List, rng)
			if x.Else != nil {
				walkStmt(x.Else, nil, rng)
			}
		case *ast.SwitchStmt:
			for _, c := range x.Body.List {
				walk(c.(*ast.CaseClause).Body, rng)
			}
		case *ast.ForStmt:
			walk(x.Body.List, nil)
		case *ast.RangeStmt:
			walk(x.Body.List, x)
		}
	}
	walk(fd.Body.List, nil)
	// uses: dereference, nil test, return, or the argument of an append to the container
	var stack []ast.Node
	ast.Inspect(fd.Body, func(n ast.Node) bool {
		if n == nil {
			stack = stack[:len(stack)-1]
			return true
		}
		stack = append(stack, n)
		id, ok := n.(*ast.Ident)
		if !ok {
			return true
		}
		o := f.g.info.Uses[id]
		if o == nil || !cand[o] || container[o] == nil {
			return true
		}
		if f.g.derefUse(stack) {
			return true
		}
		k := len(stack) - 2
		for k >= 0 {
			if _, isPar := stack[k].(*ast.ParenExpr); !isPar {
				break
			}
			k--
		}
		if k < 0 {
			bad[o] = "used in an unknown way"
			return true
		}
		switch p := stack[k].(type) {
		case *ast.ReturnStmt:
			return true // the pointee's value (no identity), as for every returned pointer
		case *ast.BinaryExpr:
			if (p.Op == token.EQL || p.Op == token.NEQ) && (f.isNil(p.X) || f.isNil(p.Y)) {
				return true
			}
		case *ast.AssignStmt:
			for _, l := range p.Lhs {
				if ast.Unparen(l) == ast.Expr(id) {
					return true
				}
			}
		case *ast.CallExpr:
			if g2lIsBuiltinCall(f.g.info, p, "append") != nil && len(p.Args) == 2 && p.Args[1] == stack[k+1] &&
				f.src(p.Args[0]) == f.src(container[o]) && k-1 >= 0 {
				if as, ok := stack[k-1].(*ast.AssignStmt); ok && len(as.Lhs) == 1 && f.src(as.Lhs[0]) == f.src(container[o]) {
					return true
				}
			}
		}
		bad[o] = "`" + f.src(stack[k]) + "`: a found pointer may only be dereferenced, nil-tested or appended to its container"
		return true
	})
	seen := map[string]string{}
	var objs []types.Object
	for o := range cand {
		objs = append(objs, o)
	}
	sort.Slice(objs, func(i, j int) bool { return objs[i].Pos() < objs[j].Pos() })
	for _, o := range objs {
		if container[o] == nil {
			continue // never aliases an element: the base translator's business
		}
		if msg, isBad := bad[o]; isBad {
			f.fail("found pointer `%s`: %s", o.Name(), msg)
		}
		cs := f.src(container[o])
		if other, dup := seen[cs]; dup {
			f.fail("found pointers `%s` and `%s` alias elements of the same slice `%s`", other, o.Name(), cs)
		}
		seen[cs] = o.Name()
		at := f.names[o] + "_at"
		if f.nameTaken(at) {
			f.fail("the name `%s` is taken", at)
		}
		f.own.found[o] = &g2lCursor{container: container[o], at: at}
		f.mutated[o] = true
		f.noteOwn(&f.g.ownFacts().elemFound, o.Name()+" in "+cs)
	}
	if len(f.own.found) == 0 {
		return
	}
	// after its search loop, the rest of the block reaches the container only through the cursor
	var chk func(list []ast.Stmt)
	chk = func(list []ast.Stmt) {
		for i, s := range list {
			switch x := s.(type) {
			case *ast.BlockStmt:
				chk(x.List)
			case *ast.IfStmt:
				chk(x.Body.List)
				if x.Else != nil {
					chk([]ast.Stmt{x.Else})
				}
			case *ast.SwitchStmt:
				for _, c := range x.Body.List {
					chk(c.(*ast.CaseClause).Body)
				}
			case *ast.ForStmt:
				chk(x.Body.List)
			case *ast.RangeStmt:
				for _, o := range f.searchLoopFor(x) {
					f.checkAfterSearch(list[i+1:], o)
				}
				chk(x.Body.List)
			}
		}
	}
	chk(fd.Body.List)
}

// checkAfterSearch: the statements that follow the search loop of the found
// cursor o reach its container only through o, by the append that publishes a
// fresh o, or inside `if o == nil { … }` before that append (o aliases nothing there).
func (f *g2lFn) checkAfterSearch(rest []ast.Stmt, o types.Object) {
	c := f.own.found[o]
	what := "found pointer `" + o.Name() + "`"
	isPublish := func(s ast.Stmt) bool {
		as, ok := s.(*ast.AssignStmt)
		if !ok || len(as.Lhs) != 1 || len(as.Rhs) != 1 || f.src(as.Lhs[0]) != f.src(c.container) {
			return false
		}
		ap := g2lIsBuiltinCall(f.g.info, as.Rhs[0], "append")
		if ap == nil || len(ap.Args) != 2 || f.src(ap.Args[0]) != f.src(c.container) {
			return false
		}
		id, ok := ast.Unparen(ap.Args[1]).(*ast.Ident)
		return ok && f.g.info.Uses[id] == o
	}
	isNilTest := func(e ast.Expr) bool {
		b, ok := ast.Unparen(e).(*ast.BinaryExpr)
		if !ok || b.Op != token.EQL {
			return false
		}
		x, y := ast.Unparen(b.X), ast.Unparen(b.Y)
		if f.isNil(x) {
			x, y = y, x
		}
		id, ok := x.(*ast.Ident)
		return ok && f.isNil(y) && f.g.info.Uses[id] == o
	}
	for _, s := range rest {
		if ifs, ok := s.(*ast.IfStmt); ok && ifs.Init == nil && isNilTest(ifs.Cond) {
			// the nil branch: free until the publishing append
			published := false
			for _, t := range ifs.Body.List {
				if published {
					f.checkOutside([]ast.Stmt{t}, c.container, nil, what)
				} else if isPublish(t) {
					published = true
				}
			}
			if ifs.Else != nil {
				f.checkOutside([]ast.Stmt{ifs.Else}, c.container, nil, what)
			}
			continue
		}
		f.checkOutside([]ast.Stmt{s}, c.container, nil, what)
	}
}

// foundDecl: the declaration `var p *T` of a found cursor also declares p_at.
func (f *g2lFn) foundDecl(o types.Object, ind int) []string {
	if f.own == nil {
		return nil
	}
	c := f.own.found[o]
	if c == nil {
		return nil
	}
	return []string{fmt.Sprintf("%slet mut %s : Option Nat := none", g2lInd(ind), c.at)}
}

// foundAssign: `p = rv` (alias) and `p = <fresh>` for a found cursor: the line(s) that set p_at.
func (f *g2lFn) foundAssign(o types.Object, r ast.Expr, ind int) []string {
	if f.fuelChk {
		return nil
	}
	c := f.own.found[o]
	if c == nil {
		return nil
	}
	if f.g.freshExpr(r) {
		return []string{fmt.Sprintf("%s%s := none", g2lInd(ind), c.at)}
	}
	// the value variable of the enclosing range over the container
	if rid, ok := ast.Unparen(r).(*ast.Ident); ok {
		if idx, ok := f.own.rangeIdx[f.g.info.Uses[rid]]; ok {
			return []string{fmt.Sprintf("%s%s := some %s", g2lInd(ind), c.at, idx)}
		}
	}
	f.fail("found pointer `%s` assigned `%s`", o.Name(), f.src(r))
	return nil
}

// foundAppend: `C = append(C, p)` publishes a fresh found cursor: the line that sets p_at
// (emitted BEFORE the append, while C still has its old length).
func (f *g2lFn) foundAppend(x *ast.AssignStmt, ind int) []string {
	if f.own == nil || len(x.Lhs) != 1 || len(x.Rhs) != 1 {
		return nil
	}
	c := g2lIsBuiltinCall(f.g.info, x.Rhs[0], "append")
	if c == nil || len(c.Args) != 2 {
		return nil
	}
	id, ok := ast.Unparen(c.Args[1]).(*ast.Ident)
	if !ok {
		return nil
	}
	cur := f.own.found[f.g.info.Uses[id]]
	if cur == nil {
		return nil
	}
	return []string{fmt.Sprintf("%s%s := some %s.length", g2lInd(ind), cur.at, g2lPar(f.expr(cur.container)))}
}

// ---------------------------------------------------------------- in-out calls, functions without result

// inOutArgs: the argument expressions (receiver first) a call passes for the
// in-out parameters of its callee; nil when the callee has none.
func (f *g2lFn) inOutArgsOwn(c *ast.CallExpr) []ast.Expr {
	fn := f.funcOfCall(c)
	if fn == nil || fn.Pkg() != f.g.pkg {
		return nil
	}
	key, local := f.calleeKey(fn)
	if !local || key == "" {
		return nil
	}
	names := f.g.inOutFor(key)
	if len(names) == 0 {
		return nil
	}
	sig := fn.Type().(*types.Signature)
	var out []ast.Expr
	for _, n := range names {
		if r := sig.Recv(); r != nil && r.Name() == n {
			if se, ok := ast.Unparen(c.Fun).(*ast.SelectorExpr); ok {
				out = append(out, se.X)
				continue
			}
			return nil
		}
		for i := 0; i < sig.Params().Len(); i++ {
			if sig.Params().At(i).Name() == n && i < len(c.Args) {
				out = append(out, c.Args[i])
			}
		}
	}
	return out
}

// stmtOwn: statements the base translator does not know: a call, for its
// effect, of a function with in-out parameters.
func (f *g2lFn) stmtOwn(s ast.Stmt, ind int) ([]string, bool) {
	es, ok := s.(*ast.ExprStmt)
	if !ok || f.own == nil {
		return nil, false
	}
	c, ok := ast.Unparen(es.X).(*ast.CallExpr)
	if !ok {
		return nil, false
	}
	ios := f.inOutArgsOwn(c)
	if len(ios) == 0 {
		return nil, false
	}
	fn := f.funcOfCall(c)
	key, _ := f.calleeKey(fn)
	sig := fn.Type().(*types.Signature)
	if sig.Variadic() || c.Ellipsis.IsValid() {
		f.fail("variadic call `%s`", f.src(c))
	}
	for _, e := range ios {
		if !g2lIsPtr(f.typeOf(e)) {
			// x.f(…) with x an addressable struct value
			if !f.ownWritable(e) {
				f.fail("`%s`: the in-out argument `%s` is not a writable path", f.src(c), f.src(e))
			}
			continue
		}
		if !f.ownWritable(e) {
			f.fail("`%s`: the in-out argument `%s` is not in the tree of an owned local, an in-out parameter or a cursor", f.src(c), f.src(e))
		}
	}
	// two in-out arguments must not overlap
	for i := range ios {
		for j := i + 1; j < len(ios); j++ {
			ri, pi := f.pathRoot(ios[i])
			rj, pj := f.pathRoot(ios[j])
			if ri == rj {
				div := false
				for k := 0; k < len(pi) && k < len(pj); k++ {
					if pi[k] != pj[k] && pi[k] != "[]" && pj[k] != "[]" {
						div = true
						break
					}
				}
				if !div {
					f.fail("`%s`: two in-out arguments may overlap", f.src(c))
				}
			}
		}
	}
	var args []string
	if sig.Recv() != nil {
		se, ok := ast.Unparen(c.Fun).(*ast.SelectorExpr)
		if !ok {
			f.fail("method expression `%s`", f.src(c))
		}
		sel := f.g.info.Selections[se]
		if sel == nil || sel.Kind() != types.MethodVal {
			f.fail("method call `%s`", f.src(c))
		}
		args = append(args, f.recvArg(c, se, sel, fn, false))
	}
	args = append(args, f.callArgs(fn, c.Args, false)...)
	f.dep(key)
	r := f.fresh("r")
	out := []string{fmt.Sprintf("%slet %s := %s", g2lInd(ind), r, strings.Join(append([]string{f.g.unitLeanName(key)}, args...), " "))}
	n := 1 + len(ios)
	for j, e := range ios {
		val := g2lProj(r, 1+j, n)
		if g2lIsPtr(f.typeOf(e)) && !f.ptrVal(e) {
			val = "some " + g2lPar(val)
		}
		out = append(out, f.assignThrough(e, val, ind)...)
	}
	return out, true
}

// voidReturn: `return` in a function without result.
func (f *g2lFn) voidReturn(ind int) ([]string, bool) {
	if f.own == nil || !f.own.void || len(f.inOut) == 0 {
		return nil, false
	}
	if f.fuelChk {
		return []string{g2lInd(ind) + "return true"}, true
	}
	return []string{g2lInd(ind) + "return (" + strings.Join(append([]string{"()"}, f.inOutNames()...), ", ") + ")"}, true
}

// ---------------------------------------------------------------- facts and header

func (g *g2l) ownUsed() bool {
	of, ok := g2lOwnRuns[g]
	if !ok || !g.ownOn() {
		return false
	}
	return len(of.ownedLocals)+len(of.elemCursors)+len(of.nilFreeMakes)+len(of.ptrCopies)+len(of.lateAddr) > 0
}

const g2lOwnHeader = `  Object trees written in place (go2lean_own.go; trusted):
  * the object graph reachable from a fresh local (p := new(T), &T{…}, a call
    that returns a fresh object: ownedLocals) or from an in-out parameter has
    VALUE semantics: pointer fields are Options of pointees, nil-free slices of
    pointers are Lists of pointees, a write through a path rebuilds the value.
    Faithful provided the graph is a tree and nobody else holds a reference into
    it; SHARING between objects is invisible here.
  * for k, v := range C with v written through (elemCursors): v is a copy of
    element k and every write through v is followed at once by C := C.set k v;
    the body reaches C only through v (checked).
  * var p *T set by a search loop (p = v; break) or to a fresh object: p is an
    Option together with p_at, the index of the element of C it aliases; a write
    through p also updates C there; C = append(C, p) makes p alias the new
    last element.
  * *path = v stores some v (nil path: a panic in Go); make([]*T, n) of a
    nil-free slice type is n zero pointees (nilFreeMakes: every element is
    assigned before it is read); a pointer copied from another object is a copy
    of its pointee (ptrCopies); &x of a local assigned only before the
    expression is some x (lateAddr).
  * a call statement of a function with in-out parameters assigns the returned
    values back to the argument paths; a function without result returns
    Unit × its in-out parameters.
`

// go2lean_ownret.go: appended to the header only when a returned cursor is in use
const g2lOwnRetHeader = `  * a function with in-out parameters whose every return returns one found
    cursor p has a twin <fn>_at (returnedCursors) that returns the index path of
    the element p aliases below the in-out parameter (same body, other return);
    x := f(args) in a caller (returnedCursorUses) binds x to the returned
    pointee and x_at to f_at of the SAME arguments; every write through x is
    followed at once by the write-back along that path into the caller's in-out
    parameter, which the caller does not mention while x is live (checked).
`

func (g *g2l) emitOwnFacts(w func(string, ...any), okUnits map[string]bool) {
	of := g.ownFacts()
	pairs := func(name, doc string, xs [][2]string) {
		w("/-- %s -/\ndef %s : List (String × String) := [", doc, name)
		first := true
		for _, p := range xs {
			if !okUnits[p[0]] {
				continue
			}
			if !first {
				w(", ")
			}
			first = false
			w("(%s, %s)", leanStr(p[0]), leanStr(p[1]))
		}
		w("]\n\n")
	}
	pairs("ownedLocals", "locals that hold a fresh object and are written in place (function, variable)", of.ownedLocals)
	pairs("elemCursors", "range variables written through, with write-back into the slice they range over (function, loop)", of.elemCursors)
	pairs("foundCursors", "pointers set by a search loop, with write-back into the slice (function, variable in container)", of.foundList())
	pairs("nilFreeMakes", "make of a nil-free slice type, translated as zero pointees (function, expression)", of.nilFreeMakes)
	pairs("ptrCopies", "pointers copied from another object, translated as copies of the pointee (function, assignment)", of.ptrCopies)
	sort.Slice(of.opaqueZeros, func(i, j int) bool { return of.opaqueZeros[i][0] < of.opaqueZeros[j][0] })
	w("/-- zero values of opaque named types (Go type, Lean term) -/\ndef opaqueZeros : List (String × String) := [")
	for i, p := range of.opaqueZeros {
		if i > 0 {
			w(", ")
		}
		w("(%s, %s)", leanStr(p[0]), leanStr(p[1]))
	}
	w("]\n\n")
	pairs("lateAddr", "&x of a local that is assigned only before the expression (function, expression)", of.lateAddr)
	g.emitRetFacts(w, okUnits) // go2lean_ownret.go
	delete(g2lOwnRuns, g)
}

func (of *g2lOwnFacts) foundList() [][2]string { return of.elemFound }

// zeroOpaque: the zero value of a struct or map type that the configuration
// maps to an opaque Lean type is that type's `default` (Props pins what it is).
func (g *g2l) zeroOpaque(t types.Type, lt string) (string, bool) {
	n, ok := types.Unalias(t).(*types.Named)
	if !ok || !g.ownOn() {
		return "", false
	}
	k := g.typeKey(n)
	if _, isNamed := g.cfg.Named[k]; !isNamed {
		return "", false
	}
	if _, isStruct := g.cfg.Structs[k]; isStruct {
		return "", false
	}
	switch g2lKindOf(t) {
	case kStruct, kOther:
		of := g.ownFacts()
		found := false
		for _, p := range of.opaqueZeros {
			if p[0] == k {
				found = true
			}
		}
		if !found {
			of.opaqueZeros = append(of.opaqueZeros, [2]string{k, "(default : " + lt + ")"})
		}
		return "(default : " + lt + ")", true
	}
	return "", false
}
