package main

// BillCalcSrc / PayCalcSrc (C01, C03, and through the same model C04, C17): the
// calculation functions of /repo/bill (line_calculate.go, discounts.go,
// charges.go, totals.go, payment_details.go) and /repo/pay (advance.go,
// terms.go) TRANSLATED to Lean by go2lean on every run.  Props/C01.lean
// (namespace Src) proves each definition equal to the hand-written function of
// Model/Calc.lean for all arguments, so the theorems of C01–C04 and C17 about
// those functions are statements about what the code says now.
//
// Context parameters (go2lean_effects.go) of every definition:
//
//	o   : GoblVerif.Calc.Ops   the rounding operations of num.Amount (Multiply, Divide, Rescale)
//	sub : String → Nat         currency.Code.Def().Subunits, the currency table
//
// Go structs → Lean (the generated `example`s check the field types of the
// mapped ones; Props pins the Go declarations):
//
//	Totals        → Calc.Totals (field by field, same order)
//	Discount, Charge → Calc.DocAdj     LineCharge → Calc.LineAdj
//	pay.Advance   → Calc.Advance       pay.DueDate → Calc.Due
//	LineDiscount, SubLine, Line, org.Item, PaymentDetails, pay.Terms: emitted
//	  (the model's records have other shapes: LineAdj has rate/quantity, Item
//	  carries the subunits); Props relates them by explicit conversions.
//
// Declared primitives (their meaning is the model's, Model/Calc.lean):
//
//	num.Amount.Multiply / Rescale          o.mul / o.rescale
//	num.Amount.RescaleUp / RescaleDown     Calc.up (integer scaling) / Calc.down o
//	num.Amount.MatchPrecision              CalcSrc.matchPrecision = up a b.exp
//	num.Amount.Add / Subtract              Calc.add o / Calc.sub o
//	num.Amount.Exp                         .exp
//	num.Percentage.Of / IsZero             Calc.pctOf o / Calc.pctIsZero
//	currency.Code.Def                      some (sub code); a code without definition (nil) is outside the model
//	currency.Def.Zero / Subunits / RescaleUp   ⟨0, sub⟩ / sub / Calc.up · sub
//	tax.ApplyRoundingRule                  CalcSrc.applyRoundingRule = Calc.applyRule o (ruleOf rr) (sub cur)
//	(*pay.Advance).CalculateFrom           the definition regenerated in PayCalcSrc (effect primitive)

var billCalcContext = [][2]string{{"o", "GoblVerif.Calc.Ops"}, {"sub", "String → Nat"}}

var billCalcNamed = map[string]string{
	"num.Amount":     "GoblVerif.Amount",
	"num.Percentage": "GoblVerif.Pct",
	"currency.Code":  "String",
	"currency.Def":   "Nat",
	"cbc.Key":        "String",
	"tax.Set":        "List GoblVerif.Calc.Combo",
	"tax.Total":      "GoblVerif.Calc.TaxTotal",
}

// B20: bill/line_calculate.go's error-returning functions.  Named types and
// primitives of the bill configuration only (PayCalcSrc keeps billCalcNamed /
// billCalcPrims as they were).
func billCalcNamedB20() map[string]string {
	m := map[string]string{"currency.ExchangeRate": "GoblVerif.Calc.XRate"}
	for k, v := range billCalcNamed {
		m[k] = v
	}
	return m
}

func billCalcPrimsB20() map[string]string {
	m := map[string]string{
		// currency.Convert(rates, from, to, amount): MatchExchangeRate + ExchangeRate.Convert, Model/CalcSrc.lean
		"currency.Convert": "GoblVerif.CalcSrc.convertRates o sub {0} {1} {2} {3}",
		"strconv.Itoa":     "(toString {0})",
	}
	for k, v := range billCalcPrims {
		m[k] = v
	}
	return m
}

var billCalcStubs = map[string]string{
	"fmt":                            "package fmt\nfunc Errorf(format string, a ...any) error\n",
	"errors":                         "package errors\nfunc New(text string) error\n",
	"strconv":                        "package strconv\nfunc Itoa(i int) string\n",
	"github.com/invopop/validation":  "package validation\ntype Errors map[string]error\nfunc (es Errors) Error() string\n",
}

var billCalcPrims = map[string]string{
	"num.Amount.Multiply":       "o.mul {0} {1}",
	"num.Amount.Rescale":        "o.rescale {0} {1}",
	"num.Amount.RescaleUp":      "GoblVerif.Calc.up {0} {1}",
	"num.Amount.RescaleDown":    "GoblVerif.Calc.down o {0} {1}",
	"num.Amount.MatchPrecision": "GoblVerif.CalcSrc.matchPrecision {0} {1}",
	"num.Amount.Add":            "GoblVerif.Calc.add o {0} {1}",
	"num.Amount.Subtract":       "GoblVerif.Calc.sub o {0} {1}",
	"num.Amount.Exp":            "{0}.exp",
	"num.Percentage.Of":         "GoblVerif.Calc.pctOf o {0} {1}",
	"num.Percentage.IsZero":     "GoblVerif.Calc.pctIsZero {0}",
	"currency.Code.Def":         "(some (sub {0}) : Option Nat)",
	"currency.Def.Zero":         "(GoblVerif.Amount.mk 0 ({0}.get!))",
	"currency.Def.Subunits":     "{0}",
	"currency.Def.RescaleUp":    "GoblVerif.Calc.up {1} ({0}.get!)",
	"tax.ApplyRoundingRule":     "GoblVerif.CalcSrc.applyRoundingRule o sub {0} {1} {2}",
}

func billCalcSrcConfig() *G2LConfig {
	return &G2LConfig{
		Repo:      *repo,
		Module:    "github.com/invopop/gobl",
		Pkg:       "bill",
		Tags:      []string{"verif"},
		Namespace: "GoblVerif.Generated.BillCalcSrc",
		Title:     "BillCalcSrc: the calculation functions of /repo/bill (line_calculate.go, discounts.go, charges.go, totals.go, payment_details.go) translated from Go.",
		Imports:   []string{"GoblVerif.Model.Calc", "GoblVerif.Model.CalcSrc", "GoblVerif.Model.GoSem", "GoblVerif.Generated.PayCalcSrc"},
		Effects:   true,
		Context:   billCalcContext,
		Structs: map[string]G2LStruct{
			"Totals": {Lean: "GoblVerif.Calc.Totals", Fields: map[string]string{
				"Sum": "sum", "Discount": "discount", "Charge": "charge", "TaxIncluded": "taxIncluded", "Total": "total",
				"Taxes": "taxes", "Tax": "tax", "TotalWithTax": "totalWithTax", "Rounding": "rounding", "Payable": "payable",
				"Advances": "advances", "Due": "due"}},
			"Discount": {Lean: "GoblVerif.Calc.DocAdj", AnyOrder: true, Fields: map[string]string{
				"Index": "-", "Key": "-", "Code": "-", "Reason": "-", "Base": "base", "Percent": "percent", "Amount": "amount",
				"Taxes": "taxes", "Ext": "-", "Meta": "-"}},
			"Charge": {Lean: "GoblVerif.Calc.DocAdj", AnyOrder: true, Fields: map[string]string{
				"Index": "-", "Key": "-", "Code": "-", "Reason": "-", "Base": "base", "Percent": "percent", "Amount": "amount",
				"Taxes": "taxes", "Ext": "-", "Meta": "-"}},
			"LineCharge": {Lean: "GoblVerif.Calc.LineAdj", AnyOrder: true, Fields: map[string]string{
				"Key": "-", "Code": "-", "Reason": "-", "Base": "base", "Percent": "percent", "Quantity": "quantity", "Unit": "-",
				"Rate": "rate", "Amount": "amount", "Ext": "-"}},
			"LineDiscount": {Lean: "LineDiscount", Emit: true, Deriving: []string{"Repr", "Inhabited", "DecidableEq"}, Fields: map[string]string{
				"Key": "-", "Code": "-", "Reason": "-", "Ext": "-"}},
			"org.Item": {Lean: "Item", Emit: true, Deriving: []string{"Repr", "Inhabited", "DecidableEq"}, Fields: map[string]string{
				"Name": "-", "Identities": "-", "Description": "-", "Unit": "-", "Origin": "-", "Ext": "-", "Meta": "-",
				"Ref": "-", "Key": "-", "Images": "-"}},
			"SubLine": {Lean: "SubLine", Emit: true, Deriving: []string{"Repr", "Inhabited", "DecidableEq"}, Fields: map[string]string{
				"Index": "-", "Identifier": "-", "Period": "-", "Order": "-", "Cost": "-", "Notes": "-"}},
			"Line": {Lean: "Line", Emit: true, Deriving: []string{"Repr", "Inhabited", "DecidableEq"}, Fields: map[string]string{
				"Index": "-", "Identifier": "-", "Period": "-", "Order": "-", "Cost": "-", "Notes": "-"}},
			"currency.Amount": {Lean: "CurAmount", Emit: true, Deriving: []string{"Repr", "Inhabited", "DecidableEq"}, Fields: map[string]string{
				"Label": "-"}},
			"PaymentDetails": {Lean: "PaymentDetails", Emit: true, Deriving: []string{"Repr", "Inhabited"}, Fields: map[string]string{
				"Payee": "-", "Terms": "-", "Instructions": "-"}},
			"pay.Advance": {Lean: "GoblVerif.Calc.Advance", Fields: map[string]string{
				"Date": "-", "Key": "-", "Ref": "-", "Grant": "-", "Description": "-", "Percent": "percent", "Amount": "amount",
				"Currency": "-", "Card": "-", "CreditTransfer": "-", "Ext": "-", "Meta": "-"}},
		},
		Named:       billCalcNamedB20(),
		NonNilElems: []string{"[]*LineDiscount", "[]*LineCharge", "[]*SubLine", "[]*Line", "[]*Discount", "[]*Charge", "[]*pay.Advance", "[]*currency.Amount", "[]*currency.ExchangeRate"},
		Prims:       billCalcPrimsB20(),
		Stubs:       billCalcStubs,
		// go2lean_errfn.go: functions whose only result is `error` are Except-valued
		ErrType: "GoblVerif.CalcSrc.GoErr",
		ErrMsg:  "GoblVerif.CalcSrc.GoErr.msg {0}",
		ErrAt:   "GoblVerif.CalcSrc.GoErr.at {0} {1}",
		EffPrims: map[string]string{
			"pay.Advance.CalculateFrom": "GoblVerif.Generated.PayCalcSrc.Advance_CalculateFrom o sub {0} {1}",
		},
		Funcs: []G2LFunc{
			{Name: "calculateLineSum"},
			{Name: "calculateLineDiscounts", InOut: []string{"discounts"}},
			{Name: "calculateLineCharges", InOut: []string{"charges"}},
			{Name: "determineSubLinePrecision"},
			{Name: "LineDiscount.round", InOut: []string{"d"}},
			{Name: "LineCharge.round", InOut: []string{"c"}},
			{Name: "SubLine.round", InOut: []string{"sl"}},
			{Name: "Line.round", InOut: []string{"l"}},
			{Name: "roundLines", InOut: []string{"lines"}},
			{Name: "calculateDiscounts", InOut: []string{"lines"}},
			{Name: "calculateDiscountSum"},
			{Name: "Discount.round", InOut: []string{"m"}},
			{Name: "roundDiscounts", InOut: []string{"lines"}},
			{Name: "calculateCharges", InOut: []string{"lines"}},
			{Name: "calculateChargeSum"},
			{Name: "Charge.round", InOut: []string{"m"}},
			{Name: "roundCharges", InOut: []string{"lines"}},
			{Name: "Totals.reset", InOut: []string{"t"}},
			{Name: "Totals.round", InOut: []string{"t"}},
			{Name: "PaymentDetails.calculateAdvances", InOut: []string{"p"}},
			{Name: "PaymentDetails.totalAdvance", InOut: []string{"p"}},
			{Name: "calculateLineItemPrice", InOut: []string{"item"}},
			{Name: "calculateSubLine", InOut: []string{"sl"}},
			{Name: "calculateLine", InOut: []string{"l"}},
			{Name: "calculateLines", InOut: []string{"lines"}},
		},
	}
}

func payCalcSrcConfig() *G2LConfig {
	return &G2LConfig{
		Repo:      *repo,
		Module:    "github.com/invopop/gobl",
		Pkg:       "pay",
		Tags:      []string{"verif"},
		Namespace: "GoblVerif.Generated.PayCalcSrc",
		Title:     "PayCalcSrc: (*Advance).CalculateFrom and (*Terms).CalculateDues of /repo/pay (advance.go, terms.go) translated from Go.",
		Imports:   []string{"GoblVerif.Model.Calc", "GoblVerif.Model.CalcSrc", "GoblVerif.Model.GoSem"},
		Effects:   true,
		Context:   billCalcContext,
		Structs: map[string]G2LStruct{
			"Advance": {Lean: "GoblVerif.Calc.Advance", Fields: map[string]string{
				"Date": "-", "Key": "-", "Ref": "-", "Grant": "-", "Description": "-", "Percent": "percent", "Amount": "amount",
				"Currency": "-", "Card": "-", "CreditTransfer": "-", "Ext": "-", "Meta": "-"}},
			"DueDate": {Lean: "GoblVerif.Calc.Due", AnyOrder: true, Fields: map[string]string{
				"Date": "-", "Notes": "-", "Amount": "amount", "Percent": "percent", "Currency": "-"}},
			"Terms": {Lean: "Terms", Emit: true, Deriving: []string{"Repr", "Inhabited"}, Fields: map[string]string{
				"Key": "-", "Detail": "-", "Notes": "-", "Ext": "-"}},
		},
		Named:       billCalcNamed,
		NonNilElems: []string{"[]*DueDate"},
		Prims:       billCalcPrims,
		Funcs: []G2LFunc{
			{Name: "Advance.CalculateFrom", InOut: []string{"a"}},
			{Name: "Terms.CalculateDues", InOut: []string{"t"}},
		},
	}
}

func init() {
	for _, mk := range []struct {
		name string
		cfg  func() *G2LConfig
	}{{"PayCalcSrc", payCalcSrcConfig}, {"BillCalcSrc", billCalcSrcConfig}} {
		mk := mk
		register(func() (string, string, error) {
			cfg := mk.cfg()
			text, err := G2LRun(cfg)
			if err != nil {
				// never keep a stale translation: the obligations of Props/C01 must fail
				text = "/- REGENERATED — the " + cfg.Pkg + " package could not be loaded: " + g2lComment(g2lOneLine(err.Error())) + " -/\nnamespace " + cfg.Namespace +
					"\ndef untranslated : List String := [\"*\"]\nend " + cfg.Namespace + "\n"
			}
			return mk.name, text, nil
		})
	}
}
