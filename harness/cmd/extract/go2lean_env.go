package main

// go2lean, methods that WRITE THEIR RECEIVER AND CALL EACH OTHER (task B16:
// /repo/envelope.go, /repo/bill/invoice_correct.go, /repo/tax/corrections.go).
// Everything here is OFF unless the configuration registers options with
// G2LEnvRegister; the other configurations translate exactly as before.  The
// shared files call into this one at places marked `// go2lean_env.go`.
//
// TRUSTED SEMANTICS added by this file (G2LEnvHeader goes into the header of
// every generated file that uses it):
//   * VOID functions with in-out parameters: `func (e *T) f()` becomes
//     `f (e : T) : T`; a bare `return` and the end of the body return the
//     current value of the in-out parameters.
//   * CALLS of functions with in-out parameters from a function body, as a
//     statement of one of the shapes `x.f(…)`, `v := x.f(…)`, `v = x.f(…)`,
//     `if v := x.f(…); …`, `return x.f(…)`: `let t := f x …`, the arguments in
//     the in-out positions are assigned their new value (t's last components)
//     and the Go results are t's first components.  Every site is listed in
//     `inOutCalls`.
//   * WRITES THROUGH A POINTER that is held (as an `Option`) by a local
//     variable, a parameter, or a field reachable from one of them or from an
//     in-out parameter: `p.f = v` becomes `p := some { p.get! with f := v }`.
//     ALIASING IS NOT MODELLED: any other holder of the same pointee (in
//     particular the CALLER's, for a parameter) sees the write in Go and not
//     here.  Every site is listed in `ptrWrites`.
//   * `&T{…}` = some {…}; `new(T)` = some (zero value of T) (no identity).
//   * OUT-PARAMETER PRIMITIVES (OutPrims): a primitive that fills the pointee of
//     one of its pointer arguments; its template yields (result, new pointee)
//     and the argument, which must be a local variable, is assigned
//     `some <new pointee>`.  Every site is listed in `outPrimCalls`.
//   * a pointer argument of a primitive listed in PrimDeref counts as a
//     dereference of that pointer (the primitive dereferences it: a nil one
//     panics in Go), so the pointer may still be held as its pointee.
//   * a primitive with a pointer receiver called on an addressable VALUE
//     (`x.f.M()`) receives `some x.f` (AddrRecvPrims; the primitive must not
//     write through it).
//   * VARIADIC functions (Variadic): the variadic parameter `xs ...T` is the
//     slice `[]T`; only calls that spread a slice (`f(a, xs...)`) are
//     translated; `append(a, b...)` = a ++ b.
//   * map composite literals with constant, distinct keys → association lists.
//   * interface{} (IfaceNil / TypeAssert): `x == nil` and `v, ok := x.(T)` are
//     the configured templates over the Lean type that stands for interface{}.

import (
	"fmt"
	"go/ast"
	"go/token"
	"go/types"
	"strings"
)

// G2LEnvOpts are the options of this file for one configuration.
type G2LEnvOpts struct {
	PrimDeref     map[string]bool   // primitive keys whose pointer arguments count as dereferenced
	PtrWrites     bool              // writes through Option-held pointers
	OutPrims      map[string]int    // primitive key → index (among the call's arguments) of the out-parameter
	IfaceNil      string            // template of `x == nil` for x of type interface{} ({0} = x); a Bool
	TypeAssert    map[string]string // Go type key → template of `x.(T)` in comma-ok form ({0} = x); a pair (value, ok)
	Variadic      bool
	AddrRecvPrims bool
}

var g2lEnvReg = map[*G2LConfig]*G2LEnvOpts{}

// G2LEnvRegister switches this file on for cfg.
func G2LEnvRegister(cfg *G2LConfig, o *G2LEnvOpts) *G2LConfig {
	g2lEnvReg[cfg] = o
	return cfg
}

var g2lEnvNone = &G2LEnvOpts{}

func (g *g2l) env() *G2LEnvOpts {
	if o := g2lEnvReg[g.cfg]; o != nil {
		return o
	}
	return g2lEnvNone
}

func (g *g2l) envOn() bool { return g2lEnvReg[g.cfg] != nil }

type g2lEnvState struct {
	ptrWrites, inOutCalls, outPrimCalls [][2]string
}

var g2lEnvStates = map[*g2l]*g2lEnvState{}

func (g *g2l) envState() *g2lEnvState {
	s := g2lEnvStates[g]
	if s == nil {
		s = &g2lEnvState{}
		g2lEnvStates[g] = s
	}
	return s
}

// G2LEnvHeader is put into the header of generated files that use this file.
const G2LEnvHeader = `  Methods that write their receiver and call each other (go2lean_env.go; trusted):
  * func (e *T) f() with e in inOutParams and no result → f (e : T) : T.
  * a call of a function with in-out parameters (statement forms only, listed
    in inOutCalls): let t := f x …; x := t's last component(s); results = the first.
  * p.f = v through a pointer p held as an Option by a local, a parameter or a
    field → p := some { p.get! with f := v }.  ALIASING IS NOT MODELLED: other
    holders of the pointee (the caller's, for a parameter) do not see the write
    here.  Sites: ptrWrites.
  * &T{…} = some {…}; new(T) = some (zero value); no pointer identity.
  * primitives with an out-parameter (outPrimCalls): the template yields
    (result, new pointee); the argument variable is assigned some <new pointee>.
  * xs ...T = a slice; only spreading calls f(a, xs...) are translated;
    append(a, b...) = a ++ b.  Map literals with distinct constant keys =
    association lists.
`

// ---------------------------------------------------------------- primitives and pointer modes

// primKeyOf is calleeKey without a function state.
func (g *g2l) primKeyOf(fn *types.Func) string {
	sig := fn.Type().(*types.Signature)
	q := ""
	if fn.Pkg() != nil && fn.Pkg() != g.pkg {
		q = fn.Pkg().Name() + "."
	}
	if r := sig.Recv(); r != nil {
		t := types.Unalias(r.Type())
		if p, ok := t.(*types.Pointer); ok {
			t = types.Unalias(p.Elem())
		}
		n, _ := t.(*types.Named)
		if n == nil {
			return ""
		}
		return q + n.Obj().Name() + "." + fn.Name()
	}
	return q + fn.Name()
}

// primDerefArg: does passing a pointer to fn count as dereferencing it?
func (g *g2l) primDerefArg(fn *types.Func) bool {
	if fn == nil || !g.envOn() {
		return false
	}
	return g.env().PrimDeref[g.primKeyOf(fn)]
}

// ---------------------------------------------------------------- void functions

func (f *g2lFn) voidInOut() bool {
	if !f.g.envOn() || f.fnObj == nil || len(f.inOut) == 0 {
		return false
	}
	return f.fnObj.Type().(*types.Signature).Results().Len() == 0
}

// retVoid: a bare return of a void function with in-out parameters.
func (f *g2lFn) retVoid(ind int) ([]string, bool) {
	if !f.voidInOut() {
		return nil, false
	}
	io := f.inOutNames()
	if len(io) == 1 {
		return []string{g2lInd(ind) + "return " + io[0]}, true
	}
	return []string{g2lInd(ind) + "return (" + strings.Join(io, ", ") + ")"}, true
}

// voidResult: the result type of a void function with in-out parameters.
func (f *g2lFn) voidResult() string {
	var parts []string
	for _, v := range f.inOut {
		parts = append(parts, g2lPar(f.leanVar(v, v.Type())))
	}
	if len(parts) == 1 {
		return f.leanVar(f.inOut[0], f.inOut[0].Type())
	}
	return strings.Join(parts, " × ")
}

// ---------------------------------------------------------------- calls with in-out parameters, out-parameter primitives

func (f *g2lFn) inOutCalleeEnv(c *ast.CallExpr) (fn *types.Func, key string) {
	if !f.g.envOn() {
		return nil, ""
	}
	if tv, ok := f.g.info.Types[c.Fun]; ok && (tv.IsType() || tv.IsBuiltin()) {
		return nil, ""
	}
	fn = f.funcOfCall(c)
	if fn == nil {
		return nil, ""
	}
	key, local := f.calleeKey(fn)
	if !local || key == "" || len(f.g.inOutFor(key)) == 0 {
		return nil, ""
	}
	return fn, key
}

func (f *g2lFn) outPrimCallee(c *ast.CallExpr) (fn *types.Func, key string, idx int) {
	if !f.g.envOn() || len(f.g.env().OutPrims) == 0 {
		return nil, "", 0
	}
	if tv, ok := f.g.info.Types[c.Fun]; ok && (tv.IsType() || tv.IsBuiltin()) {
		return nil, "", 0
	}
	fn = f.funcOfCall(c)
	if fn == nil {
		return nil, "", 0
	}
	key, _ = f.calleeKey(fn)
	i, ok := f.g.env().OutPrims[key]
	if !ok {
		return nil, "", 0
	}
	if _, isPrim := f.g.cfg.Prims[key]; !isPrim {
		return nil, "", 0
	}
	return fn, key, i
}

// writeBack assigns the new pointee val to the pointer-typed expression target.
func (f *g2lFn) writeBack(target ast.Expr, val string, ind int) []string {
	if g2lIsPtr(f.typeOf(target)) && !f.ptrVal(target) {
		val = "some " + g2lPar(val)
	}
	return f.assignTo(target, val, false, ind)
}

// inOutCall emits `let t := f args`, the write-backs, and returns the
// projections of the Go results.
func (f *g2lFn) inOutCall(c *ast.CallExpr, fn *types.Func, key string, ind int) (lines []string, results []string) {
	sig := fn.Type().(*types.Signature)
	names := f.g.inOutFor(key)
	var args []string
	var se *ast.SelectorExpr
	if sig.Recv() != nil {
		var ok bool
		se, ok = ast.Unparen(c.Fun).(*ast.SelectorExpr)
		if !ok {
			f.fail("method expression `%s`", f.src(c))
		}
		sel := f.g.info.Selections[se]
		if sel == nil || sel.Kind() != types.MethodVal || len(sel.Index()) != 1 {
			f.fail("method call `%s` (interface, expression or promoted form)", f.src(c))
		}
		args = append(args, f.recvArg(c, se, sel, fn, false))
	}
	if sig.Variadic() && !c.Ellipsis.IsValid() {
		f.fail("variadic function in `%s`", f.src(c))
	}
	args = append(args, f.callArgs(fn, c.Args, false)...)
	var targets []ast.Expr
	for _, n := range names {
		var target ast.Expr
		if r := sig.Recv(); r != nil && r.Name() == n {
			target = se.X
		}
		for i := 0; i < sig.Params().Len() && i < len(c.Args); i++ {
			if sig.Params().At(i).Name() == n {
				target = c.Args[i]
			}
		}
		if target == nil {
			f.fail("in-out parameter `%s` of `%s` has no argument in `%s`", n, key, f.src(c))
		}
		targets = append(targets, target)
	}
	f.dep(key)
	t := f.fresh("t")
	lines = append(lines, fmt.Sprintf("%slet %s := %s", g2lInd(ind), t, strings.Join(append([]string{f.g.unitLeanName(key)}, args...), " ")))
	nres := sig.Results().Len()
	n := nres + len(targets)
	for i, tg := range targets {
		p := t
		if n > 1 {
			p = g2lProj(t, nres+i, n)
		}
		lines = append(lines, f.writeBack(tg, p, ind)...)
	}
	for i := 0; i < nres; i++ {
		results = append(results, g2lProj(t, i, n))
	}
	if !f.fuelChk {
		st := f.g.envState()
		st.inOutCalls = append(st.inOutCalls, [2]string{f.key, f.src(c)})
	}
	return lines, results
}

// outPrimCall emits the call of a primitive with an out-parameter.
func (f *g2lFn) outPrimCall(c *ast.CallExpr, fn *types.Func, key string, idx int, ind int) (lines []string, results []string) {
	if idx >= len(c.Args) {
		f.fail("out-parameter primitive `%s`", f.src(c))
	}
	id, ok := ast.Unparen(c.Args[idx]).(*ast.Ident)
	if !ok {
		f.fail("the out-parameter of `%s` is not a local variable", f.src(c))
	}
	o, _ := f.g.info.Uses[id].(*types.Var)
	if o == nil || f.names[o] == "" || o.Parent() == f.g.pkg.Scope() {
		f.fail("the out-parameter of `%s` is not a local variable", f.src(c))
	}
	text, ok := f.primCall(c, fn)
	if !ok {
		f.fail("`%s` is not a primitive", f.src(c))
	}
	t := f.fresh("t")
	lines = append(lines, fmt.Sprintf("%slet %s := %s", g2lInd(ind), t, text))
	nres := fn.Type().(*types.Signature).Results().Len()
	n := nres + 1
	lines = append(lines, f.writeBack(c.Args[idx], g2lProj(t, nres, n), ind)...)
	for i := 0; i < nres; i++ {
		results = append(results, g2lProj(t, i, n))
	}
	if !f.fuelChk {
		st := f.g.envState()
		st.outPrimCalls = append(st.outPrimCalls, [2]string{f.key, f.src(c)})
	}
	return lines, results
}

// effectCall: a call that must be emitted as statements.
func (f *g2lFn) effectCall(e ast.Expr, ind int) (lines, results []string, ok bool) {
	c, isCall := ast.Unparen(e).(*ast.CallExpr)
	if !isCall {
		return nil, nil, false
	}
	if fn, key := f.inOutCalleeEnv(c); fn != nil {
		lines, results = f.inOutCall(c, fn, key, ind)
		return lines, results, true
	}
	if fn, key, idx := f.outPrimCallee(c); fn != nil {
		lines, results = f.outPrimCall(c, fn, key, idx, ind)
		return lines, results, true
	}
	return nil, nil, false
}

// stmtEnv: the statement forms of this file.
func (f *g2lFn) stmtEnv(s ast.Stmt, ind int) ([]string, bool) {
	if !f.g.envOn() {
		return nil, false
	}
	switch x := s.(type) {
	case *ast.ExprStmt:
		lines, _, ok := f.effectCall(x.X, ind)
		return lines, ok
	case *ast.AssignStmt:
		if len(x.Rhs) != 1 || (x.Tok != token.DEFINE && x.Tok != token.ASSIGN) {
			return nil, false
		}
		lines, results, ok := f.effectCall(x.Rhs[0], ind)
		if !ok {
			return nil, false
		}
		if len(results) != len(x.Lhs) {
			f.fail("`%s`", f.src(x))
		}
		for i, l := range x.Lhs {
			lines = append(lines, f.assignTo(l, results[i], x.Tok == token.DEFINE, ind)...)
		}
		return lines, true
	case *ast.ReturnStmt:
		if len(x.Results) != 1 || f.fuelChk {
			return nil, false
		}
		lines, results, ok := f.effectCall(x.Results[0], ind)
		if !ok {
			return nil, false
		}
		parts := append(results, f.inOutNames()...)
		if len(parts) == 1 {
			return append(lines, g2lInd(ind)+"return "+parts[0]), true
		}
		return append(lines, g2lInd(ind)+"return ("+strings.Join(parts, ", ")+")"), true
	}
	return nil, false
}

// findMutatedEnv: the targets of in-out calls and of out-parameter primitives are assigned.
func (f *g2lFn) findMutatedEnv(fd *ast.FuncDecl) {
	if !f.g.envOn() {
		return
	}
	root := func(e ast.Expr) {
		for {
			switch x := ast.Unparen(e).(type) {
			case *ast.SelectorExpr:
				e = x.X
				continue
			case *ast.Ident:
				if o := f.g.info.Uses[x]; o != nil {
					f.mutated[o] = true
				}
			}
			return
		}
	}
	ast.Inspect(fd.Body, func(n ast.Node) bool {
		c, ok := n.(*ast.CallExpr)
		if !ok {
			return true
		}
		if fn, key := f.inOutCalleeEnv(c); fn != nil {
			sig := fn.Type().(*types.Signature)
			for _, nm := range f.g.inOutFor(key) {
				if r := sig.Recv(); r != nil && r.Name() == nm {
					if se, ok := ast.Unparen(c.Fun).(*ast.SelectorExpr); ok {
						root(se.X)
					}
				}
				for i := 0; i < sig.Params().Len() && i < len(c.Args); i++ {
					if sig.Params().At(i).Name() == nm {
						root(c.Args[i])
					}
				}
			}
		}
		if fn, _, idx := f.outPrimCallee(c); fn != nil && idx < len(c.Args) {
			root(c.Args[idx])
		}
		return true
	})
}

// ---------------------------------------------------------------- writes through pointers

// ptrWriteRoot: does the pointer-typed expression e live in a local variable,
// a parameter, or a field reachable from one (through struct values and
// Option-held pointers)?
func (f *g2lFn) ptrWriteRoot(e ast.Expr) bool {
	for {
		switch x := ast.Unparen(e).(type) {
		case *ast.Ident:
			o, _ := f.g.info.Uses[x].(*types.Var)
			return o != nil && f.names[o] != "" && o.Parent() != f.g.pkg.Scope()
		case *ast.SelectorExpr:
			if sel := f.g.info.Selections[x]; sel == nil || sel.Kind() != types.FieldVal || len(sel.Index()) != 1 {
				return false
			}
			e = x.X
			continue
		}
		return false
	}
}

// ptrFieldAssign: x.f = v where x.X is a pointer held as an Option.
func (f *g2lFn) ptrFieldAssign(x *ast.SelectorExpr, val string, ind int) ([]string, bool) {
	if !f.g.env().PtrWrites {
		return nil, false
	}
	xt := f.typeOf(x.X)
	if !g2lIsPtr(xt) || f.ptrVal(x.X) || f.inOutBase(x.X) || !f.ptrWriteRoot(x.X) {
		return nil, false
	}
	n := f.namedOf(xt)
	if n == nil {
		return nil, false
	}
	if sel := f.g.info.Selections[x]; sel == nil || sel.Kind() != types.FieldVal || len(sel.Index()) != 1 {
		return nil, false
	}
	if !f.fuelChk {
		st := f.g.envState()
		st.ptrWrites = append(st.ptrWrites, [2]string{f.key, f.src(x)})
	}
	nv := fmt.Sprintf("some { %s with %s := %s }", f.asVal(x.X), f.fieldLean(n, x.Sel.Name), val)
	return f.assignTo(x.X, nv, false, ind), true
}

// ---------------------------------------------------------------- expressions

// addrOfEnv: &T{…}.
func (f *g2lFn) addrOfEnv(x *ast.UnaryExpr) (string, bool) {
	if !f.g.envOn() {
		return "", false
	}
	cl, ok := ast.Unparen(x.X).(*ast.CompositeLit)
	if !ok {
		return "", false
	}
	return "some " + g2lPar(f.composite(cl)), true
}

// builtinEnv: new(T).
func (f *g2lFn) builtinEnv(name string, c *ast.CallExpr) (string, bool) {
	if !f.g.envOn() || name != "new" || len(c.Args) != 1 {
		return "", false
	}
	tv, ok := f.g.info.Types[c.Args[0]]
	if !ok || !tv.IsType() {
		return "", false
	}
	z, err := f.g.zero(tv.Type)
	if err != nil {
		f.fail("%v", err)
	}
	return "some " + g2lPar(z), true
}

// appendSpread: append(a, b...).
func (f *g2lFn) appendSpread(c *ast.CallExpr) (string, bool) {
	if !f.g.env().Variadic || !c.Ellipsis.IsValid() || len(c.Args) != 2 {
		return "", false
	}
	if g2lKindOf(f.typeOf(c.Args[1])) != kList {
		return "", false
	}
	return g2lPar(f.expr(c.Args[0])) + " ++ " + g2lPar(f.expr(c.Args[1])), true
}

// ellipsisOK: may the call c, which spreads a slice, be translated?
func (f *g2lFn) ellipsisOK(c *ast.CallExpr) bool {
	return f.g.env().Variadic
}

// compositeEnv: map literals (with Maps on and strings off).
func (f *g2lFn) compositeEnv(x *ast.CompositeLit, t types.Type) (string, bool) {
	if !f.g.envOn() || !f.g.cfg.Maps || f.g.strOn() {
		return "", false
	}
	if g2lMapOf(t) == nil {
		return "", false
	}
	var parts []string
	seen := map[string]bool{}
	for _, el := range x.Elts {
		kv, ok := el.(*ast.KeyValueExpr)
		if !ok {
			f.fail("map literal `%s`", f.src(x))
		}
		ktv := f.g.info.Types[kv.Key]
		if ktv.Value == nil {
			f.fail("map literal with a key that is not a constant in `%s`", f.src(x))
		}
		ks := ktv.Value.ExactString()
		if seen[ks] {
			f.fail("duplicate key in `%s`", f.src(x))
		}
		seen[ks] = true
		parts = append(parts, "("+f.expr(kv.Key)+", "+f.expr(kv.Value)+")")
	}
	return "([" + strings.Join(parts, ", ") + "] : " + f.lean(t) + ")", true
}

func g2lIsEmptyIface(t types.Type) bool {
	it, ok := types.Unalias(t).Underlying().(*types.Interface)
	return ok && it.Empty()
}

// relationEnv: x == nil for x of type interface{}.
func (f *g2lFn) relationEnv(x *ast.BinaryExpr, lt, rt types.Type) (string, bool) {
	tmpl := f.g.env().IfaceNil
	if tmpl == "" || (x.Op != token.EQL && x.Op != token.NEQ) {
		return "", false
	}
	var other ast.Expr
	switch {
	case f.isNil(x.Y) && g2lIsEmptyIface(lt):
		other = x.X
	case f.isNil(x.X) && g2lIsEmptyIface(rt):
		other = x.Y
	default:
		return "", false
	}
	s := g2lTemplate(tmpl, []string{g2lPar(f.expr(other))})
	if x.Op == token.EQL {
		return g2lPar(s) + " = true", true
	}
	return g2lPar(s) + " = false", true
}

// typeAssertEnv: v, ok := x.(T) by a configured template.
func (f *g2lFn) typeAssertEnv(x *ast.AssignStmt, r *ast.TypeAssertExpr) (string, bool) {
	if len(f.g.env().TypeAssert) == 0 || len(x.Lhs) != 2 || r.Type == nil {
		return "", false
	}
	to := f.g.info.Types[r.Type].Type
	if to == nil || !g2lIsEmptyIface(f.typeOf(r.X)) {
		return "", false
	}
	tmpl, ok := f.g.env().TypeAssert[f.g.typeKey(to)]
	if !ok {
		return "", false
	}
	return g2lTemplate(tmpl, []string{g2lPar(f.expr(r.X))}), true
}

// ---------------------------------------------------------------- facts

func (g *g2l) emitEnvFacts(w func(string, ...any), okUnits map[string]bool) {
	if !g.envOn() {
		return
	}
	st := g.envState()
	pairs := func(name, doc string, xs [][2]string) {
		w("/-- %s -/\ndef %s : List (String × String) := [", doc, name)
		first := true
		for _, p := range xs {
			if !okUnits[p[0]] {
				continue
			}
			if !first {
				w(", ")
			}
			first = false
			w("(%s, %s)", leanStr(p[0]), leanStr(p[1]))
		}
		w("]\n\n")
	}
	pairs("ptrWrites", "every write through a pointer held as an Option (function, target): other holders of the pointee are not modelled", st.ptrWrites)
	pairs("inOutCalls", "every call of a function with in-out parameters (function, call)", st.inOutCalls)
	pairs("outPrimCalls", "every call of a primitive with an out-parameter (function, call)", st.outPrimCalls)
}
