package main

// go2lean, what the reference-rule leaves of /repo/cbc and /repo/tax need beyond
// strings (refssrc.go is the configuration that uses it).  Everything here is OFF
// unless a configuration was passed to G2LEnableRefs.
//
// Called from marked places (`// go2lean_refs.go`): g2lFn.call (go2lean_expr.go),
// the function header (go2lean_stmt.go), primCall (go2lean_inout.go), tupleRhs
// (go2lean_string.go), retExpr (go2lean_ptr.go).
//
// TRUSTED SEMANTICS added by this file (G2LRefsHeader goes into the header of the
// generated file):
//   * a VARIADIC function `f(a A, xs ...T)` is a function whose last parameter is the
//     slice `xs []T` (that is what it is in Go): a call `f(a, s...)` passes the slice
//     `s`, a call `f(a, x, y)` passes the list `[x, y]`, `f(a)` the empty list (nil);
//   * `v, ok := x.(T)` on an empty interface that the configuration maps to a SUM type:
//     the primitive "assert <T>" of the configuration (a pair: the value or the zero
//     value, and whether the dynamic type of x is exactly T);
//   * `return e` where the result is `error` and e has the concrete type T with a
//     primitive "error <T>": that template (a non-nil error: an interface holding a
//     value of a concrete type is never nil, whatever the value; {0} = the value);
//   * `{i:src}` in the template of a primitive: the Go SOURCE TEXT of argument i as a
//     Lean string literal (used for ozzo-validation rule values such as
//     `validation.Required`, which are not interpreted: a rule is its text).

import (
	"fmt"
	"go/ast"
	"go/types"
	"strings"
)

var g2lRefsOn = map[*G2LConfig]bool{}

// G2LEnableRefs switches the extensions of this file on for one configuration.
func G2LEnableRefs(c *G2LConfig) *G2LConfig { g2lRefsOn[c] = true; return c }

func (g *g2l) refsOn() bool { return g2lRefsOn[g.cfg] }

const G2LRefsHeader = `  VARIADIC, SUMS, ERRORS (go2lean_refs.go; trusted):
  * f(a, xs ...T) is f with a last parameter xs : List T; f(a, s...) passes s, f(a, x, y)
    passes [x, y], f(a) passes [] (a nil slice).
  * v, ok := x.(T) on an interface{} mapped to the sum Refs.Src.Dyn: the projection
    Dyn.asKey / asKeys / asTags / asExt (value or zero value, dynamic type is exactly T).
  * return e, e of a concrete type, where the result is error: a NON-NIL error (some …).
  * a validation rule value handed to a primitive is its Go source text.`

// variadicCall: a call of a translated (non-primitive) variadic function or method.
func (f *g2lFn) variadicCall(c *ast.CallExpr, fn *types.Func) string {
	sig := fn.Type().(*types.Signature)
	key, local := f.calleeKey(fn)
	if key == "" || !local {
		f.fail("variadic call `%s` (not a function of this package and not a primitive)", f.src(c))
	}
	if len(f.g.inOutFor(key)) > 0 {
		f.fail("call of `%s`, which has in-out parameters", key)
	}
	var args []string
	if sig.Recv() != nil {
		se, ok := ast.Unparen(c.Fun).(*ast.SelectorExpr)
		if !ok {
			f.fail("method expression `%s`", f.src(c))
		}
		sel := f.g.info.Selections[se]
		if sel == nil || sel.Kind() != types.MethodVal {
			f.fail("method call `%s` (interface or expression form)", f.src(c))
		}
		args = append(args, f.recvArg(c, se, sel, fn, false))
	}
	args = append(args, f.variadicArgs(c, fn, false)...)
	f.dep(key)
	return strings.Join(append([]string{f.g.unitLeanName(key)}, args...), " ")
}

// variadicArgs: the fixed arguments, then the variadic ones as ONE list.
func (f *g2lFn) variadicArgs(c *ast.CallExpr, fn *types.Func, isPrim bool) []string {
	sig := fn.Type().(*types.Signature)
	n := sig.Params().Len()
	if len(c.Args) < n-1 {
		f.fail("call `%s`", f.src(c))
	}
	args := f.callArgs(fn, c.Args[:n-1], isPrim)
	last := sig.Params().At(n - 1).Type()
	if c.Ellipsis.IsValid() {
		if len(c.Args) != n {
			f.fail("call `%s`", f.src(c))
		}
		return append(args, g2lPar(f.expr(c.Args[n-1])))
	}
	var elems []string
	for _, a := range c.Args[n-1:] {
		elems = append(elems, f.expr(a))
	}
	return append(args, "(["+strings.Join(elems, ", ")+"] : "+f.lean(last)+")")
}

// assertExt: `v, ok := x.(T)` by the primitive "assert <T>".
func (f *g2lFn) assertExt(to types.Type, x ast.Expr) (string, bool) {
	if !f.g.refsOn() {
		return "", false
	}
	tmpl, ok := f.g.cfg.Prims["assert "+f.g.typeKey(to)]
	if !ok {
		return "", false
	}
	return g2lTemplate(tmpl, []string{g2lPar(f.expr(x))}), true
}

// errorConv: a value of a concrete type returned where the result is `error`.
func (f *g2lFn) errorConv(r ast.Expr, i int) (string, bool) {
	if !f.g.refsOn() || f.fnObj == nil {
		return "", false
	}
	res := f.fnObj.Type().(*types.Signature).Results()
	if i >= res.Len() || !g2lIsErrorType(res.At(i).Type()) {
		return "", false
	}
	tv, ok := f.g.info.Types[r]
	if !ok || tv.Type == nil || tv.IsNil() || g2lIsErrorType(tv.Type) {
		return "", false
	}
	if _, isIface := tv.Type.Underlying().(*types.Interface); isIface {
		return "", false
	}
	tmpl, ok := f.g.cfg.Prims["error "+f.g.typeKey(tv.Type)]
	if !ok {
		f.fail("`%s` of type %s returned as an error (no primitive \"error %s\")", f.src(r), f.g.typeKey(tv.Type), f.g.typeKey(tv.Type))
	}
	if strings.Contains(tmpl, "{0}") {
		return g2lTemplate(tmpl, []string{g2lPar(f.expr(r))}), true
	}
	return tmpl, true
}

// srcArgs: `{i:src}` in a primitive's template (i counts the receiver first, as {i} does).
func (f *g2lFn) srcArgs(tmpl string, c *ast.CallExpr, off int) string {
	if !strings.Contains(tmpl, ":src}") {
		return tmpl
	}
	for i := len(c.Args) - 1; i >= 0; i-- {
		tmpl = strings.ReplaceAll(tmpl, fmt.Sprintf("{%d:src}", off+i), leanStr(g2lOneLine(f.src(c.Args[i]))))
	}
	if strings.Contains(tmpl, ":src}") {
		f.fail("the template of a primitive names the source text of an argument `%s` does not have", f.src(c))
	}
	return tmpl
}
