package main

// go2lean, what the text codec of /repo/num needs beyond go2lean_string.go
// (task B14).  Everything here is OFF unless the configuration asks for it
// (G2LConfig.Codec); the translator behaves exactly as before otherwise.
//
// The files of the translator call into this one at marked places
// (`// go2lean_codec.go`): namedResultsOK / namedResultDecls (translateFunc),
// starAssign (assignTo), outArgAssign (assign), bytesConversion
// (strConversion), sprintfVerbExt (sprintf).
//
// TRUSTED SEMANTICS added by this file (CodecSrc puts them into its header):
//   * NAMED RESULTS `func f(…) (r T, …)`: locals holding the zero value of
//     their type at entry (`let mut r : T := zero`); every `return` must list
//     its values (a bare return stays outside the subset; `defer` is outside
//     the subset anyway, so nothing can observe the named results after a
//     return);
//   * `*p = v` for an IN-OUT parameter p (go2lean_inout.go) = `p := v`: the
//     whole pointee is replaced;
//   * OUT-ARGUMENT PRIMITIVES (G2LConfig.OutPrims): `r := pkg.F(a…, &x)` (also
//     as the init statement of an `if`) with x a local variable that the
//     function assigns (so it is a `let mut`) and F a primitive that writes
//     through its LAST argument only: the template gets a… and the current
//     value of x, and yields the pair (new value of x, result):
//         let t := tmpl a… x;  x := t.1;  let r := t.2
//     (what the translation does not model: F keeping the pointer);
//   * `[]byte(s)` = GoStrings.toBytes s, `string(b)` for b a []byte =
//     GoStrings.ofBytes b: a []byte is a List Nat of values below 256, a string
//     the List Char of the same bytes;
//   * fmt.Sprintf verb `%0*d` (an UNSIGNED width argument, then a signed
//     integer) = GoStrings.fmtPad0 width value: at least `width` characters,
//     padded with zeros after the sign.

import (
	"fmt"
	"go/ast"
	"go/types"
	"strings"
)

func (g *g2l) codecOn() bool { return g.cfg.Codec }

// namedResultsOK: named results are inside the subset only with Codec on.
func (f *g2lFn) namedResultsOK() bool { return f.g.codecOn() }

// namedResultDecls declares the named results as mutable locals with their zero values.
func (f *g2lFn) namedResultDecls(fd *ast.FuncDecl) []string {
	if !f.g.codecOn() || fd.Type.Results == nil {
		return nil
	}
	var out []string
	for _, r := range fd.Type.Results.List {
		for _, n := range r.Names {
			if n.Name == "_" {
				continue
			}
			o, _ := f.g.info.Defs[n].(*types.Var)
			if o == nil || f.names[o] == "" {
				f.fail("named result `%s`", n.Name)
			}
			z, err := f.g.zero(o.Type())
			if err != nil {
				f.fail("%v", err)
			}
			f.mutated[o] = true
			out = append(out, fmt.Sprintf("let mut %s : %s := %s", f.names[o], f.lean(o.Type()), z))
		}
	}
	return out
}

// starAssign: `*p = v` for an in-out parameter p.
func (f *g2lFn) starAssign(x *ast.StarExpr, val string, ind int) ([]string, bool) {
	if !f.g.codecOn() {
		return nil, false
	}
	id, ok := ast.Unparen(x.X).(*ast.Ident)
	if !ok {
		return nil, false
	}
	o, _ := f.g.info.Uses[id].(*types.Var)
	if o == nil {
		return nil, false
	}
	for _, v := range f.inOut {
		if v == o {
			return []string{fmt.Sprintf("%s%s := %s", g2lInd(ind), f.names[o], val)}, true
		}
	}
	return nil, false
}

// outArgAssign: `r := pkg.F(a…, &x)` for a primitive of OutPrims.
func (f *g2lFn) outArgAssign(x *ast.AssignStmt, define bool, ind int) ([]string, bool) {
	if !f.g.codecOn() || len(f.g.cfg.OutPrims) == 0 || len(x.Lhs) != 1 || len(x.Rhs) != 1 {
		return nil, false
	}
	c, ok := ast.Unparen(x.Rhs[0]).(*ast.CallExpr)
	if !ok || len(c.Args) == 0 {
		return nil, false
	}
	if tv := f.g.info.Types[c.Fun]; tv.IsType() || tv.IsBuiltin() {
		return nil, false
	}
	fn := f.funcOfCall(c)
	if fn == nil {
		return nil, false
	}
	key, _ := f.calleeKey(fn)
	tmpl, ok := f.g.cfg.OutPrims[key]
	if !ok {
		return nil, false
	}
	if c.Ellipsis.IsValid() {
		f.fail("`%s`", f.src(c))
	}
	last, ok := ast.Unparen(c.Args[len(c.Args)-1]).(*ast.UnaryExpr)
	if !ok || last.Op.String() != "&" {
		f.fail("out-argument primitive `%s`: the last argument must be the address of a local variable", f.src(c))
	}
	id, ok := ast.Unparen(last.X).(*ast.Ident)
	if !ok {
		f.fail("out-argument primitive `%s`: the last argument must be the address of a local variable", f.src(c))
	}
	o, _ := f.g.info.Uses[id].(*types.Var)
	if o == nil || f.names[o] == "" || o.Parent() == f.g.pkg.Scope() || !f.mutated[o] {
		f.fail("out-argument primitive `%s`: `%s` is not a local variable that this function assigns", f.src(c), id.Name)
	}
	for _, v := range f.inOut {
		if v == o {
			f.fail("out-argument primitive `%s` on an in-out parameter", f.src(c))
		}
	}
	var args []string
	for _, a := range c.Args[:len(c.Args)-1] {
		args = append(args, g2lPar(f.expr(a)))
	}
	args = append(args, f.names[o])
	t := f.fresh("t")
	out := []string{
		fmt.Sprintf("%slet %s := %s", g2lInd(ind), t, g2lTemplate(tmpl, args)),
		fmt.Sprintf("%s%s := %s.1", g2lInd(ind), f.names[o], t),
	}
	out = append(out, f.assignTo(x.Lhs[0], t+".2", define, ind)...)
	return out, true
}

// bytesConversion: []byte(s) and string(b []byte).
func (f *g2lFn) bytesConversion(to types.Type, arg ast.Expr) (string, bool) {
	if !f.g.codecOn() {
		return "", false
	}
	from := f.typeOf(arg)
	tk, fk := g2lKindOf(to), g2lKindOf(from)
	byteSlice := func(t types.Type) bool {
		sl, ok := t.Underlying().(*types.Slice)
		return ok && f.isByte(sl.Elem())
	}
	switch {
	case tk == kList && fk == kString && byteSlice(to):
		return "GoblVerif.GoStrings.toBytes " + g2lPar(f.expr(arg)), true
	case tk == kString && fk == kList && byteSlice(from):
		return "GoblVerif.GoStrings.ofBytes " + g2lPar(f.expr(arg)), true
	}
	return "", false
}

// sprintfVerbExt: the verb at the head of rest (the text after a '%'); next
// takes the next argument of the call.  Returns the Lean term and the number
// of format bytes the verb takes (without the '%').
func (f *g2lFn) sprintfVerbExt(rest string, next func(string) ast.Expr, c *ast.CallExpr) (string, int, bool) {
	if !f.g.codecOn() || !strings.HasPrefix(rest, "0*d") {
		return "", 0, false
	}
	w := next("%0*d")
	a := next("%0*d")
	if g2lKindOf(f.typeOf(w)) != kUint {
		f.fail("fmt.Sprintf: %%0*d with a width that is not of an unsigned type in `%s` (a negative width means left justification)", f.src(c))
	}
	if g2lKindOf(f.typeOf(a)) != kInt {
		f.fail("fmt.Sprintf: %%0*d with an argument that is not a signed integer in `%s`", f.src(c))
	}
	return "GoblVerif.GoStrings.fmtPad0 " + g2lPar(f.expr(w)) + " " + g2lPar(f.expr(a)), 3, true
}
