package main

import (
	"encoding/json"
	"fmt"
	"os"
	"path/filepath"
	"sort"
	"strings"
)

// Defs: the PUBLISHED definition files of /repo/data/** (regimes, addons,
// catalogues, currencies, country code lists, schema list, invoice types) as
// Lean data for Spec/C19.lean (coherence) and Model/Refs.lean (C18).  Parsed
// with plain encoding/json into local structs; nothing here goes through
// GOBL's own types except the list of file names the registry would produce
// (to flag published files that no registered regime stands behind).

type dExt struct {
	Key    string `json:"key"`
	Values []struct {
		Code string `json:"code"`
	} `json:"values"`
	Codes []struct { // older layout still found in stale files
		Code string `json:"code"`
	} `json:"codes"`
	Pattern string `json:"pattern"`
}

type dTagSet struct {
	Schema string `json:"schema"`
	List   []struct {
		Key string `json:"key"`
	} `json:"list"`
}

type dScenario struct {
	Tags    []string          `json:"tags"`
	Types   []string          `json:"type"`
	ExtKey  string            `json:"ext_key"`
	ExtCode string            `json:"ext_code"`
	Ext     map[string]string `json:"ext"`
}

type dScenarioSet struct {
	Schema string      `json:"schema"`
	List   []dScenario `json:"list"`
}

type dCorrection struct {
	Schema     string   `json:"schema"`
	Types      []string `json:"types"`
	Extensions []string `json:"extensions"`
	Stamps     []string `json:"stamps"`
}

type dRate struct {
	Key    string            `json:"key"`
	Ext    map[string]string `json:"ext"`
	Values []struct {
		Ext map[string]string `json:"ext"`
	} `json:"values"`
}

type dCategory struct {
	Code       string            `json:"code"`
	Extensions []string          `json:"extensions"`
	Ext        map[string]string `json:"ext"`
	Rates      []dRate           `json:"rates"`
}

type dRegime struct {
	Country     string         `json:"country"`
	Alt         []string       `json:"alt_country_codes"`
	Zone        string         `json:"zone"`
	Currency    string         `json:"currency"`
	TimeZone    string         `json:"time_zone"`
	Tags        []dTagSet      `json:"tags"`
	Extensions  []dExt         `json:"extensions"`
	Scenarios   []dScenarioSet `json:"scenarios"`
	Corrections []dCorrection  `json:"corrections"`
	Categories  []dCategory    `json:"categories"`
}

type dAddon struct {
	Key         string         `json:"key"`
	Requires    []string       `json:"requires"`
	Tags        []dTagSet      `json:"tags"`
	Extensions  []dExt         `json:"extensions"`
	Scenarios   []dScenarioSet `json:"scenarios"`
	Corrections []dCorrection  `json:"corrections"`
}

type dCatalogue struct {
	Key        string `json:"key"`
	Extensions []dExt `json:"extensions"`
}

func leanPairs(m map[string]string) string { return leanExt(sortedExt(m)) }

func leanExtDefs(es []dExt) string {
	parts := make([]string, len(es))
	for i, e := range es {
		var codes []string
		for _, v := range e.Values {
			codes = append(codes, v.Code)
		}
		for _, v := range e.Codes {
			codes = append(codes, v.Code)
		}
		parts[i] = fmt.Sprintf("\n    ⟨%s, %s, %s⟩", leanStr(e.Key), leanStrList(codes), leanStr(e.Pattern))
	}
	return "[" + strings.Join(parts, ",") + "]"
}

func leanTagSets(ts []dTagSet) string {
	var parts []string
	for _, t := range ts {
		if t.Schema == "" && len(t.List) == 0 {
			continue // older layout (a flat list of keys) found in stale files
		}
		var keys []string
		for _, k := range t.List {
			keys = append(keys, k.Key)
		}
		parts = append(parts, fmt.Sprintf("\n    ⟨%s, %s⟩", leanStr(t.Schema), leanStrList(keys)))
	}
	return "[" + strings.Join(parts, ",") + "]"
}

func leanScenarios(ss []dScenarioSet) string {
	var parts []string
	for _, s := range ss {
		var ls []string
		for _, x := range s.List {
			ls = append(ls, fmt.Sprintf("\n      ⟨%s, %s, %s, %s, %s⟩", leanStrList(x.Tags), leanStrList(x.Types), leanStr(x.ExtKey), leanStr(x.ExtCode), leanPairs(x.Ext)))
		}
		parts = append(parts, fmt.Sprintf("\n    ⟨%s, [%s]⟩", leanStr(s.Schema), strings.Join(ls, ",")))
	}
	return "[" + strings.Join(parts, ",") + "]"
}

func leanCorrections(cs []dCorrection) string {
	var parts []string
	for _, c := range cs {
		parts = append(parts, fmt.Sprintf("\n    ⟨%s, %s, %s, %s⟩", leanStr(c.Schema), leanStrList(c.Types), leanStrList(c.Extensions), leanStrList(c.Stamps)))
	}
	return "[" + strings.Join(parts, ",") + "]"
}

func leanCategories(cs []dCategory) string {
	var parts []string
	for _, c := range cs {
		var rs []string
		for _, r := range c.Rates {
			var ves []string
			for _, v := range r.Values {
				if len(v.Ext) > 0 {
					ves = append(ves, leanPairs(v.Ext))
				}
			}
			rs = append(rs, fmt.Sprintf("\n      ⟨%s, %s, [%s]⟩", leanStr(r.Key), leanPairs(r.Ext), strings.Join(ves, ", ")))
		}
		parts = append(parts, fmt.Sprintf("\n    ⟨%s, %s, %s, [%s]⟩", leanStr(c.Code), leanStrList(c.Extensions), leanPairs(c.Ext), strings.Join(rs, ",")))
	}
	return "[" + strings.Join(parts, ",") + "]"
}

func readJSONFiles(dir string) ([]string, [][]byte, error) {
	files, err := filepath.Glob(filepath.Join(*repo, "data", dir, "*.json"))
	if err != nil {
		return nil, nil, err
	}
	sort.Strings(files)
	var names []string
	var bodies [][]byte
	for _, f := range files {
		b, err := os.ReadFile(f)
		if err != nil {
			return nil, nil, err
		}
		names = append(names, strings.TrimSuffix(filepath.Base(f), ".json"))
		bodies = append(bodies, b)
	}
	return names, bodies, nil
}

// constList reads `$defs.<def>.oneOf[].const` of a published schema file.
func constList(rel, def string) ([]string, error) {
	b, err := os.ReadFile(filepath.Join(*repo, "data", "schemas", rel))
	if err != nil {
		return nil, err
	}
	var s struct {
		Defs map[string]struct {
			OneOf []struct {
				Const string `json:"const"`
			} `json:"oneOf"`
			Properties map[string]struct {
				OneOf []struct {
					Const string `json:"const"`
				} `json:"oneOf"`
			} `json:"properties"`
		} `json:"$defs"`
	}
	if err := json.Unmarshal(b, &s); err != nil {
		return nil, err
	}
	var out []string
	d := s.Defs[def]
	for _, c := range d.OneOf {
		out = append(out, c.Const)
	}
	return out, nil
}

func chunkedStrList(name string, xs []string, sb *strings.Builder) {
	// long literals are hoisted into chunks to keep elaboration fast
	const n = 60
	var chunks []string
	for i := 0; i < len(xs); i += n {
		j := i + n
		if j > len(xs) {
			j = len(xs)
		}
		c := fmt.Sprintf("%s_%d", name, i/n)
		fmt.Fprintf(sb, "def %s : List String := %s\n", c, leanStrList(xs[i:j]))
		chunks = append(chunks, c)
	}
	if len(chunks) == 0 {
		fmt.Fprintf(sb, "def %s : List String := []\n\n", name)
		return
	}
	fmt.Fprintf(sb, "def %s : List String := %s\n\n", name, strings.Join(chunks, " ++ "))
}

func init() {
	register(func() (string, string, error) {
		name := "Defs"
		var sb strings.Builder
		sb.WriteString("/- REGENERATED by harness/cmd/extract from /repo/data/** (the published definition files) — do not edit -/\n")
		sb.WriteString("import GoblVerif.Model.Refs\nnamespace GoblVerif.Generated.Defs\nopen GoblVerif.Refs\n\n")

		produced := map[string]bool{}
		for _, r := range registryTables() {
			produced[regimeFileName(r)] = true
		}

		// regimes
		rn, rb, err := readJSONFiles("regimes")
		if err != nil {
			return name, "", err
		}
		var regNames []string
		for i, n := range rn {
			var r dRegime
			if err := json.Unmarshal(rb[i], &r); err != nil {
				// a stale file in an older layout may not even parse into the current shape
				var loose map[string]any
				if json.Unmarshal(rb[i], &loose) != nil || produced[n] {
					return name, "", fmt.Errorf("data/regimes/%s.json: %w", n, err)
				}
				r = dRegime{}
				if s, ok := loose["country"].(string); ok {
					r.Country = s
				}
				if s, ok := loose["currency"].(string); ok {
					r.Currency = s
				}
				if s, ok := loose["time_zone"].(string); ok {
					r.TimeZone = s
				}
			}
			ln := "regime_" + leanIdent(n)
			regNames = append(regNames, ln)
			fmt.Fprintf(&sb, "def %s : Regime :=\n  { file := %s, stale := %v, country := %s, alt := %s, zone := %s, currency := %s, timeZone := %s,\n    tags := %s,\n    extensions := %s,\n    scenarios := %s,\n    corrections := %s,\n    categories := %s }\n\n",
				ln, leanStr(n), !produced[n], leanStr(r.Country), leanStrList(r.Alt), leanStr(r.Zone), leanStr(r.Currency), leanStr(r.TimeZone),
				leanTagSets(r.Tags), leanExtDefs(r.Extensions), leanScenarios(r.Scenarios), leanCorrections(r.Corrections), leanCategories(r.Categories))
		}

		// addons
		an, ab, err := readJSONFiles("addons")
		if err != nil {
			return name, "", err
		}
		var addonNames []string
		for i, n := range an {
			var a dAddon
			if err := json.Unmarshal(ab[i], &a); err != nil {
				return name, "", fmt.Errorf("data/addons/%s.json: %w", n, err)
			}
			ln := "addon_" + leanIdent(n)
			addonNames = append(addonNames, ln)
			fmt.Fprintf(&sb, "def %s : Addon :=\n  { key := %s, requires := %s,\n    tags := %s,\n    extensions := %s,\n    scenarios := %s,\n    corrections := %s }\n\n",
				ln, leanStr(a.Key), leanStrList(a.Requires), leanTagSets(a.Tags), leanExtDefs(a.Extensions), leanScenarios(a.Scenarios), leanCorrections(a.Corrections))
		}

		// catalogues
		cn, cb, err := readJSONFiles("catalogues")
		if err != nil {
			return name, "", err
		}
		var catNames []string
		for i, n := range cn {
			var c dCatalogue
			if err := json.Unmarshal(cb[i], &c); err != nil {
				return name, "", fmt.Errorf("data/catalogues/%s.json: %w", n, err)
			}
			ln := "catalogue_" + leanIdent(n)
			catNames = append(catNames, ln)
			// large code lists are hoisted
			var parts []string
			for j, e := range c.Extensions {
				var codes []string
				for _, v := range e.Values {
					codes = append(codes, v.Code)
				}
				cname := fmt.Sprintf("%s_codes_%d", ln, j)
				chunkedStrList(cname, codes, &sb)
				parts = append(parts, fmt.Sprintf("\n    ⟨%s, %s, %s⟩", leanStr(e.Key), cname, leanStr(e.Pattern)))
			}
			fmt.Fprintf(&sb, "def %s : Catalogue :=\n  { key := %s, extensions := [%s] }\n\n", ln, leanStr(c.Key), strings.Join(parts, ","))
		}

		// currencies
		_, curb, err := readJSONFiles("currency")
		if err != nil {
			return name, "", err
		}
		var currencies []string
		for _, b := range curb {
			var defs []struct {
				ISO string `json:"iso_code"`
			}
			if err := json.Unmarshal(b, &defs); err != nil {
				return name, "", fmt.Errorf("data/currency: %w", err)
			}
			for _, d := range defs {
				currencies = append(currencies, d.ISO)
			}
		}
		chunkedStrList("currencies", currencies, &sb)

		// country code lists of the published schemas
		tc, err := constList("l10n/tax-country-code.json", "TaxCountryCode")
		if err != nil {
			return name, "", err
		}
		ic, err := constList("l10n/iso-country-code.json", "ISOCountryCode")
		if err != nil {
			return name, "", err
		}
		seen := map[string]bool{}
		var countries []string
		for _, c := range append(tc, ic...) {
			if !seen[c] {
				seen[c] = true
				countries = append(countries, c)
			}
		}
		chunkedStrList("countries", countries, &sb)

		// schema list
		var schemas []string
		root := filepath.Join(*repo, "data", "schemas")
		err = filepath.Walk(root, func(p string, info os.FileInfo, err error) error {
			if err != nil {
				return err
			}
			if !info.IsDir() && strings.HasSuffix(p, ".json") {
				rel, _ := filepath.Rel(root, p)
				schemas = append(schemas, strings.TrimSuffix(filepath.ToSlash(rel), ".json"))
			}
			return nil
		})
		if err != nil {
			return name, "", err
		}
		sort.Strings(schemas)
		chunkedStrList("schemas", schemas, &sb)

		// invoice types
		b, err := os.ReadFile(filepath.Join(root, "bill", "invoice.json"))
		if err != nil {
			return name, "", err
		}
		var inv struct {
			Defs struct {
				Invoice struct {
					Properties struct {
						Type struct {
							OneOf []struct {
								Const string `json:"const"`
							} `json:"oneOf"`
						} `json:"type"`
					} `json:"properties"`
				} `json:"Invoice"`
			} `json:"$defs"`
		}
		if err := json.Unmarshal(b, &inv); err != nil {
			return name, "", err
		}
		var types []string
		for _, t := range inv.Defs.Invoice.Properties.Type.OneOf {
			types = append(types, t.Const)
		}
		fmt.Fprintf(&sb, "def invoiceTypes : List String := %s\n\n", leanStrList(types))

		// key sets published by the schemas (C18: payment means, payment terms, note keys)
		sb.WriteString(defsKeySets(root))

		fmt.Fprintf(&sb, "def regimes : List Regime := [%s]\n", strings.Join(regNames, ", "))
		fmt.Fprintf(&sb, "def addons : List Addon := [%s]\n", strings.Join(addonNames, ", "))
		fmt.Fprintf(&sb, "def catalogues : List Catalogue := [%s]\n\n", strings.Join(catNames, ", "))
		sb.WriteString("def defs : Defs :=\n  { regimes := regimes, addons := addons, catalogues := catalogues, currencies := currencies,\n    countries := countries, schemas := schemas, invoiceTypes := invoiceTypes }\n")
		sb.WriteString("\nend GoblVerif.Generated.Defs\n")
		return name, sb.String(), nil
	})
}
