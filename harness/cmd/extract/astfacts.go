package main

import (
	"fmt"
	"go/ast"
	"go/parser"
	"go/printer"
	"go/token"
	"path/filepath"
	"sort"
	"strconv"
	"strings"
)

// parseFile parses one repo file.
func parseFile(rel string) (*token.FileSet, *ast.File, error) {
	fset := token.NewFileSet()
	f, err := parser.ParseFile(fset, filepath.Join(*repo, rel), nil, parser.ParseComments)
	return fset, f, err
}

// funcDecl finds a function or method by name ("Recv.Name" or "Name").
func funcDecl(f *ast.File, name string) *ast.FuncDecl {
	recv, fn := "", name
	if i := strings.IndexByte(name, '.'); i >= 0 {
		recv, fn = name[:i], name[i+1:]
	}
	for _, d := range f.Decls {
		fd, ok := d.(*ast.FuncDecl)
		if !ok || fd.Name.Name != fn {
			continue
		}
		r := ""
		if fd.Recv != nil && len(fd.Recv.List) > 0 {
			t := fd.Recv.List[0].Type
			if s, ok := t.(*ast.StarExpr); ok {
				t = s.X
			}
			if id, ok := t.(*ast.Ident); ok {
				r = id.Name
			}
		}
		if r == recv {
			return fd
		}
	}
	return nil
}

// pkgCalls lists, in source order, the functions of package pkg called in fd.
func pkgCalls(fd *ast.FuncDecl, pkg string) []string {
	var out []string
	if fd == nil || fd.Body == nil {
		return out
	}
	ast.Inspect(fd.Body, func(n ast.Node) bool {
		if ce, ok := n.(*ast.CallExpr); ok {
			if se, ok := ce.Fun.(*ast.SelectorExpr); ok {
				if id, ok := se.X.(*ast.Ident); ok && id.Name == pkg {
					out = append(out, se.Sel.Name)
				}
			}
		}
		return true
	})
	return out
}

// methodCalls lists, in source order, the selector names called in fd (x.Name(...)).
func methodCalls(fd *ast.FuncDecl) []string {
	var out []string
	if fd == nil || fd.Body == nil {
		return out
	}
	ast.Inspect(fd.Body, func(n ast.Node) bool {
		if ce, ok := n.(*ast.CallExpr); ok {
			switch fn := ce.Fun.(type) {
			case *ast.SelectorExpr:
				out = append(out, fn.Sel.Name)
			case *ast.Ident:
				out = append(out, fn.Name)
			}
		}
		return true
	})
	return out
}

// bodyText renders a function body as normalised source text.
func bodyText(fset *token.FileSet, fd *ast.FuncDecl) string {
	if fd == nil || fd.Body == nil {
		return ""
	}
	var sb strings.Builder
	cfg := printer.Config{Mode: printer.RawFormat}
	_ = cfg.Fprint(&sb, fset, fd.Body)
	return strings.Join(strings.Fields(sb.String()), " ")
}

// leanStr quotes a Go string as a Lean string literal.
func leanStr(s string) string {
	var sb strings.Builder
	sb.WriteByte('"')
	for _, r := range s {
		switch {
		case r == '"':
			sb.WriteString("\\\"")
		case r == '\\':
			sb.WriteString("\\\\")
		case r == '\n':
			sb.WriteString("\\n")
		case r == '\t':
			sb.WriteString("\\t")
		case r == '\r':
			sb.WriteString("\\r")
		case r < 0x20 || r == 0x7f:
			sb.WriteString(fmt.Sprintf("\\x%02x", r))
		default:
			sb.WriteRune(r)
		}
	}
	sb.WriteByte('"')
	return sb.String()
}

func leanStrList(xs []string) string {
	q := make([]string, len(xs))
	for i, x := range xs {
		q[i] = leanStr(x)
	}
	return "[" + strings.Join(q, ", ") + "]"
}

func leanIdent(s string) string {
	r := strings.NewReplacer(".", "_", "/", "_", "-", "_", " ", "_")
	return r.Replace(s)
}

func sortedKeys[V any](m map[string]V) []string {
	ks := make([]string, 0, len(m))
	for k := range m {
		ks = append(ks, k)
	}
	sort.Strings(ks)
	return ks
}

// stringLit returns the value of a basic string literal expression.
func stringLit(e ast.Expr) (string, bool) {
	bl, ok := e.(*ast.BasicLit)
	if !ok || bl.Kind != token.STRING {
		return "", false
	}
	s, err := strconv.Unquote(bl.Value)
	return s, err == nil
}

// errorStrings lists, in source order, the string literals passed to
// errors.New / fmt.Errorf in fd.
func errorStrings(fd *ast.FuncDecl) []string {
	var out []string
	if fd == nil || fd.Body == nil {
		return out
	}
	ast.Inspect(fd.Body, func(n ast.Node) bool {
		ce, ok := n.(*ast.CallExpr)
		if !ok || len(ce.Args) == 0 {
			return true
		}
		se, ok := ce.Fun.(*ast.SelectorExpr)
		if !ok {
			return true
		}
		id, ok := se.X.(*ast.Ident)
		if !ok {
			return true
		}
		if (id.Name == "errors" && se.Sel.Name == "New") || (id.Name == "fmt" && se.Sel.Name == "Errorf") {
			if s, ok := stringLit(ce.Args[0]); ok {
				out = append(out, s)
			}
		}
		return true
	})
	return out
}
