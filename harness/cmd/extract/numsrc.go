package main

// NumSrc (C05, and through it C01–C04, C17, C20): the arithmetic of
// /repo/num/amount.go, percentage.go and validation.go TRANSLATED to Lean by
// go2lean on every run.  Props/C05.lean (namespace Src) proves every
// definition equal to the hand-written faithful layer of Model/Num.lean, so
// the theorems of C05 are re-checked against what the code says now.

func numSrcConfig() *G2LConfig {
	return &G2LConfig{
		Repo:      *repo,
		Module:    "github.com/invopop/gobl",
		Pkg:       "num",
		Tags:      []string{"verif"},
		Namespace: "GoblVerif.Generated.NumSrc",
		Title:     "NumSrc: /repo/num/amount.go, percentage.go, validation.go translated from Go.",
		Imports:   []string{"GoblVerif.Model.Num", "GoblVerif.Model.GoSem"},
		Structs: map[string]G2LStruct{
			"Amount":        {Lean: "GoblVerif.Amount"},
			"Percentage":    {Lean: "GoblVerif.Pct"},
			"ThresholdRule": {Lean: "ThresholdRule", Emit: true, Deriving: []string{"Repr", "Inhabited"}},
		},
		Prims: map[string]string{
			"int64(math.Round)": "GoblVerif.goRound {0}",
			"math.Round":        "((GoblVerif.goRound {0} : Int) : Rat)",
		},
		Stubs: map[string]string{"math": G2LMathStub},
		Funcs: []G2LFunc{
			{Name: "intPow", Fuel: []string{"exp"}},
			{Name: "MakeAmount"},
			{Name: "AmountFromFloat64"},
			{Name: "Amount.Rescale"},
			{Name: "Amount.Add"},
			{Name: "Amount.Subtract"},
			{Name: "Amount.Multiply"},
			{Name: "Amount.Divide"},
			{Name: "Amount.Split"},
			{Name: "rescaleAmountPair"},
			{Name: "Amount.Compare"},
			{Name: "Amount.Equals"},
			{Name: "Amount.RescaleUp"},
			{Name: "Amount.RescaleDown"},
			{Name: "Amount.RescaleRange"},
			{Name: "Amount.MatchPrecision"},
			{Name: "Amount.Upscale"},
			{Name: "Amount.Downscale"},
			{Name: "Amount.Remove"},
			{Name: "Amount.Invert"},
			{Name: "Amount.Negate"},
			{Name: "Amount.Value"},
			{Name: "Amount.Exp"},
			{Name: "Amount.IsZero"},
			{Name: "Amount.IsNegative"},
			{Name: "Amount.IsPositive"},
			{Name: "Amount.Abs"},
			{Name: "Amount.Float64"},
			{Name: "MakePercentage"},
			{Name: "PercentageFromAmount"},
			{Name: "Percentage.Value"},
			{Name: "Percentage.Exp"},
			{Name: "Percentage.Base"},
			{Name: "Percentage.Amount"},
			{Name: "Percentage.Rescale"},
			{Name: "Percentage.Of"},
			{Name: "Percentage.From"},
			{Name: "Percentage.Factor"},
			{Name: "Percentage.Equals"},
			{Name: "Percentage.Compare"},
			{Name: "Percentage.IsZero"},
			{Name: "Percentage.IsPositive"},
			{Name: "Percentage.IsNegative"},
			{Name: "Percentage.Invert"},
			{Name: "Percentage.Negate"},
			{Name: "ThresholdRule.compare"},
		},
		Vars: []string{"factor1", "AmountZero", "PercentageZero"},
	}
}

func init() {
	register(func() (string, string, error) {
		name := "NumSrc"
		cfg := numSrcConfig()
		text, err := G2LRun(cfg)
		if err != nil {
			// never keep a stale translation: the obligations of Props/C05 must fail
			text = "/- REGENERATED — the num package could not be loaded: " + g2lComment(g2lOneLine(err.Error())) + " -/\nnamespace " + cfg.Namespace +
				"\ndef untranslated : List String := [\"*\"]\nend " + cfg.Namespace + "\n"
		}
		return name, text, nil
	})
}
