package main

// go2lean, EFFECTS (task B12): functions that are called for what they write.
// See go2lean_inout.go for the in-out parameters this file builds on.
//
//   * CONTEXT PARAMETERS (G2LConfig.Context): extra leading parameters of every
//     emitted definition, handed on unchanged at every call of a translated
//     function; primitives may mention them (`o.mul {0} {1}`).  They stand for
//     what the Go code reads from outside the package (here: the arithmetic of
//     num.Amount as the `Ops` record of Model/Calc.lean, the currency table as a
//     function from codes to subunits).
//   * FUNCTIONS WITHOUT RESULT that have in-out parameters return those
//     parameters (`func (t *T) reset(z A)` becomes `reset (t : T) (z : A) : T`);
//     a bare `return` and the end of the body return their current values.
//   * IN-OUT SLICES: a parameter of a nil-free slice type (`[]*T`, listed in
//     NonNilElems) may be named in G2LFunc.InOut: it is a `List T` that the
//     function also returns.  The slice header itself is never written in the
//     subset (no append, no element assignment): only its pointees change.
//   * IN-OUT POINTERS THAT ARE NIL-TESTED stay `Option T` (a parameter whose
//     only uses besides dereferences are comparisons with nil); `p.f = v`
//     becomes `p := some { p.get! with f := v }`.
//   * EFFECT LOOPS `for i, x := range xs { … x.f = v … }` over a nil-free slice
//     that is reachable from an in-out parameter (the parameter itself, or a
//     field path from one, or from the variable of an enclosing effect loop):
//     the loop rebuilds the list — `let mut acc := []; for it in xs do let mut
//     x := it; …; acc := acc ++ [x]` — and stores it back (`xs := acc`).  Such a
//     loop must not contain break, continue or return, and its body must not
//     mention the variable the slice hangs from (it would see the old list).  What this assumes: the
//     pointees of one slice are pairwise distinct objects (a slice that lists
//     the same pointer twice would see the first write again at the second
//     visit in Go, not here), and nobody else holds them.  Every such loop is
//     listed in `effectLoops`.
//   * WRITES THROUGH POINTER FIELDS `p.q.f = v` (q a pointer field of a place
//     reachable from an in-out parameter) → `p := { p with q := some { p.q.get!
//     with f := v } }`, and `*p.q = v` → `p := { p with q := some v }`: the
//     pointee is updated in place in Go, replaced by an equal value here (no
//     identity).  Other holders of the same pointee are not modelled; every
//     site is listed in `ptrWrites`.
//   * WRITES TO FIELDS LEFT OUT ON PURPOSE (mapped to "-" in G2LStruct.Fields)
//     are dropped: the Lean representation has no such field, and a read of it
//     makes the function untranslated.  Every site is listed in `droppedWrites`.
//   * CALLS OF FUNCTIONS WITH IN-OUT PARAMETERS are allowed as statements
//     (`f(x)`, `r = f(x)`, `r := f(x)`, also as the init statement of an if):
//     the arguments in in-out position must be places reachable from an in-out
//     parameter or an effect-loop variable; the call becomes `let t := f …` and
//     the returned values are stored back into those places.  Listed in
//     `inOutCalls`.
//   * `&x` of a local that IS assigned after its declaration is `some x` when
//     every assignment to x precedes the `&x` in the source and, inside a loop,
//     x is declared in the same loop body (so nothing can change the pointee
//     afterwards).  Listed in `addrOfAssigned`.
//
// OPT-IN: all of this is ON only for a configuration with `Effects: true`
// (effectsOn below).  Every hook in the shared files — initEff, assignEff,
// rangeEff, stmtEff, the bare return and the result type of a function without
// result, the in-out slices and nil-tested in-out pointers of initInOut,
// addrSafe, headerEff, emitEffFacts — is behind it, directly or through
// `f.eff == nil`; go2lean_own.go (Own) covers some of the same Go forms in
// another way and the two never run together.

import (
	"fmt"
	"go/ast"
	"go/token"
	"go/types"
	"strings"
)

// g2lEffFn is the per-function state of this file.
type g2lEffFn struct {
	through map[types.Object]bool // pointer / slice variables the body writes through
	roots   map[types.Object]bool // variables of the effect loops that are open now
	errVars map[types.Object]bool // go2lean_errfn.go: the `err` of `if err := f(…); err != nil` while its body is translated
}

// g2lEffFacts is the per-run bookkeeping of this file (a field of g2lExt would
// do as well; kept here so that go2lean_ptr.go stays as it is).
type g2lEffFacts struct {
	loops, ptrWrites, dropped, calls, addrs [][2]string
}

var g2lEffOf = map[*g2l]*g2lEffFacts{}

func (g *g2l) effFacts() *g2lEffFacts {
	if e, ok := g2lEffOf[g]; ok {
		return e
	}
	e := &g2lEffFacts{}
	g2lEffOf[g] = e
	return e
}

func (f *g2lFn) note(list *[][2]string, what string) {
	if f.fuelChk {
		return
	}
	for _, p := range *list {
		if p[0] == f.key && p[1] == what {
			return
		}
	}
	*list = append(*list, [2]string{f.key, what})
}

// effectsOn: does the configuration ask for this file?
func (g *g2l) effectsOn() bool { return g.cfg.Effects }

// ---------------------------------------------------------------- context parameters

func (g *g2l) ctxParams() []string {
	var out []string
	for _, c := range g.cfg.Context {
		out = append(out, fmt.Sprintf("(%s : %s)", c[0], c[1]))
	}
	return out
}

// callHead: the Lean name of a translated function followed by the context arguments.
func (g *g2l) callHead(key string) string {
	parts := []string{g.unitLeanName(key)}
	for _, c := range g.cfg.Context {
		parts = append(parts, c[0])
	}
	return strings.Join(parts, " ")
}

// ---------------------------------------------------------------- analysis of one function

// rootOf strips selectors, stars, parentheses (and, when idx is set, indexes) off
// an assignable expression and returns the variable at its root.
func (f *g2lFn) rootOf(e ast.Expr, idx bool) *types.Var {
	for {
		switch x := ast.Unparen(e).(type) {
		case *ast.SelectorExpr:
			if sel := f.g.info.Selections[x]; sel == nil || sel.Kind() != types.FieldVal {
				return nil
			}
			e = x.X
			continue
		case *ast.StarExpr:
			e = x.X
			continue
		case *ast.IndexExpr:
			if !idx {
				return nil
			}
			e = x.X
			continue
		case *ast.Ident:
			o, _ := f.g.info.Uses[x].(*types.Var)
			return o
		}
		return nil
	}
}

// inOutCallee: is c a call of a function of this package that has in-out parameters?
func (f *g2lFn) inOutCallee(c *ast.CallExpr) (*types.Func, string, []string) {
	if tv, ok := f.g.info.Types[c.Fun]; ok && (tv.IsType() || tv.IsBuiltin()) {
		return nil, "", nil
	}
	fn := f.funcOfCall(c)
	if fn == nil {
		return nil, "", nil
	}
	key, local := f.calleeKey(fn)
	if key == "" || !local {
		return nil, "", nil
	}
	if _, isPrim := f.g.cfg.Prims[key]; isPrim {
		return nil, "", nil
	}
	io := f.g.inOutFor(key)
	if len(io) == 0 {
		return nil, "", nil
	}
	return fn, key, io
}

// inOutArgs pairs the in-out parameter names of a callee with the argument expressions of the call.
func (f *g2lFn) inOutArgs(c *ast.CallExpr, fn *types.Func, io []string) []ast.Expr {
	sig := fn.Type().(*types.Signature)
	out := make([]ast.Expr, len(io))
	for k, name := range io {
		if r := sig.Recv(); r != nil && r.Name() == name {
			if se, ok := ast.Unparen(c.Fun).(*ast.SelectorExpr); ok {
				out[k] = se.X
			}
			continue
		}
		for i := 0; i < sig.Params().Len() && i < len(c.Args); i++ {
			if sig.Params().At(i).Name() == name {
				out[k] = c.Args[i]
			}
		}
	}
	return out
}

// initEff finds the variables the body writes through (directly, or by handing
// them to a function with in-out parameters) and marks them as mutated.
func (f *g2lFn) initEff(fd *ast.FuncDecl) {
	if !f.g.effectsOn() {
		return // f.eff stays nil: effPlace, assignEff, rangeEff, stmtEff are off
	}
	f.eff = &g2lEffFn{through: map[types.Object]bool{}, roots: map[types.Object]bool{}, errVars: map[types.Object]bool{}}
	mark := func(e ast.Expr) {
		if id, ok := ast.Unparen(e).(*ast.Ident); ok {
			_ = id
			return // a plain variable assignment: the base translator's business
		}
		if o := f.rootOf(e, true); o != nil {
			f.eff.through[o] = true
			f.mutated[o] = true
		}
	}
	ast.Inspect(fd.Body, func(n ast.Node) bool {
		switch x := n.(type) {
		case *ast.AssignStmt:
			for _, l := range x.Lhs {
				mark(l)
			}
		case *ast.IncDecStmt:
			mark(x.X)
		case *ast.CallExpr:
			if se, ok := ast.Unparen(x.Fun).(*ast.SelectorExpr); ok && len(f.g.cfg.EffPrims) > 0 {
				if fn := f.funcOfCall(x); fn != nil {
					if key, _ := f.calleeKey(fn); f.g.cfg.EffPrims[key] != "" {
						if o := f.rootOf(se.X, false); o != nil {
							f.eff.through[o] = true
							f.mutated[o] = true
						}
					}
				}
			}
			if fn, _, io := f.inOutCallee(x); fn != nil {
				for _, a := range f.inOutArgs(x, fn, io) {
					if a == nil {
						continue
					}
					if o := f.rootOf(a, false); o != nil {
						f.eff.through[o] = true
						f.mutated[o] = true
					}
				}
			}
		}
		return true
	})
}

// effPlace: is e a place the translation can store into — a path of fields
// (through pointers too) from an in-out parameter or an open effect-loop variable?
func (f *g2lFn) effPlace(e ast.Expr) bool {
	if f.eff == nil {
		return false
	}
	o := f.rootOf(e, false)
	if o == nil {
		return false
	}
	if f.eff.roots[o] {
		return true
	}
	for _, v := range f.inOut {
		if v == o {
			return true
		}
	}
	return false
}

// onlyNilTested: every use of the pointer parameter v in the body of fn either
// dereferences it or compares it with nil.
func (g *g2l) onlyNilTested(fn *types.Func, v *types.Var) bool {
	fd := g.funcDeclOf(fn)
	if fd == nil || fd.Body == nil {
		return false
	}
	ok := true
	var stack []ast.Node
	ast.Inspect(fd.Body, func(n ast.Node) bool {
		if n == nil {
			stack = stack[:len(stack)-1]
			return true
		}
		stack = append(stack, n)
		id, isId := n.(*ast.Ident)
		if !isId || g.info.Uses[id] != v {
			return true
		}
		if g.derefUse(stack) {
			return true
		}
		k := len(stack) - 2
		for k >= 0 {
			if _, isPar := stack[k].(*ast.ParenExpr); !isPar {
				break
			}
			k--
		}
		if k >= 0 {
			if b, isBin := stack[k].(*ast.BinaryExpr); isBin && (b.Op == token.EQL || b.Op == token.NEQ) {
				isNil := func(e ast.Expr) bool {
					i, ok := ast.Unparen(e).(*ast.Ident)
					if !ok {
						return false
					}
					_, ok = g.info.Uses[i].(*types.Nil)
					return ok
				}
				if isNil(b.X) || isNil(b.Y) {
					return true
				}
			}
		}
		ok = false
		return true
	})
	return ok
}

// ---------------------------------------------------------------- stores

// storePtr stores val into the pointer-typed place e; val is the pointee
// (isPointee) or an Option.
func (f *g2lFn) storePtr(e ast.Expr, val string, isPointee bool, ind int) []string {
	v := val
	switch {
	case f.ptrVal(e) && !isPointee:
		v = g2lPar(val) + ".get!"
	case !f.ptrVal(e) && isPointee:
		v = "some " + g2lPar(val)
	}
	return f.assignTo(e, v, false, ind)
}

// assignEff: assignments the base translator refuses — `p.f = v` with p a
// pointer-typed place, `*p = v`.
func (f *g2lFn) assignEff(l ast.Expr, val string, ind int) ([]string, bool) {
	switch x := ast.Unparen(l).(type) {
	case *ast.StarExpr:
		if !g2lIsPtr(f.typeOf(x.X)) || !f.effPlace(x.X) {
			return nil, false
		}
		f.note(&f.g.effFacts().ptrWrites, f.src(l))
		return f.storePtr(x.X, val, true, ind), true
	case *ast.SelectorExpr:
		xt := f.typeOf(x.X)
		if !g2lIsPtr(xt) || !f.effPlace(x.X) {
			return nil, false
		}
		n := f.namedOf(xt)
		sel := f.g.info.Selections[x]
		if n == nil || sel == nil || sel.Kind() != types.FieldVal || len(sel.Index()) != 1 {
			return nil, false
		}
		fs, sm, err := f.g.structFields(n)
		if err != nil {
			f.fail("%v", err)
		}
		if sm.Fields[x.Sel.Name] == "-" {
			f.note(&f.g.effFacts().dropped, f.src(l))
			return nil, true
		}
		lean := ""
		for _, fd := range fs {
			if fd.goName == x.Sel.Name {
				lean = fd.leanName
				if fd.leanType == "" {
					f.fail("field %s.%s has a type outside the subset", f.g.typeKey(n), x.Sel.Name)
				}
			}
		}
		if lean == "" {
			return nil, false
		}
		if _, isId := ast.Unparen(x.X).(*ast.Ident); !isId {
			f.note(&f.g.effFacts().ptrWrites, f.src(l))
		}
		nv := fmt.Sprintf("{ %s with %s := %s }", f.asVal(x.X), lean, val)
		return f.storePtr(x.X, nv, true, ind), true
	}
	return nil, false
}

// ---------------------------------------------------------------- effect loops

func g2lHasReturn(list []ast.Stmt) bool {
	found := false
	for _, s := range list {
		ast.Inspect(s, func(n ast.Node) bool {
			switch n.(type) {
			case *ast.FuncLit:
				return false
			case *ast.ReturnStmt:
				found = true
			}
			return true
		})
	}
	return found
}

// rangeEff: `for i, x := range xs` whose body writes through x.
func (f *g2lFn) rangeEff(x *ast.RangeStmt, ind int) ([]string, bool) {
	if f.eff == nil || x.Tok != token.DEFINE || x.Value == nil {
		return nil, false
	}
	vid, ok := x.Value.(*ast.Ident)
	if !ok || vid.Name == "_" {
		return nil, false
	}
	v, _ := f.g.info.Defs[vid].(*types.Var)
	if v == nil || !f.eff.through[v] {
		return nil, false
	}
	t := f.typeOf(x.X)
	if !g2lIsPtr(v.Type()) || !f.g.nonNilSlice(t) {
		return nil, false
	}
	if !f.effPlace(x.X) {
		f.fail("the loop over `%s` writes through its elements, and `%s` is not reachable from an in-out parameter", f.src(x.X), f.src(x.X))
	}
	if g2lHasBranch(x.Body.List, token.BREAK) || g2lHasBranch(x.Body.List, token.CONTINUE) || f.hasPlainReturn(x.Body.List) { // go2lean_errfn.go: a throw is allowed
		f.fail("break, continue or return in the loop over `%s`, which writes through its elements", f.src(x.X))
	}
	// the body sees the slice as it was before the loop until the list is stored back:
	// it must not look at the variable the slice hangs from
	if root := f.rootOf(x.X, false); root != nil {
		for _, s := range x.Body.List {
			ast.Inspect(s, func(n ast.Node) bool {
				if id, ok := n.(*ast.Ident); ok && f.g.info.Uses[id] == root {
					f.fail("the body of the loop over `%s`, which writes through its elements, mentions `%s` (it would see the slice as it was before the loop)", f.src(x.X), id.Name)
				}
				return true
			})
		}
	}
	var k *types.Var
	if kid, ok := x.Key.(*ast.Ident); ok && kid.Name != "_" {
		k, _ = f.g.info.Defs[kid].(*types.Var)
	}
	f.note(&f.g.effFacts().loops, f.src(x.X))
	f.setVal(v)
	f.mutated[v] = true
	elemT := f.leanVar(v, v.Type())
	acc := f.fresh("acc")
	it := f.fresh("it")
	var out []string
	out = append(out, fmt.Sprintf("%slet mut %s : List %s := []", g2lInd(ind), acc, g2lPar(elemT)))
	if k == nil {
		out = append(out, fmt.Sprintf("%sfor %s in %s do", g2lInd(ind), it, f.expr(x.X)))
		out = append(out, f.letLine(ind+1, v, f.names[v], v.Type(), it))
	} else {
		out = append(out, fmt.Sprintf("%sfor %s in %s.zipIdx do", g2lInd(ind), it, g2lPar(f.expr(x.X))))
		out = append(out, f.letLine(ind+1, k, f.names[k], k.Type(), "("+it+".2 : Int)"))
		out = append(out, f.letLine(ind+1, v, f.names[v], v.Type(), it+".1"))
	}
	f.inLoop++
	sw := f.inSw
	f.inSw = 0
	f.eff.roots[v] = true
	for _, s := range x.Body.List {
		out = append(out, f.stmt(s, ind+1)...)
	}
	delete(f.eff.roots, v)
	f.inSw = sw
	f.inLoop--
	out = append(out, fmt.Sprintf("%s%s := %s ++ [%s]", g2lInd(ind+1), acc, acc, f.names[v]))
	out = append(out, f.assignTo(x.X, acc, false, ind)...)
	return out, true
}

// ---------------------------------------------------------------- calls of functions with in-out parameters

// stmtEff: `f(x)`, `r = f(x)`, `r := f(x)` with f a function with in-out parameters.
func (f *g2lFn) stmtEff(s ast.Stmt, ind int) ([]string, bool) {
	if f.eff == nil {
		return nil, false
	}
	if out, ok := f.ifErrCall(s, ind); ok { // go2lean_errfn.go: if err := f(…); err != nil { return E }
		return out, true
	}
	var c *ast.CallExpr
	var lhs []ast.Expr
	define := false
	switch x := s.(type) {
	case *ast.ExprStmt:
		c, _ = ast.Unparen(x.X).(*ast.CallExpr)
	case *ast.AssignStmt:
		if len(x.Rhs) == 1 && (x.Tok == token.ASSIGN || x.Tok == token.DEFINE) {
			c, _ = ast.Unparen(x.Rhs[0]).(*ast.CallExpr)
			lhs = x.Lhs
			define = x.Tok == token.DEFINE
		}
	}
	if c == nil {
		return nil, false
	}
	if out, ok := f.effPrimCall(s, c, ind); ok {
		return out, true
	}
	fn, key, io := f.inOutCallee(c)
	if fn == nil {
		return nil, false
	}
	sig := fn.Type().(*types.Signature)
	if sig.Variadic() || c.Ellipsis.IsValid() {
		f.fail("variadic call `%s`", f.src(c))
	}
	if len(lhs) != 0 && len(lhs) != sig.Results().Len() {
		f.fail("`%s`", f.src(s))
	}
	ioArgs := f.inOutArgs(c, fn, io)
	for k, a := range ioArgs {
		if a == nil {
			f.fail("in-out parameter `%s` of `%s` has no argument in `%s`", io[k], key, f.src(c))
		}
		if !f.effPlace(a) {
			f.fail("`%s` is handed to `%s`, which writes through it, and is not reachable from an in-out parameter", f.src(a), key)
		}
	}
	var args []string
	if sig.Recv() != nil {
		se, ok := ast.Unparen(c.Fun).(*ast.SelectorExpr)
		if !ok {
			f.fail("method expression `%s`", f.src(c))
		}
		sel := f.g.info.Selections[se]
		if sel == nil || sel.Kind() != types.MethodVal || len(sel.Index()) != 1 {
			f.fail("method call `%s`", f.src(c))
		}
		args = append(args, f.recvArg(c, se, sel, fn, false))
	}
	args = append(args, f.callArgs(fn, c.Args, false)...)
	f.dep(key)
	f.note(&f.g.effFacts().calls, f.src(c))
	t := f.fresh("t")
	out := []string{fmt.Sprintf("%slet %s := %s", g2lInd(ind), t, strings.Join(append([]string{f.g.callHead(key)}, args...), " "))}
	nres := sig.Results().Len()
	n := nres + len(io)
	proj := func(i int) string {
		if n == 1 {
			return t
		}
		return g2lProj(t, i, n)
	}
	for i, l := range lhs {
		out = append(out, f.assignTo(l, proj(i), define, ind)...)
	}
	for k, a := range ioArgs {
		val := proj(nres + k)
		if g2lIsPtr(f.typeOf(a)) {
			idx := -1
			if r := sig.Recv(); r == nil || r.Name() != io[k] {
				for i := 0; i < sig.Params().Len(); i++ {
					if sig.Params().At(i).Name() == io[k] {
						idx = i
					}
				}
			}
			out = append(out, f.storePtr(a, val, f.g.paramIsVal(fn, idx), ind)...)
		} else {
			out = append(out, f.assignTo(a, val, false, ind)...)
		}
	}
	return out, true
}

// effPrimCall: the statement `x.M(a…)` with M an effect primitive of the
// configuration (a method of another package that writes through its receiver).
func (f *g2lFn) effPrimCall(s ast.Stmt, c *ast.CallExpr, ind int) ([]string, bool) {
	if _, isExpr := s.(*ast.ExprStmt); !isExpr || len(f.g.cfg.EffPrims) == 0 {
		return nil, false
	}
	if tv, ok := f.g.info.Types[c.Fun]; ok && (tv.IsType() || tv.IsBuiltin()) {
		return nil, false
	}
	fn := f.funcOfCall(c)
	if fn == nil {
		return nil, false
	}
	key, _ := f.calleeKey(fn)
	tmpl, ok := f.g.cfg.EffPrims[key]
	if !ok {
		return nil, false
	}
	sig := fn.Type().(*types.Signature)
	se, isSel := ast.Unparen(c.Fun).(*ast.SelectorExpr)
	if sig.Recv() == nil || !isSel || !g2lIsPtr(sig.Recv().Type()) || !g2lIsPtr(f.typeOf(se.X)) || sig.Variadic() || sig.Results().Len() != 0 {
		f.fail("effect primitive `%s` in `%s` (a method without result called on a pointer)", key, f.src(c))
	}
	if sel := f.g.info.Selections[se]; sel == nil || sel.Kind() != types.MethodVal || len(sel.Index()) != 1 {
		f.fail("method call `%s`", f.src(c))
	}
	if !f.effPlace(se.X) {
		f.fail("`%s` is handed to `%s`, which writes through it, and is not reachable from an in-out parameter", f.src(se.X), key)
	}
	args := append([]string{g2lPar(f.asVal(se.X))}, f.callArgs(fn, c.Args, true)...)
	f.note(&f.g.effFacts().calls, f.src(c))
	return f.storePtr(se.X, g2lTemplate(tmpl, args), true, ind), true
}

// ---------------------------------------------------------------- &x of an assigned local

// addrSafe: every write to the local o precedes the `&o` at x, and inside a
// loop o is declared in the body of the innermost loop around x.
func (f *g2lFn) addrSafe(x *ast.UnaryExpr, o *types.Var) bool {
	fd := f.g.findFunc(f.key)
	if fd == nil || fd.Body == nil {
		return false
	}
	ok := true
	var loops []ast.Node
	var stack []ast.Node
	// go2lean_errfn.go: the innermost block around x ends in a return — nothing beyond it is reached after x
	var limFrom, limTo token.Pos
	ast.Inspect(fd.Body, func(n ast.Node) bool {
		if n == nil {
			stack = stack[:len(stack)-1]
			return true
		}
		stack = append(stack, n)
		if n == ast.Node(x) {
			limFrom, limTo = f.addrSafeLimit(stack)
		}
		return true
	})
	stack = nil
	ast.Inspect(fd.Body, func(n ast.Node) bool {
		if n == nil {
			stack = stack[:len(stack)-1]
			return true
		}
		stack = append(stack, n)
		written := func(e ast.Expr) {
			if r := f.rootOf(e, true); r == o && e.Pos() > x.Pos() && (limTo == 0 || e.Pos() < limTo) {
				ok = false
			}
		}
		switch y := n.(type) {
		case *ast.AssignStmt:
			for _, l := range y.Lhs {
				if id, isId := l.(*ast.Ident); isId && y.Tok == token.DEFINE && f.g.info.Defs[id] != nil {
					continue
				}
				written(l)
			}
		case *ast.IncDecStmt:
			written(y.X)
		case *ast.UnaryExpr:
			if y == x {
				for _, s := range stack {
					switch s.(type) {
					case *ast.ForStmt, *ast.RangeStmt:
						loops = append(loops, s)
					}
				}
			}
		}
		return true
	})
	if len(loops) > 0 {
		in := loops[len(loops)-1]
		if (o.Pos() < in.Pos() || o.Pos() > in.End()) && !(limTo != 0 && limFrom > in.Pos()) {
			ok = false
		}
	}
	if ok {
		f.note(&f.g.effFacts().addrs, f.src(x))
	}
	return ok
}

// ---------------------------------------------------------------- header and facts

func (g *g2l) effOn() bool {
	if !g.effectsOn() {
		return false
	}
	if len(g.cfg.Context) > 0 {
		return true
	}
	e := g.effFacts()
	return len(e.loops)+len(e.ptrWrites)+len(e.dropped)+len(e.calls)+len(e.addrs) > 0
}

func (g *g2l) headerEff() string {
	if !g.effOn() {
		return ""
	}
	return "  Effects (go2lean_effects.go):\n" +
		"  * every definition takes the context parameters of the configuration first\n" +
		"    (contextParams) and hands them on unchanged; primitives may mention them.\n" +
		"  * a function without result returns its in-out parameters; an in-out slice\n" +
		"    []*T is a List T that is returned; a nil-tested in-out pointer stays an Option.\n" +
		"  * a loop over a nil-free slice that writes through its elements rebuilds the\n" +
		"    list and stores it back (effectLoops): the pointees of one slice are taken to\n" +
		"    be distinct objects that nobody else holds.\n" +
		"  * p.q.f = v and *p.q = v through a pointer field replace the pointee by an equal\n" +
		"    value (ptrWrites: other holders are not modelled); writes to fields the\n" +
		"    configuration leaves out on purpose are dropped (droppedWrites).\n" +
		"  * calls of functions with in-out parameters are statements whose results are\n" +
		"    stored back into the argument places (inOutCalls).\n" +
		"  * &x of a local assigned only before that point is some x (addrOfAssigned).\n" +
		g.headerErr() // go2lean_errfn.go
}

func (g *g2l) emitEffFacts(w func(string, ...any), okUnits map[string]bool) {
	if !g.effOn() {
		return
	}
	e := g.effFacts()
	pairs := func(name, doc string, xs [][2]string) {
		w("/-- %s -/\ndef %s : List (String × String) := [", doc, name)
		first := true
		for _, p := range xs {
			if !okUnits[p[0]] {
				continue
			}
			if !first {
				w(", ")
			}
			first = false
			w("(%s, %s)", leanStr(p[0]), leanStr(p[1]))
		}
		w("]\n\n")
	}
	w("/-- effect primitives: methods of other packages that write through their receiver (key, new value of the pointee) -/\ndef effectPrimitives : List (String × String) := [")
	for i, k := range sortedKeys(g.cfg.EffPrims) {
		if i > 0 {
			w(", ")
		}
		w("(%s, %s)", leanStr(k), leanStr(g.cfg.EffPrims[k]))
	}
	w("]\n\n")
	w("/-- the context parameters every definition takes first (name, type) -/\ndef contextParams : List (String × String) := [")
	for i, c := range g.cfg.Context {
		if i > 0 {
			w(", ")
		}
		w("(%s, %s)", leanStr(c[0]), leanStr(c[1]))
	}
	w("]\n\n")
	pairs("effectLoops", "loops that write through the elements of a nil-free slice and rebuild it (function, slice): distinct pointees, no other holder", e.loops)
	pairs("ptrWrites", "writes through a pointer field or a dereference (function, target): the pointee is replaced by an equal value", e.ptrWrites)
	pairs("droppedWrites", "writes to fields the configuration leaves out of the Lean structure (function, target)", e.dropped)
	pairs("inOutCalls", "calls of functions with in-out parameters, results stored back (function, call)", e.calls)
	pairs("addrOfAssigned", "`&x` of a local whose assignments all precede it (function, expression)", e.addrs)
	g.emitErrFacts(w, okUnits) // go2lean_errfn.go
	delete(g2lEffOf, g)
}
