package main

// go2lean, maps that are only READ (task B5; enabled by G2LConfig.Maps).
//
//   map[K]V            → List (K × V): an association list with distinct keys
//                         (the invariant of a Go map; nil = empty = [])
//   len(m)             → m.length
//   m[k]               → (List.lookup k m).getD zero
//   v, ok := m[k]      → the same lookup, `ok` = isSome
//   for k, v := range m → iteration in LIST order.  Go leaves the order
//                         unspecified: every such loop is listed in `mapRanges`
//                         and Props must show the function independent of the
//                         order of the list (for lists with distinct keys).
//   m[k] = v, make, m == nil → go2lean_inout.go; delete → not translated.

import (
	"fmt"
	"go/ast"
	"go/types"
	"strings"
)

func g2lMapOf(t types.Type) *types.Map {
	if t == nil {
		return nil
	}
	m, _ := types.Unalias(t).Underlying().(*types.Map)
	return m
}

// leanMap gives the Lean type of a map type (when maps are enabled).
func (g *g2l) leanMap(m *types.Map) (string, error) {
	if !g.cfg.Maps {
		return "", fmt.Errorf("type %s is outside the subset (maps are not enabled in this configuration)", g.typeKey(m))
	}
	k, err := g.leanType(m.Key())
	if err != nil {
		return "", err
	}
	switch g2lKindOf(m.Key()) {
	case kInt, kUint, kBool, kString:
	default:
		return "", fmt.Errorf("map key type %s (only integers, booleans and strings)", g.typeKey(m.Key()))
	}
	v, err := g.leanType(m.Elem())
	if err != nil {
		return "", err
	}
	return "List (" + g2lPar(k) + " × " + g2lPar(v) + ")", nil
}

func (f *g2lFn) mapLookup(x *ast.IndexExpr) string {
	return "List.lookup " + g2lPar(f.expr(x.Index)) + " " + g2lPar(f.expr(x.X))
}

// indexOther: m[k] as a single value.
func (f *g2lFn) indexOther(x *ast.IndexExpr, t types.Type) (string, bool) {
	m := g2lMapOf(t)
	if m == nil || !f.g.cfg.Maps {
		return "", false
	}
	z, err := f.g.zero(m.Elem())
	if err != nil {
		f.fail("%v", err)
	}
	return "(" + f.mapLookup(x) + ").getD " + g2lPar(z), true
}

// lenOther: len of something that is not a slice or an array.
func (f *g2lFn) lenOther(arg ast.Expr, t types.Type) (string, bool) {
	if g2lMapOf(t) != nil && f.g.cfg.Maps {
		return "(" + g2lPar(f.expr(arg)) + ".length : Int)", true
	}
	return "", false
}

// commaOk: `v, ok := m[k]` and `v, ok = m[k]`.
func (f *g2lFn) commaOk(x *ast.AssignStmt, define bool, ind int) ([]string, bool) {
	if len(x.Lhs) != 2 || len(x.Rhs) != 1 {
		return nil, false
	}
	ix, ok := ast.Unparen(x.Rhs[0]).(*ast.IndexExpr)
	if !ok {
		return nil, false
	}
	tv, ok := f.g.info.Types[ix.X]
	if !ok || tv.Type == nil {
		return nil, false
	}
	m := g2lMapOf(tv.Type)
	if m == nil || !f.g.cfg.Maps {
		return nil, false
	}
	z, err := f.g.zero(m.Elem())
	if err != nil {
		f.fail("%v", err)
	}
	t := f.fresh("t")
	out := []string{fmt.Sprintf("%slet %s : Option %s := %s", g2lInd(ind), t, g2lPar(f.lean(m.Elem())), f.mapLookup(ix))}
	out = append(out, f.assignTo(x.Lhs[0], t+".getD "+g2lPar(z), define, ind)...)
	out = append(out, f.assignTo(x.Lhs[1], t+".isSome", define, ind)...)
	return out, true
}

// rangeOther: range over something that is not a list or an integer.
func (f *g2lFn) rangeOther(x *ast.RangeStmt, t types.Type, k, v *types.Var, ind int) (out, head []string) {
	m := g2lMapOf(t)
	if m == nil || !f.g.cfg.Maps {
		f.fail("range over %s", f.g.typeKey(t))
	}
	if !f.fuelChk {
		f.g.noteMapRange(f.key, f.src(x.X))
	}
	it := f.fresh("it")
	out = append(out, fmt.Sprintf("%sfor %s in %s do", g2lInd(ind), it, f.expr(x.X)))
	if k != nil {
		head = append(head, f.letLine(ind+1, k, f.names[k], k.Type(), it+".1"))
	}
	if v != nil {
		head = append(head, f.letLine(ind+1, v, f.names[v], v.Type(), it+".2"))
	}
	return out, head
}

// zeroOther: zero values the base translator does not know.
func (g *g2l) zeroOther(t types.Type, lt string) (string, bool) {
	if g2lMapOf(t) != nil && g.cfg.Maps {
		return "([] : " + lt + ")", true
	}
	if _, isIface := types.Unalias(t).Underlying().(*types.Interface); isIface && strings.HasPrefix(lt, "Option ") {
		return "(none : " + lt + ")", true // nil of an interface type configured as an Option
	}
	return "", false
}
