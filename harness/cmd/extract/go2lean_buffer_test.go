package main

import (
	"os"
	"path/filepath"
	"strings"
	"testing"
)

// The byte mode must refuse every slice use that could share a backing array
// and every bytes.Buffer use beyond the statement forms of its header.
const g2lBufferFixture = `package buf

import "bytes"

// translated: b is owned (fresh, re-derived from itself only)
func Owned(s string) []byte {
	b := []byte(s)
	b = append(b[:1], b[2:]...)
	rest := append([]byte("x"), b...)
	b = append(b, rest...)
	return b
}

// refused: c aliases b, and append(b[:1], …) writes into the array c reads
func Aliased(s string) []byte {
	b := []byte(s)
	c := b[1:]
	b = append(b[:1], 'x')
	return append(c, b...)
}

// refused: the result of append on a slice of b goes to another variable
func Escapes(s string) []byte {
	b := []byte(s)
	c := append(b[:1], "y"...)
	return append(c, b...)
}

// refused: the destination of copy is a parameter
func CopyParam(dst []byte, s string) int {
	copy(dst, s)
	return len(dst)
}

// translated
func Buffered(s string) []byte {
	var buf bytes.Buffer
	buf.WriteByte('<')
	buf.WriteString(s)
	buf.WriteByte('>')
	return buf.Bytes()
}

// refused: Bytes() outside a return statement (later writes would be seen through it)
func BufferLeak(s string) []byte {
	var buf bytes.Buffer
	buf.WriteString(s)
	b := buf.Bytes()
	buf.WriteByte('!')
	return b
}

// translated: post statement before continue
func CountNonSpace(s string) int {
	n := 0
	for i := 0; i < len(s); i++ {
		if s[i] == ' ' {
			continue
		}
		n++
	}
	return n
}
`

func TestGo2LeanByteMode(t *testing.T) {
	root := t.TempDir()
	if err := os.MkdirAll(filepath.Join(root, "buf"), 0o755); err != nil {
		t.Fatal(err)
	}
	if err := os.WriteFile(filepath.Join(root, "buf", "buf.go"), []byte(g2lBufferFixture), 0o644); err != nil {
		t.Fatal(err)
	}
	cfg := &G2LConfig{
		Repo: root, Module: "example.test/b", Pkg: "buf", Namespace: "GoblVerif.Generated.BufSrc", Title: "fixture",
		Basic: map[string]string{"string": g2lBytesTy, "untyped string": g2lBytesTy, "byte": "Nat", "rune": "Int"},
		Named: map[string]string{"bytes.Buffer": g2lBytesTy},
		Stubs: map[string]string{"bytes": c14nStubBytes},
		Funcs: []G2LFunc{{Name: "Owned"}, {Name: "Aliased"}, {Name: "Escapes"}, {Name: "CopyParam"}, {Name: "Buffered"},
			{Name: "BufferLeak"}, {Name: "CountNonSpace", Fuel: []string{"s.length"}}},
	}
	got, err := G2LRun(cfg)
	if err != nil {
		t.Fatal(err)
	}
	for _, want := range []string{
		`def untranslated : List String := ["Aliased", "Escapes", "CopyParam", "BufferLeak"]`,
		`def translated : List String := ["Owned", "Buffered", "CountNonSpace"]`,
		"b := (List.take 1 b) ++ (List.drop 2 b)",
		"buf := buf ++ [(60 : Nat)]",
		"      i := i + (1 : Int)\n      continue",
	} {
		if !strings.Contains(got, want) {
			t.Errorf("missing %q in\n%s", want, got)
		}
	}
}
