package main

// C14nSrc (C07, and through it C06, C08): the WRITERS and the encoding check of
// /repo/c14n (models.go, tables.go, c14n.go) TRANSLATED to Lean by go2lean in
// its byte mode (go2lean_buffer.go) on every run.  Props/C07.lean (namespace
// Src) proves every definition equal to the hand-written model of
// Model/C14n.lean, so the theorems of C07 are re-checked against what the code
// says now; what the subset does not reach is listed in `untranslated`, which
// Props pins.
//
// What is translated: encodeString (with safeSet and hex), String / Integer /
// Float / Bool / Null .MarshalJSON, Attribute / Array / Object .MarshalJSON (one
// level deep: a Canonicalable is what its MarshalJSON returns), Object.Sort
// (the comparator and the call of sort.SliceStable), checkEncoding,
// escapedUnit.  The reader (handleNextToken & co.) works on a *json.Decoder
// and stays on the pins of Generated/C14nFacts.lean.

const c14nSrcNS = "GoblVerif.Generated.C14nSrc"

const c14nStubBytes = `package bytes
type Buffer struct{}
func (b *Buffer) WriteByte(c byte) error
func (b *Buffer) Write(p []byte) (int, error)
func (b *Buffer) WriteString(s string) (int, error)
func (b *Buffer) Bytes() []byte
func IndexByte(b []byte, c byte) int
type Reader struct{}
func NewReader(b []byte) *Reader
func (r *Reader) Read(p []byte) (int, error)
`
const c14nStubReflect = `package reflect
type Value struct{}
func ValueOf(i any) Value
`
const c14nStubJSON = `package json
import "reflect"
type UnsupportedValueError struct {
	Value reflect.Value
	Str   string
}
func (e *UnsupportedValueError) Error() string
`
const c14nStubFmt = `package fmt
func Sprintf(format string, a ...any) string
func Errorf(format string, a ...any) error
`
const c14nStubErrors = `package errors
func New(text string) error
`
const c14nStubStrconv = `package strconv
func FormatInt(i int64, base int) string
func AppendFloat(dst []byte, f float64, fmt byte, prec, bitSize int) []byte
`
const c14nStubSort = `package sort
func SliceStable(x any, less func(i, j int) bool)
`
const c14nStubUnicode = `package unicode
const ReplacementChar = '�'
`
const c14nStubUTF16 = `package utf16
func IsSurrogate(r rune) bool
func DecodeRune(r1, r2 rune) rune
`
const c14nStubUTF8 = `package utf8
const (
	RuneError = '�'
	RuneSelf  = 0x80
)
func Valid(p []byte) bool
func DecodeRuneInString(s string) (rune, int)
`

func c14nSrcConfig() *G2LConfig {
	return &G2LConfig{
		Repo:      *repo,
		Module:    "github.com/invopop/gobl",
		Pkg:       "c14n",
		Tags:      []string{"verif"},
		Namespace: c14nSrcNS,
		Title:     "C14nSrc: the writers and the encoding check of /repo/c14n (models.go, tables.go, c14n.go) translated from Go.\n\n" + G2LBytesHeader,
		Imports:   []string{"GoblVerif.Model.GoBytes", "GoblVerif.Model.C14n"},
		Basic:     map[string]string{"string": g2lBytesTy, "untyped string": g2lBytesTy, "byte": "Nat", "rune": "Int"},
		Named: map[string]string{
			"error":         "GoblVerif.GoBytes.Err",
			"Float":         g2lBytesTy,
			"Canonicalable": "GoblVerif.GoBytes.Canon",
			"bytes.Buffer":  g2lBytesTy,
		},
		Structs: map[string]G2LStruct{
			"Null":      {Lean: "Null", Emit: true, Deriving: []string{"Repr", "Inhabited"}},
			"Attribute": {Lean: "Attribute", Emit: true, Deriving: []string{"Repr", "Inhabited"}},
			"Object":    {Lean: "Object", Emit: true, Deriving: []string{"Repr", "Inhabited"}},
			"Array":     {Lean: "Array_", Emit: true, Deriving: []string{"Repr", "Inhabited"}},
		},
		NonNilElems: []string{"[]*Attribute"},
		Prims: map[string]string{
			"errors.New":                  "GoblVerif.GoStr.errNew {0:lit}",
			"utf8.Valid":                  "GoblVerif.C14n.utf8Valid {0}",
			"utf8.DecodeRuneInString":     "GoblVerif.GoBytes.decodeRune {0}",
			"utf16.IsSurrogate":           "GoblVerif.GoBytes.isSurrogate {0}",
			"utf16.DecodeRune":            "GoblVerif.GoBytes.decodeRune16 {0} {1}",
			"bytes.IndexByte":             "GoblVerif.GoBytes.indexByte {0} {1}",
			"strconv.FormatInt":           "GoblVerif.formatInt {0}",
			"strconv.AppendFloat":         "GoblVerif.GoBytes.appendFloat {0} {1} {2} {3} {4}",
			"Canonicalable.MarshalJSON":   "GoblVerif.GoBytes.Canon.out {0}",
			"Canonicalable.(Null)":        "((), GoblVerif.GoBytes.Canon.isNull {0})",
			"&json.UnsupportedValueError": "GoblVerif.GoStr.errNew \"json: unsupported value\"",
		},
		Stubs: map[string]string{
			"bytes": c14nStubBytes, "reflect": c14nStubReflect, "encoding/json": c14nStubJSON, "fmt": c14nStubFmt,
			"errors": c14nStubErrors, "strconv": c14nStubStrconv, "sort": c14nStubSort, "unicode": c14nStubUnicode,
			"unicode/utf16": c14nStubUTF16, "unicode/utf8": c14nStubUTF8,
		},
		Funcs: []G2LFunc{
			{Name: "escapedUnit"},
			{Name: "checkEncoding", Fuel: []string{"data.length"}},
			{Name: "encodeString", Fuel: []string{"s.length"}},
			{Name: "String.MarshalJSON"},
			{Name: "Integer.MarshalJSON"},
			{Name: "Bool.MarshalJSON"},
			{Name: "Null.MarshalJSON"},
			{Name: "Float.MarshalJSON"},
			{Name: "Attribute.MarshalJSON"},
			{Name: "Array.MarshalJSON"},
			{Name: "Object.MarshalJSON"},
			{Name: "Object.Sort", InOut: []string{"o"}},
		},
		Vars: []string{"hex", "safeSet"},
	}
}

func init() {
	register(func() (string, string, error) {
		name := "C14nSrc"
		cfg := c14nSrcConfig()
		text, err := G2LRun(cfg)
		if err != nil {
			// never keep a stale translation: the obligations of Props/C07 must fail
			text = "/- REGENERATED — the c14n package could not be loaded: " + g2lComment(g2lOneLine(err.Error())) + " -/\nnamespace " + cfg.Namespace +
				"\ndef untranslated : List String := [\"*\"]\nend " + cfg.Namespace + "\n"
		}
		return name, text, nil
	})
}
