package main

// go2lean: a translator from a SUBSET of Go to Lean 4 source text.
//
// It is a library of the extractor: an emitter (see numsrc.go) fills a
// G2LConfig — which functions of which package, how Go types map to Lean
// types, which calls are primitives — and calls G2LRun, which returns the text
// of one Lean module.  The text is deterministic (no map iteration order, no
// positions) and core Lean only.
//
// Parts: go2lean.go (configuration, loading, type mapping, emission),
// go2lean_expr.go (expressions), go2lean_stmt.go (statements and functions),
// go2lean_ptr.go (pointers that are only read, nil-free slices, promoted
// members, field primitives), go2lean_map.go (read-only maps),
// go2lean_inout.go (in-out parameters, map writes, primitives that swallow
// arguments); ratessrc.go / headersrc.go are configurations that use them.
// go2lean_string.go (strings as byte lists, error / interface{} as Options,
// map literals, make + element assignment, Sprintf, comma-ok pairs; ON only
// when Basic["string"] is set); taxidsrc.go is the configuration that uses it.
// OPT-IN EXTENSIONS, each ON only for the configurations that set its flag, so
// that a configuration is translated by exactly the translator it was written
// and proved against: go2lean_effects.go (Effects; billcalcsrc.go),
// go2lean_own.go (Own; taxtotalssrc.go), go2lean_env.go (G2LEnvRegister;
// envelopesrc.go, correctsrc.go), go2lean_buffer.go (byte mode: Basic["string"]
// = GoblVerif.GoBytes.Str; c14nsrc.go) — these four treat functions without
// result and writes in place differently and exclude each other —,
// go2lean_codec.go (Codec; codecsrc.go), go2lean_refs.go (G2LEnableRefs;
// refssrc.go).
//
// HOW TO USE IT FOR ANOTHER PACKAGE (numsrc.go is the worked example,
// testdata/g2l + go2lean_test.go the fixture for everything num does not need):
//   1. write `func xSrcConfig() *G2LConfig`: Pkg (directory under the repo),
//      Namespace/Imports of the output, Funcs ("Func" / "Recv.Method"; callees in
//      the same package are pulled in by themselves), Vars, Structs (Emit: true
//      to get a `structure` from the Go declaration, or Lean: "Existing.Name" to
//      map onto a hand-written one — fields of unmapped types are left out and
//      any use of them makes the function untranslated), Named for named
//      non-struct types (e.g. "cbc.Key": "String"), Prims for calls the
//      translator must not descend into ("pkg.Func", "Recv.Method",
//      "T(pkg.Func)" for a conversion applied to a call; {0}, {1} … are the
//      arguments, the receiver first), Stubs for the imported packages whose
//      signatures the type checker needs (imports below Module are read from
//      the repository itself, every other import is an empty package), and one
//      Fuel term per condition-controlled loop;
//   2. `register` an emitter returning G2LRun(cfg) as Generated/<X>Src.lean;
//   3. in Props prove `untranslated = []`, pin `struct_*` / `natSubs`, prove
//      `<fn>_fuelOK … = true` for every entry of `fuelChecks` and relate each
//      definition to the model (Proofs/GoSem.lean has the loop principles).
//
// TRUSTED SEMANTICS (repeated in the header of every generated file):
//   * signed integers (int, int8 … int64)  → Int, unbounded: no overflow;
//     `/` and `%` are Go's truncated division (Int.tdiv / Int.tmod);
//     division by zero panics in Go and yields 0 here;
//   * unsigned integers (uint … uint64)    → Nat, unbounded above, `-` is
//     TRUNCATED subtraction (Go wraps around): faithful only where the code
//     guards the subtraction; every such site is listed in `natSubs` with the
//     branch conditions that enclose it;
//   * float64 → Rat, holding values of the binary64 model Model/Float53.lean:
//     `float64(i)` = ofInt64 i, `x*y` = fmul, `x/y` = fdiv, `x±y` = rnd53 (x±y),
//     `int64(math.Round(v))` = goRound v, `int64(f)` = truncation; NaN, ±Inf
//     and −0 do not exist;
//   * structs → Lean structures (emitted, or mapped to existing ones; the
//     mapping is checked by a generated `example`), values copied on
//     assignment exactly as in Go (no aliasing: pointers into locals are
//     outside the subset);
//   * `*T` → Option T (nil = none), slices/arrays → List (an index out of
//     range panics in Go and yields `default` here);
//   * statements → `Id.run do` with `let mut`; `for cond {…}` →
//     `for _ in [0:fuel] do if ¬cond then break; …` with the fuel term from the
//     configuration; for every function with such a loop a twin
//     `<fn>_fuelOK : Bool` is emitted that is false exactly when some loop ran
//     out of fuel with its condition still true (Props proves it true).
// Anything outside the subset makes the translation of THAT function fail:
// it is listed in `untranslated` (with the reason as a comment), and so is
// every function that calls it.

import (
	"fmt"
	"go/ast"
	"go/build"
	"go/parser"
	"go/printer"
	"go/token"
	"go/types"
	"os"
	"path"
	"path/filepath"
	"sort"
	"strings"
)

// G2LStruct says how one named Go struct is represented.
type G2LStruct struct {
	Lean     string            // Lean structure name (fully qualified when it exists already)
	Emit     bool              // emit `structure Lean where …` from the Go declaration
	Fields   map[string]string // Go field → Lean field; identity when absent
	Deriving []string          // for emitted structures
	AnyOrder bool              // mapped structure: its fields may come in another order than the Go fields (go2lean_ptr.go)
}

// G2LFunc names one function ("Func") or method ("Recv.Method") to translate.
type G2LFunc struct {
	Name  string
	Fuel  []string // one Lean term per condition-controlled loop, in source order
	InOut []string // receiver / pointer parameters the function writes through: returned as extra results (go2lean_inout.go)
}

// G2LConfig is the input of the translator.
type G2LConfig struct {
	Repo      string               // repository root
	Module    string               // module path of the repository (imports below it are type-checked from source)
	Pkg       string               // package directory, relative to Repo
	Tags      []string             // build tags
	Namespace string               // Lean namespace of the output
	Title     string               // first line of the header comment
	Imports   []string             // Lean imports
	Opens     []string             // Lean `open`s
	Preamble  []string             // Lean commands after the `open`s (e.g. `variable [C]`), go2lean_own.go
	Basic     map[string]string    // Go basic type → Lean type; defaults in g2lBasicDefault
	Named     map[string]string    // other named Go types (qualified as pkgname.Type outside Pkg) → Lean type
	Structs   map[string]G2LStruct // named Go structs → representation
	Prims     map[string]string    // call key → Lean template ({0}, {1} … arguments; {0} the receiver for methods)
	Stubs     map[string]string    // import path → Go source of a stub package (bodiless functions, constants)
	Funcs     []G2LFunc
	Vars      []string // package-level variables (never assigned after initialisation) to emit as definitions

	NonNilElems []string // slice types ("[]*T") assumed to hold no nil: List T, elements as pointees (go2lean_ptr.go)
	Maps        bool     // read-only maps as association lists (go2lean_map.go)

	// (name, Lean type) of extra leading parameters of every definition (go2lean_effects.go)
	Context [][2]string
	// method key ("pkg.Recv.Method") → Lean template of the NEW VALUE of the receiver's pointee ({0} the pointee,
	// {1} … the arguments): the statement `x.M(a)` becomes `x := template` (go2lean_effects.go)
	EffPrims map[string]string
	// The two extensions below both deal with functions without result, writes in place and range loops, in
	// different ways (so do go2lean_env.go, switched on by G2LEnvRegister, and the byte mode of go2lean_buffer.go);
	// each is OFF unless the configuration asks for it, and a configuration asks for at most one of the four
	// (G2LRun refuses more).  With none, a function without result is untranslated.
	// go2lean_errfn.go (with Effects): the Lean type of errors and the templates of its two constructors; a function
	// whose only result is `error` is then a definition in `Except ErrType` that returns its in-out parameters
	ErrType, ErrMsg, ErrAt string
	Effects bool // go2lean_effects.go: context parameters, effect loops, a function without result returns its in-out parameters alone (billcalcsrc.go)
	Own     bool // go2lean_own.go: owned locals, cursors, a function without result returns Unit × its in-out parameters (taxtotalssrc.go)

	Codec    bool              // named results, `*p = v` on in-out parameters, []byte ↔ string, %0*d (go2lean_codec.go)
	OutPrims map[string]string // call key → template of a primitive that writes through its last argument (go2lean_codec.go)
}

var g2lBasicDefault = map[string]string{
	"int": "Int", "int8": "Int", "int16": "Int", "int32": "Int", "int64": "Int",
	"uint": "Nat", "uint8": "Nat", "uint16": "Nat", "uint32": "Nat", "uint64": "Nat", "uintptr": "Nat",
	"bool": "Bool", "float64": "Rat", "string": "String",
	"untyped int": "Int", "untyped rune": "Int", "untyped float": "Rat", "untyped bool": "Bool", "untyped string": "String",
}

// G2LMathStub is the stub of package math most users need.
const G2LMathStub = `package math
const (
	MaxInt8 = 1<<7 - 1
	MinInt8 = -1 << 7
	MaxInt16 = 1<<15 - 1
	MinInt16 = -1 << 15
	MaxInt32 = 1<<31 - 1
	MinInt32 = -1 << 31
	MaxInt64 = 1<<63 - 1
	MinInt64 = -1 << 63
	MaxUint8 = 1<<8 - 1
	MaxUint16 = 1<<16 - 1
	MaxUint32 = 1<<32 - 1
	MaxUint64 = 1<<64 - 1
)
func Round(x float64) float64
func Floor(x float64) float64
func Ceil(x float64) float64
func Trunc(x float64) float64
func Abs(x float64) float64
func RoundToEven(x float64) float64
func Pow(x, y float64) float64
func Pow10(n int) float64
`

type g2lUnsupported struct{ msg string }

// g2l is one run of the translator.
type g2l struct {
	cfg   *G2LConfig
	fset  *token.FileSet
	pkg   *types.Package
	info  *types.Info
	files []*ast.File
	imp   *g2lImporter
	qual  types.Qualifier

	units map[string]*g2lUnit
	order []string // keys in request order
	x     g2lExt   // state of go2lean_ptr.go / go2lean_map.go
}

type g2lNatSub struct {
	fn, expr string
	guards   []string
}

type g2lUnit struct {
	key    string // "Recv.Method", "Func", "var name"
	lean   string
	sig    string // Go signature or declaration, for the comment
	text   string
	fuelOK string
	deps   []string
	subs   []g2lNatSub
	err    string
	auto   bool
}

// ---------------------------------------------------------------- loading

type g2lImporter struct {
	cfg  *G2LConfig
	fset *token.FileSet
	pkgs map[string]*types.Package
	busy map[string]bool
}

func (im *g2lImporter) Import(p string) (*types.Package, error) {
	if pk, ok := im.pkgs[p]; ok {
		return pk, nil
	}
	if im.busy[p] {
		return nil, fmt.Errorf("import cycle through %s", p)
	}
	im.busy[p] = true
	defer delete(im.busy, p)
	conf := types.Config{Importer: im, Error: func(error) {}, FakeImportC: true, DisableUnusedImportCheck: true}
	if src, ok := im.cfg.Stubs[p]; ok {
		f, err := parser.ParseFile(im.fset, "stub:"+p, src, 0)
		if err != nil {
			return nil, fmt.Errorf("stub %s: %w", p, err)
		}
		pk, _ := conf.Check(p, im.fset, []*ast.File{f}, nil)
		im.pkgs[p] = pk
		return pk, nil
	}
	if im.cfg.Module != "" && (p == im.cfg.Module || strings.HasPrefix(p, im.cfg.Module+"/")) {
		rel := strings.TrimPrefix(strings.TrimPrefix(p, im.cfg.Module), "/")
		files, err := g2lParseDir(im.fset, filepath.Join(im.cfg.Repo, rel), im.cfg.Tags)
		if err == nil && len(files) > 0 {
			pk, _ := conf.Check(p, im.fset, files, nil)
			im.pkgs[p] = pk
			return pk, nil
		}
	}
	// anything else: an empty package; uses of it are type errors, which only
	// matter to the functions that contain them
	pk := types.NewPackage(p, path.Base(p))
	pk.MarkComplete()
	im.pkgs[p] = pk
	return pk, nil
}

func g2lParseDir(fset *token.FileSet, dir string, tags []string) ([]*ast.File, error) {
	ents, err := os.ReadDir(dir)
	if err != nil {
		return nil, err
	}
	ctx := build.Default
	ctx.BuildTags = append([]string{}, tags...)
	ctx.CgoEnabled = false
	var names []string
	for _, e := range ents {
		n := e.Name()
		if e.IsDir() || !strings.HasSuffix(n, ".go") || strings.HasSuffix(n, "_test.go") {
			continue
		}
		if ok, err := ctx.MatchFile(dir, n); err != nil || !ok {
			continue
		}
		names = append(names, n)
	}
	sort.Strings(names)
	var files []*ast.File
	for _, n := range names {
		f, err := parser.ParseFile(fset, filepath.Join(dir, n), nil, parser.SkipObjectResolution)
		if err != nil {
			return nil, err
		}
		files = append(files, f)
	}
	return files, nil
}

func (g *g2l) load() error {
	g.fset = token.NewFileSet()
	g.imp = &g2lImporter{cfg: g.cfg, fset: g.fset, pkgs: map[string]*types.Package{}, busy: map[string]bool{}}
	files, err := g2lParseDir(g.fset, filepath.Join(g.cfg.Repo, g.cfg.Pkg), g.cfg.Tags)
	if err != nil {
		return err
	}
	if len(files) == 0 {
		return fmt.Errorf("no Go files in %s", g.cfg.Pkg)
	}
	g.files = files
	g.info = &types.Info{
		Types:      map[ast.Expr]types.TypeAndValue{},
		Defs:       map[*ast.Ident]types.Object{},
		Uses:       map[*ast.Ident]types.Object{},
		Selections: map[*ast.SelectorExpr]*types.Selection{},
		Implicits:  map[ast.Node]types.Object{},
		Scopes:     map[ast.Node]*types.Scope{},
	}
	conf := types.Config{Importer: g.imp, Error: func(error) {}, FakeImportC: true, DisableUnusedImportCheck: true}
	ip := g.cfg.Pkg
	if g.cfg.Module != "" {
		ip = g.cfg.Module + "/" + filepath.ToSlash(g.cfg.Pkg)
	}
	g.pkg, _ = conf.Check(ip, g.fset, files, g.info)
	if g.pkg == nil {
		return fmt.Errorf("type check of %s produced no package", ip)
	}
	g.qual = func(p *types.Package) string {
		if p == g.pkg {
			return ""
		}
		return p.Name()
	}
	return nil
}

// ---------------------------------------------------------------- types

func (g *g2l) typeKey(t types.Type) string { return types.TypeString(t, g.qual) }

type g2lKind int

const (
	kOther g2lKind = iota
	kInt
	kUint
	kFloat
	kBool
	kString
	kStruct
	kList
	kPtr
)

func g2lKindOf(t types.Type) g2lKind {
	switch u := t.Underlying().(type) {
	case *types.Basic:
		i := u.Info()
		switch {
		case i&types.IsBoolean != 0:
			return kBool
		case i&types.IsString != 0:
			return kString
		case i&types.IsUnsigned != 0:
			return kUint
		case i&types.IsInteger != 0:
			return kInt
		case u.Kind() == types.Float64 || u.Kind() == types.UntypedFloat:
			return kFloat
		}
	case *types.Struct:
		return kStruct
	case *types.Slice, *types.Array:
		return kList
	case *types.Pointer:
		return kPtr
	case *types.Interface:
		if g2lIsErrorType(t) { // go2lean_string.go: `error` is an Option (nil = none)
			return kPtr
		}
	}
	return kOther
}

// leanType maps a Go type to Lean type text, or fails.
func (g *g2l) leanType(t types.Type) (string, error) {
	if l, ok, err := g.leanTypeExt(t); ok { // go2lean_string.go: configured non-named types, maps
		return l, err
	}
	switch tt := t.(type) {
	case *types.Basic:
		if tt.Kind() == types.Invalid {
			return "", fmt.Errorf("expression of unknown type (unresolved import?)")
		}
		if l, ok := g.cfg.Basic[tt.Name()]; ok {
			return l, nil
		}
		if l, ok := g2lBasicDefault[tt.Name()]; ok {
			return l, nil
		}
		return "", fmt.Errorf("basic type %s has no Lean counterpart", tt.Name())
	case *types.Named:
		k := g.typeKey(tt)
		if s, ok := g.cfg.Structs[k]; ok {
			return s.Lean, nil
		}
		if l, ok := g.cfg.Named[k]; ok {
			g.noteNamed(k, tt)
			return l, nil
		}
		if m := g2lMapOf(tt); m != nil && g.cfg.Maps {
			return g.leanMap(m)
		}
		if _, ok := tt.Underlying().(*types.Basic); ok {
			// a named basic type without methods of interest: its underlying type
			return g.leanType(tt.Underlying())
		}
		return "", fmt.Errorf("type %s is not mapped", k)
	case *types.Alias:
		return g.leanType(types.Unalias(tt))
	case *types.Pointer:
		e, err := g.leanType(tt.Elem())
		if err != nil {
			return "", err
		}
		return "Option " + g2lPar(e), nil
	case *types.Slice:
		e, err := g.leanElem(tt, tt.Elem())
		if err != nil {
			return "", err
		}
		return "List " + g2lPar(e), nil
	case *types.Array:
		e, err := g.leanElem(tt, tt.Elem())
		if err != nil {
			return "", err
		}
		return "List " + g2lPar(e), nil
	case *types.Map:
		return g.leanMap(tt)
	case *types.Tuple:
		var parts []string
		for i := 0; i < tt.Len(); i++ {
			e, err := g.leanType(tt.At(i).Type())
			if err != nil {
				return "", err
			}
			parts = append(parts, g2lPar(e))
		}
		if len(parts) == 0 {
			return "Unit", nil
		}
		return strings.Join(parts, " × "), nil
	}
	return "", fmt.Errorf("type %s is outside the subset", g.typeKey(t))
}

// zero value of a type, as Lean text
func (g *g2l) zero(t types.Type) (string, error) {
	if z, ok := g.zeroBuf(t); ok { // go2lean_buffer.go: bytes.Buffer
		return z, nil
	}
	lt, err := g.leanType(t)
	if err != nil {
		return "", err
	}
	if z, ok := g.zeroOpaque(t, lt); ok { // go2lean_own.go (Own configurations): opaque named types (`default`, pinned by opaqueZeros)
		return z, nil
	}
	switch g2lKindOf(t) {
	case kInt, kUint, kFloat:
		return "(0 : " + lt + ")", nil
	case kBool:
		return "false", nil
	case kString:
		return g.strConst(""), nil // go2lean_string.go
	case kPtr:
		return "(none : " + lt + ")", nil
	case kList:
		if a, ok := t.Underlying().(*types.Array); ok {
			z, err := g.zero(a.Elem())
			if err != nil {
				return "", err
			}
			return fmt.Sprintf("(List.replicate %d %s : %s)", a.Len(), z, lt), nil
		}
		return "([] : " + lt + ")", nil
	case kStruct:
		n, ok := types.Unalias(t).(*types.Named)
		if !ok {
			return "", fmt.Errorf("anonymous struct")
		}
		return g.structLit(n, map[string]string{})
	}
	if z, ok := g.zeroOther(t, lt); ok {
		return z, nil
	}
	return "", fmt.Errorf("no zero value for %s", g.typeKey(t))
}

// structFields lists the fields of a mapped struct: Go name, Lean name, Go
// type, Lean type ("" when the field's type is outside the subset: the field
// is then omitted from the Lean structure and any use of it is unsupported).
type g2lField struct{ goName, leanName, goType, leanType string }

func (g *g2l) structFields(n *types.Named) ([]g2lField, G2LStruct, error) {
	k := g.typeKey(n)
	sm, ok := g.cfg.Structs[k]
	if !ok {
		return nil, sm, fmt.Errorf("struct %s is not mapped", k)
	}
	st, ok := n.Underlying().(*types.Struct)
	if !ok {
		return nil, sm, fmt.Errorf("%s is not a struct", k)
	}
	var out []g2lField
	for i := 0; i < st.NumFields(); i++ {
		f := st.Field(i)
		ln := f.Name()
		if m, ok := sm.Fields[f.Name()]; ok {
			ln = m
		}
		lt, err := g.leanType(f.Type())
		if err != nil || f.Embedded() || ln == "-" {
			lt = "" // "-" in G2LStruct.Fields: left out on purpose
		}
		gt := g.typeKey(f.Type())
		if strings.Contains(gt, "invalid type") {
			// a type from a package the type checker was not given: the source text
			gt = g.fieldTypeSrc(n.Obj().Name(), f.Name())
		}
		out = append(out, g2lField{f.Name(), ln, gt, lt})
	}
	return out, sm, nil
}

// fieldTypeSrc gives the source text of the type of a struct field.
func (g *g2l) fieldTypeSrc(typ, field string) string {
	for _, file := range g.files {
		for _, d := range file.Decls {
			gd, ok := d.(*ast.GenDecl)
			if !ok || gd.Tok != token.TYPE {
				continue
			}
			for _, sp := range gd.Specs {
				ts := sp.(*ast.TypeSpec)
				st, ok := ts.Type.(*ast.StructType)
				if !ok || ts.Name.Name != typ {
					continue
				}
				for _, fl := range st.Fields.List {
					for _, nm := range fl.Names {
						if nm.Name == field {
							var b strings.Builder
							_ = printer.Fprint(&b, g.fset, fl.Type)
							return g2lOneLine(b.String())
						}
					}
				}
			}
		}
	}
	return "?"
}

// structLit builds `({ f := v, … } : T)`; absent fields get their zero value.
func (g *g2l) structLit(n *types.Named, vals map[string]string) (string, error) {
	fs, sm, err := g.structFields(n)
	if err != nil {
		return "", err
	}
	st := n.Underlying().(*types.Struct)
	var parts []string
	for i, f := range fs {
		v, given := vals[f.goName]
		if f.leanType == "" {
			if given {
				return "", fmt.Errorf("field %s.%s has a type outside the subset", g.typeKey(n), f.goName)
			}
			continue
		}
		if !given {
			z, err := g.zero(st.Field(i).Type())
			if err != nil {
				return "", err
			}
			v = z
		}
		parts = append(parts, f.leanName+" := "+v)
	}
	return "({ " + strings.Join(parts, ", ") + " } : " + sm.Lean + ")", nil
}

// ---------------------------------------------------------------- text helpers

// g2lPar wraps a term in parentheses unless it is atomic.
func g2lPar(s string) string {
	if g2lAtomic(s) {
		return s
	}
	return "(" + s + ")"
}

func g2lAtomic(s string) bool {
	if s == "" {
		return true
	}
	open := map[byte]byte{'(': ')', '[': ']', '{': '}'}
	if cl, ok := open[s[0]]; ok {
		depth := 0
		for i := 0; i < len(s); i++ {
			switch s[i] {
			case s[0]:
				depth++
			case cl:
				depth--
				if depth == 0 {
					return i == len(s)-1
				}
			}
		}
		return false
	}
	if s[0] == '"' {
		return !strings.Contains(s[1:len(s)-1], `"`) || strings.Count(s, `"`)-strings.Count(s, `\"`) == 2
	}
	if s[0] == '-' || s[0] == '!' || strings.HasPrefix(s, "¬") {
		return false
	}
	return !strings.ContainsAny(s, " \t\n")
}

var g2lReserved = map[string]bool{}

func init() {
	for _, w := range strings.Fields(`at from do then else if let have show fun end open in match with where def theorem
		instance structure class namespace section variable universe import export mut for return break continue try catch
		finally unless deriving by calc using Type Prop Sort macro syntax notation infix infixl infixr prefix postfix private
		protected noncomputable partial unsafe axiom example abbrev inductive extends mutual nomatch nofun this true false
		pure bind default none some id not and or decide sorry admit set_option attribute local scoped omit include
		suffices obtain exact intro termination_by decreasing_by`) {
		g2lReserved[w] = true
	}
}

func g2lIdent(s string) string {
	if g2lReserved[s] || s == "_" {
		return s + "_"
	}
	return s
}

func (g *g2l) unitLeanName(key string) string {
	key = strings.TrimPrefix(key, "var ")
	return g2lIdent(strings.ReplaceAll(key, ".", "_"))
}

// g2lComment makes Go source text safe inside a Lean block comment.
func g2lComment(s string) string {
	return strings.ReplaceAll(strings.ReplaceAll(s, "-/", "- /"), "/-", "/ -")
}

func g2lOneLine(s string) string { return strings.Join(strings.Fields(s), " ") }

// ---------------------------------------------------------------- run

func g2lCount(bs ...bool) (n int) {
	for _, b := range bs {
		if b {
			n++
		}
	}
	return n
}

// G2LRun translates what cfg asks for and returns the text of the Lean module.
func G2LRun(cfg *G2LConfig) (string, error) {
	g := &g2l{cfg: cfg, units: map[string]*g2lUnit{}}
	if n := g2lCount(cfg.Effects, cfg.Own, g.envOn(), g.bytesOn()); n > 1 {
		return "", fmt.Errorf("configuration %s: Effects, Own, G2LEnvRegister and the byte mode exclude each other", cfg.Namespace)
	}
	if !cfg.Effects && (len(cfg.Context) > 0 || len(cfg.EffPrims) > 0) {
		return "", fmt.Errorf("configuration %s: Context / EffPrims need Effects", cfg.Namespace)
	}
	if err := g.load(); err != nil {
		return "", err
	}
	// 1. translate the requested units and, transitively, what they call
	var queue []string
	for _, fc := range cfg.Funcs {
		queue = append(queue, fc.Name)
	}
	for _, v := range cfg.Vars {
		queue = append(queue, "var "+v)
	}
	requested := len(queue)
	for i := 0; i < len(queue); i++ {
		k := queue[i]
		if _, ok := g.units[k]; ok {
			continue
		}
		var u *g2lUnit
		if strings.HasPrefix(k, "var ") {
			u = g.translateVar(k)
		} else {
			u = g.translateFunc(k)
		}
		u.auto = i >= requested
		g.units[k] = u
		g.order = append(g.order, k)
		queue = append(queue, u.deps...)
	}
	// 2. a unit that depends on an untranslated one is untranslated (also: recursion)
	state := map[string]int{}
	var sorted []string
	var visit func(k string) bool
	visit = func(k string) bool {
		u := g.units[k]
		if u == nil {
			return false
		}
		if u.err != "" {
			return false
		}
		switch state[k] {
		case 1:
			u.err = "recursion (through " + k + ")"
			return false
		case 2:
			return true
		}
		state[k] = 1
		for _, d := range u.deps {
			if !visit(d) {
				if u.err == "" {
					u.err = "depends on untranslated " + d
				}
				state[k] = 2
				return false
			}
		}
		state[k] = 2
		sorted = append(sorted, k)
		return true
	}
	for _, k := range g.order {
		visit(k)
	}
	// a second pass: failures found late (recursion) propagate to earlier dependants
	for changed := true; changed; {
		changed = false
		for _, k := range sorted {
			u := g.units[k]
			if u.err != "" {
				continue
			}
			for _, d := range u.deps {
				if g.units[d] == nil || g.units[d].err != "" {
					u.err = "depends on untranslated " + d
					changed = true
					break
				}
			}
		}
	}
	return g.emit(sorted), nil
}

// structOrder lists the configured structs so that a struct comes after the
// structs its fields mention (alphabetical otherwise).
func (g *g2l) structOrder() []string {
	var out []string
	done := map[string]int{}
	var mentions func(t types.Type, acc map[string]bool)
	mentions = func(t types.Type, acc map[string]bool) {
		switch tt := types.Unalias(t).(type) {
		case *types.Named:
			acc[g.typeKey(tt)] = true
		case *types.Pointer:
			mentions(tt.Elem(), acc)
		case *types.Slice:
			mentions(tt.Elem(), acc)
		case *types.Array:
			mentions(tt.Elem(), acc)
		}
	}
	var visit func(k string)
	visit = func(k string) {
		if done[k] != 0 {
			return
		}
		done[k] = 1
		if obj := g.lookupType(k); obj != nil {
			if st, ok := obj.Type().Underlying().(*types.Struct); ok {
				acc := map[string]bool{}
				for i := 0; i < st.NumFields(); i++ {
					mentions(st.Field(i).Type(), acc)
				}
				for _, d := range sortedKeys(acc) {
					if _, ok := g.cfg.Structs[d]; ok {
						visit(d)
					}
				}
			}
		}
		done[k] = 2
		out = append(out, k)
	}
	for _, k := range sortedKeys(g.cfg.Structs) {
		visit(k)
	}
	return out
}

func (g *g2l) emit(sorted []string) string {
	cfg := g.cfg
	var sb strings.Builder
	w := func(format string, a ...any) { fmt.Fprintf(&sb, format, a...) }
	w("/-\n  %s\n\n", cfg.Title)
	sb.WriteString(g2lHeader)
	sb.WriteString(g.headerExtra())
	w("-/\n")
	for _, im := range cfg.Imports {
		w("import %s\n", im)
	}
	w("\nset_option linter.unusedVariables false\n\nnamespace %s\n", cfg.Namespace)
	for _, o := range cfg.Opens {
		w("open %s\n", o)
	}
	for _, p := range cfg.Preamble {
		w("%s\n", p)
	}
	// structs
	w("\n/-! ## Go struct declarations (facts) and their Lean representation -/\n\n")
	for _, k := range g.structOrder() {
		sm := cfg.Structs[k]
		obj := g.lookupType(k)
		var n *types.Named
		if obj != nil {
			n, _ = obj.Type().(*types.Named)
		}
		if n == nil {
			w("/- struct %s: not found in package %s -/\ndef struct_%s : List (String × String) := []\n\n", k, cfg.Pkg, leanIdent(k))
			continue
		}
		fs, _, err := g.structFields(n)
		if err != nil {
			w("/- struct %s: %v -/\ndef struct_%s : List (String × String) := []\n\n", k, err, leanIdent(k))
			continue
		}
		var facts, leanFields, omitted []string
		for _, f := range fs {
			facts = append(facts, fmt.Sprintf("(%s, %s)", leanStr(f.goName), leanStr(f.goType)))
			if f.leanType == "" {
				omitted = append(omitted, f.goName)
			} else {
				leanFields = append(leanFields, f.leanName)
			}
		}
		w("/-- fields of Go `type %s struct`, in order, with their Go types -/\n", k)
		w("def struct_%s : List (String × String) := [%s]\n", leanIdent(k), strings.Join(facts, ", "))
		w("/-- the Lean structure that represents it, and its fields in the same order -/\n")
		w("def structLean_%s : String × List String := (%s, %s)\n", leanIdent(k), leanStr(sm.Lean), leanStrList(leanFields))
		w("/-- Go fields left out of the Lean structure (their types are outside the subset) -/\n")
		w("def structOmitted_%s : List String := %s\n", leanIdent(k), leanStrList(omitted))
		if sm.Emit {
			w("structure %s where\n", sm.Lean)
			for _, f := range fs {
				if f.leanType != "" {
					w("  %s : %s\n", f.leanName, f.leanType)
				}
			}
			if len(sm.Deriving) > 0 {
				w("deriving %s\n", strings.Join(sm.Deriving, ", "))
			}
		} else if sm.AnyOrder {
			w("%s", g2lMappingCheckAnyOrder(sm.Lean, k, fs))
		} else {
			// the mapped structure must have exactly these fields, with these types, in this order
			var xs, ys, bind, tys []string
			i := 0
			for _, f := range fs {
				if f.leanType == "" {
					continue
				}
				xs = append(xs, fmt.Sprintf("(x%d : %s)", i, f.leanType))
				ys = append(ys, fmt.Sprintf("y%d", i))
				bind = append(bind, fmt.Sprintf("%s := x%d", f.leanName, i))
				tys = append(tys, fmt.Sprintf("x%d", i))
				i++
			}
			w("/-- mapping check: `%s` has exactly the fields of Go `%s` -/\n", sm.Lean, k)
			w("example %s : (match ({ %s } : %s) with | ⟨%s⟩ => (%s)) = (%s) := rfl\n",
				strings.Join(xs, " "), strings.Join(bind, ", "), sm.Lean, strings.Join(ys, ", "), strings.Join(ys, ", "), strings.Join(tys, ", "))
		}
		w("\n")
	}
	// definitions
	w("/-! ## translated definitions, callees first -/\n\n")
	var subs []g2lNatSub
	var ok, fuelOKs []string
	for _, k := range sorted {
		u := g.units[k]
		if u.err != "" {
			continue
		}
		ok = append(ok, k)
		auto := ""
		if u.auto {
			auto = " (pulled in as a callee)"
		}
		w("/-- Go%s: `%s` -/\n%s\n", auto, g2lComment(u.sig), u.text)
		if u.fuelOK != "" {
			w("/-- false exactly when a loop of `%s` stopped because its fuel ran out -/\n%s\n", k, u.fuelOK)
			fuelOKs = append(fuelOKs, u.lean+"_fuelOK")
		}
		subs = append(subs, u.subs...)
	}
	// bookkeeping
	w("/-! ## bookkeeping -/\n\n")
	var bad []string
	for _, k := range g.order {
		if u := g.units[k]; u.err != "" {
			bad = append(bad, k)
			w("-- untranslated %s: %s\n", k, g2lOneLine(u.err))
		}
	}
	w("/-- functions the translator was asked for (or met as callees) and could not translate -/\n")
	w("def untranslated : List String := %s\n\n", leanStrList(bad))
	w("/-- what was translated, in the order of definition -/\ndef translated : List String := %s\n\n", leanStrList(ok))
	w("/-- the `_fuelOK` twins emitted above (each needs a theorem `∀ args, … = true`) -/\ndef fuelChecks : List String := %s\n\n", leanStrList(fuelOKs))
	w("/-- every subtraction on an unsigned type (truncated here, wrapping in Go): function, expression, enclosing conditions -/\n")
	w("def natSubs : List (String × String × List String) := [")
	for i, s := range subs {
		if i > 0 {
			w(",")
		}
		w("\n  (%s, %s, %s)", leanStr(s.fn), leanStr(s.expr), leanStrList(s.guards))
	}
	w("]\n\n")
	g.emitExtra(w, ok)
	w("end %s\n", cfg.Namespace)
	return sb.String()
}

const g2lHeader = `  REGENERATED on every run by harness/cmd/extract (go2lean) — do not edit.
  Every definition below is the translation of the Go function named in its
  doc comment, as it stands in the repository NOW.

  Semantics of the translation (trusted):
  * signed integers → Int, unbounded (no overflow); / and % are truncated
    (Int.tdiv, Int.tmod); division by zero panics in Go, yields 0 here.
  * unsigned integers → Nat, unbounded above; '-' is TRUNCATED subtraction
    (Go wraps around): faithful only where the code guards the subtraction;
    every site is listed in natSubs with its enclosing conditions.
  * float64 → Rat holding values of Model/Float53.lean: float64(i) = ofInt64 i,
    x*y = fmul, x/y = fdiv, x±y = rnd53 (x±y), int64(math.Round v) = goRound v,
    int64(f) = truncation.  No NaN, no infinities, no negative zero.
  * structs → Lean structures (emitted here, or mapped to existing ones and
    checked by an example); values are copied on assignment as in Go.
  * *T → Option T, slices and arrays → List (index out of range: a panic in
    Go, default here).
  * statements → Id.run do with let mut; early return, if without else, switch
    (as an if-chain in source order, default last), op=, ++ and --.
  * for cond {…} → for _ in [0:fuel] do if ¬cond then break; … with the fuel
    term of the configuration; the twin <fn>_fuelOK is false exactly when a
    loop stopped for lack of fuel.
  Anything else is not translated: see untranslated at the end.
`
