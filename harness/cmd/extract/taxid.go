package main

import (
	"fmt"
	"go/ast"
	"go/token"
	"os"
	"path/filepath"
	"sort"
	"strconv"
	"strings"
)

// TaxIdFacts: regex pattern strings, weight tables, letter tables, prefix
// sets, the literals and operators of every function of the tax-identity
// validators / normalisers, the top-level statements of every normaliser in
// source order, and which regimes register a Normalizer —
// regenerated from the Go source (go/ast) on every run.

type taxidFile struct {
	tag string // Lean name prefix
	rel string
}

var taxidFiles = []taxidFile{
	{"tax", "tax/identity.go"},
	{"luhn", "regimes/common/luhn.go"},
	{"ae", "regimes/ae/tax_identity.go"},
	{"at", "regimes/at/tax_identity.go"},
	{"be", "regimes/be/tax_identity.go"},
	{"br", "regimes/br/tax_identity.go"},
	{"ch", "regimes/ch/tax_identity.go"},
	{"co", "regimes/co/tax_identity.go"},
	{"de", "regimes/de/tax_identity.go"},
	{"es", "regimes/es/tax_identity.go"},
	{"fr", "regimes/fr/tax_identity.go"},
	{"gb", "regimes/gb/tax_identity.go"},
	{"gr", "regimes/gr/tax_identity.go"},
	{"in", "regimes/in/tax_identity.go"},
	{"it", "regimes/it/tax_identity.go"},
	{"mx", "regimes/mx/tax_identity.go"},
	{"nl", "regimes/nl/tax_code.go"},
	{"pl", "regimes/pl/tax_identity.go"},
	{"pt", "regimes/pt/tax_code.go"},
}

// constStrings collects the string-valued const/var declarations of a file
// (with `+` concatenations of literals and earlier names folded).
func constStrings(f *ast.File) (map[string]string, []string) {
	vals := map[string]string{}
	var order []string
	for _, d := range f.Decls {
		gd, ok := d.(*ast.GenDecl)
		if !ok || (gd.Tok != token.CONST && gd.Tok != token.VAR) {
			continue
		}
		for _, sp := range gd.Specs {
			vs, ok := sp.(*ast.ValueSpec)
			if !ok {
				continue
			}
			for i, n := range vs.Names {
				if i < len(vs.Values) {
					if s, ok := evalString(vs.Values[i], vals); ok {
						vals[n.Name] = s
						order = append(order, n.Name)
					}
				}
			}
		}
	}
	return vals, order
}

func evalString(e ast.Expr, env map[string]string) (string, bool) {
	switch x := e.(type) {
	case *ast.BasicLit:
		if x.Kind == token.STRING {
			s, err := strconv.Unquote(x.Value)
			return s, err == nil
		}
	case *ast.Ident:
		s, ok := env[x.Name]
		return s, ok
	case *ast.ParenExpr:
		return evalString(x.X, env)
	case *ast.BinaryExpr:
		if x.Op == token.ADD {
			a, ok1 := evalString(x.X, env)
			b, ok2 := evalString(x.Y, env)
			return a + b, ok1 && ok2
		}
	case *ast.CallExpr: // conversions such as cbc.Code("…")
		if len(x.Args) == 1 {
			if _, isSel := x.Fun.(*ast.SelectorExpr); isSel {
				return "", false
			}
		}
	}
	return "", false
}

func isIntSliceType(e ast.Expr) bool {
	at, ok := e.(*ast.ArrayType)
	if !ok {
		return false
	}
	id, ok := at.Elt.(*ast.Ident)
	return ok && id.Name == "int"
}

func intList(cl *ast.CompositeLit) ([]string, bool) {
	var out []string
	for _, el := range cl.Elts {
		bl, ok := el.(*ast.BasicLit)
		if !ok || bl.Kind != token.INT {
			return nil, false
		}
		out = append(out, bl.Value)
	}
	return out, true
}

func leanNatList(xs []string) string { return "[" + strings.Join(xs, ", ") + "]" }

func isErrorCall(ce *ast.CallExpr) bool {
	if se, ok := ce.Fun.(*ast.SelectorExpr); ok {
		if id, ok := se.X.(*ast.Ident); ok {
			return (id.Name == "errors" && se.Sel.Name == "New") || (id.Name == "fmt" && se.Sel.Name == "Errorf")
		}
	}
	return false
}

// litsAndOps lists, in source order, the INT/CHAR/STRING literals (error
// messages excluded) and the operators of a function body.
func litsAndOps(fd *ast.FuncDecl) (lits, ops []string) {
	if fd == nil || fd.Body == nil {
		return
	}
	var walk func(n ast.Node) bool
	walk = func(n ast.Node) bool {
		switch x := n.(type) {
		case *ast.CallExpr:
			if isErrorCall(x) {
				return false
			}
		case *ast.BasicLit:
			switch x.Kind {
			case token.INT, token.CHAR:
				lits = append(lits, x.Value)
			case token.STRING:
				if s, err := strconv.Unquote(x.Value); err == nil {
					lits = append(lits, "s:"+s)
				}
			}
		case *ast.BinaryExpr:
			// operands first (source order), then the operator
			ast.Inspect(x.X, walk)
			ops = append(ops, x.Op.String())
			ast.Inspect(x.Y, walk)
			return false
		case *ast.UnaryExpr:
			ops = append(ops, "u"+x.Op.String())
		case *ast.IncDecStmt:
			ops = append(ops, x.Tok.String())
		case *ast.AssignStmt:
			if x.Tok != token.ASSIGN && x.Tok != token.DEFINE {
				ops = append(ops, x.Tok.String())
			}
		case *ast.CaseClause:
			if x.List == nil {
				ops = append(ops, "default")
			} else {
				ops = append(ops, fmt.Sprintf("case%d", len(x.List)))
			}
		}
		return true
	}
	ast.Inspect(fd.Body, walk)
	return
}

// topStmts lists the top-level statements of a function body, in source order, as
// whitespace-normalised source text (comments are not part of a statement's text).
func topStmts(fset *token.FileSet, fd *ast.FuncDecl) []string {
	out := []string{}
	if fd == nil || fd.Body == nil {
		return out
	}
	for _, st := range fd.Body.List {
		out = append(out, nodeText(fset, st))
	}
	return out
}

func funcName(fd *ast.FuncDecl) string {
	name := fd.Name.Name
	if fd.Recv != nil && len(fd.Recv.List) > 0 {
		t := fd.Recv.List[0].Type
		if s, ok := t.(*ast.StarExpr); ok {
			t = s.X
		}
		if id, ok := t.(*ast.Ident); ok {
			name = id.Name + "_" + name
		}
	}
	return name
}

func init() {
	register(func() (string, string, error) {
		name := "TaxIdFacts"
		var sb strings.Builder
		sb.WriteString("/- REGENERATED by harness/cmd/extract from /repo/tax/identity.go, /repo/regimes/*/tax_identity.go, tax_code.go, common/luhn.go — do not edit -/\nnamespace GoblVerif.Generated.TaxId\n\n")
		for _, tf := range taxidFiles {
			fset, f, err := parseFile(tf.rel)
			if err != nil {
				return name, "", err
			}
			sb.WriteString(fmt.Sprintf("/-! ### %s -/\n", tf.rel))
			env, order := constStrings(f)
			for _, n := range order {
				sb.WriteString(fmt.Sprintf("def %s_str_%s : String := %s\n", tf.tag, n, leanStr(env[n])))
			}
			// integer constants
			for _, d := range f.Decls {
				gd, ok := d.(*ast.GenDecl)
				if !ok || gd.Tok != token.CONST {
					continue
				}
				for _, sp := range gd.Specs {
					vs, ok := sp.(*ast.ValueSpec)
					if !ok {
						continue
					}
					for i, n := range vs.Names {
						if i < len(vs.Values) {
							if bl, ok := vs.Values[i].(*ast.BasicLit); ok && bl.Kind == token.INT {
								sb.WriteString(fmt.Sprintf("def %s_int_%s : Nat := %s\n", tf.tag, n.Name, bl.Value))
							}
						}
					}
				}
			}
			// regexp.MustCompile arguments, in source order
			var regexps []string
			var regexpNames []string
			ast.Inspect(f, func(n ast.Node) bool {
				ce, ok := n.(*ast.CallExpr)
				if !ok {
					return true
				}
				se, ok := ce.Fun.(*ast.SelectorExpr)
				if !ok || se.Sel.Name != "MustCompile" || len(ce.Args) != 1 {
					return true
				}
				if s, ok := evalString(ce.Args[0], env); ok {
					regexps = append(regexps, s)
				} else {
					regexps = append(regexps, "?unresolved")
				}
				return true
			})
			_ = regexpNames
			sb.WriteString(fmt.Sprintf("def %s_regexps : List String := %s\n", tf.tag, leanStrList(regexps)))
			// integer tables (package level and inside functions) and the PT prefix map
			ast.Inspect(f, func(n ast.Node) bool {
				var names []*ast.Ident
				var values []ast.Expr
				switch x := n.(type) {
				case *ast.ValueSpec:
					names, values = x.Names, x.Values
				case *ast.AssignStmt:
					for _, l := range x.Lhs {
						if id, ok := l.(*ast.Ident); ok {
							names = append(names, id)
						} else {
							names = append(names, nil)
						}
					}
					values = x.Rhs
				default:
					return true
				}
				for i, v := range values {
					if i >= len(names) || names[i] == nil {
						continue
					}
					cl, ok := v.(*ast.CompositeLit)
					if !ok {
						continue
					}
					if isIntSliceType(cl.Type) {
						if xs, ok := intList(cl); ok {
							sb.WriteString(fmt.Sprintf("def %s_ints_%s : List Nat := %s\n", tf.tag, names[i].Name, leanNatList(xs)))
						}
					}
					if mt, ok := cl.Type.(*ast.MapType); ok {
						if vt, ok := mt.Value.(*ast.Ident); ok && vt.Name == "bool" {
							var keys []string
							for _, el := range cl.Elts {
								kv, ok := el.(*ast.KeyValueExpr)
								if !ok {
									continue
								}
								k, ok1 := stringLit(kv.Key)
								val, ok2 := kv.Value.(*ast.Ident)
								if ok1 && ok2 && val.Name == "true" {
									keys = append(keys, k)
								}
							}
							sort.Strings(keys)
							sb.WriteString(fmt.Sprintf("def %s_trueKeys_%s : List String := %s\n", tf.tag, names[i].Name, leanStrList(keys)))
						}
					}
					if at, ok := cl.Type.(*ast.ArrayType); ok { // []l10n.TaxCountryCode{"MX"}
						var strs []string
						all := len(cl.Elts) > 0
						for _, el := range cl.Elts {
							if s, ok := stringLit(el); ok {
								strs = append(strs, s)
							} else {
								all = false
							}
						}
						_ = at
						if all {
							sb.WriteString(fmt.Sprintf("def %s_strs_%s : List String := %s\n", tf.tag, names[i].Name, leanStrList(strs)))
						}
					}
				}
				return true
			})
			// literals and operators of every function
			for _, d := range f.Decls {
				fd, ok := d.(*ast.FuncDecl)
				if !ok {
					continue
				}
				lits, ops := litsAndOps(fd)
				fn := funcName(fd)
				sb.WriteString(fmt.Sprintf("def %s_lits_%s : List String := %s\n", tf.tag, fn, leanStrList(lits)))
				sb.WriteString(fmt.Sprintf("def %s_ops_%s : List String := %s\n", tf.tag, fn, leanStrList(ops)))
				sb.WriteString(fmt.Sprintf("def %s_calls_%s : List String := %s\n", tf.tag, fn, leanStrList(methodCalls(fd))))
				if strings.Contains(strings.ToLower(fd.Name.Name), "normalize") {
					// the order of the steps matters where a normaliser also rewrites the country
					// (GR sets it before cleaning the code, IN after)
					sb.WriteString(fmt.Sprintf("def %s_steps_%s : List String := %s\n", tf.tag, fn, leanStrList(topStmts(fset, fd))))
				}
			}
			sb.WriteString("\n")
		}
		// regime definitions: country, Normalizer / Validator registration, and
		// the alternative codes handed to tax.NormalizeIdentity
		sb.WriteString("/-! ### regimes/*/<cc>.go -/\n")
		dirs, _ := filepath.Glob(filepath.Join(*repo, "regimes", "*"))
		sort.Strings(dirs)
		var registered, validators []string
		var altLines []string
		for _, dir := range dirs {
			base := filepath.Base(dir)
			rel := filepath.Join("regimes", base, base+".go")
			if _, err := os.Stat(filepath.Join(*repo, rel)); err != nil {
				continue
			}
			_, f, err := parseFile(rel)
			if err != nil {
				return name, "", err
			}
			country, hasNorm, hasVal := "", false, false
			ast.Inspect(f, func(n ast.Node) bool {
				cl, ok := n.(*ast.CompositeLit)
				if !ok {
					return true
				}
				se, ok := cl.Type.(*ast.SelectorExpr)
				if !ok || se.Sel.Name != "RegimeDef" {
					return true
				}
				for _, el := range cl.Elts {
					kv, ok := el.(*ast.KeyValueExpr)
					if !ok {
						continue
					}
					k, _ := kv.Key.(*ast.Ident)
					if k == nil {
						continue
					}
					switch k.Name {
					case "Country":
						country, _ = stringLit(kv.Value)
					case "Normalizer":
						hasNorm = true
					case "Validator":
						hasVal = true
					}
				}
				return false
			})
			if country == "" {
				continue
			}
			if hasNorm {
				registered = append(registered, country)
			}
			if hasVal {
				validators = append(validators, country)
			}
			// arguments after the first of every tax.NormalizeIdentity call in the package
			files, _ := filepath.Glob(filepath.Join(dir, "*.go"))
			sort.Strings(files)
			var alts []string
			for _, fp := range files {
				if strings.HasSuffix(fp, "_test.go") {
					continue
				}
				r, _ := filepath.Rel(*repo, fp)
				_, pf, err := parseFile(r)
				if err != nil {
					continue
				}
				ast.Inspect(pf, func(n ast.Node) bool {
					ce, ok := n.(*ast.CallExpr)
					if !ok {
						return true
					}
					se, ok := ce.Fun.(*ast.SelectorExpr)
					if !ok || se.Sel.Name != "NormalizeIdentity" {
						return true
					}
					for _, a := range ce.Args[1:] {
						alts = append(alts, altCodes(a, f)...)
					}
					return true
				})
			}
			altLines = append(altLines, fmt.Sprintf("def normalizeAlts_%s : List String := %s\n", country, leanStrList(alts)))
		}
		sb.WriteString(fmt.Sprintf("def normalizerRegistered : List String := %s\n", leanStrList(registered)))
		sb.WriteString(fmt.Sprintf("def validatorRegistered : List String := %s\n", leanStrList(validators)))
		for _, l := range altLines {
			sb.WriteString(l)
		}
		sb.WriteString("\nend GoblVerif.Generated.TaxId\n")
		return name, sb.String(), nil
	})
}

// altCodes resolves an argument of tax.NormalizeIdentity: `l10n.GR` ↦ "GR",
// a string literal, or a package-level slice variable of such values.
func altCodes(e ast.Expr, regimeFile *ast.File) []string {
	switch x := e.(type) {
	case *ast.SelectorExpr:
		return []string{x.Sel.Name}
	case *ast.BasicLit:
		if s, ok := stringLit(x); ok {
			return []string{s}
		}
	case *ast.Ident:
		var out []string
		ast.Inspect(regimeFile, func(n ast.Node) bool {
			vs, ok := n.(*ast.ValueSpec)
			if !ok {
				return true
			}
			for i, nm := range vs.Names {
				if nm.Name == x.Name && i < len(vs.Values) {
					if cl, ok := vs.Values[i].(*ast.CompositeLit); ok {
						for _, el := range cl.Elts {
							out = append(out, altCodes(el, regimeFile)...)
						}
					}
				}
			}
			return true
		})
		return out
	}
	return []string{"?unresolved"}
}
