package main

import (
	"encoding/json"
	"fmt"
	"math/rand"
	"os"
	"sort"
	"time"

	"verifharness/internal/conc"
	"verifharness/internal/conchook"
)

// runHook is the -hook mode: the in-process bulk streams and the
// cancellation workload of internal/conchook under the race detector.  The
// process starts cold (nothing has used the buffers or registries before).
// Besides the detector's reports on stderr it prints
//
//	HOOK-PROBLEM <json>      a violation found by the Go-side judge, with its replay case
//	HOOK-TRACE <request>     one line per bulk stream for the Lean acceptor
//	HOOK-COUNT <name>\t<n>   evidence counters
//	DONE hook …
func runHook(repo string, seed int64, size string, phases string) {
	t0 := time.Now()
	inputs, outputs, err := conc.LoadExamples(repo)
	if err != nil || len(inputs) == 0 {
		fmt.Println("ERROR", err)
		os.Exit(2)
	}
	per := 6
	if size == "thorough" {
		per = 14
	}
	jobs, panics := conchook.Setup(seed, inputs, outputs, per)
	counters := map[string]int64{"hook.ops.sequential-results": int64(len(jobs)), "hook.ops.panic-standalone(left out)": int64(panics)}
	add := func(m map[string]int64) {
		for k, v := range m {
			counters[k] += v
		}
	}
	emit := func(p conchook.Problem) {
		b, _ := json.Marshal(p)
		fmt.Printf("HOOK-PROBLEM %s\n", b)
	}
	nStreams, nRounds, nBad := 0, 0, 0
	if phases == "all" || phases == "cancel" {
		// the cancellation workload first: the process is cold
		type cc struct {
			procs           int
			mode            string
			rounds, v, b, k int
		}
		cfgs := []cc{{1, "gated", 2, 6, 2, 4}, {2, "gated", 1, 8, 3, 4}, {0, "free", 2, 12, 6, 5}, {1, "free", 1, 8, 3, 4}, {2, "free", 1, 8, 4, 4}}
		if size == "thorough" {
			cfgs = []cc{{1, "gated", 6, 8, 3, 6}, {2, "gated", 4, 12, 4, 6}, {0, "gated", 3, 16, 8, 6}, {0, "free", 8, 16, 8, 8}, {1, "free", 4, 8, 3, 6}, {2, "free", 6, 12, 4, 6}, {4, "free", 4, 12, 8, 6}}
		}
		for i, c := range cfgs {
			rep := conchook.CancelPhase(jobs, conchook.CancelCfg{Seed: seed*1000 + int64(i), Procs: c.procs, Mode: c.mode, Rounds: c.rounds, Victims: c.v, Bystanders: c.b, PerBy: c.k})
			add(rep.Counters)
			nRounds += c.rounds
			for _, p := range rep.Problems {
				emit(p)
			}
		}
	}
	if phases == "all" || phases == "bulk" {
		pool := conchook.Pool(jobs)
		for _, p := range conchook.FillFixed(pool) {
			emit(p)
		}
		add(conchook.Distribution(pool))
		cfg := conchook.BulkCfg{Streams: 10, MaxN: 16, Sweeps: 1, SweepMax: 24, HeavyTail: 6, Procs: []int{1, 2, 16}, Par: 3}
		if size == "thorough" {
			cfg = conchook.BulkCfg{Streams: 60, MaxN: 40, Sweeps: 3, SweepMax: 80, HeavyTail: 10, Procs: []int{1, 2, 16}, Par: 4}
		}
		batch := conchook.BulkPhase(rand.New(rand.NewSource(seed)), pool, cfg)
		add(batch.Counters)
		for _, e := range batch.GenErrs {
			fmt.Println("HOOK-GENERATOR-ERROR", e)
		}
		for _, j := range batch.Judged {
			nStreams++
			fmt.Println("HOOK-TRACE", j.V.ModelReq)
			if len(j.V.Problems) > 0 {
				// one per stream, a few streams: each line carries the whole stream
				if nBad++; nBad <= 4 {
					emit(conchook.Problem{What: fmt.Sprintf("in-process bulk stream (GOMAXPROCS=%d, %d complete requests, ending %s %s, delivery %s): %s", j.Procs, len(j.St.Reqs), j.St.End.Kind, j.St.End.CutClass, j.St.Arrangement, j.V.Problems[0]), Stream: j.St, Procs: j.Procs})
				}
			}
		}
		counters["hook.bulk.streams-with-a-violation"] += int64(nBad)
	}
	var ks []string
	for k := range counters {
		ks = append(ks, k)
	}
	sort.Strings(ks)
	for _, k := range ks {
		fmt.Printf("HOOK-COUNT %s\t%d\n", k, counters[k])
	}
	fmt.Printf("DONE hook streams=%d cancel-rounds=%d ops=%d in %.1fs\n", nStreams, nRounds, len(jobs), time.Since(t0).Seconds())
}
