// racework is the C15 workload as a stand-alone program so that it can be
// built with `go build -race`: G goroutines run the full pipeline (parse,
// calculate, validate, sign, verify, correct, replicate) over documents of
// every regime x addon combination at the same time.  The race detector
// writes its reports to stderr; the program itself prints
//
//	TRANSCRIPT-DIFFERS <doc>         a goroutine's result differs from another's
//	FROZEN-REGISTRY-CHANGED <line>   a shared definition changed during the run
//	DONE docs=<n> runs=<n>
package main

import (
	"flag"
	"fmt"
	"math/rand"
	"os"
	"runtime"
	"strings"
	"sync"
	"time"

	"verifharness/internal/conc"
)

func main() {
	repo := flag.String("repo", "/repo", "repository root")
	g := flag.Int("goroutines", 8, "goroutines")
	seed := flag.Int64("seed", 1, "seed")
	budget := flag.Duration("budget", 20*time.Second, "time budget")
	maxDocs := flag.Int("docs", 0, "limit the number of documents (0 = all)")
	procs := flag.Int("procs", 0, "GOMAXPROCS (0 = default)")
	cold := flag.String("cold", "", "a narrow first phase on the cold process: validate | calculate (all goroutines released together, same order, no other stage in between)")
	hook := flag.String("hook", "", "run the in-process bulk / cancellation workload of internal/conchook instead: all | bulk | cancel")
	size := flag.String("size", "quick", "size of the -hook workload: quick | thorough")
	flag.Parse()
	if *hook != "" {
		runHook(*repo, *seed, *size, *hook)
		return
	}
	if *procs > 0 {
		runtime.GOMAXPROCS(*procs)
	}
	before := conc.Snap()
	inputs, outputs, err := conc.LoadExamples(*repo)
	if err != nil {
		fmt.Println("ERROR", err)
		os.Exit(2)
	}
	docs := append(append([]conc.Doc{}, conc.CrossAddons(inputs)...), inputs...)
	docs = append(docs, outputs...)
	docs = append(docs, conc.TinyCorpus(3)...)
	rng := rand.New(rand.NewSource(*seed))
	rng.Shuffle(len(docs), func(i, j int) { docs[i], docs[j] = docs[j], docs[i] })
	if *maxDocs > 0 && len(docs) > *maxDocs {
		docs = docs[:*maxDocs]
	}
	// The full pipeline passes through several process-wide locks (UUID clock, crypto/rand): they
	// order most accesses of two goroutines and hide unsynchronised first-use writes (lazy caches)
	// from the detector.  A narrow cold phase has no such stage: every goroutine parses and then
	// only validates (or only calculates) the same documents in the same order, released together.
	if *cold != "" {
		var cwg sync.WaitGroup
		start := make(chan struct{})
		src := outputs
		if *cold == "calculate" {
			// first the documents in old spellings (they take the regimes' migration tables), then the inputs
			src = nil
			for _, d := range conc.CrossAddons(inputs) {
				if strings.Contains(d.Name, "~legacy-key:") {
					src = append(src, d)
				}
			}
			src = append(src, inputs...)
		}
		for k := 0; k < *g; k++ {
			cwg.Add(1)
			go func() {
				defer cwg.Done()
				<-start
				for _, d := range src {
					conc.Narrow(d, *cold)
				}
			}()
		}
		close(start)
		cwg.Wait()
	}
	// small documents of the same schema written at the same time, every marshalling entry point
	// (after the cold phase: that one only validates / calculates, nothing has been written yet)
	{
		tiny := conc.TinyDocs(8)
		want, probs := conc.TinyWant(tiny)
		more, _ := conc.TinyConcurrent(tiny, want, *g, 2)
		for _, p := range append(probs, more...) {
			fmt.Printf("TRANSCRIPT-DIFFERS small documents of %s: %s\n", p.Schema, p.What)
		}
	}
	deadline := time.Now().Add(*budget)
	// every goroutine walks the same list from a different offset, so that the
	// same document (same regime/addon definitions) is in flight several times
	results := make([]map[int]string, *g)
	var wg sync.WaitGroup
	runs := make([]int, *g)
	for k := 0; k < *g; k++ {
		results[k] = map[int]string{}
		wg.Add(1)
		go func(k int) {
			defer wg.Done()
			off := 0
			if k%2 == 1 {
				off = (k * 7) % len(docs)
			}
			for i := range docs {
				if time.Now().After(deadline) {
					return
				}
				j := (i + off) % len(docs)
				results[k][j] = conc.Pipeline(docs[j])
				runs[k]++
				if k%3 == 0 {
					runtime.Gosched()
				}
			}
		}(k)
	}
	wg.Wait()
	total := 0
	for k := 0; k < *g; k++ {
		total += runs[k]
		for j, tr := range results[k] {
			if ref, ok := results[0][j]; ok && ref != tr {
				fmt.Printf("TRANSCRIPT-DIFFERS %s (goroutine %d vs 0)\n", docs[j].Name, k)
			}
		}
	}
	after := conc.Snap()
	if before.Digest != after.Digest {
		for _, l := range before.Diff(after, 10) {
			fmt.Println("FROZEN-REGISTRY-CHANGED", l)
		}
	}
	fmt.Printf("DONE docs=%d runs=%d leaves=%d slices=%d spare=%d\n", len(docs), total, len(before.Lines), before.Slices, before.Spare)
}
