// drive runs the correspondence / oracle side of one property check.
package main

import (
	"flag"
	"fmt"
	"os"

	"verifharness/internal/core"
	"verifharness/props/c01"
	"verifharness/props/c02"
	"verifharness/props/c03"
	"verifharness/props/c04"
	"verifharness/props/c05"
	"verifharness/props/c06"
	"verifharness/props/c07"
	"verifharness/props/c08"
	"verifharness/props/c09"
	"verifharness/props/c10"
	"verifharness/props/c11"
	"verifharness/props/c12"
	"verifharness/props/c13"
	"verifharness/props/c14"
	"verifharness/props/c15"
	"verifharness/props/c16"
	"verifharness/props/c17"
	"verifharness/props/c18"
	"verifharness/props/c19"
	"verifharness/props/c20"
)

var props = map[string]func(*core.Ctx) int{
	"C11": c11.Run,
	"C16": c16.Run,
	"C15": c15.Run,
	"C14": c14.Run,
	"C13": c13.Run,
	"C10": c10.Run,
	"C09": c09.Run,
	"C20": c20.Run,
	"C06": c06.Run,
	"C08": c08.Run,
	"C07": c07.Run,
	"C19": c19.Run,
	"C18": c18.Run,
	"C12": c12.Run,
	"C01": c01.Run,
	"C02": c02.Run,
	"C03": c03.Run,
	"C04": c04.Run,
	"C05": c05.Run,
	"C17": c17.Run,
}

func main() {
	tier := flag.String("tier", "quick", "quick|thorough")
	seed := flag.Int64("seed", 1, "PRNG seed")
	root := flag.String("root", "/verif", "verif root")
	repo := flag.String("repo", "/repo", "repo root")
	model := flag.String("model", "/verif/lean/.lake/build/bin/gobl_model", "model driver binary")
	search := flag.Bool("search", false, "an obligation is broken: widen the witness search")
	replay := flag.String("replay", "", "replay file")
	flag.Parse()
	if flag.NArg() != 1 {
		fmt.Fprintln(os.Stderr, "usage: drive [flags] <PROPERTY>")
		os.Exit(2)
	}
	id := flag.Arg(0)
	run, ok := props[id]
	if !ok {
		fmt.Fprintf(os.Stderr, "drive: no harness for %s\n", id)
		os.Exit(2)
	}
	ctx := core.NewCtx(id, *tier, *seed, *root, *repo, *model, *search)
	ctx.ReplayFile = *replay
	os.Exit(run(ctx))
}
