// Package c10 ties the Lean envelope state machine (Model/Envelope.lean) and
// its abstract outcome table (Spec/C10.lean) to the real gobl.Envelope:
// exhaustive enumeration of all operation sequences up to a length over an
// 11-operation alphabet on four base documents, plus long random sequences
// over the full alphabet.  After every step the outcome class and the length
// of the signature list are compared with the model; the invariants the
// property names are judged on the Go state itself.
package c10

import (
	"fmt"
	"strings"
	"sync"

	"github.com/invopop/gobl/bill"
	"github.com/invopop/gobl/dsig"
	"github.com/invopop/gobl/head"

	"verifharness/internal/core"
	"verifharness/internal/envh"
)

const envUUID = "0190f5c1-0000-7000-8000-00000000e001"

// tcase is a replayable history: the actions applied to an empty envelope.
type tcase struct {
	Acts []envh.Act `json:"acts"`
}

// the exhaustive alphabet; parameters depend on the position so that every
// edit, stamp and link is fresh
const nExh = 11

func exhAct(op, pos, base int) envh.Act {
	switch op {
	case 0:
		return envh.Act{K: "ins", Base: base}
	case 1:
		return envh.Act{K: "calc"}
	case 2:
		return envh.Act{K: "edit", N: 100 + pos}
	case 3:
		return envh.Act{K: "sign", N: 1}
	case 4:
		return envh.Act{K: "unsign"}
	case 5:
		return envh.Act{K: "stamp", A: fmt.Sprintf("p%d", pos), B: fmt.Sprintf("v%d", pos)}
	case 6:
		return envh.Act{K: "altstamp", A: fmt.Sprintf("a%d", pos)}
	case 7:
		return envh.Act{K: "link", A: fmt.Sprintf("l%d", pos), B: fmt.Sprintf("https://example.com/l%d", pos)}
	case 8:
		return envh.Act{K: "validate"}
	case 9:
		return envh.Act{K: "verify", Keys: []int{1}}
	default:
		return envh.Act{K: "rt", N: 0}
	}
}

type runner struct {
	c    *core.Ctx
	keys []*dsig.PrivateKey
}

// invariants judges, on the Go state alone, the facts the property names.
// pre is the state before the step (nil when not needed).
func (r *runner) invariants(pre, st *envh.St, a envh.Act, out string, hist func() tcase) {
	if p := core.Protect(func() { r.invariants1(pre, st, a, out, hist) }); p != "" {
		r.c.Fail("", "the library panicked while the signature list of a validated envelope was inspected: "+p, hist())
	}
}

func (r *runner) invariants1(pre, st *envh.St, a envh.Act, out string, hist func() tcase) {
	e := st.Env
	switch a.K {
	case "sign":
		if out == "ok" {
			// only envelopes whose digest matches the document can be signed
			if pre != nil && pre.Env.Head != nil {
				d, err := pre.Env.Digest()
				if err != nil || pre.Env.Head.Digest == nil || pre.Env.Head.Digest.Equals(d) != nil {
					r.c.Fail("", "Sign succeeded although the header digest did not match the document: "+fmt.Sprint(hist().Acts), hist())
				}
			}
			if len(e.Signatures) == 0 {
				r.c.Fail("", "Sign succeeded but left no signature", hist())
			}
		} else if len(e.Signatures) != 0 {
			r.c.Fail("", fmt.Sprintf("a failed Sign (%s) left %d signatures on the envelope", out, len(e.Signatures)), hist())
		}
	case "validate":
		if out != "ok" {
			return
		}
		signed := len(e.Signatures) > 0
		if len(e.Head.Stamps) > 0 && !signed {
			r.c.Fail("", "an unsigned envelope with stamps validates", hist())
		}
		if inv, ok := e.Document.Instance().(*bill.Invoice); ok && signed && inv.Code == "" {
			r.c.Fail("", "a signed invoice without code validates", hist())
		}
		if signed {
			// the envelope is valid for signing and its digest matches
			d, err := e.Digest()
			if err != nil || e.Head.Digest == nil || e.Head.Digest.Equals(d) != nil {
				r.c.Fail("", "a signed envelope validates although its digest does not match the document", hist())
			}
		}
		// every entry of the signature list is a real signature made by a sign step
		if len(st.Sigs) != len(e.Signatures) {
			r.c.Fail("", fmt.Sprintf("signature list has %d entries, %d were produced by sign steps", len(e.Signatures), len(st.Sigs)), hist())
			return
		}
		for i, sg := range e.Signatures {
			rec := st.Sigs[i]
			if sg == nil || rec.Null || sg.String() == "" {
				r.c.Fail("", fmt.Sprintf("a valid envelope carries entry %d of the signature list that is not a signature", i), hist())
				continue
			}
			h := new(head.Header)
			if err := sg.VerifyPayload(r.keys[rec.Signer-1].Public(), h); err != nil {
				r.c.Fail("", fmt.Sprintf("entry %d of the signature list does not verify under the key that signed: %v", i, err), hist())
				continue
			}
			if fmt.Sprint(envh.HdrOf(h)) != fmt.Sprint(rec.Hdr) {
				r.c.Fail("", fmt.Sprintf("entry %d of the signature list is not over the header of its sign step", i), hist())
			}
		}
	}
}

func stepOut(out string, st *envh.St) string {
	return fmt.Sprintf("%s|%d", out, len(st.Env.Signatures))
}

// reshape changes how an empty list is REPRESENTED (nil, or empty and non-nil as left behind by
// filtering in place or by JSON `[]`) before an operation runs: the abstract state is the same, so
// every outcome must be the same.
func reshape(st *envh.St, n int) {
	e := st.Env
	if e == nil || e.Head == nil {
		return
	}
	switch n % 3 {
	case 0:
		if len(e.Head.Stamps) == 0 {
			e.Head.Stamps = []*head.Stamp{}
		}
		if len(e.Head.Links) == 0 {
			e.Head.Links = []*head.Link{}
		}
		if len(e.Signatures) == 0 {
			e.Signatures = []*dsig.Signature{}
		}
	case 1:
		if len(e.Head.Stamps) == 0 {
			e.Head.Stamps = nil
		}
		if len(e.Head.Links) == 0 {
			e.Head.Links = nil
		}
		if len(e.Signatures) == 0 {
			e.Signatures = nil
		}
	}
}

func (r *runner) do(st *envh.St, a envh.Act) (out string) {
	// a function of the state and the operation only, so that a replay reshapes the same way
	reshape(st, len(a.K)+a.N+a.Base+len(a.A)+len(st.Env.Signatures)+st.Cur)
	if p := core.Protect(func() { out = st.Do(a) }); p != "" {
		out = "panic:" + p
	}
	return
}

func summary(st *envh.St, full bool) (res string) {
	if p := core.Protect(func() { res = summary1(st, full) }); p != "" {
		return "S panic:" + strings.ReplaceAll(p, " ", "_")
	}
	return
}

func summary1(st *envh.St, full bool) string {
	e := st.Env
	d, cc := "-", "-"
	if full {
		d, cc = "0", "1"
		if e.Head.Digest != nil && e.Document != nil && !e.Document.IsEmpty() {
			if dg, err := e.Digest(); err == nil && e.Head.Digest.Equals(dg) == nil {
				d = "1"
			}
		}
		for _, sg := range e.Signatures {
			if sg == nil {
				continue
			}
			h := new(head.Header)
			if err := sg.UnsafePayload(h); err != nil || !e.Head.Contains(h) {
				cc = "0"
			}
		}
	}
	return fmt.Sprintf("S %d %d %s %s", len(e.Head.Stamps), len(e.Head.Links), d, cc)
}

type leaf struct {
	req string
	got string
	key string
	tc  func() tcase
}

func request(st *envh.St, acts []envh.Act) string {
	var sb strings.Builder
	sb.WriteString("run 75")
	for _, a := range acts {
		sb.WriteByte(' ')
		sb.WriteString(st.Token(a))
	}
	return sb.String()
}

// dfs enumerates every extension of the current history up to length L.
func (r *runner) dfs(st *envh.St, base int, acts []envh.Act, outs []string, L int, full bool, emit func(leaf)) {
	if len(acts)-1 == L {
		cp := append([]envh.Act{}, acts...)
		key := []byte{byte(base)}
		for _, a := range cp[1:] {
			key = append(key, a.K[0], byte(len(a.K)))
		}
		emit(leaf{req: request(st, acts), got: strings.Join(outs, " ") + " " + summary(st, full), key: string(key), tc: func() tcase { return tcase{Acts: cp} }})
		return
	}
	for op := 0; op < nExh; op++ {
		a := exhAct(op, len(acts), base)
		child := st.Clone()
		out := r.do(child, a)
		acts2 := append(acts, a)
		hist := func() tcase { return tcase{Acts: append([]envh.Act{}, acts2...)} }
		if strings.HasPrefix(out, "panic:") {
			r.c.Fail("", "envelope operation panicked: "+out+" after "+fmt.Sprint(acts2), hist())
		}
		r.invariants(st, child, a, out, hist)
		r.dfs(child, base, acts2, append(outs, stepOut(out, child)), L, full, emit)
	}
}

func (r *runner) compare(leaves []leaf, what string) {
	c := r.c
	reqs := make([]string, len(leaves))
	for i, l := range leaves {
		reqs[i] = l.req
	}
	resp, err := c.Model(reqs)
	if err != nil {
		c.TieBroken("drive:C10/model", err.Error(), nil)
		return
	}
	for i, l := range leaves {
		m := resp[i]
		if !strings.HasPrefix(m, "ok ") {
			c.TieBroken("drive:C10/protocol", "unexpected model response "+m+" for "+l.req, l.tc())
			continue
		}
		m = m[3:]
		if !sameWithSkips(m, l.got) {
			k := firstDiff(m, l.got)
			tc := l.tc()
			if k < len(tc.Acts) {
				tc.Acts = tc.Acts[:k+1]
			}
			c.TieBroken("drive:C10/"+what, fmt.Sprintf("step %d of %v: model %q, Go %q", k, tc.Acts, m, l.got),
				map[string]any{"case": tc, "model": m, "go": l.got})
		}
	}
}

func sameWithSkips(m, g string) bool {
	if m == g {
		return true
	}
	a, b := strings.Fields(m), strings.Fields(g)
	if len(a) != len(b) {
		return false
	}
	for i := range a {
		if a[i] != b[i] && b[i] != "-" {
			return false
		}
	}
	return true
}

func firstDiff(m, g string) int {
	a, b := strings.Fields(m), strings.Fields(g)
	for i := 0; i < len(a) && i < len(b); i++ {
		if a[i] != b[i] && b[i] != "-" {
			return i
		}
	}
	return len(a)
}

// linear runs one history from the empty envelope.  With gen != nil the
// history is generated while it runs (the generator sees the real state).
func (r *runner) linear(tc tcase, dig *envh.Digests, gen func(st *envh.St, i int) envh.Act, n int) leaf {
	st := envh.NewSt(envUUID, r.keys, dig)
	var outs []string
	if gen != nil {
		tc = tcase{}
	} else {
		n = len(tc.Acts)
	}
	for i := 0; i < n; i++ {
		if gen != nil {
			tc.Acts = append(tc.Acts, gen(st, i))
		}
		a := tc.Acts[i]
		// the document object is mutated in place by linear histories: take the
		// pre-state digest now if the step is a sign
		var preOK = true
		if a.K == "sign" && st.Env.Head != nil {
			d, err := st.Env.Digest()
			preOK = err == nil && st.Env.Head.Digest != nil && st.Env.Head.Digest.Equals(d) == nil
		}
		out := r.do(st, a)
		cp := append([]envh.Act{}, tc.Acts[:i+1]...)
		hist := func() tcase { return tcase{Acts: cp} }
		if strings.HasPrefix(out, "panic:") {
			r.c.Fail("", "envelope operation panicked: "+out, hist())
		}
		if a.K == "sign" && out == "ok" && !preOK {
			r.c.Fail("", "Sign succeeded although the header digest did not match the document", hist())
		}
		r.invariants(nil, st, a, out, hist)
		outs = append(outs, stepOut(out, st))
		r.c.Count("random."+a.K+":"+out, 1)
		if len(st.Env.Signatures) > 0 {
			r.c.Count("random.steps-on-signed-envelope", 1)
		}
	}
	final := tc
	return leaf{req: request(st, final.Acts), got: strings.Join(outs, " ") + " " + summary(st, true), tc: func() tcase { return final }}
}

type weighted struct {
	w int
	f func() envh.Act
}

// randomGen picks the next action from the real state: unsigned envelopes are
// steered towards a successful signature, signed ones towards the operations
// whose outcome depends on the signatures.
func (r *runner) randomGen() func(st *envh.St, i int) envh.Act {
	rng := r.c.Rng
	base := rng.Intn(len(envh.Bases))
	if rng.Intn(4) != 0 {
		base = rng.Intn(4)
	}
	startEmpty := rng.Intn(6) == 0
	stale := false // an edit has not been followed by a calculation yet
	return func(st *envh.St, i int) envh.Act {
		if i == 0 && !startEmpty {
			return envh.Act{K: "ins", Base: base}
		}
		signed := len(st.Env.Signatures) > 0
		pick := func(u, s int) int {
			if signed {
				return s
			}
			return u
		}
		calcW := 6
		if stale {
			calcW = 30
		}
		opts := []weighted{
			{5, func() envh.Act {
				b := base
				if rng.Intn(3) == 0 {
					b = rng.Intn(len(envh.Bases))
				}
				return envh.Act{K: "ins", Base: b}
			}},
			{calcW, func() envh.Act { return envh.Act{K: "calc"} }},
			{7, func() envh.Act { return envh.Act{K: "edit", N: 1000 + i} }},
			{4, func() envh.Act { return envh.Act{K: "tcode", N: 1000 + i} }},
			{pick(22, 8), func() envh.Act { return envh.Act{K: "sign", N: 1 + rng.Intn(2)} }},
			{2, func() envh.Act { return envh.Act{K: "signbad"} }},
			{pick(2, 4), func() envh.Act { return envh.Act{K: "unsign"} }},
			{pick(2, 9), func() envh.Act {
				return envh.Act{K: "stamp", A: fmt.Sprintf("p%d", rng.Intn(4)), B: fmt.Sprintf("v%d", i)}
			}},
			{pick(1, 5), func() envh.Act { return envh.Act{K: "altstamp", A: fmt.Sprintf("a%d", i)} }},
			{5, func() envh.Act {
				return envh.Act{K: "link", A: fmt.Sprintf("l%d", rng.Intn(4)), B: fmt.Sprintf("https://example.com/%d", i)}
			}},
			{3, func() envh.Act { return envh.Act{K: "tag", A: fmt.Sprintf("t%d", rng.Intn(4))} }},
			{4, func() envh.Act {
				return envh.Act{K: "meta", A: fmt.Sprintf("m%d", rng.Intn(3)), B: fmt.Sprintf("x%d", i)}
			}},
			{2, func() envh.Act { return envh.Act{K: "notes", A: []string{"", "n1", "n2"}[rng.Intn(3)]} }},
			{10, func() envh.Act { return envh.Act{K: "validate"} }},
			{pick(4, 16), func() envh.Act {
				return envh.Act{K: "verify", Keys: [][]int{{1}, {2}, {}, {2, 1}, {1, 2}}[rng.Intn(5)]}
			}},
			{6, func() envh.Act { return envh.Act{K: "rt", N: []int{0, 0, 0, 1, 2}[rng.Intn(5)]} }},
		}
		tot := 0
		for _, o := range opts {
			tot += o.w
		}
		x := rng.Intn(tot)
		var a envh.Act
		for _, o := range opts {
			if x < o.w {
				a = o.f()
				break
			}
			x -= o.w
		}
		switch a.K {
		case "edit", "tcode":
			stale = true
		case "calc", "ins":
			stale = false
		}
		return a
	}
}

// Run is the C10 correspondence and oracle run.
func Run(c *core.Ctx) int {
	r := &runner{c: c, keys: []*dsig.PrivateKey{dsig.NewES256Key(), dsig.NewES256Key()}}
	var rc tcase
	if c.ReplayCase(&rc) {
		l := r.linear(rc, envh.NewDigests(), nil, 0)
		c.Note("replay: Go %s", l.got)
		r.compare([]leaf{l}, "replay")
		c.Eval(l.req, true)
		return c.Finish("replay", nil)
	}

	// (i) exhaustive: all sequences of length <= L over the 11-op alphabet on 4 base documents
	L := c.Pick(4, 6)
	if c.Search && L > 6 {
		L = 6
	}
	if c.Search && !c.Thorough() {
		L = 5
	}
	var total int64
	for base := 0; base < 4; base++ {
		type task struct{ o1, o2 int }
		tasks := make(chan task, nExh*nExh)
		for o1 := 0; o1 < nExh; o1++ {
			for o2 := 0; o2 < nExh; o2++ {
				tasks <- task{o1, o2}
			}
		}
		close(tasks)
		var mu sync.Mutex
		var leaves []leaf
		var wg sync.WaitGroup
		for w := 0; w < 16; w++ {
			wg.Add(1)
			go func() {
				defer wg.Done()
				dig := envh.NewDigests()
				var local []leaf
				for t := range tasks {
					st := envh.NewSt(envUUID, r.keys, dig)
					st.COW = true
					acts := []envh.Act{{K: "ins", Base: base}}
					outs := []string{stepOut(r.do(st, acts[0]), st)}
					ok := true
					for _, op := range []int{t.o1, t.o2} {
						a := exhAct(op, len(acts), base)
						child := st.Clone()
						out := r.do(child, a)
						acts = append(acts, a)
						// invariants of the two prefix steps are judged once, in the task that owns them
						if (len(acts) == 2 && t.o2 == 0) || len(acts) == 3 {
							cp := append([]envh.Act{}, acts...)
							r.invariants(st, child, a, out, func() tcase { return tcase{Acts: cp} })
						}
						if strings.HasPrefix(out, "panic:") {
							cp := append([]envh.Act{}, acts...)
							c.Fail("", "envelope operation panicked: "+out, tcase{Acts: cp})
							ok = false
							break
						}
						outs = append(outs, stepOut(out, child))
						st = child
					}
					if !ok {
						continue
					}
					r.dfs(st, base, acts, outs, L, !c.Thorough(), func(l leaf) { local = append(local, l) })
				}
				mu.Lock()
				leaves = append(leaves, local...)
				mu.Unlock()
				if dig.Conflict != "" {
					c.TieBroken("drive:C10/digest-table", dig.Conflict, nil)
				}
			}()
		}
		wg.Wait()
		r.compare(leaves, "exhaustive/"+envh.Bases[base].Name)
		for i, l := range leaves {
			c.Eval(l.key, true)
			if i%150001 == 7 {
				c.Sample(map[string]any{"request": l.req, "go": l.got})
			}
		}
		// distribution of outcome classes over the steps of the leaves
		for _, l := range leaves {
			f := strings.Fields(l.got)
			last := f[len(f)-6]
			c.Count("exhaustive.last-outcome:"+last[:strings.IndexByte(last, '|')], 1)
		}
		total += int64(len(leaves))
		c.Count("exhaustive.sequences:"+envh.Bases[base].Name, int64(len(leaves)))
	}
	c.Count("exhaustive.length", int64(L))

	// (ii) random sequences of length 7..40 over the full alphabet and all five base documents
	nr := c.Pick(1500, 40000)
	dig := envh.NewDigests()
	var leaves []leaf
	for i := 0; i < nr; i++ {
		n := 7 + c.Rng.Intn(34)
		l := r.linear(tcase{}, dig, r.randomGen(), n)
		leaves = append(leaves, l)
		c.Count(fmt.Sprintf("random.length:%02d-%02d", n/10*10, n/10*10+9), 1)
	}
	if dig.Conflict != "" {
		c.TieBroken("drive:C10/digest-table", dig.Conflict, nil)
	}
	r.compare(leaves, "random")
	for i, l := range leaves {
		c.Eval(l.req, true)
		if i%997 == 3 {
			c.Sample(map[string]any{"request": l.req, "go": l.got})
		}
	}
	return c.Finish(fmt.Sprintf("exhaustive: every sequence of length <= %d over an 11-operation alphabet (insert, calculate, editDoc, sign, unsign, addStamp, alterStamp, addLink, validate, verify, roundtrip) after the initial insert, on 4 base documents (prefix tree, each maximal sequence one evaluation; shorter sequences are its prefixes); random: sequences of length 7-40 over 16 operations incl. second key, invalid key, toggling the invoice code, injected empty/null signature entries, 5 base documents; compared per step: outcome class and len(sigs); non-trivial = every sequence (each has at least one state-changing step); distinct by request text", L),
		map[string]any{"exhaustive_sequences": total, "exhaustive_length": L, "steps_compared": total * int64(L+1)})
}
