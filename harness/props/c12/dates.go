package c12

// The "dates" path: THE DATE THE DOCUMENT STATES, in every spelling a reader accepts.
//
// The statement gives a document "the table value with the latest start date on or before the
// document's tax date" and makes "a date before the first value an error rather than a guess".
// The tax date is what the document states: its value date when it has one, its issue date
// otherwise; the operation date never.  A date leaf that is PRESENT states a date, whatever the
// date is worth: a reader (cal.Date.UnmarshalJSON, the Go API) accepts besides ordinary dates
//
//	zero-text    "0000-00-00", the text the library itself writes for an empty date
//	zero-struct  the zero cal.Date (a pointer to it for the optional leaves), set through the Go API
//	far-past     "0001-01-01"
//	far-future   "9999-12-31"
//	null         JSON null (an optional leaf is then absent; the issue date is not read)
//	empty-text   "" (not read at all: counted as not parsed)
//
// and each of them is put, for every cell of the exhaustive grid (regime x category x key x filter
// x boundary date d), on every leaf that decides the tax date or could be mistaken for one:
//
//	value_date in the spelling, issue_date = d     → the tax date is the value date AS STATED
//	issue_date in the spelling, no value date      → the tax date is the issue date as stated
//	                                                 (an EMPTY issue date is documented to be filled
//	                                                 with today: then today is what is judged)
//	issue_date in the spelling, value_date = d     → d
//	op_date in the spelling, issue_date = d        → d
//	op_date in the spelling, value_date = d, issue_date 400 days later → d
//
// The oracle is the one of the rows path, asked for the date the document states: the value in
// force on THAT date in the regenerated tables; none in force there (a date before the first value
// of a dated table: the empty date lies before every date) ⇒ the calculation must fail, never
// hand out the rate of another date of the document.

import (
	"github.com/invopop/gobl/cal"

	"verifharness/internal/core"
)

var dateSpellings = []string{"zero-text", "zero-struct", "far-past", "far-future", "null", "empty-text"}

var leafDates = map[string][3]int{
	"zero-text": {0, 0, 0}, "zero-struct": {0, 0, 0}, "far-past": {1, 1, 1}, "far-future": {9999, 12, 31},
}

// leafText: the JSON value written for a spelling (ok=false: the member is written by other means or not at all).
func leafText(sp string) (any, bool) {
	switch sp {
	case "zero-text":
		return "0000-00-00", true
	case "far-past":
		return "0001-01-01", true
	case "far-future":
		return "9999-12-31", true
	case "null":
		return nil, true
	case "empty-text":
		return "", true
	}
	return nil, false
}

// writeLeaves lays the date members of a dates case out in the JSON document (after the defaults of buildRowsJSON).
func writeLeaves(doc map[string]any, cs Case) {
	lv := cs.Doc.Leaves
	if lv == nil {
		return
	}
	for _, name := range []string{"issue_date", "value_date", "op_date"} {
		sp, has := lv[name]
		if !has {
			continue
		}
		switch sp {
		case "absent":
			delete(doc, name)
		case "grid":
			doc[name] = isoDate(cs.Date)
		case "grid+400":
			doc[name] = isoDate(addDays(mkDate(cs.Date), 400))
		case "zero-struct":
			delete(doc, name) // set on the parsed document
		default:
			if v, ok := leafText(sp); ok {
				doc[name] = v
			}
		}
	}
}

// setLeaves: the spellings that go through the Go API.
func (v *docView) setLeaves(cs Case) {
	for name, sp := range cs.Doc.Leaves {
		if sp != "zero-struct" {
			continue
		}
		switch name {
		case "issue_date":
			*v.issue = cal.Date{}
		case "value_date":
			*v.value = &cal.Date{}
		case "op_date":
			if v.op != nil {
				*v.op = &cal.Date{}
			}
		}
	}
}

// statedTaxDate: the tax date a dates case states (today=true: an empty issue date decides, which the library fills with today).
func statedTaxDate(cs Case) (d [3]int, today bool) {
	read := func(name string) (d [3]int, present bool) {
		sp, has := cs.Doc.Leaves[name]
		if !has && name == "issue_date" {
			return cs.Date, true
		}
		switch sp {
		case "grid":
			return cs.Date, true
		case "grid+400":
			return addDays(mkDate(cs.Date), 400), true
		}
		ld, ok := leafDates[sp]
		return ld, ok
	}
	if d, ok := read("value_date"); ok {
		return d, false
	}
	d, _ = read("issue_date")
	return d, d == [3]int{}
}

// filledWithToday: the case leaves the issue date empty and it decides; the library fills it with the
// present day of the regime's time zone (a document that could not be calculated for another reason keeps it empty).
func filledWithToday(cs Case, out docRead) bool {
	if cs.Doc.Leaves == nil {
		return false
	}
	if _, today := statedTaxDate(cs); !today {
		return false
	}
	if out.Err != "" && out.Err != "date" && out.TaxDate == [3]int{} {
		return true
	}
	got := mkDate(out.TaxDate)
	now := cal.Today()
	return got.DaysSince(now.Date) >= -1 && got.DaysSince(now.Date) <= 1
}

// datesCases enumerates the "dates" path.
func datesCases(c *core.Ctx) []Case {
	var out []Case
	n := 0
	rows := rowsOf(func(int) bool { return false }, "priced", "no-price", "discount")
	stale := rowsOf(func(int) bool { return true }, "priced", "zero-price", "charge")
	for _, cl := range cells() {
		if len(cl.def.Values) == 0 && !cl.def.Exempt {
			continue
		}
		for _, tv := range cl.tagVars {
			for _, ev := range cl.extVars {
				for _, d := range cl.dates {
					add := func(leaves map[string]string) {
						kinds := docKinds
						if !c.Thorough() {
							n++
							kinds = docKinds[n%3 : n%3+1]
						}
						for _, kind := range kinds {
							if _, op := leaves["op_date"]; op && kind == "delivery" {
								kind = "invoice" // a delivery has no operation date
							}
							rs := rows
							if n%2 == 1 {
								rs = stale
							}
							out = append(out, Case{Path: "dates", Country: cl.regime, Cat: cl.cat, Rate: cl.rate, Date: d, Tags: tv, Ext: ev,
								Doc: &DocSpec{Kind: kind, Rows: rs, Leaves: leaves}})
						}
					}
					for _, sp := range dateSpellings {
						add(map[string]string{"value_date": sp, "issue_date": "grid"})
						add(map[string]string{"issue_date": sp, "value_date": "absent"})
						add(map[string]string{"issue_date": sp, "value_date": "grid"})
						add(map[string]string{"op_date": sp, "issue_date": "grid"})
						add(map[string]string{"op_date": sp, "value_date": "grid", "issue_date": "grid+400"})
					}
				}
			}
		}
	}
	return out
}

var _ = core.Hex
