package c12

// Two document paths judged with the oracle of the single-row paths (the value
// in force, Spec.C12.inForce over the regenerated tables, of the regime that
// applies to the row):
//
// "rows" — ROW SHAPES.  The statement speaks of "the percentage a document
// receives" for a rate key: of every row of the document that names the key,
// whatever the row amounts to.  For every cell of the exhaustive grid (regime x
// category x key x filter x boundary date) documents of the three kinds that
// share the calculation (invoice, order, delivery) are laid out with the rows
//
//	priced          quantity 1, price 100.00
//	zero-price      quantity 1, price 0.00 (free of charge)
//	zero-quantity   quantity 0, price 100.00
//	discounted      quantity 1, price 100.00, line discount 100 %
//	no-price        an item without a price (orders, deliveries)
//	discount(-zero) document discount of 10.00 / 0.00
//	charge(-zero)   document charge of 5.00 / 0.00
//
// each ALONE (the only row naming the key: the document is calculated or
// rejected on that row's account), all together and in seeded subsets/orders,
// with and without a supplied (stale) percentage and surcharge on the row.
//
// "recalc" — RECALCULATION.  The percentage is a function of the document's
// state (regime that applies, category, key, extensions, tags, tax date), not of
// its history: a document that was calculated, then edited in memory and
// calculated again must hold the value in force for its state after the edit,
// and the very figures a fresh parse of the edited document's JSON receives.
// Edits: percentage and surcharge overwritten (key kept); tax date moved to the
// neighbouring boundary date (issue date, value date set, value date removed);
// tags / extensions replaced by another filter variant of the table; another
// key of the category; the customer's country under `customer-rates` (changed,
// tag added, tag removed); the country written on the combo (changed, removed);
// no edit at all.

import (
	"encoding/json"
	"errors"
	"fmt"
	"sort"
	"strings"

	"github.com/invopop/gobl/bill"
	"github.com/invopop/gobl/cal"
	"github.com/invopop/gobl/cbc"
	"github.com/invopop/gobl/l10n"
	"github.com/invopop/gobl/num"
	"github.com/invopop/gobl/org"
	"github.com/invopop/gobl/tax"

	"verifharness/internal/core"
)

// RowSpec is one row of a generated document.
type RowSpec struct {
	Shape string `json:"shape"`           // priced | zero-price | zero-quantity | discounted | no-price | plain | discount | discount-zero | charge | charge-zero
	Stale bool   `json:"stale,omitempty"` // the row's combo is written with a percentage and a surcharge
}

// DocSpec lays a document out; every row but `plain` carries one combo {category, key, ext} of the case.
type DocSpec struct {
	Kind      string    `json:"kind"`                 // invoice | order | delivery
	ValueDate bool      `json:"value_date,omitempty"` // the case's date is the value date, the issue date lies 400 days later
	Customer  string    `json:"customer,omitempty"`   // tax country of the customer
	ComboCtry string    `json:"combo_country,omitempty"`
	Rows      []RowSpec `json:"rows"`
	// dates path (dates.go): the spelling of a date leaf — issue_date | value_date | op_date → spelling
	Leaves map[string]string `json:"date_leaves,omitempty"`
}

// EditSpec is what is changed on the calculated in-memory document before it is calculated again.
type EditSpec struct {
	Name       string             `json:"name"`
	Issue      *[3]int            `json:"issue_date,omitempty"`
	Value      *[3]int            `json:"value_date,omitempty"`
	ClearValue bool               `json:"clear_value_date,omitempty"`
	Tags       *[]string          `json:"tags,omitempty"`
	Customer   *string            `json:"customer,omitempty"`
	ComboCtry  *string            `json:"combo_country,omitempty"`
	Rate       *string            `json:"rate,omitempty"`
	Ext        *map[string]string `json:"ext,omitempty"`
	Pct        string             `json:"percent,omitempty"`
	Sur        string             `json:"surcharge,omitempty"`
}

const (
	stalePct, staleSur = "99.0%", "7.7%" // written in the JSON text of a stale row
	editPct, editSur   = "98.7%", "6.5%" // written over the calculated figures in memory
)

var lineShapes = []string{"priced", "zero-price", "zero-quantity", "discounted", "no-price"}
var allShapes = append(append([]string{}, lineShapes...), "discount", "discount-zero", "charge", "charge-zero")
var docKinds = []string{"invoice", "order", "delivery"}

func shapePos(s string) int {
	switch {
	case strings.HasPrefix(s, "discount") && s != "discounted":
		return 1
	case strings.HasPrefix(s, "charge"):
		return 2
	}
	return 0
}

func isoDate(d [3]int) string { return fmt.Sprintf("%04d-%02d-%02d", d[0], d[1], d[2]) }

// buildRowsJSON writes the document of a rows / recalc case as JSON text.
func buildRowsJSON(cs Case) []byte {
	ds := cs.Doc
	combo := func(r RowSpec) map[string]any {
		m := map[string]any{"cat": cs.Cat, "rate": cs.Rate}
		if len(cs.Ext) > 0 {
			m["ext"] = cs.Ext
		}
		if ds.ComboCtry != "" {
			m["country"] = ds.ComboCtry
		}
		if r.Stale {
			m["percent"] = stalePct
			m["surcharge"] = staleSur
		}
		return m
	}
	var lines, discounts, charges []any
	for _, r := range ds.Rows {
		taxes := []any{combo(r)}
		switch r.Shape {
		case "priced":
			lines = append(lines, map[string]any{"quantity": "1", "item": map[string]any{"name": "thing", "price": "100.00"}, "taxes": taxes})
		case "plain":
			lines = append(lines, map[string]any{"quantity": "1", "item": map[string]any{"name": "thing", "price": "100.00"}})
		case "zero-price":
			lines = append(lines, map[string]any{"quantity": "1", "item": map[string]any{"name": "gift", "price": "0.00"}, "taxes": taxes})
		case "zero-quantity":
			lines = append(lines, map[string]any{"quantity": "0", "item": map[string]any{"name": "thing", "price": "100.00"}, "taxes": taxes})
		case "discounted":
			lines = append(lines, map[string]any{"quantity": "1", "item": map[string]any{"name": "thing", "price": "100.00"},
				"discounts": []any{map[string]any{"percent": "100%", "reason": "free"}}, "taxes": taxes})
		case "no-price":
			lines = append(lines, map[string]any{"quantity": "3", "item": map[string]any{"name": "thing"}, "taxes": taxes})
		case "discount":
			discounts = append(discounts, map[string]any{"reason": "r", "amount": "10.00", "taxes": taxes})
		case "discount-zero":
			discounts = append(discounts, map[string]any{"reason": "r", "amount": "0.00", "taxes": taxes})
		case "charge":
			charges = append(charges, map[string]any{"reason": "r", "amount": "5.00", "taxes": taxes})
		case "charge-zero":
			charges = append(charges, map[string]any{"reason": "r", "amount": "0.00", "taxes": taxes})
		}
	}
	doc := map[string]any{
		"$regime":    cs.Country,
		"issue_date": isoDate(cs.Date),
		"code":       "C12-R",
		"supplier":   map[string]any{"name": "Supplier", "tax_id": map[string]any{"country": cs.Country}},
	}
	if ds.ValueDate {
		doc["value_date"] = isoDate(cs.Date)
		doc["issue_date"] = isoDate(addDays(mkDate(cs.Date), 400))
	}
	writeLeaves(doc, cs)
	if len(cs.Tags) > 0 {
		doc["$tags"] = cs.Tags
	}
	if ds.Customer != "" {
		doc["customer"] = map[string]any{"name": "Customer", "tax_id": map[string]any{"country": ds.Customer}}
	}
	if lines != nil {
		doc["lines"] = lines
	}
	if discounts != nil {
		doc["discounts"] = discounts
	}
	if charges != nil {
		doc["charges"] = charges
	}
	b, _ := json.Marshal(doc)
	return b
}

// docView gives the three kinds of document that share bill's calculation one face.
type docView struct {
	doc       any
	lines     []*bill.Line
	discounts []*bill.Discount
	charges   []*bill.Charge
	tags      *tax.Tags
	regime    *tax.Regime
	issue     *cal.Date
	value     **cal.Date
	op        **cal.Date // nil: the kind has no operation date
	customer  **org.Party
	calc      func() error
}

func parseDoc(kind string, data []byte) (*docView, error) {
	switch kind {
	case "order":
		d := new(bill.Order)
		if err := json.Unmarshal(data, d); err != nil {
			return nil, err
		}
		return &docView{doc: d, lines: d.Lines, discounts: d.Discounts, charges: d.Charges, tags: &d.Tags, regime: &d.Regime, issue: &d.IssueDate, value: &d.ValueDate, op: &d.OperationDate, customer: &d.Customer, calc: d.Calculate}, nil
	case "delivery":
		d := new(bill.Delivery)
		if err := json.Unmarshal(data, d); err != nil {
			return nil, err
		}
		return &docView{doc: d, lines: d.Lines, discounts: d.Discounts, charges: d.Charges, tags: &d.Tags, regime: &d.Regime, issue: &d.IssueDate, value: &d.ValueDate, customer: &d.Customer, calc: d.Calculate}, nil
	default:
		d := new(bill.Invoice)
		if err := json.Unmarshal(data, d); err != nil {
			return nil, err
		}
		return &docView{doc: d, lines: d.Lines, discounts: d.Discounts, charges: d.Charges, tags: &d.Tags, regime: &d.Regime, issue: &d.IssueDate, value: &d.ValueDate, op: &d.OperationDate, customer: &d.Customer, calc: d.Calculate}, nil
	}
}

// combos returns, in the order of the spec's rows, the combo of every row (nil for `plain` or missing).
func (v *docView) combos(rows []RowSpec) []*tax.Combo {
	out := make([]*tax.Combo, len(rows))
	li, di, ci := 0, 0, 0
	first := func(s tax.Set) *tax.Combo {
		if len(s) == 1 {
			return s[0]
		}
		return nil
	}
	for i, r := range rows {
		switch shapePos(r.Shape) {
		case 0:
			if li < len(v.lines) && v.lines[li] != nil && r.Shape != "plain" {
				out[i] = first(v.lines[li].Taxes)
			}
			li++
		case 1:
			if di < len(v.discounts) && v.discounts[di] != nil {
				out[i] = first(v.discounts[di].Taxes)
			}
			di++
		case 2:
			if ci < len(v.charges) && v.charges[ci] != nil {
				out[i] = first(v.charges[ci].Taxes)
			}
			ci++
		}
	}
	return out
}

func (v *docView) calculate() string {
	var cerr error
	if p := core.Protect(func() { cerr = v.calc() }); p != "" {
		return "panic:" + p
	}
	switch {
	case cerr == nil:
		return ""
	case errors.Is(cerr, tax.ErrInvalidDate):
		return "date"
	case errors.Is(cerr, tax.ErrInvalidCategory):
		return "category"
	case errors.Is(cerr, tax.ErrInvalidRate):
		return "rate"
	}
	return "other:" + cerr.Error()
}

func (v *docView) taxDate() [3]int {
	td := *v.issue
	if *v.value != nil {
		td = **v.value
	}
	return [3]int{td.Year, int(td.Month), td.Day}
}

// rowRead is what one row holds after a calculation.
type rowRead struct {
	Shape   string            `json:"shape"`
	Found   bool              `json:"found"`
	Cat     string            `json:"cat,omitempty"`
	Rate    string            `json:"rate,omitempty"`
	Country string            `json:"country,omitempty"`
	Pct     string            `json:"percent,omitempty"`
	Sur     string            `json:"surcharge,omitempty"`
	Ext     map[string]string `json:"ext,omitempty"`
	regime  string
}

type docRead struct {
	Err     string    `json:"err"`
	Tags    []string  `json:"tags,omitempty"`
	TaxDate [3]int    `json:"tax_date"`
	Rows    []rowRead `json:"rows"`
}

func (v *docView) read(rows []RowSpec, err string) docRead {
	out := docRead{Err: err, TaxDate: v.taxDate()}
	for _, t := range v.tags.GetTags() {
		out.Tags = append(out.Tags, string(t))
	}
	host := string(v.regime.GetRegime())
	for i, cb := range v.combos(rows) {
		r := rowRead{Shape: rows[i].Shape, regime: host}
		if cb != nil {
			r.Found = true
			r.Cat, r.Rate, r.Country = string(cb.Category), string(cb.Rate), string(cb.Country)
			r.Pct, r.Sur = pctPtr(cb.Percent), pctPtr(cb.Surcharge)
			r.Ext = extOf(cb.Ext)
			if cb.Country != "" {
				r.regime = string(cb.Country)
				if rd := tax.RegimeDefFor(l10n.Code(cb.Country)); rd != nil {
					r.regime = string(rd.Country)
				}
			}
		}
		out.Rows = append(out.Rows, r)
	}
	return out
}

func mustPct(s string) *num.Percentage {
	p, err := num.PercentageFromString(s)
	if err != nil {
		panic(err)
	}
	return &p
}

// apply edits the in-memory document.
func (v *docView) apply(ed *EditSpec, rows []RowSpec) {
	if ed.Issue != nil {
		*v.issue = mkDate(*ed.Issue)
	}
	if ed.Value != nil {
		d := mkDate(*ed.Value)
		*v.value = &d
	}
	if ed.ClearValue {
		*v.value = nil
	}
	if ed.Tags != nil {
		v.tags.SetTags(toKeys(*ed.Tags)...)
	}
	if ed.Customer != nil {
		if *v.customer == nil {
			*v.customer = &org.Party{Name: "Customer"}
		}
		(*v.customer).TaxID = &tax.Identity{Country: l10n.TaxCountryCode(*ed.Customer)}
	}
	for _, cb := range v.combos(rows) {
		if cb == nil {
			continue
		}
		if ed.ComboCtry != nil {
			cb.Country = l10n.TaxCountryCode(*ed.ComboCtry)
		}
		if ed.Rate != nil {
			cb.Rate = cbc.Key(*ed.Rate)
		}
		if ed.Ext != nil {
			cb.Ext = toExt(*ed.Ext)
		}
		if ed.Pct != "" {
			cb.Percent = mustPct(ed.Pct)
		}
		if ed.Sur != "" {
			cb.Surcharge = mustPct(ed.Sur)
		}
	}
}

// expectedTaxDate is the tax date the case's description gives the document (after the edit, if any).
func expectedTaxDate(cs Case) [3]int {
	if cs.Doc.Leaves != nil {
		d, _ := statedTaxDate(cs)
		return d
	}
	issue, value := cs.Date, (*[3]int)(nil)
	if cs.Doc.ValueDate {
		d := cs.Date
		value = &d
		issue = addDays(mkDate(cs.Date), 400)
	}
	if ed := cs.Edit; ed != nil {
		if ed.Issue != nil {
			issue = *ed.Issue
		}
		if ed.Value != nil {
			value = ed.Value
		}
		if ed.ClearValue {
			value = nil
		}
	}
	if value != nil {
		return *value
	}
	return issue
}

// suppliedPct: does the row's combo hold a percentage of the issuer's when the judged calculation starts?
func suppliedPct(cs Case, i int) bool {
	return cs.Doc.Rows[i].Stale || cs.Edit != nil // after a first calculation every row may hold one
}

func prepareRows(c *core.Ctx, cs Case) *evaluated {
	if cs.Doc == nil || len(cs.Doc.Rows) == 0 {
		return nil
	}
	data := buildRowsJSON(cs)
	v, err := parseDoc(cs.Doc.Kind, data)
	e := &evaluated{Case: cs}
	if err != nil {
		e.judge = func([]string) {
			c.Eval(cs.key(), false)
			c.Count("skipped:document not parsed ("+cs.Path+")", 1)
			if len(c.Notes) < 6 {
				c.Note("not parsed: %s: %v", data, err)
			}
		}
		return e
	}
	c.Count("path:"+cs.Path, 1)
	v.setLeaves(cs)
	var first, fresh *docRead
	var out docRead
	if cs.Edit == nil {
		out = v.read(cs.Doc.Rows, v.calculate())
	} else {
		f := v.read(cs.Doc.Rows, v.calculate())
		first = &f
		v.apply(cs.Edit, cs.Doc.Rows)
		// the edited document's JSON, parsed afresh, is the reference of the relation
		edited, merr := json.Marshal(v.doc)
		out = v.read(cs.Doc.Rows, v.calculate())
		if merr == nil {
			if fv, perr := parseDoc(cs.Doc.Kind, edited); perr == nil {
				fr := fv.read(cs.Doc.Rows, fv.calculate())
				fresh = &fr
			}
		}
		c.Count("recalc:edit:"+cs.Edit.Name, 1)
	}
	detail := map[string]any{"case": cs, "document": json.RawMessage(data), "go": out}
	if first != nil {
		detail["first_calculation"] = first
		detail["fresh_parse_of_edited_document"] = fresh
	}
	e.Go = out
	for _, r := range out.Rows {
		if !r.Found {
			e.Reqs = append(e.Reqs, valReq("reg", r.regime, cs.Cat, cs.Rate, out.TaxDate, out.Tags, nil))
			continue
		}
		e.Reqs = append(e.Reqs, valReq("reg", r.regime, r.Cat, r.Rate, out.TaxDate, out.Tags, r.Ext))
	}
	what := func() string {
		s := fmt.Sprintf("%s of %s dated %s (tags %v)", cs.Doc.Kind, cs.Country, isoDate(out.TaxDate), out.Tags)
		if cs.Edit != nil {
			s += fmt.Sprintf(", calculated, edited in memory (%s) and calculated again", cs.Edit.Name)
		}
		return s
	}
	// at most two witnesses per kind of failure, so that the five the run keeps show different kinds
	fail := func(kind, what string, detail any) {
		k := "fails:" + cs.Path + ":" + kind
		c.Count(k, 1)
		if c.Counters[k] <= 2 {
			c.Fail("", what, detail)
		}
	}
	e.judge = func(resp []string) {
		if strings.HasPrefix(out.Err, "panic:") {
			c.Eval(cs.key(), false)
			fail("panic", what()+": Calculate panicked: "+out.Err, detail)
			return
		}
		if want := expectedTaxDate(cs); out.TaxDate != want && !filledWithToday(cs, out) {
			fail("tax-date", fmt.Sprintf("%s: the document's tax date is %v, expected %v", what(), out.TaxDate, want), detail)
			return
		}
		nontrivial := false
		noneInForce, unknown := "", false
		for i, r := range out.Rows {
			if cs.Doc.Rows[i].Shape == "plain" {
				continue
			}
			where := fmt.Sprintf("row %d (%s)", i, r.Shape)
			reg := parseVal(resp[i])
			if !reg.OK {
				unknown = true
				if out.Err == "" && tax.RegimeDefFor(l10n.Code(r.regime)) != nil {
					fail("unknown-cell", fmt.Sprintf("%s, %s: calculated without error although the tables of %s have no such category/rate %s/%s (%s)", what(), where, r.regime, r.Cat, r.Rate, reg.Err), detail)
					return
				}
				continue
			}
			if reg.Amb {
				c.Count("rows:row with ambiguous latest start (judged by the single-row paths)", 1)
				continue
			}
			if !reg.Exempt && reg.N > 0 && reg.S.None && noneInForce == "" {
				noneInForce = where
			}
			if out.Err != "" {
				continue
			}
			if !r.Found {
				fail("combo-lost", fmt.Sprintf("%s, %s: the calculated document no longer has this combo", what(), where), detail)
				return
			}
			c.Count("rows:judged:"+r.Shape, 1)
			switch {
			case reg.Exempt:
				if r.Pct != "-" || r.Sur != "-" {
					fail("exempt", fmt.Sprintf("%s, %s: %s %s %s is an exempt key, yet the row holds percent %s surcharge %s", what(), where, r.regime, r.Cat, r.Rate, r.Pct, r.Sur), detail)
					return
				}
			case reg.N == 0:
				if r.Pct != "-" && !suppliedPct(cs, i) {
					fail("no-values", fmt.Sprintf("%s, %s: %s %s %s has no values and the row gave no percentage, yet it holds %s", what(), where, r.regime, r.Cat, r.Rate, r.Pct), detail)
					return
				}
			case reg.S.None:
				fail("before-first", fmt.Sprintf("%s, %s: no value of %s %s %s is in force on the tax date (it lies before the first value), yet the document calculated and the row holds percent %s: an error is due, not a guess", what(), where, r.regime, r.Cat, r.Rate, r.Pct), detail)
				return
			default:
				nontrivial = true
				if r.Pct != reg.S.Pct || r.Sur != reg.S.Sur {
					fail("not-in-force", fmt.Sprintf("%s, %s: the row holds percent %s surcharge %s under %s %s %s (ext %v); the value in force on the tax date is %s / %s", what(), where, r.Pct, r.Sur, r.regime, r.Cat, r.Rate, r.Ext, reg.S.Pct, reg.S.Sur), detail)
					return
				}
				if (reg.M.Pct != r.Pct || reg.M.Sur != r.Sur) && len(c.Violations) == 0 {
					c.TieBroken("drive:C12/"+cs.Path, fmt.Sprintf("%s: model of RateDef.Value answers %s, the code %s / %s", where, reg.M, r.Pct, r.Sur), detail)
				}
			}
		}
		c.Eval(cs.key(), nontrivial)
		switch {
		case out.Err == "":
			c.Count(cs.Path+":outcome:calculated, every row judged", 1)
		case out.Err == "date":
			if noneInForce == "" && !unknown {
				fail("rejected-with-values", fmt.Sprintf("%s: rejected for a rate value unavailable on the date, although every row has a value in force in the table of its own regime", what()), detail)
				return
			}
			c.Count(cs.Path+":outcome:rejected, a row has no value in force", 1)
		default:
			c.Count(cs.Path+":outcome:not calculable ("+strings.SplitN(out.Err, ":", 2)[0]+")", 1)
			if len(c.Notes) < 6 {
				c.Note("not calculable: %s: %s", data, out.Err)
			}
		}
		// the recalculation relation: same state, same figures
		if cs.Edit != nil && fresh != nil {
			c.Count("recalc:compared with a fresh parse", 1)
			if first.Err != "" {
				c.Count("recalc:first calculation rejected ("+strings.SplitN(first.Err, ":", 2)[0]+")", 1)
			}
			if errClass(out.Err) != errClass(fresh.Err) {
				fail("fresh-outcome", fmt.Sprintf("%s: outcome %q, a fresh parse of the edited document's JSON gives %q", what(), out.Err, fresh.Err), detail)
				return
			}
			if out.Err == "" {
				for i, r := range out.Rows {
					f := fresh.Rows[i]
					if r.Found != f.Found || r.Cat != f.Cat || r.Rate != f.Rate || r.Country != f.Country || r.Pct != f.Pct || r.Sur != f.Sur || hexExt(r.Ext) != hexExt(f.Ext) {
						fail("fresh-row", fmt.Sprintf("%s, row %d (%s): holds %s %s %s percent %s surcharge %s ext %v; a fresh parse of the edited document's JSON receives %s %s %s percent %s surcharge %s ext %v", what(), i, r.Shape,
							r.Country, r.Cat, r.Rate, r.Pct, r.Sur, r.Ext, f.Country, f.Cat, f.Rate, f.Pct, f.Sur, f.Ext), detail)
						return
					}
				}
			}
		}
		if len(c.Samples) < 14 && out.Err == "" && nontrivial && len(out.Rows) > 3 && c.Counters["path:"+cs.Path]%97 == 1 {
			c.Sample(detail)
		}
	}
	return e
}

func errClass(e string) string {
	if i := strings.Index(e, ":"); i >= 0 {
		return e[:i]
	}
	return e
}

// ---- enumeration ---------------------------------------------------------------

type cell struct {
	regime, cat, rate string
	tagVars           [][]string
	extVars           []map[string]string
	dates             [][3]int
	def               *tax.RateDef
	catDef            *tax.CategoryDef
}

func sortDates(m map[[3]int]bool) [][3]int {
	ds := make([][3]int, 0, len(m))
	for d := range m {
		ds = append(ds, d)
	}
	sort.Slice(ds, func(i, j int) bool {
		return ds[i][0]*10000+ds[i][1]*100+ds[i][2] < ds[j][0]*10000+ds[j][1]*100+ds[j][2]
	})
	return ds
}

// cells lists every regime x category x key with its filter variants and boundary dates (the grid of c12.go).
func cells() []cell {
	var out []cell
	today := triple(cal.Today())
	for _, r := range tax.AllRegimeDefs() {
		for _, cat := range r.Categories {
			for _, rate := range cat.Rates {
				cl := cell{regime: string(r.Country), cat: string(cat.Code), rate: string(rate.Key), tagVars: [][]string{nil}, extVars: []map[string]string{nil}, def: rate, catDef: cat}
				seenT, seenE := map[string]bool{}, map[string]bool{}
				dates := map[[3]int]bool{{1900, 1, 1}: true, today: true, {2100, 1, 1}: true}
				for _, v := range rate.Values {
					if len(v.Tags) > 0 {
						ts := cbc.KeyStrings(v.Tags)
						if k := strings.Join(ts, ","); !seenT[k] {
							seenT[k] = true
							cl.tagVars = append(cl.tagVars, ts)
						}
					}
					if len(v.Ext) > 0 {
						em := extOf(v.Ext)
						if k := hexExt(em); !seenE[k] {
							seenE[k] = true
							cl.extVars = append(cl.extVars, em)
						}
					}
				}
				boundaryDates(dates, rate)
				cl.dates = sortDates(dates)
				out = append(out, cl)
			}
		}
	}
	return out
}

func rowsOf(stale func(i int) bool, shapes ...string) []RowSpec {
	out := make([]RowSpec, len(shapes))
	for i, s := range shapes {
		out[i] = RowSpec{Shape: s, Stale: stale(i)}
	}
	return out
}

// rowsCases enumerates the "rows" path.
func rowsCases(c *core.Ctx) []Case {
	var out []Case
	n := 0
	for _, cl := range cells() {
		for _, tv := range cl.tagVars {
			for _, ev := range cl.extVars {
				for _, d := range cl.dates {
					base := Case{Path: "rows", Country: cl.regime, Cat: cl.cat, Rate: cl.rate, Date: d, Tags: tv, Ext: ev}
					add := func(kind string, rows []RowSpec) {
						cs := base
						cs.Doc = &DocSpec{Kind: kind, Rows: rows}
						out = append(out, cs)
					}
					for _, kind := range docKinds {
						// each shape alone: the only row that names the key
						for _, s := range allShapes {
							for _, st := range []bool{false, true} {
								rows := []RowSpec{{Shape: s, Stale: st}}
								if shapePos(s) != 0 && n%2 == 0 {
									// a document row next to a line that names no tax at all
									rows = append([]RowSpec{{Shape: "plain"}}, rows...)
								}
								n++
								add(kind, rows)
							}
						}
						// all together, stale rows alternating
						add(kind, rowsOf(func(i int) bool { return i%2 == 0 }, allShapes...))
						add(kind, rowsOf(func(i int) bool { return i%2 == 1 }, allShapes...))
						// seeded subsets in seeded order
						for k := 0; k < c.Pick(1, 4); k++ {
							perm := c.Rng.Perm(len(allShapes))
							m := 2 + c.Rng.Intn(4)
							var shapes []string
							for _, p := range perm[:m] {
								shapes = append(shapes, allShapes[p])
							}
							mask := c.Rng.Intn(1 << m)
							add(kind, rowsOf(func(i int) bool { return mask>>i&1 == 1 }, shapes...))
						}
					}
				}
			}
		}
	}
	return out
}

// sharers lists, per (category, key), the regimes whose tables give the key values.
func sharers() map[[2]string][]string {
	m := map[[2]string][]string{}
	for _, r := range tax.AllRegimeDefs() {
		for _, cat := range r.Categories {
			for _, rate := range cat.Rates {
				if len(rate.Values) > 0 {
					k := [2]string{string(cat.Code), string(rate.Key)}
					m[k] = append(m[k], string(r.Country))
				}
			}
		}
	}
	return m
}

var recalcShapes = []string{"priced", "zero-price", "no-price", "discount", "charge-zero"}

// recalcCases enumerates the "recalc" path.
func recalcCases(c *core.Ctx) []Case {
	var out []Case
	share := sharers()
	n := 0
	sp := func(s string) *string { return &s }
	for _, cl := range cells() {
		if len(cl.def.Values) == 0 && !cl.def.Exempt {
			continue
		}
		kindsFor := func() []string {
			if c.Thorough() {
				return docKinds
			}
			n++
			return docKinds[n%3 : n%3+1]
		}
		mk := func(d [3]int, tv []string, ev map[string]string, doc DocSpec, ed EditSpec) {
			for _, kind := range kindsFor() {
				dd := doc
				dd.Kind = kind
				if dd.Rows == nil {
					dd.Rows = rowsOf(func(int) bool { return false }, recalcShapes...)
				}
				e := ed
				out = append(out, Case{Path: "recalc", Country: cl.regime, Cat: cl.cat, Rate: cl.rate, Date: d, Tags: tv, Ext: ev, Doc: &dd, Edit: &e})
			}
		}
		for _, tv := range cl.tagVars {
			for _, ev := range cl.extVars {
				for i, d := range cl.dates {
					mk(d, tv, ev, DocSpec{}, EditSpec{Name: "nothing"})
					mk(d, tv, ev, DocSpec{}, EditSpec{Name: "percent and surcharge overwritten", Pct: editPct, Sur: editSur})
					mk(d, tv, ev, DocSpec{}, EditSpec{Name: "percent overwritten", Pct: editPct})
					// the tax date moves to the neighbouring grid date, either way
					for _, j := range []int{i - 1, i + 1} {
						if j < 0 || j >= len(cl.dates) {
							continue
						}
						d2 := cl.dates[j]
						mk(d, tv, ev, DocSpec{}, EditSpec{Name: "issue date moved", Issue: &d2})
						mk(d, tv, ev, DocSpec{}, EditSpec{Name: "value date set", Value: &d2})
						mk(d2, tv, ev, DocSpec{ValueDate: true}, EditSpec{Name: "value date removed, issue date set", ClearValue: true, Issue: &d})
						mk(d, tv, ev, DocSpec{ValueDate: true}, EditSpec{Name: "value date moved", Value: &d2})
					}
					// another filter variant of the table
					for _, tv2 := range cl.tagVars {
						if strings.Join(tv2, ",") != strings.Join(tv, ",") {
							t2 := append([]string{}, tv2...)
							mk(d, tv, ev, DocSpec{}, EditSpec{Name: "tags replaced", Tags: &t2})
						}
					}
					for _, ev2 := range cl.extVars {
						if hexExt(ev2) != hexExt(ev) {
							e2 := map[string]string{}
							for k, v := range ev2 {
								e2[k] = v
							}
							mk(d, tv, ev, DocSpec{}, EditSpec{Name: "extensions replaced", Ext: &e2})
						}
					}
					// another key of the category
					for _, r2 := range cl.catDef.Rates {
						if r2 != cl.def && (len(r2.Values) > 0 || r2.Exempt) {
							mk(d, tv, ev, DocSpec{}, EditSpec{Name: "rate key replaced", Rate: sp(string(r2.Key))})
						}
					}
				}
			}
		}
		// the regime that applies to the rows changes: customer's country under customer-rates, country on the combo
		if len(cl.def.Values) == 0 {
			continue
		}
		others := share[[2]string{cl.cat, cl.rate}]
		idx := -1
		for i, o := range others {
			if o == cl.regime {
				idx = i
			}
		}
		if idx < 0 || len(others) < 2 {
			continue
		}
		b := others[(idx+1)%len(others)]
		cc := others[(idx+2)%len(others)]
		dates := map[[3]int]bool{triple(cal.Today()): true}
		for _, o := range []string{b, cc} {
			_, _, rt := findRate(Case{Country: o, Cat: cl.cat, Rate: cl.rate})
			boundaryDates(dates, rt)
		}
		cr := []string{string(tax.TagCustomerRates)}
		none := []string{}
		for _, d := range sortDates(dates) {
			mk(d, cr, nil, DocSpec{Customer: b}, EditSpec{Name: "customer of another country (customer-rates)", Customer: sp(cc)})
			mk(d, cr, nil, DocSpec{Customer: b}, EditSpec{Name: "customer of the supplier's country (customer-rates)", Customer: sp(cl.regime)})
			mk(d, nil, nil, DocSpec{}, EditSpec{Name: "customer-rates tag and customer added", Tags: &cr, Customer: sp(b)})
			mk(d, nil, nil, DocSpec{Customer: b}, EditSpec{Name: "customer-rates tag added", Tags: &cr})
			mk(d, cr, nil, DocSpec{Customer: b}, EditSpec{Name: "customer-rates tag removed", Tags: &none})
			mk(d, nil, nil, DocSpec{ComboCtry: b}, EditSpec{Name: "country on the combo replaced", ComboCtry: sp(cc)})
			mk(d, nil, nil, DocSpec{ComboCtry: b}, EditSpec{Name: "country on the combo removed", ComboCtry: sp("")})
			mk(d, nil, nil, DocSpec{}, EditSpec{Name: "country written on the combo", ComboCtry: sp(b)})
		}
	}
	return out
}
