package c12

// The "invoice-mixed" path: ONE document whose rows belong to different regimes.
//
// The single-row paths of c12.go give every (regime, category, key, date) cell a
// document of its own, so whatever the calculation carries from one combo to the
// next is never exercised.  Here the rate of every row is judged with the same
// oracle (the value in force, Spec.C12.inForce over the regenerated tables, of
// the regime that applies to THAT row: the country written on the combo, else
// the document's regime), on documents laid out as
//
//	line 0      {cat, key}                       the document's regime
//	line 1      {cat, country: B, key}           every other regime B (and every other code it is
//	            [+ {cat2, key2}]                  registered under) that defines the same category
//	                                             and key; a combo of another category of the
//	                                             document's regime rides on the same line
//	line 2 …    {cat, key'}                      every key of the category in the document's regime
//	line n      {cat, country: A, key}           the document's own country written out
//	discount 0  {cat, key}
//	charge 0    {cat, key}
//
// on the boundary dates (start-1, start, start+1) of the key in BOTH tables and
// today (thorough: the boundary dates of every key of the category in both
// regimes).  Rows whose rate has no value on the date according to
// RateDef.Value are left out when the document is built (a choice of input,
// not a judgement: the oracle is the specification), so that most documents
// calculate and every row is read back.

import (
	"encoding/json"
	"errors"
	"fmt"
	"sort"
	"strings"

	"github.com/invopop/gobl/bill"
	"github.com/invopop/gobl/cal"
	"github.com/invopop/gobl/cbc"
	"github.com/invopop/gobl/l10n"
	"github.com/invopop/gobl/tax"

	"verifharness/internal/core"
)

func exactRate(cat *tax.CategoryDef, key string) *tax.RateDef {
	if cat == nil {
		return nil
	}
	for _, rt := range cat.Rates {
		if string(rt.Key) == key {
			return rt
		}
	}
	return nil
}

func boundaryDates(into map[[3]int]bool, rates ...*tax.RateDef) {
	for _, rt := range rates {
		if rt == nil {
			continue
		}
		for _, v := range rt.Values {
			if v.Since != nil {
				into[addDays(*v.Since, -1)] = true
				into[triple(*v.Since)] = true
				into[addDays(*v.Since, 1)] = true
			}
		}
	}
}

// mixedCases enumerates the grid of the invoice-mixed path.
func mixedCases(c *core.Ctx) []Case {
	var out []Case
	today := triple(cal.Today())
	all := tax.AllRegimeDefs()
	for _, a := range all {
		for _, cat := range a.Categories {
			for _, rate := range cat.Rates {
				if len(rate.Values) == 0 {
					continue
				}
				for _, b := range all {
					if b == a {
						continue
					}
					bcat := b.CategoryDef(cat.Code)
					brate := exactRate(bcat, string(rate.Key))
					if brate == nil || len(brate.Values) == 0 {
						continue
					}
					dates := map[[3]int]bool{today: true}
					boundaryDates(dates, rate, brate)
					if c.Thorough() {
						boundaryDates(dates, cat.Rates...)
						boundaryDates(dates, bcat.Rates...)
					}
					ds := make([][3]int, 0, len(dates))
					for d := range dates {
						ds = append(ds, d)
					}
					sort.Slice(ds, func(i, j int) bool {
						return ds[i][0]*10000+ds[i][1]*100+ds[i][2] < ds[j][0]*10000+ds[j][1]*100+ds[j][2]
					})
					codes := []string{string(b.Country)}
					for _, alt := range b.AltCountryCodes {
						codes = append(codes, string(alt))
					}
					c.Count("mixed:regime-pairs-sharing-a-key", 1)
					for _, code := range codes {
						for _, d := range ds {
							out = append(out, Case{Path: "invoice-mixed", Country: string(a.Country), Other: code, Cat: string(cat.Code), Rate: string(rate.Key), Date: d})
						}
					}
				}
			}
		}
	}
	return out
}

type mixedRow struct {
	Where   string `json:"row"`
	Written string `json:"written_country"` // as written on the combo
	Cat     string `json:"cat"`
	Rate    string `json:"rate"`
	// read back from the calculated document
	Found            bool
	GotCat, GotRate  string
	GotCountry       string
	GotPct, GotSur   string
	GotExt           map[string]string
	regime           string // the regime whose table applies to this row
	line, combo, pos int    // pos: 0 line, 1 discount, 2 charge
}

type mixedOut struct {
	Err     string
	Rows    []*mixedRow
	Tags    []string
	TaxDate [3]int
}

// hasValue: would this rate give the row something on that date?  (keys that
// are exempt or carry no values always "have" what they need)
func hasValue(rt *tax.RateDef, d [3]int) bool {
	if rt == nil {
		return false
	}
	if rt.Exempt || len(rt.Values) == 0 {
		return true
	}
	var v *tax.RateValueDef
	if p := core.Protect(func() { v = rt.Value(mkDate(d), nil, nil) }); p != "" {
		return false
	}
	return v != nil
}

// mixedDocument lays the rows out; nil when the override row itself is not calculable.
func mixedDocument(cs Case) (map[string]any, []*mixedRow) {
	a := tax.RegimeDefFor(l10n.Code(cs.Country))
	b := tax.RegimeDefFor(l10n.Code(cs.Other))
	if a == nil || b == nil {
		return nil, nil
	}
	acat := a.CategoryDef(cbc.Code(cs.Cat))
	arate := exactRate(acat, cs.Rate)
	brate := exactRate(b.CategoryDef(cbc.Code(cs.Cat)), cs.Rate)
	if arate == nil || !hasValue(brate, cs.Date) {
		return nil, nil
	}
	var rows []*mixedRow
	var lines []any
	combo := func(r *mixedRow) map[string]any {
		m := map[string]any{"cat": r.Cat, "rate": r.Rate}
		if r.Written != "" {
			m["country"] = r.Written
		}
		return m
	}
	addLine := func(rs ...*mixedRow) {
		var taxes []any
		for k, r := range rs {
			r.line, r.combo, r.pos = len(lines), k, 0
			r.Where = fmt.Sprintf("line %d combo %d", len(lines), k)
			taxes = append(taxes, combo(r))
			rows = append(rows, r)
		}
		lines = append(lines, map[string]any{"quantity": "1", "item": map[string]any{"name": "thing", "price": "100.00"}, "taxes": taxes})
	}
	keyOK := hasValue(arate, cs.Date)
	if keyOK {
		addLine(&mixedRow{Cat: cs.Cat, Rate: cs.Rate})
	}
	ovr := []*mixedRow{{Written: cs.Other, Cat: cs.Cat, Rate: cs.Rate}}
	// a combo of another category of the document's regime on the very same line
	for _, oc := range a.Categories {
		if oc.Code == acat.Code {
			continue
		}
		done := false
		for _, rt := range oc.Rates {
			if len(rt.Values) > 0 && hasValue(rt, cs.Date) {
				ovr = append(ovr, &mixedRow{Cat: string(oc.Code), Rate: string(rt.Key)})
				done = true
				break
			}
		}
		if done {
			break
		}
	}
	addLine(ovr...)
	for _, rt := range acat.Rates {
		if (len(rt.Values) > 0 || rt.Exempt) && hasValue(rt, cs.Date) {
			addLine(&mixedRow{Cat: cs.Cat, Rate: string(rt.Key)})
		}
	}
	doc := map[string]any{
		"$regime":    cs.Country,
		"issue_date": fmt.Sprintf("%04d-%02d-%02d", cs.Date[0], cs.Date[1], cs.Date[2]),
		"code":       "C12-M",
		"supplier":   map[string]any{"name": "Supplier", "tax_id": map[string]any{"country": cs.Country}},
	}
	if keyOK {
		addLine(&mixedRow{Written: cs.Country, Cat: cs.Cat, Rate: cs.Rate})
		d := &mixedRow{Cat: cs.Cat, Rate: cs.Rate, Where: "discount 0 combo 0", pos: 1}
		ch := &mixedRow{Cat: cs.Cat, Rate: cs.Rate, Where: "charge 0 combo 0", pos: 2}
		rows = append(rows, d, ch)
		doc["discounts"] = []any{map[string]any{"reason": "r", "amount": "10.00", "taxes": []any{combo(d)}}}
		doc["charges"] = []any{map[string]any{"reason": "r", "amount": "5.00", "taxes": []any{combo(ch)}}}
	}
	doc["lines"] = lines
	return doc, rows
}

func runMixed(cs Case) (mixedOut, bool) {
	doc, rows := mixedDocument(cs)
	if doc == nil {
		return mixedOut{}, false
	}
	out := mixedOut{Rows: rows}
	b, _ := json.Marshal(doc)
	inv := new(bill.Invoice)
	if err := json.Unmarshal(b, inv); err != nil {
		out.Err = "other:unmarshal " + err.Error()
		return out, true
	}
	var cerr error
	if p := core.Protect(func() { cerr = inv.Calculate() }); p != "" {
		out.Err = "panic:" + p
		return out, true
	}
	switch {
	case cerr == nil:
	case errors.Is(cerr, tax.ErrInvalidDate):
		out.Err = "date"
	case errors.Is(cerr, tax.ErrInvalidCategory):
		out.Err = "category"
	case errors.Is(cerr, tax.ErrInvalidRate):
		out.Err = "rate"
	default:
		out.Err = "other:" + cerr.Error()
	}
	for _, t := range inv.GetTags() {
		out.Tags = append(out.Tags, string(t))
	}
	td := inv.IssueDate
	if inv.ValueDate != nil {
		td = *inv.ValueDate
	}
	out.TaxDate = [3]int{td.Year, int(td.Month), td.Day}
	host := string(inv.Regime.GetRegime())
	for _, r := range rows {
		var set tax.Set
		switch r.pos {
		case 0:
			if r.line < len(inv.Lines) && inv.Lines[r.line] != nil {
				set = inv.Lines[r.line].Taxes
			}
		case 1:
			if len(inv.Discounts) == 1 && inv.Discounts[0] != nil {
				set = inv.Discounts[0].Taxes
			}
		case 2:
			if len(inv.Charges) == 1 && inv.Charges[0] != nil {
				set = inv.Charges[0].Taxes
			}
		}
		r.regime = host
		if r.Written != "" {
			if rd := tax.RegimeDefFor(l10n.Code(r.Written)); rd != nil {
				r.regime = string(rd.Country)
			} else {
				r.regime = r.Written
			}
		}
		if r.combo < len(set) && set[r.combo] != nil {
			cb := set[r.combo]
			r.Found = true
			r.GotCat, r.GotRate, r.GotCountry = string(cb.Category), string(cb.Rate), string(cb.Country)
			r.GotPct, r.GotSur = pctPtr(cb.Percent), pctPtr(cb.Surcharge)
			r.GotExt = extOf(cb.Ext)
		}
	}
	return out, true
}

func prepareMixed(c *core.Ctx, cs Case) *evaluated {
	o, ok := runMixed(cs)
	if !ok {
		c.Count("mixed:skipped (override row has no value on the date)", 1)
		return nil
	}
	c.Count("path:invoice-mixed", 1)
	c.Count(fmt.Sprintf("mixed:rows=%d", min(len(o.Rows), 12)), 1)
	e := &evaluated{Case: cs, Go: o}
	detail := map[string]any{"case": cs, "go": o}
	if strings.HasPrefix(o.Err, "other:") || strings.HasPrefix(o.Err, "panic:") {
		e.judge = func([]string) {
			c.Eval(cs.key(), false)
			if strings.HasPrefix(o.Err, "panic:") {
				c.Fail("", "Invoice.Calculate panicked: "+o.Err, cs)
				return
			}
			c.Count("skipped:invoice not calculable (invoice-mixed)", 1)
			if len(c.Notes) < 6 {
				c.Note("not calculable: %+v: %s", cs, o.Err)
			}
		}
		return e
	}
	for _, r := range o.Rows {
		cat, rate, ext := r.Cat, r.Rate, map[string]string(nil)
		if r.Found {
			cat, rate, ext = r.GotCat, r.GotRate, r.GotExt
		}
		e.Reqs = append(e.Reqs, valReq("reg", r.regime, cat, rate, cs.Date, o.Tags, ext))
	}
	e.judge = func(resp []string) {
		if o.TaxDate != cs.Date {
			c.Fail("", fmt.Sprintf("tax date: the document's tax date is %v, expected %v (invoice-mixed)", o.TaxDate, cs.Date), detail)
			return
		}
		nontrivial := false
		noneInForce := ""
		for i, r := range o.Rows {
			reg := parseVal(resp[i])
			if !reg.OK {
				if o.Err == "" {
					c.TieBroken("drive:C12/mixed", fmt.Sprintf("the regenerated tables have no entry for %s/%s/%s: %s", r.regime, r.GotCat, r.GotRate, reg.Err), detail)
					return
				}
				continue
			}
			if reg.Amb {
				c.Count("mixed:row with ambiguous latest start (judged by the single-row paths)", 1)
				continue
			}
			if !reg.Exempt && reg.N > 0 && reg.S.None && noneInForce == "" {
				noneInForce = r.Where
			}
			if o.Err != "" {
				continue
			}
			if !r.Found {
				c.Fail("", fmt.Sprintf("%s: the calculated document no longer has this combo", r.Where), detail)
				return
			}
			if r.GotCat != r.Cat || r.GotRate != r.Rate {
				c.Count("normalised-to-another-cell", 1)
			}
			c.Count("mixed:rows-judged", 1)
			if r.Written != "" && r.regime != cs.Country {
				c.Count("mixed:rows-judged:other regime's table", 1)
			}
			switch {
			case reg.Exempt:
				if r.GotPct != "-" || r.GotSur != "-" {
					c.Fail("", fmt.Sprintf("%s (%s %s %s, a row of a document of %s with a row for %s): exempt key yet the combo holds percent %s surcharge %s", r.Where, r.regime, r.GotCat, r.GotRate, cs.Country, cs.Other, r.GotPct, r.GotSur), detail)
					return
				}
			case reg.N == 0:
				if r.GotPct != "-" {
					c.Fail("", fmt.Sprintf("%s (%s %s %s): the key has no values and the row gave no percentage, yet the combo holds %s", r.Where, r.regime, r.GotCat, r.GotRate, r.GotPct), detail)
					return
				}
			case reg.S.None:
				c.Fail("", fmt.Sprintf("%s (%s %s %s) on %v: no value is in force in the table of the regime that applies to this row, yet the document calculated (percent %s)", r.Where, r.regime, r.GotCat, r.GotRate, cs.Date, r.GotPct), detail)
				return
			default:
				nontrivial = true
				if r.GotPct != reg.S.Pct || r.GotSur != reg.S.Sur {
					c.Fail("", fmt.Sprintf("%s of a %s document dated %04d-%02d-%02d that also has a row for %s: the row belongs to %s (country written: %q), category %s rate %s; it received %s / %s, the value in force in that regime's table is %s / %s",
						r.Where, cs.Country, cs.Date[0], cs.Date[1], cs.Date[2], cs.Other, r.regime, r.Written, r.GotCat, r.GotRate, r.GotPct, r.GotSur, reg.S.Pct, reg.S.Sur), detail)
					return
				}
				if (reg.M.Pct != r.GotPct || reg.M.Sur != r.GotSur) && len(c.Violations) == 0 {
					c.TieBroken("drive:C12/invoice-mixed", fmt.Sprintf("%s: model of RateDef.Value answers %s, the code %s / %s", r.Where, reg.M, r.GotPct, r.GotSur), detail)
				}
			}
			// the written country stays on the row unless it is the document's own
			wantCountry := r.Written
			if wantCountry == cs.Country {
				wantCountry = ""
			}
			if r.GotCountry != wantCountry {
				c.Fail("", fmt.Sprintf("%s: country %q was written on the combo of a %s document, the calculated combo has %q: the regime that applies to the row is no longer the one written", r.Where, r.Written, cs.Country, r.GotCountry), detail)
				return
			}
		}
		c.Eval(cs.key(), nontrivial)
		switch o.Err {
		case "":
			c.Count("mixed:outcome:calculated, every row judged", 1)
		case "date":
			if noneInForce == "" {
				c.Fail("", fmt.Sprintf("%s document dated %v with a row for %s: rejected for a rate value unavailable on the date, although every row has a value in force in the table of its own regime", cs.Country, cs.Date, cs.Other), detail)
				return
			}
			c.Count("mixed:outcome:rejected, a row has no value in force", 1)
		default:
			c.Fail("", fmt.Sprintf("%s document dated %v with a row for %s: every row names a category and key its own regime defines, yet the calculation failed with error class %q", cs.Country, cs.Date, cs.Other, o.Err), detail)
			return
		}
		if len(c.Samples) < 10 && o.Err == "" && len(o.Rows) > 4 && len(c.Samples)%3 == 0 {
			c.Sample(detail)
		}
	}
	return e
}
