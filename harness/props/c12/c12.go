// Package c12 ties the Lean model of the rate-table lookup (Model/Rates.lean)
// and the specification `inForce` (Spec/C12.lean), both evaluated by the Lean
// driver over the tables REGENERATED from /repo, to the real code:
// tax.RateDef.Value directly and bill.Invoice.Calculate end to end.
//
// The enumeration is exhaustive, not sampled: every registered regime ×
// category × rate key × every tag / extension variant occurring in its values
// × the dates {since-1, since, since+1 for every start date of that rate,
// 1900-01-01, today, 2100-01-01}, through four paths (RateDef.Value; invoice
// with issue date d; invoice with value date d and another issue date;
// invoice of another regime with a per-combo country override), and through
// documents whose rows belong to different regimes (mixed.go).  A seeded
// stream of synthetic tables (undated rows, impossible dates, qualified rows)
// additionally validates the model of RateDef.Value beyond the shipped shapes.
package c12

import (
	"encoding/json"
	"errors"
	"fmt"
	"sort"
	"strings"
	"time"

	_ "github.com/invopop/gobl"
	"github.com/invopop/gobl/bill"
	"github.com/invopop/gobl/cal"
	"github.com/invopop/gobl/cbc"
	"github.com/invopop/gobl/l10n"
	"github.com/invopop/gobl/num"
	"github.com/invopop/gobl/tax"

	"verifharness/internal/conc"
	"verifharness/internal/core"
)

const knownTie = "qualified_row_shares_start_with_fallback"

// Row is one synthetic table row.
type Row struct {
	Tags  []string          `json:"tags,omitempty"`
	Ext   map[string]string `json:"ext,omitempty"`
	Since *[3]int           `json:"since,omitempty"`
	Pct   [2]int64          `json:"pct"`
	Sur   *[2]int64         `json:"sur,omitempty"`
}

// Case is one evaluated input (also the replay format).
type Case struct {
	Path    string            `json:"path"` // value | invoice-issue | invoice-value | invoice-override | invoice-stale | invoice-mixed | rows | recalc | raw
	Country string            `json:"regime,omitempty"`
	Other   string            `json:"other_regime,omitempty"` // invoice-mixed (mixed.go): the country written on one row of a document of `regime`
	Cat     string            `json:"category,omitempty"`
	Rate    string            `json:"rate,omitempty"`
	Date    [3]int            `json:"date"`
	Tags    []string          `json:"tags,omitempty"`
	Ext     map[string]string `json:"ext,omitempty"`
	Rows    []Row             `json:"rows,omitempty"`
	Undef   bool              `json:"undefined_key,omitempty"` // a key derived from a defined one that the tables do not define
	Doc     *DocSpec          `json:"doc,omitempty"`           // rows | recalc (rows.go): the layout of the document
	Edit    *EditSpec         `json:"edit,omitempty"`          // recalc: what is changed in memory between two calculations
}

func (c Case) key() string {
	b, _ := json.Marshal(c)
	return string(b)
}

type rowOut struct {
	None  bool
	Since string
	Pct   string
	Sur   string
}

func (r rowOut) String() string {
	if r.None {
		return "none"
	}
	return r.Since + " " + r.Pct + " " + r.Sur
}

func pctStr(p num.Percentage) string {
	v, e := p.Value(), p.Exp()
	for e < 2 {
		v *= 10
		e++
	}
	return fmt.Sprintf("%d:%d", v, e)
}

func pctPtr(p *num.Percentage) string {
	if p == nil {
		return "-"
	}
	return pctStr(*p)
}

func sinceStr(d *cal.Date) string {
	if d == nil {
		return "-"
	}
	return fmt.Sprintf("%d-%d-%d", d.Year, int(d.Month), d.Day)
}

func goRow(v *tax.RateValueDef) rowOut {
	if v == nil {
		return rowOut{None: true}
	}
	return rowOut{Since: sinceStr(v.Since), Pct: pctStr(v.Percent), Sur: pctPtr(v.Surcharge)}
}

func hexList(xs []string) string {
	var sb strings.Builder
	fmt.Fprintf(&sb, "%d", len(xs))
	for _, x := range xs {
		sb.WriteString(" " + core.Hex(x))
	}
	return sb.String()
}

func hexExt(m map[string]string) string {
	ks := make([]string, 0, len(m))
	for k := range m {
		ks = append(ks, k)
	}
	sort.Strings(ks)
	var sb strings.Builder
	fmt.Fprintf(&sb, "%d", len(ks))
	for _, k := range ks {
		sb.WriteString(" " + core.Hex(k) + " " + core.Hex(m[k]))
	}
	return sb.String()
}

func extOf(e tax.Extensions) map[string]string {
	m := map[string]string{}
	for k, v := range e {
		m[string(k)] = string(v)
	}
	return m
}

func toExt(m map[string]string) tax.Extensions {
	if len(m) == 0 {
		return nil
	}
	e := tax.Extensions{}
	for k, v := range m {
		e[cbc.Key(k)] = cbc.Code(v)
	}
	return e
}

func toKeys(xs []string) []cbc.Key {
	out := make([]cbc.Key, len(xs))
	for i, x := range xs {
		out[i] = cbc.Key(x)
	}
	return out
}

func mkDate(d [3]int) cal.Date { return cal.MakeDate(d[0], time.Month(d[1]), d[2]) }

// valResp is the parsed answer of a `val` / `raw` request.
type valResp struct {
	OK     bool
	Err    string
	Key    string
	Exempt bool
	N      int
	M, S   rowOut
	Amb    bool
	Desc   bool
	Tie    bool
	Real   bool
}

func parseRow(f []string) (rowOut, []string) {
	if len(f) > 0 && f[0] == "none" {
		return rowOut{None: true}, f[1:]
	}
	if len(f) < 3 {
		return rowOut{None: true}, nil
	}
	return rowOut{Since: f[0], Pct: f[1], Sur: f[2]}, f[3:]
}

func parseVal(resp string) valResp {
	f := strings.Fields(resp)
	if len(f) >= 2 && f[0] == "err" {
		return valResp{Err: f[1]}
	}
	// ok key K exempt E n N m <row> s <row> amb A desc D tie T real R
	if len(f) < 8 || f[0] != "ok" {
		return valResp{Err: "bad-response:" + resp}
	}
	r := valResp{OK: true}
	r.Key = unhex(f[2])
	r.Exempt = f[4] == "1"
	fmt.Sscan(f[6], &r.N)
	rest := f[8:]
	r.M, rest = parseRow(rest)
	if len(rest) < 1 {
		return valResp{Err: "bad-response:" + resp}
	}
	r.S, rest = parseRow(rest[1:])
	if len(rest) < 8 {
		return valResp{Err: "bad-response:" + resp}
	}
	r.Amb, r.Desc, r.Tie, r.Real = rest[1] == "1", rest[3] == "1", rest[5] == "1", rest[7] == "1"
	return r
}

func unhex(s string) string {
	if s == "-" {
		return ""
	}
	var out []byte
	for i := 0; i+1 < len(s); i += 2 {
		var b byte
		fmt.Sscanf(s[i:i+2], "%02x", &b)
		out = append(out, b)
	}
	return string(out)
}

// goTie is the known-finding classifier, computed on the real table: a
// tag/extension-qualified row has the very start date of an unqualified
// (fall-back) row of the same rate.
func goTie(vals []*tax.RateValueDef) bool {
	for _, v := range vals {
		if len(v.Tags) == 0 && len(v.Ext) == 0 {
			continue
		}
		for _, w := range vals {
			if len(w.Tags) == 0 && len(w.Ext) == 0 && sinceStr(w.Since) == sinceStr(v.Since) {
				return true
			}
		}
	}
	return false
}

type invOut struct {
	Err     string // "" | date | category | rate | other:<msg> | panic:<msg>
	Found   bool
	Country string // regime that applies to the combo
	Cat     string
	Rate    string
	Pct     string
	Sur     string
	Ext     map[string]string
	Tags    []string
	TaxDate [3]int
}

// runInvoice builds a minimal invoice of regime `host` with one line taxed with
// (cat, rate, ext), optionally with a per-combo country override, calculates
// it with the real code and reads back what the combo received.
func runInvoice(host, override, cat, rate string, ext map[string]string, tags []string, issue [3]int, value *[3]int, stale bool) invOut {
	combo := map[string]any{"cat": cat, "rate": rate}
	if stale {
		// figures left over from an earlier calculation (or typed in): the table decides, not the input
		combo["percent"] = "99.0%"
		combo["surcharge"] = "7.7%"
	}
	if len(ext) > 0 {
		combo["ext"] = ext
	}
	if override != "" {
		combo["country"] = override
	}
	doc := map[string]any{
		"$regime":    host,
		"issue_date": fmt.Sprintf("%04d-%02d-%02d", issue[0], issue[1], issue[2]),
		"code":       "C12-1",
		"supplier":   map[string]any{"name": "Supplier", "tax_id": map[string]any{"country": host}},
		"lines": []any{map[string]any{
			"quantity": "1",
			"item":     map[string]any{"name": "thing", "price": "100.00"},
			"taxes":    []any{combo},
		}},
	}
	if value != nil {
		doc["value_date"] = fmt.Sprintf("%04d-%02d-%02d", value[0], value[1], value[2])
	}
	if len(tags) > 0 {
		doc["$tags"] = tags
	}
	b, _ := json.Marshal(doc)
	out := invOut{}
	inv := new(bill.Invoice)
	if err := json.Unmarshal(b, inv); err != nil {
		out.Err = "other:unmarshal " + err.Error()
		return out
	}
	var cerr error
	if p := core.Protect(func() { cerr = inv.Calculate() }); p != "" {
		out.Err = "panic:" + p
		return out
	}
	switch {
	case cerr == nil:
	case errors.Is(cerr, tax.ErrInvalidDate):
		out.Err = "date"
	case errors.Is(cerr, tax.ErrInvalidCategory):
		out.Err = "category"
	case errors.Is(cerr, tax.ErrInvalidRate):
		out.Err = "rate"
	default:
		out.Err = "other:" + cerr.Error()
	}
	for _, t := range inv.GetTags() {
		out.Tags = append(out.Tags, string(t))
	}
	td := inv.IssueDate
	if inv.ValueDate != nil {
		td = *inv.ValueDate
	}
	out.TaxDate = [3]int{td.Year, int(td.Month), td.Day}
	if len(inv.Lines) == 1 && len(inv.Lines[0].Taxes) == 1 {
		c := inv.Lines[0].Taxes[0]
		out.Found = true
		out.Cat, out.Rate = string(c.Category), string(c.Rate)
		out.Pct, out.Sur = pctPtr(c.Percent), pctPtr(c.Surcharge)
		out.Ext = extOf(c.Ext)
		out.Country = string(inv.Regime.GetRegime())
		if c.Country != "" {
			out.Country = string(c.Country)
		}
	}
	return out
}

func addDays(d cal.Date, n int) [3]int {
	x := d.Add(0, 0, n)
	return [3]int{x.Year, int(x.Month), x.Day}
}

func triple(d cal.Date) [3]int { return [3]int{d.Year, int(d.Month), d.Day} }

func dateReq(d [3]int) string { return fmt.Sprintf("%d %d %d", d[0], d[1], d[2]) }

// enumerate lists every case of the exhaustive grid.
func enumerate(c *core.Ctx) []Case {
	var out []Case
	today := triple(cal.Today())
	for _, r := range tax.AllRegimeDefs() {
		for _, cat := range r.Categories {
			for _, rate := range cat.Rates {
				tagVars := [][]string{nil}
				extVars := []map[string]string{nil}
				seenT, seenE := map[string]bool{}, map[string]bool{}
				dates := map[[3]int]bool{{1900, 1, 1}: true, today: true, {2100, 1, 1}: true}
				for _, v := range rate.Values {
					if len(v.Tags) > 0 {
						ts := cbc.KeyStrings(v.Tags)
						if k := strings.Join(ts, ","); !seenT[k] {
							seenT[k] = true
							tagVars = append(tagVars, ts)
						}
					}
					if len(v.Ext) > 0 {
						em := extOf(v.Ext)
						if k := hexExt(em); !seenE[k] {
							seenE[k] = true
							extVars = append(extVars, em)
						}
					}
					if v.Since != nil {
						dates[addDays(*v.Since, -1)] = true
						dates[triple(*v.Since)] = true
						dates[addDays(*v.Since, 1)] = true
					}
				}
				ds := make([][3]int, 0, len(dates))
				for d := range dates {
					ds = append(ds, d)
				}
				sort.Slice(ds, func(i, j int) bool {
					return ds[i][0]*10000+ds[i][1]*100+ds[i][2] < ds[j][0]*10000+ds[j][1]*100+ds[j][2]
				})
				c.Count("rate-keys", 1)
				c.Count(fmt.Sprintf("rate-rows=%d", len(rate.Values)), 1)
				// keys that merely contain a defined key (as the tail or head of a component, or next
				// to an unknown component that is not the defined key) are not defined: no rate applies
				defined := map[string]bool{}
				for _, r2 := range cat.Rates {
					defined[string(r2.Key)] = true
				}
				for _, dk := range []string{"non-" + string(rate.Key), "zz-" + string(rate.Key), string(rate.Key) + "-zz", "x" + string(rate.Key), "foo+not-" + string(rate.Key)} {
					if !defined[dk] {
						c.Count("derived-undefined-keys", 1)
						out = append(out, Case{Path: "invoice-issue", Country: string(r.Country), Cat: string(cat.Code), Rate: dk, Date: today, Undef: true})
					}
				}
				for _, tv := range tagVars {
					for _, ev := range extVars {
						c.Count("filters", 1)
						for _, d := range ds {
							for _, path := range []string{"value", "invoice-issue", "invoice-value", "invoice-override", "invoice-stale"} {
								out = append(out, Case{Path: path, Country: string(r.Country), Cat: string(cat.Code), Rate: string(rate.Key), Date: d, Tags: tv, Ext: ev})
							}
						}
					}
				}
			}
		}
	}
	return out
}

// otherRegime picks a host regime different from the one under test for the
// per-combo country override path.
func otherRegime(country string) string {
	for _, cand := range []string{"DE", "ES", "FR"} {
		if cand != country && tax.RegimeDefFor(l10n.Code(cand)) != nil {
			return cand
		}
	}
	return ""
}

type evaluated struct {
	Case  Case
	Go    any
	Reqs  []string // requests sent to the Lean driver
	judge func(resp []string)
}

// Run is the C12 harness entry point.
func Run(c *core.Ctx) int {
	var cases []Case
	var one Case
	if c.ReplayCase(&one) {
		cases = []Case{one}
	} else {
		cases = enumerate(c)
		cases = append(cases, mixedCases(c)...)
		cases = append(cases, rowsCases(c)...)
		cases = append(cases, recalcCases(c)...)
		cases = append(cases, datesCases(c)...)
		cases = append(cases, synthetic(c)...)
	}
	var evs []*evaluated
	for _, cs := range cases {
		if e := prepare(c, cs); e != nil {
			evs = append(evs, e)
		}
	}
	// every request is a pure question about the regenerated tables: each distinct one is asked once
	var reqs []string
	asked := map[string]int{}
	for _, e := range evs {
		for _, rq := range e.Reqs {
			if _, ok := asked[rq]; !ok {
				asked[rq] = len(reqs)
				reqs = append(reqs, rq)
			}
		}
	}
	uresp, err := c.Model(reqs)
	if err != nil {
		c.TieBroken("drive:C12/model", "the Lean driver failed: "+err.Error(), nil)
		return c.Finish(rule, nil)
	}
	c.Count("model:distinct requests", int64(len(reqs)))
	answer := map[string]string{}
	for rq, k := range asked {
		answer[rq] = uresp[k]
	}
	for _, e := range evs {
		resp := make([]string, len(e.Reqs))
		for k, rq := range e.Reqs {
			resp[k] = answer[rq]
		}
		e.judge(resp)
	}
	tableChecks(c)
	// the rate in force is a function of the published tables: after the library has handled
	// documents (full pipeline over every regime x addon combination, the documents written over
	// afterwards) every table lookup must still give the same answer
	if !c.ReplayCase(&one) {
		if inputs, _, err := conc.LoadExamples(c.Repo); err == nil {
			docs := conc.CrossAddons(inputs)
			if !c.Thorough() && len(docs) > 120 {
				docs = docs[:120]
			}
			for _, d := range docs {
				_ = conc.Pipeline(d)
			}
			c.Count("after-use:documents-handled", int64(len(docs)))
			for _, cs := range cases {
				if cs.Path != "value" {
					continue
				}
				e := prepareValue(c, cs)
				if e == nil {
					continue
				}
				rs := make([]string, len(e.Reqs))
				ok := true
				for k, rq := range e.Reqs {
					if rs[k], ok = answer[rq]; !ok {
						break
					}
				}
				if ok {
					c.Count("after-use:lookups", 1)
					e.judge(rs)
				}
			}
		}
	}
	return c.Finish(rule, map[string]any{"exhaustive": true})
}

const rule = "a case is non-trivial when the rate has at least one value row (the lookup is exercised); distinct by (path, regime, category, rate, date, tags, ext)"

func prepare(c *core.Ctx, cs Case) *evaluated {
	switch cs.Path {
	case "raw":
		return prepareRaw(c, cs)
	case "value":
		return prepareValue(c, cs)
	case "invoice-mixed":
		return prepareMixed(c, cs)
	case "rows", "recalc", "dates":
		return prepareRows(c, cs)
	default:
		return prepareInvoice(c, cs)
	}
}

func findRate(cs Case) (*tax.RegimeDef, *tax.CategoryDef, *tax.RateDef) {
	r := tax.RegimeDefFor(l10n.Code(cs.Country))
	if r == nil {
		return nil, nil, nil
	}
	cat := r.CategoryDef(cbc.Code(cs.Cat))
	if cat == nil {
		return r, nil, nil
	}
	for _, rt := range cat.Rates {
		if string(rt.Key) == cs.Rate {
			return r, cat, rt
		}
	}
	return r, cat, nil
}

func valReq(src, country, cat, rate string, d [3]int, tags []string, ext map[string]string) string {
	return fmt.Sprintf("val %s %s %s %s %s %s %s", src, core.Hex(country), core.Hex(cat), core.Hex(rate), dateReq(d), hexList(tags), hexExt(ext))
}

// judgeLookup compares what the real code answered (`got`) with the
// specification and the model for one lookup.
func judgeLookup(c *core.Ctx, cs Case, got rowOut, reg, js valResp, tie bool, goOut any) {
	nontrivial := reg.OK && reg.N > 0
	c.Eval(cs.key(), nontrivial)
	if !reg.OK {
		c.TieBroken("drive:C12/lookup", "the regenerated tables have no entry for "+cs.Country+"/"+cs.Cat+"/"+cs.Rate+": "+reg.Err, cs)
		return
	}
	detail := map[string]any{"case": cs, "go": goOut, "spec_in_force": reg.S.String(), "model_value": reg.M.String()}
	failed := false
	switch {
	case reg.Amb:
		c.Count("ambiguous-latest-start", 1)
		cl := ""
		if tie {
			cl = knownTie
		}
		c.Fail(cl, fmt.Sprintf("%s %s %s on %v (tags %v, ext %v): two applicable values share the latest start date, the table order decides (got %s)", cs.Country, cs.Cat, cs.Rate, cs.Date, cs.Tags, cs.Ext, got), detail)
		failed = true
	case got != reg.S:
		c.Fail("", fmt.Sprintf("%s %s %s on %04d-%02d-%02d (tags %v, ext %v) via %s: received %s, the value in force is %s", cs.Country, cs.Cat, cs.Rate, cs.Date[0], cs.Date[1], cs.Date[2], cs.Tags, cs.Ext, cs.Path, got, reg.S), detail)
		failed = true
	}
	if js.OK && !reg.Amb && !failed && js.S != got {
		c.Fail("", fmt.Sprintf("%s %s %s on %v: the published data/regimes table puts %s in force, the document received %s", cs.Country, cs.Cat, cs.Rate, cs.Date, js.S, got), detail)
		failed = true
	}
	if got != reg.M && !failed && len(c.Violations) == 0 {
		c.TieBroken("drive:C12/"+cs.Path, fmt.Sprintf("model of RateDef.Value answers %s, the code %s", reg.M, got), detail)
	}
	switch {
	case got.None:
		c.Count("outcome:no-value(before first)", 1)
	case got.Since == "-":
		c.Count("outcome:undated value", 1)
	default:
		d := fmt.Sprintf("%d-%d-%d", cs.Date[0], cs.Date[1], cs.Date[2])
		if got.Since == d {
			c.Count("outcome:value starting that very day", 1)
		} else {
			c.Count("outcome:dated value", 1)
		}
	}
}

func prepareValue(c *core.Ctx, cs Case) *evaluated {
	_, _, rate := findRate(cs)
	if rate == nil {
		c.Count("skipped:rate-not-registered", 1)
		return nil
	}
	var got *tax.RateValueDef
	p := core.Protect(func() { got = rate.Value(mkDate(cs.Date), toKeys(cs.Tags), toExt(cs.Ext)) })
	g := goRow(got)
	c.Count("path:value", 1)
	e := &evaluated{Case: cs, Go: g.String()}
	e.Reqs = []string{
		valReq("reg", cs.Country, cs.Cat, cs.Rate, cs.Date, cs.Tags, cs.Ext),
		valReq("json", cs.Country, cs.Cat, cs.Rate, cs.Date, cs.Tags, cs.Ext),
	}
	e.judge = func(resp []string) {
		if p != "" {
			c.Fail("", "RateDef.Value panicked: "+p, cs)
			return
		}
		if len(rate.Values) == 0 {
			c.Eval(cs.key(), false)
			c.Count("outcome:rate without values", 1)
			return
		}
		judgeLookup(c, cs, g, parseVal(resp[0]), parseVal(resp[1]), goTie(rate.Values), g.String())
		if len(c.Samples) < 3 && len(rate.Values) > 1 && !g.None && g.Since == fmt.Sprintf("%d-%d-%d", cs.Date[0], cs.Date[1], cs.Date[2]) {
			c.Sample(map[string]any{"case": cs, "go": g.String(), "lean": resp[0]})
		}
	}
	return e
}

func prepareInvoice(c *core.Ctx, cs Case) *evaluated {
	_, _, rate := findRate(cs)
	if rate == nil && !cs.Undef {
		c.Count("skipped:rate-not-registered", 1)
		return nil
	}
	if rate == nil {
		rate = &tax.RateDef{}
	}
	host, override := cs.Country, ""
	issue := cs.Date
	var value *[3]int
	switch cs.Path {
	case "invoice-value":
		d := cs.Date
		value = &d
		issue = addDays(mkDate(cs.Date), 400)
	case "invoice-override":
		host = otherRegime(cs.Country)
		override = cs.Country
		if host == "" {
			return nil
		}
	}
	o := runInvoice(host, override, cs.Cat, cs.Rate, cs.Ext, cs.Tags, issue, value, cs.Path == "invoice-stale")
	c.Count("path:"+cs.Path, 1)
	e := &evaluated{Case: cs, Go: o}
	if !o.Found || strings.HasPrefix(o.Err, "other:") || strings.HasPrefix(o.Err, "panic:") {
		e.judge = func([]string) {
			c.Eval(cs.key(), false)
			if strings.HasPrefix(o.Err, "panic:") {
				c.Fail("", "Invoice.Calculate panicked: "+o.Err, cs)
				return
			}
			c.Count("skipped:invoice not calculable ("+cs.Path+")", 1)
			if len(c.Notes) < 6 {
				c.Note("not calculable: %+v: %s", cs, o.Err)
			}
		}
		return e
	}
	// the oracle is evaluated on what the calculated document holds: the
	// combo's category / rate key / extensions after normalisation, the
	// document's tags and tax date
	ovr := 0
	if override != "" {
		ovr = 1
	}
	// the percentage and surcharge the input combo carries (stale path: 99.0%, 7.7%)
	inPct, inSur := "-", "-"
	if cs.Path == "invoice-stale" {
		inPct, inSur = "990:3", "77:3"
	}
	e.Reqs = []string{
		valReq("reg", o.Country, o.Cat, o.Rate, o.TaxDate, o.Tags, o.Ext),
		valReq("json", o.Country, o.Cat, o.Rate, o.TaxDate, o.Tags, o.Ext),
		fmt.Sprintf("combo reg %s %s %s %d %s %s %s %s %s", core.Hex(cs.Country), core.Hex(cs.Cat), core.Hex(cs.Rate), ovr, inPct, inSur, dateReq(cs.Date), hexList(o.Tags), hexExt(comboInputExt(cs, o))),
	}
	e.judge = func(resp []string) {
		if o.TaxDate != cs.Date {
			c.Fail("", fmt.Sprintf("tax date: the document's tax date is %v, expected %v (%s)", o.TaxDate, cs.Date, cs.Path), map[string]any{"case": cs, "go": o})
			return
		}
		if o.Cat != cs.Cat || o.Rate != cs.Rate || o.Country != cs.Country {
			c.Count("normalised-to-another-cell", 1)
		}
		reg, js := parseVal(resp[0]), parseVal(resp[1])
		if !reg.OK {
			if o.Err == "" {
				c.Fail("", fmt.Sprintf("%s %s %s: calculated without error although the regenerated tables have no such category/rate (%s)", o.Country, o.Cat, o.Rate, reg.Err), map[string]any{"case": cs, "go": o})
			} else {
				c.Eval(cs.key(), false)
				c.Count("outcome:rejected unknown cell", 1)
			}
			return
		}
		switch {
		case reg.Exempt:
			c.Eval(cs.key(), false)
			c.Count("outcome:exempt key", 1)
			if o.Err != "" || o.Pct != "-" || o.Sur != "-" {
				c.Fail("", fmt.Sprintf("%s %s %s: exempt key yet the combo holds percent %s surcharge %s (err %q)", o.Country, o.Cat, o.Rate, o.Pct, o.Sur, o.Err), map[string]any{"case": cs, "go": o})
			}
		case reg.N == 0:
			c.Eval(cs.key(), false)
			c.Count("outcome:rate without values", 1)
		default:
			got := rowOut{None: true}
			if o.Err == "" {
				if o.Pct == "-" {
					c.Fail("", fmt.Sprintf("%s %s %s on %v: calculated but the combo has no percentage", o.Country, o.Cat, o.Rate, o.TaxDate), map[string]any{"case": cs, "go": o})
					return
				}
				// the row's start date is not observable on the document
				got = rowOut{Since: reg.S.Since, Pct: o.Pct, Sur: o.Sur}
				if reg.S.None {
					got.Since = "?"
				}
			} else if o.Err != "date" {
				c.Fail("", fmt.Sprintf("%s %s %s on %v: unexpected error class %s", o.Country, o.Cat, o.Rate, o.TaxDate, o.Err), map[string]any{"case": cs, "go": o})
				return
			}
			// compare percent and surcharge only
			m := reg.M
			if !m.None && !got.None {
				m.Since = got.Since
			}
			reg2 := reg
			reg2.M = m
			if !js.S.None && !got.None {
				js.S.Since = got.Since
			}
			judgeLookup(c, Case{Path: cs.Path, Country: o.Country, Cat: o.Cat, Rate: o.Rate, Date: cs.Date, Tags: o.Tags, Ext: o.Ext}, got, reg2, js, goTie(rate.Values), o)
		}
		// correspondence of the whole combo computation (percent, surcharge, ext)
		if o.Cat == cs.Cat && o.Rate == cs.Rate {
			want := resp[2]
			var have string
			if o.Err != "" {
				have = "err " + o.Err
			} else {
				have = fmt.Sprintf("ok %s %s %s", o.Pct, o.Sur, hexExt(o.Ext))
			}
			if reg.N == 0 && !reg.Exempt && cs.Path != "invoice-stale" {
				// untouched: the model echoes the input percentage (none)
				have = fmt.Sprintf("ok %s %s %s", "-", "-", hexExt(o.Ext))
				if o.Pct != "-" {
					have = "touched"
				}
			}
			if want != have && len(c.Violations) == 0 {
				c.TieBroken("drive:C12/combo", fmt.Sprintf("model of Combo.prepareRate answers %q, the code %q", want, have), map[string]any{"case": cs, "go": o})
			}
		}
		if len(c.Samples) < 8 && cs.Path != "invoice-issue" && reg.N > 1 && (o.Err == "date" || len(cs.Ext) > 0 || len(c.Samples)%2 == 1) {
			c.Sample(map[string]any{"case": cs, "go": o, "lean": resp[0]})
		}
	}
	return e
}

// comboInputExt is the extension map the model of prepareRate starts from: what
// the normalisers left on the combo before the rate's own extensions were
// copied in.  Only the result is observable, and copying is idempotent, so the
// result itself is used.
func comboInputExt(cs Case, o invOut) map[string]string { return o.Ext }

// ---- synthetic tables --------------------------------------------------------

func synthetic(c *core.Ctx) []Case {
	n := c.Pick(4000, 60000)
	out := make([]Case, 0, n)
	rng := c.Rng
	tagPool := []string{"a", "b", "c"}
	extPool := [][2]string{{"k", "1"}, {"k", "2"}, {"j", "x"}}
	rd := func() [3]int {
		// a handful of close dates so that ties and boundaries are frequent
		y := 2019 + rng.Intn(3)
		m := 1 + rng.Intn(3)
		d := 27 + rng.Intn(5) // 27..31: impossible days in February / 30-day months occur
		if m == 2 && rng.Intn(3) > 0 {
			d = 26 + rng.Intn(4)
		}
		return [3]int{y, m, d}
	}
	for i := 0; i < n; i++ {
		cs := Case{Path: "raw", Date: rd()}
		rows := 1 + rng.Intn(5)
		sorted := rng.Intn(3) > 0
		var ds [][3]int
		for j := 0; j < rows; j++ {
			ds = append(ds, rd())
		}
		if sorted {
			sort.Slice(ds, func(a, b int) bool {
				return ds[a][0]*10000+ds[a][1]*100+ds[a][2] > ds[b][0]*10000+ds[b][1]*100+ds[b][2]
			})
		}
		for j := 0; j < rows; j++ {
			r := Row{Pct: [2]int64{int64(1 + rng.Intn(30)), 2}}
			d := ds[j]
			r.Since = &d
			if rng.Intn(6) == 0 && (j == rows-1 || rng.Intn(4) == 0) {
				r.Since = nil
			}
			if rng.Intn(4) == 0 {
				r.Tags = []string{tagPool[rng.Intn(3)]}
				if rng.Intn(3) == 0 {
					r.Tags = append(r.Tags, tagPool[rng.Intn(3)])
				}
			}
			if rng.Intn(4) == 0 {
				p := extPool[rng.Intn(3)]
				r.Ext = map[string]string{p[0]: p[1]}
			}
			if rng.Intn(3) == 0 {
				s := [2]int64{int64(1 + rng.Intn(9)), 3}
				r.Sur = &s
			}
			cs.Rows = append(cs.Rows, r)
		}
		for _, t := range tagPool {
			if rng.Intn(3) == 0 {
				cs.Tags = append(cs.Tags, t)
			}
		}
		if rng.Intn(2) == 0 {
			p := extPool[rng.Intn(3)]
			cs.Ext = map[string]string{p[0]: p[1]}
			if rng.Intn(3) == 0 {
				q := extPool[rng.Intn(3)]
				cs.Ext[q[0]] = q[1]
			}
		}
		out = append(out, cs)
	}
	return out
}

func prepareRaw(c *core.Ctx, cs Case) *evaluated {
	rate := &tax.RateDef{Key: "synthetic"}
	var sb strings.Builder
	fmt.Fprintf(&sb, "raw %s %s %s %d", dateReq(cs.Date), hexList(cs.Tags), hexExt(cs.Ext), len(cs.Rows))
	for _, r := range cs.Rows {
		v := &tax.RateValueDef{Tags: toKeys(r.Tags), Ext: toExt(r.Ext), Percent: num.MakePercentage(r.Pct[0], uint32(r.Pct[1]))}
		if len(r.Tags) == 0 {
			v.Tags = nil
		}
		since := "-"
		if r.Since != nil {
			d := mkDate(*r.Since)
			v.Since = &d
			since = fmt.Sprintf("%d-%d-%d", r.Since[0], r.Since[1], r.Since[2])
		}
		sur := "-"
		if r.Sur != nil {
			s := num.MakePercentage(r.Sur[0], uint32(r.Sur[1]))
			v.Surcharge = &s
			sur = pctStr(s)
		}
		rate.Values = append(rate.Values, v)
		fmt.Fprintf(&sb, " %s %s %s %s %s", hexList(r.Tags), hexExt(r.Ext), since, pctStr(v.Percent), sur)
	}
	var got *tax.RateValueDef
	p := core.Protect(func() { got = rate.Value(mkDate(cs.Date), toKeys(cs.Tags), toExt(cs.Ext)) })
	g := goRow(got)
	c.Count("path:raw(synthetic table)", 1)
	e := &evaluated{Case: cs, Go: g.String(), Reqs: []string{sb.String()}}
	e.judge = func(resp []string) {
		if p != "" {
			c.Fail("", "RateDef.Value panicked: "+p, cs)
			return
		}
		r := parseVal(resp[0])
		c.Eval(cs.key(), true)
		if !r.OK {
			c.TieBroken("drive:C12/raw", "driver: "+r.Err, cs)
			return
		}
		switch {
		case !r.Real:
			c.Count("raw:impossible start date in table", 1)
		case !r.Desc:
			c.Count("raw:not strictly descending under the filter", 1)
		default:
			c.Count("raw:descending under the filter", 1)
			// inside the theorem's hypotheses the property oracle applies
			if g != r.S {
				c.Fail("", fmt.Sprintf("synthetic descending table on %v: RateDef.Value answered %s, the value in force is %s", cs.Date, g, r.S), map[string]any{"case": cs, "go": g.String(), "spec_in_force": r.S.String()})
				return
			}
		}
		if g != r.M && len(c.Violations) == 0 {
			c.TieBroken("drive:C12/raw", fmt.Sprintf("model of RateDef.Value answers %s, the code %s", r.M, g), map[string]any{"case": cs, "go": g.String()})
		}
	}
	return e
}

// ---- table-level obligations, judged on the real registry -------------------

// tableChecks re-evaluates on the real registry what `all_tables_descending`
// proves over the regenerated data, so that a broken obligation comes with the
// table as its witness (the date grid above supplies the witness invoice).
func tableChecks(c *core.Ctx) {
	if c.ReplayFile != "" {
		return
	}
	var reqs []string
	type cell struct {
		cs  Case
		tie bool
	}
	var cells []cell
	for _, r := range tax.AllRegimeDefs() {
		for _, cat := range r.Categories {
			for _, rate := range cat.Rates {
				if len(rate.Values) == 0 {
					continue
				}
				tagVars := [][]string{nil}
				extVars := []map[string]string{nil}
				for _, v := range rate.Values {
					if len(v.Tags) > 0 {
						tagVars = append(tagVars, cbc.KeyStrings(v.Tags))
					}
					if len(v.Ext) > 0 {
						extVars = append(extVars, extOf(v.Ext))
					}
				}
				for _, tv := range tagVars {
					for _, ev := range extVars {
						cs := Case{Path: "value", Country: string(r.Country), Cat: string(cat.Code), Rate: string(rate.Key), Date: [3]int{2100, 1, 1}, Tags: tv, Ext: ev}
						cells = append(cells, cell{cs, goTie(rate.Values)})
						reqs = append(reqs, valReq("reg", cs.Country, cs.Cat, cs.Rate, cs.Date, tv, ev))
					}
				}
			}
		}
	}
	resp, err := c.Model(reqs)
	if err != nil {
		c.TieBroken("drive:C12/tables", err.Error(), nil)
		return
	}
	for i, cl := range cells {
		r := parseVal(resp[i])
		if !r.OK {
			continue
		}
		c.Count("table-filter-checked", 1)
		if !r.Real {
			c.Fail("", fmt.Sprintf("%s %s %s: a start date is not a calendar day", cl.cs.Country, cl.cs.Cat, cl.cs.Rate), cl.cs)
		}
		if !r.Desc {
			if cl.tie {
				c.Fail(knownTie, fmt.Sprintf("%s %s %s (tags %v, ext %v): applicable values not in strictly descending date order", cl.cs.Country, cl.cs.Cat, cl.cs.Rate, cl.cs.Tags, cl.cs.Ext), cl.cs)
			} else {
				c.Fail("", fmt.Sprintf("%s %s %s (tags %v, ext %v): the applicable values are not listed in strictly descending date order", cl.cs.Country, cl.cs.Cat, cl.cs.Rate, cl.cs.Tags, cl.cs.Ext), cl.cs)
			}
		}
	}
}
