package c06

import (
	"fmt"
	"math/rand"
	"strings"
	"unicode"
)

// Unicode look-alikes.  The published patterns are written over ASCII: a minus
// sign, the digits 0-9, a full stop, a percent sign.  Unicode has many more
// characters of each of these classes (Go's unicode tables say which runes are
// decimal digits and what their value is; the signs are listed here by class),
// and number parsers of other libraries take some of them.  A text that differs
// from a pattern member in ONE character, replaced by a character of the same
// class, is not a pattern member and has to be rejected by every reading entry
// point; the oracle (accepted iff pattern member that fits) decides, nothing
// here says "reject".

type lookClass struct {
	name  string
	ascii byte
	alts  []rune
}

var signClasses = []lookClass{
	{"percent", '%', []rune{0x066A, 0xFF05, 0xFE6A, 0x2030, 0x2031, 0x2052, 0x0609, 0x060A, 0x00F7}},
	{"minus", '-', []rune{0x2212, 0xFF0D, 0x2010, 0x2011, 0x2012, 0x2013, 0x2014, 0x2015, 0xFE63, 0xFE58, 0x00AD, 0x02D7, 0x207B, 0x208B, 0x2796, 0x05BE, 0x1806, 0x30FC}},
	{"point", '.', []rune{0xFF0E, 0x3002, 0x00B7, 0x066B, 0x066C, 0x2024, 0xFE52, 0x06D4, 0x0701, 0x0702, 0x2E33, 0xFF61, 0x2027, 0x22C5, 0x002C, 0xFF0C, 0x060C}},
}

// characters that are no part of a member but that lenient readers skip or take for a sign
var plusAlts = []rune{'+', 0xFF0B, 0xFE62, 0x207A, 0x208A, 0x2795}
var spaceAlts = []rune{' ', '\t', '\n', '\r', '\v', '\f', 0x85, 0xA0, 0x1680, 0x2000, 0x2002, 0x2003, 0x2007, 0x2008, 0x2009, 0x200A, 0x200B, 0x202F, 0x205F, 0x2060, 0x3000, 0xFEFF, 0x00}

// otherDigits[d]: every Unicode decimal digit (category Nd) of value d other than the ASCII one,
// then the superscript, subscript and a few enclosed forms (category No: digits to the eye, no
// decimal digits to Unicode).  Nd comes in runs of ten consecutive code points in digit order.
var otherDigits = func() (out [10][]rune) {
	for _, r16 := range unicode.Nd.R16 {
		if (int(r16.Hi)-int(r16.Lo)+1)%10 != 0 || r16.Stride != 1 {
			continue
		}
		for r := rune(r16.Lo); r <= rune(r16.Hi); r++ {
			if r >= 0x80 {
				out[(r-rune(r16.Lo))%10] = append(out[(r-rune(r16.Lo))%10], r)
			}
		}
	}
	for _, r32 := range unicode.Nd.R32 {
		if (int(r32.Hi)-int(r32.Lo)+1)%10 != 0 || r32.Stride != 1 {
			continue
		}
		for r := rune(r32.Lo); r <= rune(r32.Hi); r++ {
			out[(r-rune(r32.Lo))%10] = append(out[(r-rune(r32.Lo))%10], r)
		}
	}
	super := []rune{0x2070, 0x00B9, 0x00B2, 0x00B3, 0x2074, 0x2075, 0x2076, 0x2077, 0x2078, 0x2079}
	for d := 0; d < 10; d++ {
		out[d] = append(out[d], super[d], rune(0x2080+d))
	}
	for d := 1; d < 10; d++ {
		out[d] = append(out[d], rune(0x2460+d-1), rune(0x2776+d-1), rune(0x2160+d-1)) // circled, dingbat, Roman numeral
	}
	out[0] = append(out[0], 0x24EA, 0x3007, 'O', 'o', 0x039F)
	out[1] = append(out[1], 'l', 'I')
	return
}()

// altsFor lists the look-alikes of the ASCII character b of a member text, with the class name.
func altsFor(b byte) (string, []rune) {
	if b >= '0' && b <= '9' {
		return "digit", otherDigits[b-'0']
	}
	for _, cl := range signClasses {
		if cl.ascii == b {
			return cl.name, cl.alts
		}
	}
	return "", nil
}

// lookalike is one text next to a member: the member with one character replaced or inserted.
type lookalike struct {
	text  string
	class string
}

// allLookalikes: every single replacement of every character of s by every look-alike of its
// class, a plus variant in front (and in place of the minus), a space variant at every gap.
func allLookalikes(s string) (out []lookalike) {
	for i := 0; i < len(s); i++ {
		cl, alts := altsFor(s[i])
		for _, a := range alts {
			out = append(out, lookalike{s[:i] + string(a) + s[i+1:], cl})
		}
	}
	for _, p := range plusAlts {
		out = append(out, lookalike{string(p) + s, "plus"})
		if strings.HasPrefix(s, "-") {
			out = append(out, lookalike{string(p) + s[1:], "plus"})
		}
	}
	for _, sp := range spaceAlts {
		for i := 0; i <= len(s); i++ {
			out = append(out, lookalike{s[:i] + string(sp) + s[i:], "space"})
		}
	}
	return
}

// oneLookalike: one random replacement (or, one time in six, one insertion of a plus or space variant).
func oneLookalike(r *rand.Rand, s string) lookalike {
	if len(s) == 0 || r.Intn(6) == 0 {
		if r.Intn(3) == 0 {
			return lookalike{string(plusAlts[r.Intn(len(plusAlts))]) + s, "plus"}
		}
		i := 0
		switch r.Intn(3) {
		case 0:
			i = len(s)
		case 1:
			i = r.Intn(len(s) + 1)
		}
		return lookalike{s[:i] + string(spaceAlts[r.Intn(len(spaceAlts))]) + s[i:], "space"}
	}
	// the sign characters are few: pick them more often than their share of the text
	i := r.Intn(len(s))
	if r.Intn(2) == 0 {
		var signs []int
		for k := 0; k < len(s); k++ {
			if s[k] < '0' || s[k] > '9' {
				signs = append(signs, k)
			}
		}
		if len(signs) > 0 {
			i = signs[r.Intn(len(signs))]
		}
	}
	cl, alts := altsFor(s[i])
	if len(alts) == 0 {
		panic(fmt.Sprintf("harness: no look-alike class for %q in %q", s[i], s))
	}
	return lookalike{s[:i] + string(alts[r.Intn(len(alts))]) + s[i+1:], cl}
}

var lookHosts = []string{"7", "-7", "10", "12.50", "-12.50", "0.16", "-0.5"}

// lookalikeCases feeds the look-alikes of amount members and of percentage members (member + "%")
// to every reading entry point: AmountFromString / PercentageFromString, UnmarshalText,
// UnmarshalJSON directly (bare and as a JSON string, raw and with the odd character escaped),
// and through encoding/json (quoted raw, quoted escaped, bare).
func lookalikeCases(r *rand.Rand, nRandom int, add func(op, text, stream string), count func(string)) {
	feed := func(l lookalike, pct bool, all bool) {
		stream := "lookalike-" + l.class
		count("lookalike:" + l.class)
		ops := []string{"afs", "utx", "ujs", "jsn"}
		if pct {
			ops = []string{"pfs", "putx", "pujs", "pjsn"}
		}
		// the text as it is: FromString, UnmarshalText, UnmarshalJSON on the bare text, bare through encoding/json
		for _, op := range ops {
			add(op, l.text, stream)
		}
		if !all && r.Intn(3) != 0 {
			// the other type reads it too (a percentage text given to an amount and the reverse)
			if pct {
				add("afs", l.text, stream)
			} else {
				add("pfs", l.text, stream)
			}
		}
		// as a JSON string: raw, and in a random spelling (escapes)
		raw, ok := jsonSpell(r, l.text, 1<<30)
		if !ok {
			return // a single byte of Latin-1 is no text a JSON string can hold: covered by the direct forms
		}
		add(ops[2], raw, stream)
		add(ops[3], pad(r, raw), stream)
		if esc, ok := jsonSpell(r, l.text, 1+r.Intn(3)); ok && esc != raw {
			add(ops[2], esc, stream+"-escaped")
			add(ops[3], pad(r, esc), stream+"-escaped")
		}
	}
	for _, h := range lookHosts {
		for _, l := range allLookalikes(h) {
			feed(l, false, true)
		}
		for _, l := range allLookalikes(h + "%") {
			feed(l, true, true)
		}
	}
	for i := 0; i < nRandom; i++ {
		s := member(r)
		feed(oneLookalike(r, s), false, false)
		feed(oneLookalike(r, s+"%"), true, false)
	}
}
