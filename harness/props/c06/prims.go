package c06

// The `prims` family: the primitives that the go2lean translation of the codec
// rests on (Generated/CodecSrc.lean refers to Model/GoStrings.lean,
// Model/GoStr.lean and Model/GoJson.lean for strconv.ParseInt, strings.Split /
// HasPrefix / TrimPrefix / TrimSuffix / TrimRight / Contains, fmt's %d and
// %0*d and json.Unmarshal into a string) are part of the TRUSTED base of the
// translator tie.  Here each Lean definition is compared with the real Go
// function on generated strings, inside the domain the definition states
// (Split: separator not empty; TrimRight: ASCII cutset; %0*d: width ≤ 1100;
// json.Unmarshal: data starting with a quote).  A difference is a broken tie
// (the assumed behaviour of a library function is wrong), not a violation of
// the property by itself.

import (
	"encoding/json"
	"fmt"
	"math"
	"math/rand"
	"strconv"
	"strings"

	"verifharness/internal/core"
)

type primCase struct {
	name string
	s, x string // text arguments
	w    int    // pad0: width
	v    int64  // itoa / pad0: value
}

func (p primCase) req() string {
	switch p.name {
	case "pint":
		return "prim pint " + core.Hex(p.s)
	case "itoa":
		return fmt.Sprintf("prim itoa %d", p.v)
	case "pad0":
		return fmt.Sprintf("prim pad0 %d %d", p.w, p.v)
	}
	return "prim " + p.name + " " + core.Hex(p.s) + " " + core.Hex(p.x)
}

func b01(b bool) string {
	if b {
		return "1"
	}
	return "0"
}

// goPrim is what the real library function answers, in the driver's format.
func (p primCase) goPrim() string {
	switch p.name {
	case "pint":
		v, err := strconv.ParseInt(p.s, 10, 64)
		k := "ok"
		if err != nil {
			k = "other"
			if ne, ok := err.(*strconv.NumError); ok {
				switch ne.Err {
				case strconv.ErrSyntax:
					k = "syntax"
				case strconv.ErrRange:
					k = "range"
				}
			}
		}
		return fmt.Sprintf("%d %s", v, k)
	case "itoa":
		return core.Hex(fmt.Sprintf("%d", p.v))
	case "pad0":
		return core.Hex(fmt.Sprintf("%0*d", uint32(p.w), p.v))
	case "split":
		parts := strings.Split(p.s, p.x)
		hs := make([]string, len(parts))
		for i, q := range parts {
			hs[i] = core.Hex(q)
		}
		return strings.Join(hs, ",")
	case "hasp":
		return b01(strings.HasPrefix(p.s, p.x))
	case "tpre":
		return core.Hex(strings.TrimPrefix(p.s, p.x))
	case "tsuf":
		return core.Hex(strings.TrimSuffix(p.s, p.x))
	case "tright":
		return core.Hex(strings.TrimRight(p.s, p.x))
	case "cont":
		return b01(strings.Contains(p.s, p.x))
	case "json":
		text := p.x
		err := json.Unmarshal([]byte(p.s), &text)
		k := "ok"
		if err != nil {
			k = "err"
		}
		return core.Hex(text) + " " + k
	}
	return "?"
}

// soup draws a short string over the bytes the codec cares about, some other ASCII and some non-ASCII bytes.
func soup(r *rand.Rand, alphabet string, maxLen int) string {
	n := r.Intn(maxLen + 1)
	b := make([]byte, n)
	for i := range b {
		switch r.Intn(12) {
		case 0:
			b[i] = byte(r.Intn(256))
		default:
			b[i] = alphabet[r.Intn(len(alphabet))]
		}
	}
	return string(b)
}

func primCases(c *core.Ctx, r *rand.Rand) []primCase {
	var out []primCase
	add := func(p primCase) { out = append(out, p) }
	n := c.Pick(4000, 60000)
	// strconv.ParseInt: signs, digits, the two bounds, long runs, junk
	bounds := []string{"9223372036854775807", "9223372036854775808", "-9223372036854775808", "-9223372036854775809",
		"+9223372036854775807", "+9223372036854775808", "18446744073709551616", "-18446744073709551616", "", "-", "+", "--1", "+-1", "-+1",
		"0", "-0", "+0", "00", "007", "-007", "1_000", "0x10", "1e3", " 1", "1 ", "١", "\x00", "1\x00", "99999999999999999999999999999999999999"}
	for _, s := range bounds {
		add(primCase{name: "pint", s: s})
	}
	for i := 0; i < n; i++ {
		var s string
		switch r.Intn(5) {
		case 0:
			s = soup(r, "0123456789-+._ ", 24)
		case 1: // around the bounds
			d := int64(r.Intn(41) - 20)
			b := new(strings.Builder)
			if r.Intn(2) == 0 {
				fmt.Fprintf(b, "%d", math.MaxInt64-20+d)
			} else {
				fmt.Fprintf(b, "%d", math.MinInt64+20+d)
			}
			s = b.String()
			if r.Intn(3) == 0 { // one more digit / changed last digit: beyond the range
				s += string(rune('0' + r.Intn(10)))
			}
			if r.Intn(4) == 0 {
				s = s[:len(s)-1] + string(rune('0'+r.Intn(10)))
			}
		case 2:
			s = []string{"", "-", "+"}[r.Intn(3)] + strings.Repeat("0", r.Intn(4)) + digits(r, 1+r.Intn(25))
		default:
			s = []string{"", "-", "+"}[r.Intn(3)] + digits(r, 1+r.Intn(19))
		}
		add(primCase{name: "pint", s: s})
	}
	// strings.*
	seps := []string{".", "..", "-", "ab", "0", "%", ".0", "\xff"}
	cuts := []string{"0", "0.", "", ".", "09", "-0", " \t"}
	for i := 0; i < n; i++ {
		s := soup(r, "0123456789..--%ab00", 16)
		if r.Intn(3) == 0 {
			s = member(r)
			if r.Intn(2) == 0 {
				s = mutate(r, s)
			}
		}
		add(primCase{name: "split", s: s, x: seps[r.Intn(len(seps))]})
		x := soup(r, "-.0%a", 3)
		if r.Intn(2) == 0 && len(s) > 0 { // a real prefix / suffix / infix
			a := r.Intn(len(s) + 1)
			b := a + r.Intn(len(s)-a+1)
			x = s[a:b]
			switch r.Intn(3) {
			case 0:
				x = s[:b]
			case 1:
				x = s[a:]
			}
		}
		add(primCase{name: "hasp", s: s, x: x})
		add(primCase{name: "tpre", s: s, x: x})
		add(primCase{name: "tsuf", s: s, x: x})
		add(primCase{name: "cont", s: s, x: x})
		add(primCase{name: "tright", s: s + strings.Repeat("0", r.Intn(4)) + []string{"", ".", ".0", "00"}[r.Intn(4)], x: cuts[r.Intn(len(cuts))]})
	}
	// fmt: %d and %0*d
	bvs := boundaryValues()
	for _, v := range bvs {
		add(primCase{name: "itoa", v: v})
		for _, w := range []int{0, 1, 2, 5, 18, 19, 20, 21, 25, 1000} {
			add(primCase{name: "pad0", w: w, v: v})
		}
	}
	for i := 0; i < n/2; i++ {
		v := randI64(r)
		if r.Intn(3) == 0 {
			v %= 1000
		}
		add(primCase{name: "itoa", v: v})
		w := r.Intn(26)
		if r.Intn(50) == 0 {
			w = 900 + r.Intn(200)
		}
		add(primCase{name: "pad0", w: w, v: v})
	}
	// json.Unmarshal(data, &text): data starts with a quote
	for i := 0; i < n; i++ {
		var tok string
		switch r.Intn(4) {
		case 0:
			tok = quotedSoup(r)
		case 1:
			tok, _ = jsonSpell(r, member(r), 3)
		case 2:
			tok, _ = jsonQuote(r, soup(r, "0123456789.-%\\\"/bfnrtu", 10), true)
		default:
			tok = "\"" + soup(r, "0123456789.-%\\\"/bfnrtu\x7f\xc3\xa9\xed\xa0\x80 ", 12)
			if r.Intn(3) != 0 {
				tok += "\""
			}
			if r.Intn(4) == 0 {
				tok += soup(r, " \t\r\nx", 3)
			}
		}
		if !strings.HasPrefix(tok, "\"") {
			continue
		}
		add(primCase{name: "json", s: tok, x: []string{"", "old", "7.1"}[r.Intn(3)]})
	}
	return out
}

// prims runs the family.  Replays carry the request in Text and the primitive's name in Stream.
func prims(c *core.Ctx, r *rand.Rand) {
	runPrims(c, primCases(c, r))
}

func runPrims(c *core.Ctx, cases []primCase) {
	reqs := make([]string, len(cases))
	for i, p := range cases {
		reqs[i] = p.req()
	}
	resp, err := c.Model(reqs)
	if err != nil {
		c.TieBroken("drive:C06/prims", "model driver failed on the prims family: "+err.Error(), nil)
		return
	}
	bad := 0
	for i, p := range cases {
		want := p.goPrim()
		c.Count("op:prim", 1)
		c.Count("prim:"+p.name, 1)
		c.Eval(reqs[i], len(p.s) > 0 || p.name == "itoa" || p.name == "pad0")
		if resp[i] == want {
			continue
		}
		bad++
		if bad <= 3 {
			c.TieBroken("prim:"+p.name,
				fmt.Sprintf("the Lean definition of a primitive of the translated codec differs from the Go function: %s(%q, %q, w=%d, v=%d): Go %s, Lean %s",
					p.name, p.s, p.x, p.w, p.v, want, resp[i]),
				tcase{Op: "prim", Stream: p.name, Text: p.s, Hex: core.Hex(p.s), Arg: core.Hex(p.x), V: p.v, E: uint32(p.w)})
		}
	}
}

// replayPrim runs one stored prims case.
func replayPrim(c *core.Ctx, t tcase) {
	var x []byte
	if t.Arg != "" && t.Arg != "-" {
		fmt.Sscanf(t.Arg, "%x", &x)
	}
	t.fix()
	runPrims(c, []primCase{{name: t.Stream, s: t.Text, x: string(x), w: int(t.E), v: t.V}})
}
