// Package c06 ties the Lean model of the num text codec (Model/Codec.lean) and
// the specification of C06 (Spec/C06.lean: hand-written recognisers of the two
// published patterns, exact decimal reading, the 64-bit condition) to the real
// num.Amount / num.Percentage code.
//
// Order of judgement per case: run the Go code; judge the property oracle on
// the Go output, twice and independently (in Go: regexp compiled from the
// published pattern + math/big; in Lean: Spec.C06 via the driver); compare the
// Go output with the model inside the model's domain.
package c06

import (
	"encoding/json"
	"fmt"
	"math"
	"math/big"
	"math/rand"
	"os"
	"path/filepath"
	"regexp"
	"strings"
	"unicode/utf8"

	"github.com/invopop/gobl/num"

	"verifharness/internal/core"
)

type tcase struct {
	Op     string // afs utx ujs jsn str min pfs putx pujs pjsn pstr; stab stabc (stability.go)
	Text   string `json:"-"`
	Hex    string // Text, hex (texts may be arbitrary bytes)
	V      int64
	E      uint32
	Stream string
	Seq    []sval `json:"Seq,omitempty"` // stab / stabc: the values written, in order
	Arg    string `json:"Arg,omitempty"` // prim (prims.go): the second text argument, hex
}

func (t *tcase) fix() {
	if t.Hex != "" && t.Text == "" {
		var b []byte
		if t.Hex != "-" {
			fmt.Sscanf(t.Hex, "%x", &b)
		}
		t.Text = string(b)
	} else {
		t.Hex = core.Hex(t.Text)
	}
}

// ---------- independent oracle in Go ----------

type oracle struct {
	amountRe, pctRe         *regexp.Regexp // from the JSONSchema() methods
	amountFileRe, pctFileRe *regexp.Regexp // from data/schemas/num/*.json
}

var maxI64 = big.NewInt(math.MaxInt64)
var minI64 = big.NewInt(math.MinInt64)

func filePattern(repo, file, def string) (string, error) {
	b, err := os.ReadFile(filepath.Join(repo, "data", "schemas", "num", file))
	if err != nil {
		return "", err
	}
	var doc struct {
		Defs map[string]struct {
			Pattern string `json:"pattern"`
		} `json:"$defs"`
	}
	if err := json.Unmarshal(b, &doc); err != nil {
		return "", err
	}
	return doc.Defs[def].Pattern, nil
}

func newOracle(repo string) (*oracle, error) {
	o := &oracle{}
	var err error
	if o.amountRe, err = regexp.Compile(num.Amount{}.JSONSchema().Pattern); err != nil {
		return nil, err
	}
	if o.pctRe, err = regexp.Compile(num.Percentage{}.JSONSchema().Pattern); err != nil {
		return nil, err
	}
	pa, err := filePattern(repo, "amount.json", "Amount")
	if err != nil {
		return nil, err
	}
	pp, err := filePattern(repo, "percentage.json", "Percentage")
	if err != nil {
		return nil, err
	}
	if o.amountFileRe, err = regexp.Compile(pa); err != nil {
		return nil, err
	}
	if o.pctFileRe, err = regexp.Compile(pp); err != nil {
		return nil, err
	}
	return o, nil
}

// reading of a pattern member: sign, all digits as one integer, number of decimals
func readDecimal(s string) (neg bool, unscaled *big.Int, decimals int) {
	if strings.HasPrefix(s, "-") {
		neg = true
		s = s[1:]
	}
	if i := strings.IndexByte(s, '.'); i >= 0 {
		decimals = len(s) - i - 1
		s = s[:i] + s[i+1:]
	}
	unscaled, _ = new(big.Int).SetString(s, 10)
	return
}

// fits: "whose value fits in 64 bits": at most 18 decimals and the digits
// without the point, with the sign of the text, an int64 (-2^63 … 2^63-1)
func fits(s string) bool {
	neg, u, d := readDecimal(s)
	if u == nil || d > 18 {
		return false
	}
	if neg {
		u = new(big.Int).Neg(u)
	}
	return u.Cmp(minI64) >= 0 && u.Cmp(maxI64) <= 0
}

func ratOf(v int64, e uint32) *big.Rat {
	den := new(big.Int).Exp(big.NewInt(10), big.NewInt(int64(e)), nil)
	return new(big.Rat).SetFrac(big.NewInt(v), den)
}

func textRat(s string) *big.Rat {
	neg, u, d := readDecimal(s)
	den := new(big.Int).Exp(big.NewInt(10), big.NewInt(int64(d)), nil)
	r := new(big.Rat).SetFrac(u, den)
	if neg {
		r.Neg(r)
	}
	return r
}

// ---------- generators ----------

var mutChars = []string{"+", "-", ".", "e", "E", "%", " ", ",", "_", "٣", "０", "\x00", "\"", "\n", "\t", "0", "9", "x", "\xff", "۱", "'"}

func digits(r *rand.Rand, n int) string {
	var sb strings.Builder
	for i := 0; i < n; i++ {
		sb.WriteByte(byte('0' + r.Intn(10)))
	}
	return sb.String()
}

func runLen(r *rand.Rand) int {
	switch r.Intn(10) {
	case 0:
		return 1 + r.Intn(40)
	case 1, 2:
		return 15 + r.Intn(8) // around the int64 boundary (19 digits)
	default:
		return 1 + r.Intn(6)
	}
}

// member of ^\-?[0-9]+(\.[0-9]+)?$
func member(r *rand.Rand) string {
	var sb strings.Builder
	if r.Intn(3) == 0 {
		sb.WriteByte('-')
	}
	n := runLen(r)
	if r.Intn(6) == 0 {
		sb.WriteString(strings.Repeat("0", 1+r.Intn(3)))
	}
	sb.WriteString(digits(r, n))
	if r.Intn(2) == 0 {
		sb.WriteByte('.')
		m := runLen(r)
		if r.Intn(4) == 0 {
			m = 16 + r.Intn(6) // around the 18 decimals limit
		}
		sb.WriteString(digits(r, m))
	}
	return sb.String()
}

func mutate(r *rand.Rand, s string) string {
	b := []byte(s)
	pos := 0
	if len(b) > 0 {
		pos = r.Intn(len(b) + 1)
	}
	c := mutChars[r.Intn(len(mutChars))]
	switch r.Intn(3) {
	case 0: // insert
		return string(b[:pos]) + c + string(b[pos:])
	case 1: // delete
		if len(b) == 0 {
			return c
		}
		if pos == len(b) {
			pos--
		}
		return string(b[:pos]) + string(b[pos+1:])
	default: // replace
		if len(b) == 0 {
			return c
		}
		if pos == len(b) {
			pos--
		}
		return string(b[:pos]) + c + string(b[pos+1:])
	}
}

var fixedTexts = []string{
	"", "-", ".", "-.", "1.", ".5", "-.5", "1..2", "1.2.3", "--5", "+5", "-+5", "+-5", "1.+5", "1.-5", "-1.-5", "++5",
	"0", "-0", "00", "-00.00", "0.0", "1e2", "1E2", "1e+2", "1.5e3", "0x10", "1_000", "1,000", "1 000", " 1", "1 ", "1\n", "\n1",
	"٣", "１２", "1.٣", "NaN", "Inf", "-Inf", "null", "true", "nil", "\"1\"", "'1'", "1%", "%", "-%", "5%%", "%5", "1.5%", "1.%", ".5%", "-1.50%",
	"9223372036854775807", "9223372036854775808", "-9223372036854775807", "-9223372036854775808", "-9223372036854775809",
	"18446744073709551616", "18446744073709551615", "99999999999999999999999999999999999999",
	"0.000000000000000000", "0.0000000000000000000", "1.000000000000000000", "9.223372036854775807", "9.223372036854775808",
	"1.0000000000000000000", "0.9223372036854775807", "0.9223372036854775808", "0.09223372036854775808",
	"922337203685477580.7", "922337203685477580.8", "92233720368547758.07", "92233720368547758.08",
	"-922337203685477580.8", "-922337203685477580.9", "-92233720368547758.08", "-92233720368547758.09", "-9.223372036854775808", "-9.223372036854775809",
	"-9223372036854775808.0", "-0.9223372036854775808",
	"0.123456789012345678", "0.1234567890123456789", "123456789012345.67", "99999999999999.99", "45035996273704.96", "45035996273704.95",
}

// boundary values written with d decimals
func boundaryTexts() []string {
	var out []string
	base := []*big.Int{big.NewInt(0), big.NewInt(1), big.NewInt(math.MaxInt64), new(big.Int).Add(big.NewInt(math.MaxInt64), big.NewInt(1)),
		new(big.Int).Add(big.NewInt(math.MaxInt64), big.NewInt(2)),
		new(big.Int).Sub(big.NewInt(math.MaxInt64), big.NewInt(1)), new(big.Int).Lsh(big.NewInt(1), 52), new(big.Int).Lsh(big.NewInt(1), 53)}
	for k := 1; k <= 20; k++ {
		p := new(big.Int).Exp(big.NewInt(10), big.NewInt(int64(k)), nil)
		base = append(base, p, new(big.Int).Sub(p, big.NewInt(1)), new(big.Int).Add(p, big.NewInt(1)))
	}
	for _, v := range base {
		ds := v.String()
		for d := 0; d <= 20; d++ {
			s := ds
			if d > 0 {
				for len(s) <= d {
					s = "0" + s
				}
				s = s[:len(s)-d] + "." + s[len(s)-d:]
			}
			out = append(out, s, "-"+s)
		}
	}
	return out
}

func randBytes(r *rand.Rand) string {
	n := r.Intn(6)
	b := make([]byte, n)
	alphabet := "0123456789-+.%e \"\x00\xc3\xa9\xff"
	for i := range b {
		b[i] = alphabet[r.Intn(len(alphabet))]
	}
	return string(b)
}

func randI64(r *rand.Rand) int64 {
	b := 1 + r.Intn(63)
	v := r.Int63() >> (63 - uint(b))
	if r.Intn(2) == 0 {
		v = -v
	}
	return v
}

func boundaryValues() []int64 {
	out := []int64{0, 1, -1, math.MaxInt64, -math.MaxInt64, math.MinInt64, math.MaxInt64 - 1, math.MinInt64 + 1, 1 << 52, -(1 << 52), 1<<52 - 1, 1 << 53}
	p := int64(1)
	for k := 1; k <= 18; k++ {
		p *= 10
		out = append(out, p, -p, p-1, -(p - 1), p+1, 5*p/10)
	}
	return out
}

// JSON tokens
func jsonNumber(r *rand.Rand) string {
	var sb strings.Builder
	if r.Intn(3) == 0 {
		sb.WriteByte('-')
	}
	if r.Intn(5) == 0 {
		sb.WriteByte('0')
	} else {
		sb.WriteByte(byte('1' + r.Intn(9)))
		sb.WriteString(digits(r, runLen(r)-1))
	}
	if r.Intn(2) == 0 {
		sb.WriteByte('.')
		sb.WriteString(digits(r, runLen(r)))
	}
	if r.Intn(6) == 0 {
		sb.WriteString([]string{"e", "E"}[r.Intn(2)] + []string{"", "+", "-"}[r.Intn(3)] + digits(r, 1+r.Intn(2)))
	}
	return sb.String()
}

func jsonQuote(r *rand.Rand, s string, escapes bool) (string, bool) {
	if !utf8.ValidString(s) {
		return "", false
	}
	b, err := json.Marshal(s)
	if err != nil {
		return "", false
	}
	q := string(b)
	if escapes && len(s) > 0 {
		// rewrite one character as a \uXXXX escape (same JSON string value)
		rs := []rune(s)
		i := r.Intn(len(rs))
		if rs[i] < 0x10000 && rs[i] != '"' && rs[i] != '\\' && rs[i] >= 0x20 {
			pre, _ := json.Marshal(string(rs[:i]))
			post, _ := json.Marshal(string(rs[i+1:]))
			q = string(pre[:len(pre)-1]) + fmt.Sprintf("\\u%04x", rs[i]) + string(post[1:])
		}
	}
	return q, true
}

var shortEscapes = map[rune]string{'"': `\"`, '\\': `\\`, '/': `\/`, '\b': `\b`, '\f': `\f`, '\n': `\n`, '\r': `\r`, '\t': `\t`}

// jsonSpell writes s as a JSON string token in a random spelling: every
// character raw, as \uXXXX (either hex case, surrogate pairs above U+FFFF) or,
// where one exists, as a two-character escape.  The JSON string value is s
// (s must be valid UTF-8).
func jsonSpell(r *rand.Rand, s string, rate int) (string, bool) {
	if !utf8.ValidString(s) {
		return "", false
	}
	var sb strings.Builder
	sb.WriteByte('"')
	for _, c := range s {
		must := c < 0x20 || c == '"' || c == '\\'
		if !must && r.Intn(rate) != 0 {
			sb.WriteRune(c)
			continue
		}
		if e, ok := shortEscapes[c]; ok && r.Intn(2) == 0 {
			sb.WriteString(e)
			continue
		}
		f := `\u%04x`
		if r.Intn(2) == 0 {
			f = `\u%04X`
		}
		if c >= 0x10000 {
			c -= 0x10000
			sb.WriteString(fmt.Sprintf(f, 0xd800+(c>>10)) + fmt.Sprintf(f, 0xdc00+(c&0x3ff)))
		} else {
			sb.WriteString(fmt.Sprintf(f, c))
		}
	}
	sb.WriteByte('"')
	return sb.String(), true
}

var soupPieces = []string{"1", "0", "5", "-", ".", "%", `\u0031`, `\u002e`, `\u002E`, `\u0025`, `\u00`, `\u12g4`, `\ud83d\ude00`, `\ud83d`, `\ude00`, `\ud83d\u0031`,
	`\n`, `\/`, `\"`, `\\`, `\'`, `\x`, `\`, `"`, "\n", "\t", " ", "\x00", "\x7f", "\xff", "\xc3\xa9", "\xc3", "\xe2\x82\xac", "\xe2\x82", "\xed\xa0\x80", "\xf0\x9f\x98\x80", "\xf4\x90\x80\x80", "\xc0\xaf", "٣", "null"}

// quotedSoup: a quoted token made of arbitrary pieces, often not a JSON string
// at all (for the model of the decoder, directly through UnmarshalJSON)
func quotedSoup(r *rand.Rand) string {
	var sb strings.Builder
	sb.WriteByte('"')
	for n := r.Intn(5); n > 0; n-- {
		sb.WriteString(soupPieces[r.Intn(len(soupPieces))])
	}
	if r.Intn(8) != 0 {
		sb.WriteByte('"')
	}
	if r.Intn(6) == 0 {
		sb.WriteString([]string{" ", "\n", "\t\r", "x", "\"", ","}[r.Intn(6)])
	}
	return sb.String()
}

// notLiterals: texts that must not be taken for literals or numbers when they
// come as JSON strings
var notLiterals = []string{"null", "", "true", "%", "0", "-", "1e2", "NaN"}

func pad(r *rand.Rand, tok string) string {
	ws := []string{"", "", "", " ", "\n", "\t ", "  "}
	return ws[r.Intn(len(ws))] + tok + ws[r.Intn(len(ws))]
}

// Run is the C06 correspondence and oracle run.
func Run(c *core.Ctx) int {
	var rc tcase
	if c.ReplayCase(&rc) {
		if rc.Op == "stab" || rc.Op == "stabc" {
			runStabCase(c, rc)
			return c.Finish("replay", nil)
		}
		if rc.Op == "prim" {
			replayPrim(c, rc)
			return c.Finish("replay", nil)
		}
		rc.fix()
		return runCases(c, []tcase{rc})
	}
	r := c.Rng
	var cases []tcase
	add := func(op, text, stream string) {
		cases = append(cases, tcase{Op: op, Text: text, Stream: stream})
	}
	readOps := func(text, stream string) {
		add("afs", text, stream)
		add("pfs", text, stream)
		add("pfs", text+"%", stream)
		if r.Intn(4) == 0 {
			add("utx", text, stream)
			add("putx", text+"%", stream)
			add("ujs", text, stream)
			add("pujs", text, stream)
			add("ujs", "\""+text+"\"", stream)
			add("pujs", "\""+text+"%\"", stream)
		}
	}
	for _, s := range fixedTexts {
		readOps(s, "fixed")
		for _, op := range []string{"utx", "putx", "ujs", "pujs"} {
			add(op, s, "fixed")
			add(op, "\""+s+"\"", "fixed")
		}
		for _, op := range []string{"jsn", "pjsn"} {
			add(op, s, "fixed")
			if q, ok := jsonQuote(r, s, false); ok {
				add(op, q, "fixed")
			}
			if q, ok := jsonQuote(r, s+"%", false); ok {
				add(op, q, "fixed")
			}
			if q, ok := jsonQuote(r, s, true); ok {
				add(op, q, "fixed-escaped")
			}
		}
	}
	for _, s := range []string{"null", " null ", "true", "false", "{}", "[]", "[1]", "{\"a\":1}", "\"\"", "\"null\"", "\"\\u0031\"", "\"1\\u002e5\"", "\"\\\"5\\\"\"",
		`"\u006eull"`, `"\u006e\u0075\u006c\u006c"`, `"n\u0075ll"`, `"\u0031\u0036\u0025"`, `"16\u0025"`, `"\u002D1.5"`, `"1\/2"`, `"1\n"`, `"\ud83d\ude00"`, `"\ud83d"`,
		`"1" `, "\"1\"\n", `"1`, `"`, `"1"2"`, `"1\"`, `"\u003"`, "\"1\t\"", "\"1\xff\"", `"%"`, `"\u0025"`} {
		add("jsn", s, "fixed-json")
		add("pjsn", s, "fixed-json")
		add("ujs", s, "fixed-json")
		add("pujs", s, "fixed-json")
	}
	for _, s := range boundaryTexts() {
		readOps(s, "boundary")
		add("jsn", "\""+s+"\"", "boundary")
		add("pjsn", "\""+s+"%\"", "boundary")
	}
	nm := c.Pick(40000, 400000)
	for i := 0; i < nm; i++ {
		s := member(r)
		readOps(s, "member")
		m := mutate(r, s)
		readOps(m, "mutation")
		if r.Intn(3) == 0 {
			readOps(mutate(r, m), "mutation2")
		}
		if r.Intn(3) == 0 {
			readOps(mutate(r, s+"%"), "mutation-pct")
		}
		if r.Intn(8) == 0 {
			readOps(randBytes(r), "bytes")
		}
		if r.Intn(3) == 0 {
			// JSON forms through encoding/json
			switch r.Intn(5) {
			case 0:
				n := jsonNumber(r)
				add("jsn", pad(r, n), "json-number")
				add("pjsn", pad(r, n), "json-number")
			case 1:
				if q, ok := jsonQuote(r, s, false); ok {
					add("jsn", pad(r, q), "json-quoted")
					add("pjsn", pad(r, q[:len(q)-1]+"%\""), "json-quoted")
				}
			case 2:
				if q, ok := jsonQuote(r, m, false); ok {
					add("jsn", pad(r, q), "json-quoted-mutation")
					add("pjsn", pad(r, q), "json-quoted-mutation")
				}
			case 3:
				if q, ok := jsonQuote(r, s, true); ok {
					add("jsn", q, "json-escaped")
				}
				if q, ok := jsonQuote(r, s+"%", true); ok {
					add("pjsn", q, "json-escaped")
				}
				// the same value in arbitrary spellings, members and near misses,
				// through encoding/json and directly
				for _, x := range []string{s, m} {
					if q, ok := jsonSpell(r, x, 1+r.Intn(4)); ok {
						add("jsn", pad(r, q), "json-spelled")
						add("ujs", q, "json-spelled")
					}
					if q, ok := jsonSpell(r, x+"%", 1+r.Intn(4)); ok {
						add("pjsn", pad(r, q), "json-spelled")
						add("pujs", q, "json-spelled")
					}
				}
				if q, ok := jsonSpell(r, notLiterals[r.Intn(len(notLiterals))], 2); ok {
					add("jsn", q, "json-spelled-literal")
					add("pjsn", q, "json-spelled-literal")
				}
				soup := quotedSoup(r)
				for _, op := range []string{"ujs", "pujs", "jsn", "pjsn"} {
					add(op, soup, "json-soup")
				}
			default:
				if s[0] != '-' || len(s) > 1 {
					add("jsn", s, "json-bare-member") // may have leading zeros: then not a JSON number
					add("pjsn", s, "json-bare-member")
				}
			}
		}
	}
	// members with one character replaced by a Unicode look-alike of its class, through every reading entry point
	lookalikeCases(r, c.Pick(12000, 150000), add, func(name string) { c.Count(name, 1) })
	// what the writers return stays what it was while further values are written
	stability(c, r)
	// the primitives under the translated codec (Generated/CodecSrc.lean) against the real library functions
	prims(c, r)
	// written texts
	for _, v := range boundaryValues() {
		for e := uint32(0); e <= 18; e++ {
			cases = append(cases, tcase{Op: "str", V: v, E: e, Stream: "boundary"}, tcase{Op: "min", V: v, E: e, Stream: "boundary"})
		}
		for e := uint32(0); e <= 20; e++ {
			cases = append(cases, tcase{Op: "pstr", V: v, E: e, Stream: "boundary"})
		}
	}
	nv := c.Pick(40000, 500000)
	for i := 0; i < nv; i++ {
		v := randI64(r)
		e := uint32(r.Intn(19))
		cases = append(cases, tcase{Op: "str", V: v, E: e, Stream: "random"})
		if r.Intn(3) == 0 {
			w := v
			if r.Intn(2) == 0 { // trailing zeros make MinimalString interesting
				w = (v / 1000) * int64([]int{10, 100, 1000}[r.Intn(3)])
			}
			cases = append(cases, tcase{Op: "min", V: w, E: e, Stream: "random"})
		}
		// percentages: any int64 value (the conversions are exact), some of them small
		pv := v
		if r.Intn(4) == 0 {
			pv = v % (1 << 38)
		}
		cases = append(cases, tcase{Op: "pstr", V: pv, E: uint32(r.Intn(21)), Stream: "random"})
	}
	for i := range cases {
		cases[i].Hex = core.Hex(cases[i].Text)
	}
	return runCases(c, cases)
}

// ---------- execution ----------

type goRes struct {
	ok   bool
	v    int64
	e    uint32
	err  string
	text string // written text for str/min/pstr
	pan  string
	// for written texts: reading back
	backOK     bool
	backV      int64
	backE      uint32
	backText   string
	jsonSyntax bool // encoding/json rejected the token before the codec saw it
}

var cur = num.MakeAmount(7, 1) // receiver value before Unmarshal*: must survive "null"
var curP = num.MakePercentage(7, 1)

func goEval(t tcase) (g goRes) {
	g.pan = core.Protect(func() {
		switch t.Op {
		case "afs":
			a, err := num.AmountFromString(t.Text)
			g.ok, g.v, g.e = err == nil, a.Value(), a.Exp()
			if err != nil {
				g.err = err.Error()
			}
		case "utx", "ujs", "jsn":
			a := cur
			var err error
			switch t.Op {
			case "utx":
				err = a.UnmarshalText([]byte(t.Text))
			case "ujs":
				err = a.UnmarshalJSON([]byte(t.Text))
			default:
				err = json.Unmarshal([]byte(t.Text), &a)
				if _, isSyn := err.(*json.SyntaxError); isSyn {
					g.jsonSyntax = true
				}
			}
			g.ok, g.v, g.e = err == nil, a.Value(), a.Exp()
			if err != nil {
				g.err = err.Error()
			}
		case "pfs":
			p, err := num.PercentageFromString(t.Text)
			g.ok, g.v, g.e = err == nil, p.Value(), p.Exp()
			if err != nil {
				g.err = err.Error()
			}
		case "putx", "pujs", "pjsn":
			p := curP
			var err error
			switch t.Op {
			case "putx":
				err = p.UnmarshalText([]byte(t.Text))
			case "pujs":
				err = p.UnmarshalJSON([]byte(t.Text))
			default:
				err = json.Unmarshal([]byte(t.Text), &p)
				if _, isSyn := err.(*json.SyntaxError); isSyn {
					g.jsonSyntax = true
				}
			}
			g.ok, g.v, g.e = err == nil, p.Value(), p.Exp()
			if err != nil {
				g.err = err.Error()
			}
		case "str", "min":
			a := num.MakeAmount(t.V, t.E)
			if t.Op == "str" {
				b, _ := a.MarshalText()
				g.text = string(b)
				if g.text != a.String() {
					panic("MarshalText differs from String")
				}
			} else {
				g.text = a.MinimalString()
			}
			back, err := num.AmountFromString(g.text)
			g.backOK, g.backV, g.backE = err == nil, back.Value(), back.Exp()
			g.ok = true
		case "pstr":
			p := num.MakePercentage(t.V, t.E)
			b, _ := p.MarshalText()
			g.text = string(b)
			if g.text != p.String() {
				panic("MarshalText differs from String")
			}
			back, err := num.PercentageFromString(g.text)
			g.backOK, g.backV, g.backE = err == nil, back.Value(), back.Exp()
			if err == nil {
				g.backText = back.String()
			}
			g.ok = true
		default:
			panic("unknown op " + t.Op)
		}
	})
	return
}

func b2i(b bool) int {
	if b {
		return 1
	}
	return 0
}

func (t tcase) req(g goRes) string {
	switch t.Op {
	case "afs", "pfs":
		return fmt.Sprintf("%s %s %d %d %d", t.Op, t.Hex, b2i(g.ok), g.v, g.e)
	case "utx", "ujs":
		return fmt.Sprintf("%s %s %d %d %d %d %d", t.Op, t.Hex, cur.Value(), cur.Exp(), b2i(g.ok), g.v, g.e)
	case "putx", "pujs":
		return fmt.Sprintf("%s %s %d %d %d %d %d", t.Op, t.Hex, curP.Value(), curP.Exp(), b2i(g.ok), g.v, g.e)
	case "str", "min", "pstr":
		return fmt.Sprintf("%s %d %d %s", t.Op, t.V, t.E, core.Hex(g.text))
	}
	return ""
}

type mresp struct {
	valid               bool
	m                   string
	pat, fits, dom, pOK bool
}

func parseResp(s string) (r mresp) {
	if !strings.HasPrefix(s, "m ") {
		return
	}
	i := strings.Index(s, " pat ")
	if i < 0 {
		return
	}
	r.m = s[2:i]
	var a, b, c, d int
	if n, _ := fmt.Sscanf(s[i:], " pat %d fits %d dom %d P %d", &a, &b, &c, &d); n != 4 {
		return
	}
	r.valid, r.pat, r.fits, r.dom, r.pOK = true, a == 1, b == 1, c == 1, d == 1
	return
}

// decodeToken classifies a JSON token: kind "string" (with its decoded value),
// "number", "null" or "other"; ok=false when it is not valid JSON at all.
func decodeToken(tok string) (kind, content string, hasEscape, ok bool) {
	tr := jsonTrim(tok)
	if !json.Valid([]byte(tr)) || tr == "" {
		return "", "", false, false
	}
	switch {
	case tr[0] == '"':
		var s string
		if json.Unmarshal([]byte(tr), &s) != nil {
			return "", "", false, false
		}
		return "string", s, strings.Contains(tr, "\\"), true
	case tr == "null":
		return "null", "", false, true
	case tr[0] == '-' || (tr[0] >= '0' && tr[0] <= '9'):
		return "number", tr, false, true
	}
	return "other", "", false, true
}

// jsonTrim removes what JSON calls insignificant whitespace, and nothing else (strings.TrimSpace
// would also remove \v, \f, NEL, NBSP and the Unicode spaces, which no JSON reader may skip).
func jsonTrim(s string) string { return strings.Trim(s, " \t\r\n") }

// directToken: UnmarshalJSON called directly (ujs / pujs) with what encoding/json would hand over,
// one JSON value (a string token may be followed by JSON whitespace, the code reads it with
// json.Unmarshal); such a case is judged like a jsn / pjsn case, by the value of the token.
func directToken(t tcase) bool {
	if (t.Op != "ujs" && t.Op != "pujs") || t.Text == "" || !json.Valid([]byte(t.Text)) {
		return false
	}
	return t.Text[0] == '"' || jsonTrim(t.Text) == t.Text
}

func mulBig(a *big.Int, k int64) *big.Int { return new(big.Int).Mul(a, big.NewInt(k)) }

const ruleText = "fixed near-miss table, boundary values (0, ±1, ±10^k, 10^k±1, 2^52, 2^53, ±(2^63-1), ±2^63, ±(2^63+1)) written with 0..20 decimals, grammar members with 1..40 digit runs, one and two single-character mutations (insert/delete/replace with + - . e E % space , _ non-ASCII digits NUL quote newline), random byte strings incl. invalid UTF-8, members with ONE character replaced by a Unicode look-alike of its class (every decimal digit of category Nd of the same value, super/subscript and enclosed digits, percent / minus / point signs of other scripts and widths) or with a plus or space variant inserted, each through AmountFromString / PercentageFromString, UnmarshalText, UnmarshalJSON directly (bare, as a JSON string raw and escaped) and through encoding/json, all judged by the same oracle (accepted iff fitting pattern member), JSON tokens (bare numbers, quoted, one or all characters escaped in either hex case or as two-character escapes, surrogate pairs, padded, null/true/objects, the strings \"null\" and \"\", malformed quoted tokens with bad escapes / raw control bytes / invalid UTF-8 / trailing text) through encoding/json and directly through UnmarshalJSON/UnmarshalText; written texts for boundary and random int64 values at exponents 0..18 (percentages 0..20); result stability: everything the writers return (MarshalText, String, MinimalString, StringWithoutSymbol, json.Marshal; the returned slice or string itself) is kept while further, different values are written (sequences of 2-4 and of 32-231 amounts and percentages, two passes; 2/4/8/16 goroutines at once), then compared with the copy taken when the call returned and read back again; non-trivial = pattern member or accepted input or a written text; distinct by operation and input"

func runCases(c *core.Ctx, cases []tcase) int {
	o, err := newOracle(c.Repo)
	if err != nil {
		c.TieBroken("drive:C06/patterns", "published pattern does not compile or cannot be read: "+err.Error(), nil)
		return c.Finish("", nil)
	}
	const chunk = 400000
	for lo := 0; lo < len(cases); lo += chunk {
		hi := lo + chunk
		if hi > len(cases) {
			hi = len(cases)
		}
		if !runChunk(c, o, cases[lo:hi]) {
			break
		}
	}
	return c.Finish(ruleText, nil)
}

func runChunk(c *core.Ctx, o *oracle, cases []tcase) bool {
	gos := make([]goRes, len(cases))
	var reqs []string
	idx := make([]int, len(cases))     // request index of the model request, -1 if none
	jdx := make([]int, len(cases))     // request index of the JSON oracle request
	asJSON := make([]bool, len(cases)) // judged by the value of the JSON token (jsn, pjsn, direct calls with one token)
	for i := range cases {
		t := &cases[i]
		if t.Hex == "" {
			t.Hex = core.Hex(t.Text)
		}
		gos[i] = goEval(*t)
		idx[i], jdx[i] = -1, -1
		if gos[i].pan != "" {
			continue
		}
		if direct := directToken(*t); t.Op == "jsn" || t.Op == "pjsn" || direct {
			// model: UnmarshalJSON on the trimmed token (what encoding/json hands over; a direct
			// call: on the text as it was given); oracle: Spec on the decoded content
			kind, content, _, ok := decodeToken(t.Text)
			if !ok {
				continue
			}
			g := gos[i]
			asJSON[i] = true
			op, pop := "ujs", "afs"
			cv, ce := cur.Value(), cur.Exp()
			if t.Op == "pjsn" || t.Op == "pujs" {
				op, pop = "pujs", "pfs"
				cv, ce = curP.Value(), curP.Exp()
			}
			tok := core.Hex(jsonTrim(t.Text))
			if direct {
				tok = t.Hex
			}
			idx[i] = len(reqs)
			reqs = append(reqs, fmt.Sprintf("%s %s %d %d %d %d %d", op, tok, cv, ce, b2i(g.ok), g.v, g.e))
			if kind == "string" || kind == "number" {
				jdx[i] = len(reqs)
				reqs = append(reqs, fmt.Sprintf("%s %s %d %d %d", pop, core.Hex(content), b2i(g.ok), g.v, g.e))
			}
			continue
		}
		idx[i] = len(reqs)
		reqs = append(reqs, t.req(gos[i]))
	}
	resp, err := c.Model(reqs)
	if err != nil {
		c.TieBroken("drive:C06/model", err.Error(), nil)
		return false
	}
	for i, t := range cases {
		g := gos[i]
		c.Count("op:"+t.Op, 1)
		c.Count("stream:"+t.Stream, 1)
		if g.pan != "" {
			c.Fail("", fmt.Sprintf("num codec %s panicked on %q / %d:%d: %s", t.Op, t.Text, t.V, t.E, g.pan), t)
			continue
		}
		if idx[i] < 0 {
			c.Count("skipped:not-json", 1)
			if (t.Op == "jsn" || t.Op == "pjsn") && g.ok {
				c.Fail("", fmt.Sprintf("json.Unmarshal accepted the invalid JSON text %q as a number", t.Text), t)
			}
			continue
		}
		mr := parseResp(resp[idx[i]])
		if !mr.valid {
			if resp[idx[i]] == "undef" {
				c.Count("skipped:outside-model", 1)
			} else {
				c.TieBroken("drive:C06/protocol", "unexpected model response "+resp[idx[i]]+" to "+reqs[idx[i]], t)
			}
			continue
		}
		op := t.Op
		if asJSON[i] {
			op = map[string]string{"jsn": "jsn", "ujs": "jsn", "pjsn": "pjsn", "pujs": "pjsn"}[t.Op]
		}
		switch op {
		case "afs", "utx", "ujs":
			judgeAmountRead(c, o, t, t.Text, g, mr, t.Op != "afs")
		case "jsn":
			judgeJSON(c, o, t, g, mr, parseRespOpt(resp, jdx[i]), false)
		case "pfs", "putx", "pujs":
			judgePctRead(c, o, t, t.Text, g, mr, t.Op != "pfs")
		case "pjsn":
			judgeJSON(c, o, t, g, mr, parseRespOpt(resp, jdx[i]), true)
		case "str", "min":
			judgeAmountWrite(c, o, t, g, mr)
		case "pstr":
			judgePctWrite(c, o, t, g, mr)
		}
		if i%9973 == 0 {
			c.Sample(map[string]any{"op": t.Op, "text": t.Text, "v": t.V, "e": t.E, "go_ok": g.ok, "go_v": g.v, "go_e": g.e, "go_text": g.text, "model": mr.m})
		}
	}
	return true
}

func parseRespOpt(resp []string, i int) *mresp {
	if i < 0 {
		return nil
	}
	r := parseResp(resp[i])
	return &r
}

func modelVsGo(c *core.Ctx, t tcase, g goRes, mr mresp) {
	if mr.m == "undef" {
		c.Count("skipped:model-undef", 1)
		return
	}
	var gs string
	if g.ok {
		gs = fmt.Sprintf("ok %d %d", g.v, g.e)
	} else {
		gs = "err"
	}
	ms := mr.m
	if strings.HasPrefix(ms, "err ") {
		c.Count("model-error:"+ms[4:], 1)
		ms = "err"
	}
	if gs != ms {
		c.TieBroken("drive:C06/"+t.Op, fmt.Sprintf("model %q vs Go %q on %q", mr.m, gs, t.Text), t)
	}
}

// amount reading: AmountFromString / UnmarshalText / UnmarshalJSON called directly on text
func judgeAmountRead(c *core.Ctx, o *oracle, t tcase, text string, g goRes, mr mresp, unmarshal bool) {
	fn := "AmountFromString"
	if unmarshal {
		// raw bytes handed to Unmarshal*: the bare "null" is the documented no-op; a text that
		// begins with a quote and reaches this point is no JSON string token (those are judged by
		// their value, see directToken) and must not be read as a number; every other text is
		// read as it stands, so the oracle of AmountFromString applies to it
		fn = map[string]string{"utx": "(*Amount).UnmarshalText", "ujs": "(*Amount).UnmarshalJSON"}[t.Op]
		if text == "null" {
			c.Eval(t.Op+" "+t.Hex, g.ok)
			if g.ok && (g.v != cur.Value() || g.e != cur.Exp()) {
				c.Fail("", fn+"(\"null\") altered the receiver", t)
			}
			modelVsGo(c, t, g, mr)
			return
		}
		if t.Op == "ujs" && strings.HasPrefix(text, "\"") {
			c.Eval(t.Op+" "+t.Hex, g.ok)
			if g.ok {
				c.Fail("", fmt.Sprintf("%s accepted %q, which is not a JSON string token, as %d:%d", fn, text, g.v, g.e), t)
				return
			}
			modelVsGo(c, t, g, mr)
			return
		}
	}
	pat := o.amountRe.MatchString(text)
	if pat != o.amountFileRe.MatchString(text) {
		c.Fail("", fmt.Sprintf("Amount.JSONSchema pattern and data/schemas/num/amount.json disagree on %q", text), t)
		return
	}
	if pat != mr.pat {
		c.TieBroken("drive:C06/isAmountText", fmt.Sprintf("recogniser %v vs Go regexp %v on %q", mr.pat, pat, text), t)
		return
	}
	want := pat && fits(text)
	if pat && fits(text) != mr.fits {
		c.TieBroken("drive:C06/fits64", fmt.Sprintf("Lean fits64 %v vs Go %v on %q", mr.fits, fits(text), text), t)
		return
	}
	c.Eval(t.Op+" "+t.Hex, pat || g.ok)
	if pat {
		c.Count("amount:pattern-member", 1)
		if !want {
			c.Count("amount:member-not-fitting", 1)
		}
	}
	verdict := true
	what := ""
	switch {
	case g.ok && !want:
		verdict, what = false, fmt.Sprintf("%s accepted %q as %d:%d although it is not a fitting member of the published pattern", fn, text, g.v, g.e)
	case !g.ok && want:
		verdict, what = false, fmt.Sprintf("%s rejected %q (%s) although it matches the published pattern and fits in 64 bits", fn, text, g.err)
	case g.ok:
		_, _, d := readDecimal(text)
		if ratOf(g.v, g.e).Cmp(textRat(text)) != 0 || int(g.e) != d {
			verdict, what = false, fmt.Sprintf("%s read %q as %d:%d", fn, text, g.v, g.e)
		}
	}
	if verdict != mr.pOK {
		c.TieBroken("drive:C06/readOracle", fmt.Sprintf("Lean oracle %v vs Go oracle %v on %q", mr.pOK, verdict, text), t)
		return
	}
	if !verdict {
		c.Fail("", what, t)
		return
	}
	modelVsGo(c, t, g, mr)
}

// classification of percentage inputs (predicates over the input text only)
func pctClassRead(o *oracle, text string) string {
	if text == "" {
		return "percentage-empty-text"
	}
	if o.amountRe.MatchString(text) {
		return "percentage-without-symbol"
	}
	return ""
}

func judgePctRead(c *core.Ctx, o *oracle, t tcase, text string, g goRes, mr mresp, unmarshal bool) {
	fn := "PercentageFromString"
	if unmarshal {
		// as for amounts: "null" is the no-op, a quoted text that is no JSON string token must be
		// rejected, every other text is read as it stands and judged as PercentageFromString is
		fn = map[string]string{"putx": "(*Percentage).UnmarshalText", "pujs": "(*Percentage).UnmarshalJSON"}[t.Op]
		malformed := t.Op == "pujs" && strings.HasPrefix(text, "\"")
		if text == "null" || malformed {
			c.Eval(t.Op+" "+t.Hex, g.ok)
			switch {
			case text == "null" && g.ok && (g.v != curP.Value() || g.e != curP.Exp()):
				c.Fail("", fn+"(\"null\") altered the receiver", t)
			case malformed && g.ok:
				c.Fail("", fmt.Sprintf("%s accepted %q, which is not a JSON string token, as %d:%d", fn, text, g.v, g.e), t)
				return
			}
			if mr.dom {
				modelVsGo(c, t, g, mr)
			} else {
				c.Count("pct:outside-exact-domain", 1)
			}
			return
		}
	}
	if !judgePctText(c, o, t, text, g, mr, fn) {
		return
	}
	if mr.dom {
		modelVsGo(c, t, g, mr)
	} else {
		c.Count("pct:outside-exact-domain", 1)
	}
}

// judgePctText judges acceptance and value of a percentage text.
func judgePctText(c *core.Ctx, o *oracle, t tcase, text string, g goRes, mr mresp, fn string) (clean bool) {
	pat := o.pctRe.MatchString(text)
	if pat != o.pctFileRe.MatchString(text) {
		c.Fail("", fmt.Sprintf("Percentage.JSONSchema pattern and data/schemas/num/percentage.json disagree on %q", text), t)
		return false
	}
	if pat != mr.pat {
		c.TieBroken("drive:C06/isPercentageText", fmt.Sprintf("recogniser %v vs Go regexp %v on %q", mr.pat, pat, text), t)
		return false
	}
	body := strings.TrimSuffix(text, "%")
	want := pat && fits(body)
	evalOp := "pfs"
	if t.Op == "putx" || t.Op == "pujs" {
		evalOp = t.Op
	}
	c.Eval(evalOp+" "+core.Hex(text), pat || g.ok)
	if pat {
		c.Count("pct:pattern-member", 1)
	}
	verdict := true
	what, class := "", ""
	switch {
	case g.ok && !want:
		verdict = false
		class = pctClassRead(o, text)
		what = fmt.Sprintf("%s accepted %q as %d:%d although it is not a fitting member of the published pattern", fn, text, g.v, g.e)
		if class == "percentage-without-symbol" && fits(text) && ratOf(g.v, g.e).Cmp(textRat(text)) != 0 {
			// the lenient reading is documented as "0.160 ≡ 16.0%": anything else is a new defect
			class = ""
			what = fmt.Sprintf("%s read %q (no %% sign) as %d:%d", fn, text, g.v, g.e)
		}
	case !g.ok && want:
		verdict, what = false, fmt.Sprintf("%s rejected %q (%s) although it matches the published pattern and fits in 64 bits", fn, text, g.err)
	case g.ok:
		exp := new(big.Rat).Quo(textRat(body), big.NewRat(100, 1))
		if ratOf(g.v, g.e).Cmp(exp) != 0 {
			// no magnitude excuse: the conversion only moves the decimal point
			verdict = false
			what = fmt.Sprintf("%s read %q as %d:%d, a different number", fn, text, g.v, g.e)
		}
	}
	if verdict != mr.pOK {
		c.TieBroken("drive:C06/pctReadOracle", fmt.Sprintf("Lean oracle %v vs Go oracle %v on %q", mr.pOK, verdict, text), t)
		return false
	}
	if !verdict {
		c.Fail(class, what, t)
		return false
	}
	return true
}

// judgeJSON: a JSON token through encoding/json.  The property is judged on
// the decoded string (or the number literal): accepted iff fitting pattern member.
func judgeJSON(c *core.Ctx, o *oracle, t tcase, g goRes, mr mresp, jr *mresp, pct bool) {
	kind, content, hasEscape, _ := decodeToken(t.Text)
	c.Count("json:"+kind, 1)
	c.Eval(t.Op+" "+t.Hex, g.ok)
	typ := "Amount"
	if pct {
		typ = "Percentage"
	}
	switch kind {
	case "null":
		cv, ce := cur.Value(), cur.Exp()
		if pct {
			cv, ce = curP.Value(), curP.Exp()
		}
		if !g.ok || g.v != cv || g.e != ce {
			c.Fail("", fmt.Sprintf("JSON null into num.%s: err=%q value %d:%d (expected untouched no-op)", typ, g.err, g.v, g.e), t)
			return
		}
	case "other":
		if g.ok {
			c.Fail("", fmt.Sprintf("JSON %s accepted as num.%s %d:%d", t.Text, typ, g.v, g.e), t)
			return
		}
	default:
		if jr == nil || !jr.valid {
			c.TieBroken("drive:C06/protocol", "no oracle response for JSON case", t)
			return
		}
		clean := true
		// a JSON string is judged by its decoded value, however it is spelled (a
		// rejected escaped member or an accepted string "null" is a violation like
		// any other); an accepted empty string would be the percentage-empty-text
		// leniency reaching JSON, which the code refuses
		if kind == "string" && hasEscape {
			c.Count("json:string-with-escape", 1)
		}
		if pct {
			if kind == "string" && content == "" && g.ok {
				c.Fail("", "the empty JSON string is accepted as a percentage", t)
				return
			}
			via := "json.Unmarshal into num.Percentage"
			if t.Op == "pujs" {
				via = "(*Percentage).UnmarshalJSON"
			}
			clean = judgePctText(c, o, t, content, g, *jr, via)
		} else {
			clean = judgeAmountJSONContent(c, o, t, content, g, *jr)
		}
		if !clean {
			return
		}
	}
	if !pct || mr.dom {
		modelVsGo(c, t, g, mr)
	}
}

func judgeAmountJSONContent(c *core.Ctx, o *oracle, t tcase, content string, g goRes, jr mresp) (clean bool) {
	pat := o.amountRe.MatchString(content)
	if pat != jr.pat {
		c.TieBroken("drive:C06/isAmountText", fmt.Sprintf("recogniser %v vs Go regexp %v on %q", jr.pat, pat, content), t)
		return false
	}
	want := pat && fits(content)
	verdict, what := true, ""
	via := "json.Unmarshal into num.Amount"
	if t.Op == "ujs" {
		via = "(*Amount).UnmarshalJSON"
	}
	switch {
	case g.ok && !want:
		verdict, what = false, fmt.Sprintf(via+" accepted %s as %d:%d although %q is not a fitting member of the published pattern", t.Text, g.v, g.e, content)
	case !g.ok && want:
		verdict, what = false, fmt.Sprintf(via+" rejected %s (%s) although %q matches the published pattern and fits in 64 bits", t.Text, g.err, content)
	case g.ok:
		_, _, d := readDecimal(content)
		if ratOf(g.v, g.e).Cmp(textRat(content)) != 0 || int(g.e) != d {
			verdict, what = false, fmt.Sprintf(via+" read %s as %d:%d", t.Text, g.v, g.e)
		}
	}
	if verdict != jr.pOK {
		c.TieBroken("drive:C06/readOracle", fmt.Sprintf("Lean oracle %v vs Go oracle %v on JSON %s", jr.pOK, verdict, t.Text), t)
		return false
	}
	if !verdict {
		c.Fail("", what, t)
		return false
	}
	return true
}

func judgeAmountWrite(c *core.Ctx, o *oracle, t tcase, g goRes, mr mresp) {
	c.Eval(fmt.Sprintf("%s %d %d", t.Op, t.V, t.E), true)
	if t.V == math.MinInt64 {
		c.Count("amount:min-int64", 1)
	}
	pat := o.amountRe.MatchString(g.text)
	if pat != mr.pat {
		c.TieBroken("drive:C06/isAmountText", fmt.Sprintf("recogniser %v vs Go regexp %v on written text %q", mr.pat, pat, g.text), t)
		return
	}
	verdict, what := true, ""
	a := ratOf(t.V, t.E)
	switch {
	case !pat:
		verdict, what = false, fmt.Sprintf("%d:%d is written as %q, which does not match the published pattern", t.V, t.E, g.text)
	case !g.backOK:
		verdict, what = false, fmt.Sprintf("%d:%d is written as %q, which AmountFromString rejects", t.V, t.E, g.text)
	case t.Op == "str" && (g.backV != t.V || g.backE != t.E):
		verdict, what = false, fmt.Sprintf("%d:%d is written as %q and read back as %d:%d", t.V, t.E, g.text, g.backV, g.backE)
	case t.Op == "min" && ratOf(g.backV, g.backE).Cmp(a) != 0:
		verdict, what = false, fmt.Sprintf("MinimalString of %d:%d is %q, read back as %d:%d (a different number)", t.V, t.E, g.text, g.backV, g.backE)
	}
	// the Lean oracle judges the text only (pattern member denoting the amount at
	// its precision); it must agree with the Go verdict except for "rejected on
	// reading back", which only the real parser can tell
	if pat && g.backOK && verdict != mr.pOK {
		c.TieBroken("drive:C06/writeOracle", fmt.Sprintf("Lean oracle %v vs Go oracle %v on %d:%d -> %q", mr.pOK, verdict, t.V, t.E, g.text), t)
		return
	}
	if !verdict {
		// every int64 value, the minimum included, is written as its decimal text and read back
		c.Fail("", what, t)
	}
	if mr.m != core.Hex(g.text) {
		c.TieBroken("drive:C06/"+t.Op, fmt.Sprintf("model text %s vs Go %q for %d:%d", mr.m, g.text, t.V, t.E), t)
	}
}

func judgePctWrite(c *core.Ctx, o *oracle, t tcase, g goRes, mr mresp) {
	c.Eval(fmt.Sprintf("pstr %d %d", t.V, t.E), true)
	// domain of an exact text: the percent figure value*10^(2-exp) is an int64 (for two
	// or more decimals that is the value itself); Percentage.Amount rescales up unchecked
	fig := big.NewInt(t.V)
	if t.E < 2 {
		fig = mulBig(fig, []int64{100, 10}[t.E])
	}
	inDom := fig.Cmp(minI64) >= 0 && fig.Cmp(maxI64) <= 0 && t.E <= 20
	if inDom != mr.dom {
		c.TieBroken("drive:C06/pctWriteDom", fmt.Sprintf("domain predicate differs on %d:%d", t.V, t.E), t)
		return
	}
	if inDom {
		c.Count("pct:write-in-domain", 1)
	} else {
		c.Count("pct:write-outside-domain", 1)
	}
	pat := o.pctRe.MatchString(g.text)
	verdict, what := true, ""
	switch {
	case !pat:
		verdict, what = false, fmt.Sprintf("percentage %d:%d is written as %q, which does not match the published pattern", t.V, t.E, g.text)
	case !g.backOK:
		verdict, what = false, fmt.Sprintf("percentage %d:%d is written as %q, which PercentageFromString rejects", t.V, t.E, g.text)
	case ratOf(g.backV, g.backE).Cmp(ratOf(t.V, t.E)) != 0:
		verdict, what = false, fmt.Sprintf("percentage %d:%d is written as %q and read back as %d:%d (a different value)", t.V, t.E, g.text, g.backV, g.backE)
	case g.backText != g.text:
		verdict, what = false, fmt.Sprintf("percentage %d:%d: text %q is not stable, second writing gives %q", t.V, t.E, g.text, g.backText)
	}
	if pat && verdict && !mr.pOK {
		c.TieBroken("drive:C06/pctWriteOracle", fmt.Sprintf("Lean oracle rejects %d:%d -> %q which Go reads back unchanged", t.V, t.E, g.text), t)
		return
	}
	if !verdict {
		class := ""
		if !inDom {
			class = "percentage-figure-beyond-int64"
		}
		c.Fail(class, what, t)
	}
	if mr.m == "undef" {
		c.Count("skipped:model-undef", 1)
		return
	}
	if inDom && mr.m != core.Hex(g.text) {
		c.TieBroken("drive:C06/pstr", fmt.Sprintf("model text %s vs Go %q for percentage %d:%d", mr.m, g.text, t.V, t.E), t)
	}
}
