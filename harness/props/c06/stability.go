package c06

import (
	"encoding/json"
	"fmt"
	"math/rand"
	"runtime"
	"strings"
	"sync"

	"github.com/invopop/gobl/num"

	"verifharness/internal/core"
)

// RESULT STABILITY.  "Writing any amount or percentage as text and reading it
// back gives the same value" is a statement about the text the caller holds,
// not about the text at the instant the call returns: a caller (encoding/json,
// encoding/xml, a template, a log line) may keep the returned bytes or string
// while further values are written.  Every value the writing side of the codec
// returns is therefore kept exactly as it was returned (the slice, not a copy of
// it), a private copy is taken at that instant, further, different values are
// written, by this goroutine and by others, and at the end what is held must
// still be what was returned at first and must still read back as it did.

// sval is one value of a stability sequence.
type sval struct {
	P bool   `json:"P,omitempty"` // a percentage (else an amount)
	V int64  `json:"V"`
	E uint32 `json:"E"`
}

func (x sval) String() string {
	if x.P {
		return fmt.Sprintf("MakePercentage(%d, %d)", x.V, x.E)
	}
	return fmt.Sprintf("MakeAmount(%d, %d)", x.V, x.E)
}

// held is one result as the codec returned it.
type held struct {
	who   int
	api   string
	b     []byte // the returned slice itself (byte results)
	s     string // the returned string itself (string results)
	isStr bool
	first string // private copy, taken when the call returned
	read  string // what a reader made of the private copy at that moment
}

func (h *held) now() string {
	if h.isStr {
		return h.s
	}
	return string(h.b)
}

func clone(s string) string { return string(append([]byte(nil), s...)) }

// readBack reads a written text with the reader that belongs to the writer.
func readBack(x sval, api, text string) string {
	show := func(ok bool, v int64, e uint32, err error) string {
		if !ok {
			return "error: " + err.Error()
		}
		return fmt.Sprintf("%d:%d", v, e)
	}
	var res string
	if p := core.Protect(func() {
		switch {
		case x.P && api == "json.Marshal":
			var q num.Percentage
			err := json.Unmarshal([]byte(text), &q)
			res = show(err == nil, q.Value(), q.Exp(), err)
		case x.P && api == "StringWithoutSymbol":
			q, err := num.PercentageFromString(text + "%")
			res = show(err == nil, q.Value(), q.Exp(), err)
		case x.P && api == "MarshalText":
			var q num.Percentage
			err := q.UnmarshalText([]byte(text))
			res = show(err == nil, q.Value(), q.Exp(), err)
		case x.P:
			q, err := num.PercentageFromString(text)
			res = show(err == nil, q.Value(), q.Exp(), err)
		case api == "json.Marshal":
			var a num.Amount
			err := json.Unmarshal([]byte(text), &a)
			res = show(err == nil, a.Value(), a.Exp(), err)
		case api == "MarshalText":
			var a num.Amount
			err := a.UnmarshalText([]byte(text))
			res = show(err == nil, a.Value(), a.Exp(), err)
		default:
			a, err := num.AmountFromString(text)
			res = show(err == nil, a.Value(), a.Exp(), err)
		}
	}); p != "" {
		res = "panic: " + p
	}
	return res
}

// writeAll calls every writing entry point of the codec on x and keeps what they return.
func writeAll(who int, x sval, keep func(*held)) (errText string) {
	bytesOf := func(api string, b []byte, err error) {
		if err != nil {
			errText = fmt.Sprintf("%s of %s fails: %v", api, x, err)
			return
		}
		h := &held{who: who, api: api, b: b, first: string(b)} // string(b) copies
		h.read = readBack(x, api, h.first)
		keep(h)
	}
	stringOf := func(api, s string) {
		h := &held{who: who, api: api, s: s, isStr: true, first: clone(s)}
		h.read = readBack(x, api, h.first)
		keep(h)
	}
	if x.P {
		p := num.MakePercentage(x.V, x.E)
		b, err := p.MarshalText()
		bytesOf("MarshalText", b, err)
		stringOf("String", p.String())
		stringOf("StringWithoutSymbol", p.StringWithoutSymbol())
		b, err = json.Marshal(p)
		bytesOf("json.Marshal", b, err)
	} else {
		a := num.MakeAmount(x.V, x.E)
		b, err := a.MarshalText()
		bytesOf("MarshalText", b, err)
		stringOf("String", a.String())
		stringOf("MinimalString", a.MinimalString())
		b, err = json.Marshal(a)
		bytesOf("json.Marshal", b, err)
	}
	return
}

// stabRun writes the sequence twice (every value is followed by further values, the last ones of
// the first pass by the whole second pass), keeping every result, then looks at what is held.
// yield: give other goroutines the processor between values.  It returns "" or the first failure.
func stabRun(seq []sval, yield bool) (what string, nHeld int) {
	var hs []*held
	keep := func(h *held) { hs = append(hs, h) }
	byKey := map[string]string{}
	for pass := 0; pass < 2; pass++ {
		for i, x := range seq {
			start := len(hs)
			if e := writeAll(i, x, keep); e != "" {
				return e, len(hs)
			}
			// the writers of one value agree with each other, and with the first pass
			var text string
			for _, h := range hs[start:] {
				switch h.api {
				case "MarshalText":
					text = h.first
				case "String":
					if h.first != text {
						return fmt.Sprintf("%s: MarshalText gives %q, String gives %q", x, text, h.first), len(hs)
					}
				case "StringWithoutSymbol":
					if h.first+"%" != text {
						return fmt.Sprintf("%s: String gives %q, StringWithoutSymbol gives %q", x, text, h.first), len(hs)
					}
				case "json.Marshal":
					if h.first != `"`+text+`"` {
						return fmt.Sprintf("%s: MarshalText gives %q, json.Marshal gives %s", x, text, h.first), len(hs)
					}
				}
				k := fmt.Sprintf("%d %s", i, h.api)
				if prev, ok := byKey[k]; ok && prev != h.first {
					return fmt.Sprintf("%s written twice with %s gives %q, then %q", x, h.api, prev, h.first), len(hs)
				}
				byKey[k] = h.first
			}
			if yield {
				runtime.Gosched()
			}
		}
	}
	for n, h := range hs {
		x := seq[h.who]
		later := len(hs) - n - 1
		if now := h.now(); now != h.first {
			next := ""
			if h.who+1 < len(seq) {
				next = fmt.Sprintf(" (the next value written was %s)", seq[h.who+1])
			}
			return fmt.Sprintf("%s of %s returned %q; the caller kept that result, %d more results were written%s, and the kept result now reads %q, which reads back as %s instead of %s",
				h.api, x, h.first, later, next, now, readBack(x, h.api, now), h.read), len(hs)
		}
		if again := readBack(x, h.api, h.now()); again != h.read {
			return fmt.Sprintf("%s of %s returned %q, which read back as %s at first and as %s after %d more results were written", h.api, x, h.first, h.read, again, later), len(hs)
		}
	}
	return "", len(hs)
}

// stabConcurrent runs stabRun on g goroutines at once, goroutine j on the values j, j+g, j+2g, …,
// three rounds each; the texts every goroutine sees must be those a single goroutine saw.
func stabConcurrent(seq []sval, g int) (what string, nHeld int) {
	if g < 2 {
		g = 2
	}
	parts := make([][]sval, g)
	for i, x := range seq {
		parts[i%g] = append(parts[i%g], x)
	}
	// expected texts, established alone
	want := make([][]string, g)
	for j, p := range parts {
		for _, x := range p {
			var first string
			writeAll(0, x, func(h *held) {
				if h.api == "MarshalText" {
					first = h.first
				}
			})
			want[j] = append(want[j], first)
		}
	}
	fails := make([]string, g)
	counts := make([]int, g)
	var wg sync.WaitGroup
	startGate := make(chan struct{})
	for j := 0; j < g; j++ {
		wg.Add(1)
		go func(j int) {
			defer wg.Done()
			<-startGate
			for round := 0; round < 3 && fails[j] == ""; round++ {
				if p := core.Protect(func() {
					w, n := stabRun(parts[j], true)
					counts[j] += n
					if w != "" {
						fails[j] = w
						return
					}
					// what this goroutine gets is what a goroutine on its own got
					for i, x := range parts[j] {
						writeAll(i, x, func(h *held) {
							if h.api == "MarshalText" && h.first != want[j][i] && fails[j] == "" {
								fails[j] = fmt.Sprintf("MarshalText of %s gives %q while other goroutines write other values, %q alone", x, h.first, want[j][i])
							}
						})
					}
				}); p != "" {
					fails[j] = "panic: " + p
				}
			}
		}(j)
	}
	close(startGate)
	wg.Wait()
	for j := range fails {
		nHeld += counts[j]
	}
	for j, f := range fails {
		if f != "" {
			return fmt.Sprintf("with %d goroutines writing at once (goroutine %d): %s", g, j, f), nHeld
		}
	}
	return "", nHeld
}

// runStabCase executes one stability case (also the replay entry).
func runStabCase(c *core.Ctx, t tcase) {
	var what string
	var n int
	if p := core.Protect(func() {
		if t.Op == "stabc" {
			g := 8
			fmt.Sscanf(t.Stream, "concurrent-%d", &g)
			what, n = stabConcurrent(t.Seq, g)
		} else {
			what, n = stabRun(t.Seq, false)
		}
	}); p != "" {
		what = "num codec panicked while writing " + fmt.Sprint(t.Seq) + ": " + p
	}
	c.Count("op:"+t.Op, 1)
	c.Count("stream:"+t.Stream, 1)
	c.Count("stability:values-written", int64(len(t.Seq)))
	c.Count("stability:results-held", int64(n))
	var key strings.Builder
	key.WriteString(t.Op)
	for _, x := range t.Seq {
		fmt.Fprintf(&key, " %v:%d:%d", x.P, x.V, x.E)
	}
	c.Eval(key.String(), true)
	if what != "" {
		c.Fail("", what, t)
	}
}

// stability generates the sequences: short ones first (a failure then has a short witness), texts
// of equal shape (an overwritten text is then a well-formed, different number) and of mixed
// lengths, amounts and percentages mixed, from the boundary values and the random value generator
// of the written-text streams; then long sequences; then the same from several goroutines.
func stability(c *core.Ctx, r *rand.Rand) {
	bvs := boundaryValues()
	val := func(pctOK bool) sval {
		x := sval{V: randI64(r), E: uint32(r.Intn(19))}
		if r.Intn(4) == 0 {
			x.V = bvs[r.Intn(len(bvs))]
		}
		if pctOK && r.Intn(3) == 0 {
			x.P = true
			x.E = uint32(r.Intn(21))
			if x.E < 2 {
				x.V %= 1 << 50 // the percent figure stays an int64: not the subject here
			}
		}
		return x
	}
	sameShape := func(x sval) sval {
		// another value of the same kind, exponent and number of digits
		y := x
		for k := 0; k < 20 && y.V == x.V; k++ {
			lo := int64(1)
			for a := x.V; a >= 10 || a <= -10; a /= 10 {
				lo *= 10
			}
			if lo > (1<<62)/9 {
				y.V = x.V ^ 1
				break
			}
			y.V = lo + r.Int63n(9*lo)
			if x.V < 0 {
				y.V = -y.V
			}
		}
		return y
	}
	seqOf := func(n int) []sval {
		seq := make([]sval, 0, n)
		for len(seq) < n {
			x := val(true)
			seq = append(seq, x)
			if r.Intn(3) == 0 && len(seq) < n {
				seq = append(seq, sameShape(x))
			}
		}
		return seq
	}
	nShort := c.Pick(4000, 60000)
	for i := 0; i < nShort; i++ {
		runStabCase(c, tcase{Op: "stab", Stream: "stability-short", Seq: seqOf(2 + i%3)})
	}
	for i := 0; i < c.Pick(40, 600); i++ {
		runStabCase(c, tcase{Op: "stab", Stream: "stability-long", Seq: seqOf(32 + r.Intn(200))})
	}
	for i := 0; i < c.Pick(24, 300); i++ {
		g := []int{2, 4, 8, 16}[i%4]
		runStabCase(c, tcase{Op: "stabc", Stream: fmt.Sprintf("concurrent-%d", g), Seq: seqOf(g * (4 + r.Intn(28)))})
	}
}
